//! `mlsh ks`: pure derivations of the library (through the verification hooks), one JSON
//! request per line, one JSON answer per line.
use crate::provider::{Kind, VProvider};
use mls_rs::group::verif_derive as d;
use mls_rs::{CipherSuite, CryptoProvider, MlsMessage};
use serde_json::{json, Value};
use std::io::{BufRead, Write};
use std::sync::{Arc, Mutex};

fn hx(v: &Value) -> Vec<u8> {
    hex::decode(v.as_str().unwrap_or("")).unwrap_or_default()
}

fn pairs(v: &Value) -> Vec<(Vec<u8>, Vec<u8>)> {
    v.as_array().cloned().unwrap_or_default().iter().map(|p| (hx(&p[0]), hx(&p[1]))).collect()
}

fn one(req: &Value) -> Value {
    let suite = CipherSuite::from(req["suite"].as_u64().unwrap_or(1) as u16);
    let prov = VProvider { kind: Kind::parse(req["provider"].as_str().unwrap_or("openssl")), log: Arc::new(Mutex::new(vec![])) };
    let Some(cs) = prov.cipher_suite_provider(suite) else { return json!({"unsupported": true}) };
    let e = |x: mls_rs::error::MlsError| json!({"err": format!("{x:?}")});
    match req["op"].as_str().unwrap_or("") {
        "ks" => match d::key_schedule(&cs, &hx(&req["init"]), &hx(&req["commit"]), &hx(&req["ctx"]), req["tree_size"].as_u64().unwrap_or(1) as u32, &pairs(&req["psks"])) {
            Ok(v) => {
                let mut m = serde_json::Map::new();
                for (k, b) in v {
                    m.insert(k.to_string(), json!(hex::encode(b)));
                }
                Value::Object(m)
            }
            Err(x) => e(x),
        },
        "psk" => d::psk_secret(&cs, &pairs(&req["psks"])).map(|b| json!({"psk_secret": hex::encode(b)})).unwrap_or_else(e),
        "export" => d::export(&cs, &hx(&req["exporter"]), &hx(&req["label"]), &hx(&req["context"]), req["len"].as_u64().unwrap_or(0) as usize)
            .map(|b| json!({"exported": hex::encode(b)}))
            .unwrap_or_else(e),
        "stree" => {
            let reqs: Vec<(u32, bool, u32)> = req["reqs"].as_array().cloned().unwrap_or_default().iter().map(|r| (r[0].as_u64().unwrap_or(0) as u32, r[1].as_bool().unwrap_or(false), r[2].as_u64().unwrap_or(0) as u32)).collect();
            let enc = hx(&req["enc"]);
            let lc = req["leaf_count"].as_u64().unwrap_or(1) as u32;
            let r = std::panic::catch_unwind(std::panic::AssertUnwindSafe(|| d::secret_tree_keys(&cs, lc, &enc, &reqs)));
            match r {
                Ok(v) => json!({"keys": v.iter().map(|r| match r {
                    Ok((n, k)) => json!([hex::encode(n), hex::encode(k)]),
                    Err(s) => json!({"err": s.chars().take_while(|c| c.is_alphanumeric()).collect::<String>()}),
                }).collect::<Vec<_>>()}),
                Err(_) => json!({"panic": true}),
            }
        }
        "transcript" => d::transcript(&cs, &hx(&req["interim"]), &hx(&req["ac"]), &hx(&req["confirm_key"]))
            .map(|(c, t, i)| json!({"confirmed": hex::encode(c), "tag": hex::encode(t), "interim": hex::encode(i)}))
            .unwrap_or_else(e),
        "mtag" => d::membership_tag(&cs, &hx(&req["ac"]), &hx(&req["ctx"]), &hx(&req["key"])).map(|b| json!({"tag": hex::encode(b)})).unwrap_or_else(e),
        "ac_of" => match MlsMessage::from_bytes(&hx(&req["msg"])) {
            Ok(m) => json!({"ac": d::authenticated_content_of(&m).map(hex::encode)}),
            Err(x) => e(x),
        },
        "sizes" => {
            use mls_rs::CipherSuiteProvider;
            json!({"nh": cs.kdf_extract_size(), "nk": cs.aead_key_size(), "nn": cs.aead_nonce_size()})
        }
        _ => json!({"err": "bad op"}),
    }
}

pub fn run() -> i32 {
    std::panic::set_hook(Box::new(|_| {}));
    let stdin = std::io::stdin();
    let out = std::io::stdout();
    let mut out = std::io::BufWriter::new(out.lock());
    for line in stdin.lock().lines() {
        let line = line.unwrap();
        if line.trim().is_empty() {
            continue;
        }
        let ans = match serde_json::from_str::<Value>(&line) {
            Ok(req) => std::panic::catch_unwind(|| one(&req)).unwrap_or(json!({"panic": true})),
            Err(x) => json!({"err": x.to_string()}),
        };
        writeln!(out, "{}", ans).unwrap();
    }
    0
}
