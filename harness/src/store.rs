//! `mlsh store`: drive the two shipped GroupStateStorage providers directly.
//! One JSON request per line: {"backend":"mem"|"sqlite","retention":R,"ops":[...]}
//!   op {"w":[snap,[[id,data],..],[[id,data],..]]}  write(state, inserts, updates)
//! after every op the answer lists: ok/err, state token, max_epoch_id, and for each id of
//! "probe" the stored data token (or null).  Tokens are small numbers stored as 8 bytes.
use mls_rs::storage_provider::in_memory::InMemoryGroupStateStorage;
use mls_rs_core::group::{EpochRecord, GroupState, GroupStateStorage};
use mls_rs_provider_sqlite::connection_strategy::MemoryStrategy;
use mls_rs_provider_sqlite::SqLiteDataStorageEngine;
use serde_json::{json, Value};
use std::io::{BufRead, Write};

fn tok(n: u64) -> Vec<u8> {
    n.to_be_bytes().to_vec()
}
fn untok(b: &[u8]) -> u64 {
    let mut a = [0u8; 8];
    a.copy_from_slice(&b[..8]);
    u64::from_be_bytes(a)
}

fn recs(v: &Value) -> Vec<EpochRecord> {
    v.as_array().cloned().unwrap_or_default().iter().map(|p| EpochRecord::new(p[0].as_u64().unwrap_or(0), tok(p[1].as_u64().unwrap_or(0)).into())).collect()
}

fn drive<S: GroupStateStorage>(mut s: S, req: &Value) -> Value
where
    S::Error: std::fmt::Debug,
{
    let gid = b"group".to_vec();
    let probe: Vec<u64> = req["probe"].as_array().cloned().unwrap_or_default().iter().map(|v| v.as_u64().unwrap_or(0)).collect();
    let mut out = vec![];
    for op in req["ops"].as_array().cloned().unwrap_or_default() {
        let w = &op["w"];
        let r = s.write(GroupState { id: gid.clone(), data: tok(w[0].as_u64().unwrap_or(0)).into() }, recs(&w[1]), recs(&w[2]));
        let ok = r.is_ok();
        let state = s.state(&gid).ok().flatten().map(|b| untok(&b));
        let max = s.max_epoch_id(&gid).ok().flatten();
        let eps: Vec<Value> = probe.iter().map(|id| match s.epoch(&gid, *id) { Ok(Some(b)) => json!(untok(&b)), Ok(None) => json!(null), Err(_) => json!("err") }).collect();
        out.push(json!({"ok": ok, "err": r.err().map(|e| format!("{e:?}").chars().take(60).collect::<String>()), "state": state, "max": max, "epochs": eps}));
    }
    json!({"steps": out})
}

pub fn run() -> i32 {
    let stdin = std::io::stdin();
    let out = std::io::stdout();
    let mut out = std::io::BufWriter::new(out.lock());
    for line in stdin.lock().lines() {
        let line = line.unwrap();
        if line.trim().is_empty() {
            continue;
        }
        let req: Value = serde_json::from_str(&line).unwrap_or(json!({}));
        let r = req["retention"].as_u64().unwrap_or(3);
        let ans = if req["backend"].as_str() == Some("sqlite") {
            match SqLiteDataStorageEngine::new(MemoryStrategy).and_then(|e| e.group_state_storage()) {
                Ok(s) => drive(s.with_max_epoch_retention(r), &req),
                Err(e) => json!({"setup_error": format!("{e:?}")}),
            }
        } else {
            match InMemoryGroupStateStorage::new().with_max_epoch_retention(r as usize) {
                Ok(s) => drive(s, &req),
                Err(e) => json!({"setup_error": format!("{e:?}").chars().take(40).collect::<String>()}),
            }
        };
        writeln!(out, "{}", ans).unwrap();
    }
    0
}
