//! `mlsh prov`: run one primitive request per input line on every shipped crypto provider that
//! supports the cipher suite and print all answers (C14).  Deterministic primitives are
//! answered with bytes; randomised ones with a matrix "made by P / accepted by Q".
use crate::provider::{Kind, VProvider, VSuite};
use mls_rs::CipherSuite;
use mls_rs_core::crypto::{CipherSuiteProvider, CryptoProvider, HpkeContextR, HpkeContextS, HpkePsk, HpkePublicKey, HpkeSecretKey, SignaturePublicKey, SignatureSecretKey};
use serde_json::{json, Value};
use std::io::BufRead;
use std::sync::{Arc, Mutex};

const KINDS: [(&str, Kind); 3] = [("openssl", Kind::OpenSsl), ("awslc", Kind::AwsLc), ("rustcrypto", Kind::RustCrypto)];

fn suites(cs: CipherSuite) -> Vec<(&'static str, VSuite)> {
    KINDS
        .iter()
        .filter_map(|(n, k)| VProvider { kind: *k, log: Arc::new(Mutex::new(Vec::new())) }.cipher_suite_provider(cs).map(|s| (*n, s)))
        .collect()
}

fn h(v: &Value) -> Vec<u8> {
    hex::decode(v.as_str().unwrap_or("")).unwrap_or_default()
}

fn res<T: AsRef<[u8]>, E: std::fmt::Debug>(r: Result<T, E>) -> Value {
    match r {
        Ok(b) => json!(hex::encode(b.as_ref())),
        Err(_) => json!("ERR"),
    }
}

fn guard<F: FnOnce() -> Value + std::panic::UnwindSafe>(f: F) -> Value {
    std::panic::catch_unwind(f).unwrap_or(json!("PANIC"))
}

pub fn run() -> i32 {
    std::panic::set_hook(Box::new(|_| {}));
    let stdin = std::io::stdin();
    for line in stdin.lock().lines() {
        let Ok(line) = line else { break };
        let Ok(q) = serde_json::from_str::<Value>(&line) else { continue };
        let cs = CipherSuite::from(q["suite"].as_u64().unwrap_or(1) as u16);
        let ps = suites(cs);
        let t = q["t"].as_str().unwrap_or("").to_string();
        let mut out = serde_json::Map::new();
        match t.as_str() {
            "hash" | "mac" | "kdf_extract" | "kdf_expand" | "aead_seal" | "aead_open" | "kem_derive" | "sig_pub" | "kem_validate" => {
                for (n, p) in &ps {
                    let q = q.clone();
                    let p = p.clone();
                    let v = guard(std::panic::AssertUnwindSafe(move || match t_of(&q).as_str() {
                        "hash" => res(p.hash(&h(&q["data"]))),
                        "mac" => res(p.mac(&h(&q["key"]), &h(&q["data"]))),
                        "kdf_extract" => res(p.kdf_extract(&h(&q["salt"]), &h(&q["ikm"])).map(|z| z.to_vec())),
                        "kdf_expand" => res(p.kdf_expand(&h(&q["prk"]), &h(&q["info"]), q["len"].as_u64().unwrap_or(0) as usize).map(|z| z.to_vec())),
                        "aead_seal" => res(p.aead_seal(&h(&q["key"]), &h(&q["pt"]), q["aad"].as_str().map(|_| h(&q["aad"])).as_deref(), &h(&q["nonce"]))),
                        "aead_open" => res(p.aead_open(&h(&q["key"]), &h(&q["ct"]), q["aad"].as_str().map(|_| h(&q["aad"])).as_deref(), &h(&q["nonce"])).map(|z| z.to_vec())),
                        "kem_derive" => match p.kem_derive(&h(&q["ikm"])) {
                            Ok((sk, pk)) => json!([hex::encode(sk.as_ref()), hex::encode(pk.as_ref())]),
                            Err(_) => json!("ERR"),
                        },
                        "sig_pub" => res(p.signature_key_derive_public(&SignatureSecretKey::from(h(&q["sk"]))).map(|k| k.as_bytes().to_vec())),
                        "kem_validate" => match p.kem_public_key_validate(&HpkePublicKey::from(h(&q["pk"]))) {
                            Ok(()) => json!("OK"),
                            Err(_) => json!("ERR"),
                        },
                        _ => json!(null),
                    }));
                    out.insert(n.to_string(), v);
                }
            }
            "sign" => {
                // every provider generates a key, signs; every provider verifies (good, wrong data, wrong sig)
                let data = h(&q["data"]);
                for (n, p) in &ps {
                    let made = p.signature_key_generate().ok().and_then(|(sk, pk)| p.sign(&sk, &data).ok().map(|s| (sk, pk, s)));
                    let mut row = serde_json::Map::new();
                    match made {
                        None => {
                            row.insert("made".into(), json!(false));
                        }
                        Some((sk, pk, sig)) => {
                            row.insert("made".into(), json!(true));
                            row.insert("siglen".into(), json!(sig.len()));
                            for (m, v) in &ps {
                                let good = v.verify(&pk, &sig, &data).is_ok();
                                let mut d2 = data.clone();
                                d2.push(1);
                                let wrong_data = v.verify(&pk, &sig, &d2).is_ok();
                                let mut s2 = sig.clone();
                                if let Some(b) = s2.last_mut() {
                                    *b ^= 1;
                                }
                                let wrong_sig = v.verify(&pk, &s2, &data).is_ok();
                                let trunc = v.verify(&pk, &sig[..sig.len().saturating_sub(1)], &data).is_ok();
                                let pubk = v.signature_key_derive_public(&sk).map(|k| k.as_bytes() == pk.as_bytes()).unwrap_or(false);
                                row.insert(m.to_string(), json!({"good": good, "wrong_data": wrong_data, "wrong_sig": wrong_sig, "truncated": trunc, "same_public": pubk}));
                            }
                        }
                    }
                    out.insert(n.to_string(), Value::Object(row));
                }
            }
            "hpke" => {
                // keys from one ikm (kem_derive must agree); P seals, Q opens; base and psk mode; setup/export
                let ikm = h(&q["ikm"]);
                let info = h(&q["info"]);
                let aad = h(&q["aad"]);
                let pt = h(&q["pt"]);
                let psk = h(&q["psk"]);
                let psk_id = h(&q["psk_id"]);
                for (n, p) in &ps {
                    let mut row = serde_json::Map::new();
                    let Ok((sk, pk)) = p.kem_derive(&ikm) else {
                        out.insert(n.to_string(), json!("ERR"));
                        continue;
                    };
                    let ct = p.hpke_seal(&pk, &info, Some(&aad), &pt);
                    let ctp = if psk.is_empty() { None } else { p.hpke_seal_psk(&pk, &info, Some(&aad), &pt, HpkePsk { id: &psk_id, value: &psk }).ok() };
                    let setup = p.hpke_setup_s(&pk, &info).ok();
                    for (m, v) in &ps {
                        let Ok((sk2, pk2)) = v.kem_derive(&ikm) else { continue };
                        let _ = (&sk, &sk2);
                        let mut cell = serde_json::Map::new();
                        if let Ok(ct) = &ct {
                            cell.insert("open".into(), json!(matches!(v.hpke_open(ct, &sk2, &pk2, &info, Some(&aad)), Ok(x) if *x == pt)));
                            cell.insert("open_wrong_aad".into(), json!(v.hpke_open(ct, &sk2, &pk2, &info, Some(b"x")).is_ok()));
                            cell.insert("open_wrong_info".into(), json!(v.hpke_open(ct, &sk2, &pk2, b"y", Some(&aad)).is_ok()));
                        }
                        if let Some(ctp) = &ctp {
                            cell.insert("open_psk".into(), json!(matches!(v.hpke_open_psk(ctp, &sk2, &pk2, &info, Some(&aad), HpkePsk { id: &psk_id, value: &psk }), Ok(x) if *x == pt)));
                            cell.insert("open_psk_wrong_value".into(), json!(v.hpke_open_psk(ctp, &sk2, &pk2, &info, Some(&aad), HpkePsk { id: &psk_id, value: b"0000000000000000" }).is_ok()));
                            cell.insert("open_psk_as_base".into(), json!(v.hpke_open(ctp, &sk2, &pk2, &info, Some(&aad)).is_ok()));
                        }
                        if let Some((enc, cs_)) = &setup {
                            if let Ok(cr) = v.hpke_setup_r(enc, &sk2, &pk2, &info) {
                                let a = cs_.export(b"exp", 32).map(|z| z.to_vec()).ok();
                                let b = cr.export(b"exp", 32).map(|z| z.to_vec()).ok();
                                cell.insert("export_equal".into(), json!(a.is_some() && a == b));
                            } else {
                                cell.insert("export_equal".into(), json!(false));
                            }
                        }
                        row.insert(m.to_string(), Value::Object(cell));
                    }
                    out.insert(n.to_string(), Value::Object(row));
                }
            }
            "x509" => {
                out = crate::x509gen::run_case(&q);
            }
            _ => {}
        }
        println!("{}", Value::Object(out));
    }
    0
}

fn t_of(q: &Value) -> String {
    q["t"].as_str().unwrap_or("").to_string()
}

#[allow(dead_code)]
fn unused(_: &dyn HpkeContextR<Error = crate::provider::PErr>, _: &dyn HpkeContextS<Error = crate::provider::PErr>, _: HpkeSecretKey, _: SignaturePublicKey) {}
