//! `mlsh codec`: one `<TypeName> <hex>` per line; answer:
//!   D <consumed> <encoded_len> <reencoded hex | !<encode error>> <peak alloc bytes>
//!   E <decode error kind> <peak alloc bytes>
//!   P   (panic)        ?   (unknown type)
use mls_rs::verif::codec::{codec_apply, type_names, Outcome};
use std::io::{BufRead, Write};

fn kind(e: &mls_rs_codec::Error) -> String {
    let s = format!("{:?}", e);
    s.split(|c| c == '(' || c == ' ').next().unwrap_or("Err").to_string() + &match e {
        mls_rs_codec::Error::Custom(n) => format!("{}", n),
        _ => String::new(),
    }
}

pub fn run() -> i32 {
    std::panic::set_hook(Box::new(|_| {}));
    let args: Vec<String> = std::env::args().collect();
    if args.get(2).map(|s| s == "--list").unwrap_or(false) {
        for n in type_names() {
            println!("{}", n);
        }
        return 0;
    }
    let stdin = std::io::stdin();
    let out = std::io::stdout();
    let mut out = std::io::BufWriter::new(out.lock());
    for line in stdin.lock().lines() {
        let line = line.unwrap();
        let mut it = line.split_whitespace();
        let Some(name) = it.next() else { continue };
        let bytes = hex::decode(it.next().unwrap_or("")).unwrap_or_default();
        let name = name.to_string();
        crate::alloc_count::reset();
        let r = std::panic::catch_unwind(|| codec_apply(&name, &bytes));
        let peak = crate::alloc_count::peak();
        let ans = match r {
            Err(_) => "P".to_string(),
            Ok(None) => "?".to_string(),
            Ok(Some(Outcome::DecodeError(e))) => format!("E {} {}", kind(&e), peak),
            Ok(Some(Outcome::Decoded(consumed, re, len))) => match re {
                Ok(b) => format!("D {} {} {} {}", consumed, len, if b.is_empty() { "-".to_string() } else { hex::encode(b) }, peak),
                Err(e) => format!("D {} {} !{} {}", consumed, len, kind(&e), peak),
            },
        };
        writeln!(out, "{}", ans).unwrap();
    }
    0
}
