//! Build X.509 chains to order (OpenSSL) and have the three shipped credential validators judge
//! them at a given time (C14).
use mls_rs_core::time::MlsTime;
use mls_rs_identity_x509::{CertificateChain, DerCertificate, X509CredentialValidator};
use openssl::asn1::Asn1Time;
use openssl::bn::BigNum;
use openssl::ec::{EcGroup, EcKey};
use openssl::hash::MessageDigest;
use openssl::nid::Nid;
use openssl::pkey::{PKey, Private};
use openssl::x509::extension::{BasicConstraints, KeyUsage};
use openssl::x509::{X509Builder, X509NameBuilder, X509};
use serde_json::{json, Map, Value};

fn key() -> PKey<Private> {
    let g = EcGroup::from_curve_name(Nid::X9_62_PRIME256V1).unwrap();
    PKey::from_ec_key(EcKey::generate(&g).unwrap()).unwrap()
}

fn name(cn: &str) -> openssl::x509::X509Name {
    let mut b = X509NameBuilder::new().unwrap();
    b.append_entry_by_text("CN", cn).unwrap();
    b.build()
}

/// certs[i]: {"name","issuer": index, "ca": bool, "nb": unix, "na": unix, "bad_sig": bool, "issuer_name": optional override}
pub fn build(specs: &[Value]) -> (Vec<Vec<u8>>, Vec<Vec<u8>>) {
    let keys: Vec<PKey<Private>> = specs.iter().map(|_| key()).collect();
    let stray = key();
    let mut out = vec![];
    for (i, s) in specs.iter().enumerate() {
        let iss = s["issuer"].as_u64().unwrap_or(i as u64) as usize;
        let mut b = X509Builder::new().unwrap();
        b.set_version(2).unwrap();
        b.set_serial_number(&BigNum::from_u32(1000 + i as u32).unwrap().to_asn1_integer().unwrap()).unwrap();
        b.set_subject_name(&name(s["name"].as_str().unwrap_or("x"))).unwrap();
        let iname = s["issuer_name"].as_str().map(|x| x.to_string()).unwrap_or_else(|| specs[iss.min(specs.len() - 1)]["name"].as_str().unwrap_or("x").to_string());
        b.set_issuer_name(&name(&iname)).unwrap();
        b.set_not_before(&Asn1Time::from_unix(s["nb"].as_i64().unwrap_or(0)).unwrap()).unwrap();
        b.set_not_after(&Asn1Time::from_unix(s["na"].as_i64().unwrap_or(4_000_000_000)).unwrap()).unwrap();
        b.set_pubkey(&keys[i]).unwrap();
        let ca = s["ca"].as_bool().unwrap_or(false);
        if !s["no_bc"].as_bool().unwrap_or(false) {
            let mut bc = BasicConstraints::new();
            bc.critical();
            if ca {
                bc.ca();
            }
            b.append_extension(bc.build().unwrap()).unwrap();
        }
        if ca {
            b.append_extension(KeyUsage::new().critical().key_cert_sign().crl_sign().build().unwrap()).unwrap();
        } else {
            b.append_extension(KeyUsage::new().critical().digital_signature().build().unwrap()).unwrap();
        }
        let signer = if s["bad_sig"].as_bool().unwrap_or(false) { &stray } else { &keys[iss.min(keys.len() - 1)] };
        b.sign(signer, MessageDigest::sha256()).unwrap();
        let c: X509 = b.build();
        out.push(c.to_der().unwrap());
    }
    let g = EcGroup::from_curve_name(Nid::X9_62_PRIME256V1).unwrap();
    let mut ctx = openssl::bn::BigNumContext::new().unwrap();
    let pks = keys
        .iter()
        .map(|k| k.ec_key().unwrap().public_key().to_bytes(&g, openssl::ec::PointConversionForm::UNCOMPRESSED, &mut ctx).unwrap())
        .collect();
    (out, pks)
}

fn verdict<E: std::fmt::Debug>(r: Result<mls_rs_core::crypto::SignaturePublicKey, E>) -> Value {
    match r {
        Ok(k) => json!({"ok": true, "pk": hex::encode(k.as_bytes())}),
        Err(e) => {
            let s = format!("{e:?}");
            json!({"ok": false, "err": s.chars().take(120).collect::<String>()})
        }
    }
}

pub fn run_case(q: &Value) -> Map<String, Value> {
    let specs = q["certs"].as_array().cloned().unwrap_or_default();
    let (ders, pks) = build(&specs);
    let idx = |v: &Value| -> Vec<usize> { v.as_array().cloned().unwrap_or_default().iter().filter_map(|x| x.as_u64()).map(|x| x as usize).collect() };
    let chain: Vec<DerCertificate> = idx(&q["chain"]).into_iter().filter_map(|i| ders.get(i)).map(|d| DerCertificate::from(d.clone())).collect();
    let roots: Vec<DerCertificate> = idx(&q["roots"]).into_iter().filter_map(|i| ders.get(i)).map(|d| DerCertificate::from(d.clone())).collect();
    let time = q["time"].as_u64().map(MlsTime::from);
    let cc = CertificateChain::from(chain);
    let mut out = Map::new();
    if let Some(pk) = idx(&q["chain"]).first().and_then(|i| pks.get(*i)) {
        out.insert("leaf_pk".into(), json!(hex::encode(pk)));
    }
    out.insert(
        "openssl".into(),
        std::panic::catch_unwind(|| match mls_rs_crypto_openssl::x509::X509Validator::new(roots.clone()) {
            Ok(v) => verdict(v.validate_chain(&cc, time)),
            Err(e) => json!({"ok": false, "err": format!("roots:{e:?}")}),
        })
        .unwrap_or(json!("PANIC")),
    );
    out.insert(
        "awslc".into(),
        std::panic::catch_unwind(|| match mls_rs_crypto_awslc::x509::CertificateValidator::new_der(&roots) {
            Ok(v) => verdict(v.validate_chain(&cc, time)),
            Err(e) => json!({"ok": false, "err": format!("roots:{e:?}")}),
        })
        .unwrap_or(json!("PANIC")),
    );
    out.insert(
        "rustcrypto".into(),
        std::panic::catch_unwind(|| match mls_rs_crypto_rustcrypto::x509::X509Validator::new(roots.clone()) {
            Ok(v) => verdict(v.validate_chain(&cc, time)),
            Err(e) => json!({"ok": false, "err": format!("roots:{e:?}")}),
        })
        .unwrap_or(json!("PANIC")),
    );
    out
}
