//! One concrete CryptoProvider for every member of a scripted history: it dispatches to the
//! OpenSSL, AWS-LC or RustCrypto provider chosen per member and records what the library asks
//! of it (HPKE seal recipients, AEAD (key, nonce) pairs) for the implementation-side oracles.
use mls_rs::CipherSuite;
use mls_rs_core::crypto::{
    CipherSuiteProvider, CryptoProvider, HpkeCiphertext, HpkeContextR, HpkeContextS, HpkePsk, HpkePublicKey,
    HpkeSecretKey, SignaturePublicKey, SignatureSecretKey,
};
use mls_rs_core::error::IntoAnyError;
use mls_rs_crypto_awslc::AwsLcCryptoProvider;
use mls_rs_crypto_openssl::OpensslCryptoProvider;
use mls_rs_crypto_rustcrypto::RustCryptoProvider;
use std::sync::{Arc, Mutex};
use zeroize::Zeroizing;

type Os = <OpensslCryptoProvider as CryptoProvider>::CipherSuiteProvider;
type Al = <AwsLcCryptoProvider as CryptoProvider>::CipherSuiteProvider;
type Rc = <RustCryptoProvider as CryptoProvider>::CipherSuiteProvider;

#[derive(Debug)]
pub struct PErr(pub String);
impl std::fmt::Display for PErr {
    fn fmt(&self, f: &mut std::fmt::Formatter<'_>) -> std::fmt::Result {
        write!(f, "{}", self.0)
    }
}
impl std::error::Error for PErr {}
impl IntoAnyError for PErr {
    fn into_dyn_error(self) -> Result<Box<dyn std::error::Error + Send + Sync>, Self> {
        Ok(Box::new(self))
    }
}
fn pe<E: std::fmt::Debug>(e: E) -> PErr {
    PErr(format!("{e:?}"))
}

#[derive(Clone, Debug)]
pub enum Event {
    HpkeSeal { to: Vec<u8>, info: Vec<u8> },
    AeadSeal { key: Vec<u8>, nonce: Vec<u8> },
    AeadOpen { key: Vec<u8>, nonce: Vec<u8>, ok: bool },
}

pub type Log = Arc<Mutex<Vec<Event>>>;

#[derive(Clone, Copy, PartialEq, Debug)]
pub enum Kind {
    OpenSsl,
    AwsLc,
    RustCrypto,
}

impl Kind {
    pub fn parse(s: &str) -> Kind {
        match s {
            "awslc" => Kind::AwsLc,
            "rustcrypto" => Kind::RustCrypto,
            _ => Kind::OpenSsl,
        }
    }
}

#[derive(Clone)]
pub struct VProvider {
    pub kind: Kind,
    pub log: Log,
}

#[derive(Clone)]
pub enum Inner {
    Os(Os),
    Al(Al),
    Rc(Rc),
}

#[derive(Clone)]
pub struct VSuite {
    pub inner: Inner,
    pub log: Log,
}

impl CryptoProvider for VProvider {
    type CipherSuiteProvider = VSuite;
    fn supported_cipher_suites(&self) -> Vec<CipherSuite> {
        match self.kind {
            Kind::OpenSsl => OpensslCryptoProvider::default().supported_cipher_suites(),
            Kind::AwsLc => AwsLcCryptoProvider::default().supported_cipher_suites(),
            Kind::RustCrypto => RustCryptoProvider::default().supported_cipher_suites(),
        }
    }
    fn cipher_suite_provider(&self, cs: CipherSuite) -> Option<VSuite> {
        let inner = match self.kind {
            Kind::OpenSsl => Inner::Os(OpensslCryptoProvider::default().cipher_suite_provider(cs)?),
            Kind::AwsLc => Inner::Al(AwsLcCryptoProvider::default().cipher_suite_provider(cs)?),
            Kind::RustCrypto => Inner::Rc(RustCryptoProvider::default().cipher_suite_provider(cs)?),
        };
        Some(VSuite { inner, log: self.log.clone() })
    }
}

pub enum CtxS {
    Os(<Os as CipherSuiteProvider>::HpkeContextS),
    Al(<Al as CipherSuiteProvider>::HpkeContextS),
    Rc(<Rc as CipherSuiteProvider>::HpkeContextS),
}
pub enum CtxR {
    Os(<Os as CipherSuiteProvider>::HpkeContextR),
    Al(<Al as CipherSuiteProvider>::HpkeContextR),
    Rc(<Rc as CipherSuiteProvider>::HpkeContextR),
}

impl HpkeContextS for CtxS {
    type Error = PErr;
    fn seal(&mut self, aad: Option<&[u8]>, data: &[u8]) -> Result<Vec<u8>, PErr> {
        match self {
            CtxS::Os(c) => c.seal(aad, data).map_err(pe),
            CtxS::Al(c) => c.seal(aad, data).map_err(pe),
            CtxS::Rc(c) => c.seal(aad, data).map_err(pe),
        }
    }
    fn export(&self, ctx: &[u8], len: usize) -> Result<Zeroizing<Vec<u8>>, PErr> {
        match self {
            CtxS::Os(c) => c.export(ctx, len).map_err(pe),
            CtxS::Al(c) => c.export(ctx, len).map_err(pe),
            CtxS::Rc(c) => c.export(ctx, len).map_err(pe),
        }
    }
}
impl HpkeContextR for CtxR {
    type Error = PErr;
    fn open(&mut self, aad: Option<&[u8]>, ct: &[u8]) -> Result<Zeroizing<Vec<u8>>, PErr> {
        match self {
            CtxR::Os(c) => c.open(aad, ct).map_err(pe),
            CtxR::Al(c) => c.open(aad, ct).map_err(pe),
            CtxR::Rc(c) => c.open(aad, ct).map_err(pe),
        }
    }
    fn export(&self, ctx: &[u8], len: usize) -> Result<Zeroizing<Vec<u8>>, PErr> {
        match self {
            CtxR::Os(c) => c.export(ctx, len).map_err(pe),
            CtxR::Al(c) => c.export(ctx, len).map_err(pe),
            CtxR::Rc(c) => c.export(ctx, len).map_err(pe),
        }
    }
}

macro_rules! each {
    ($self:ident, $c:ident => $e:expr) => {
        match &$self.inner {
            Inner::Os($c) => $e,
            Inner::Al($c) => $e,
            Inner::Rc($c) => $e,
        }
    };
}

impl CipherSuiteProvider for VSuite {
    type Error = PErr;
    type HpkeContextS = CtxS;
    type HpkeContextR = CtxR;

    fn cipher_suite(&self) -> CipherSuite {
        each!(self, c => c.cipher_suite())
    }
    fn hash(&self, data: &[u8]) -> Result<Vec<u8>, PErr> {
        each!(self, c => c.hash(data).map_err(pe))
    }
    fn mac(&self, key: &[u8], data: &[u8]) -> Result<Vec<u8>, PErr> {
        each!(self, c => c.mac(key, data).map_err(pe))
    }
    fn aead_seal(&self, key: &[u8], data: &[u8], aad: Option<&[u8]>, nonce: &[u8]) -> Result<Vec<u8>, PErr> {
        self.log.lock().unwrap().push(Event::AeadSeal { key: key.to_vec(), nonce: nonce.to_vec() });
        each!(self, c => c.aead_seal(key, data, aad, nonce).map_err(pe))
    }
    fn aead_open(&self, key: &[u8], ct: &[u8], aad: Option<&[u8]>, nonce: &[u8]) -> Result<Zeroizing<Vec<u8>>, PErr> {
        let r = each!(self, c => c.aead_open(key, ct, aad, nonce).map_err(pe));
        self.log.lock().unwrap().push(Event::AeadOpen { key: key.to_vec(), nonce: nonce.to_vec(), ok: r.is_ok() });
        r
    }
    fn aead_key_size(&self) -> usize {
        each!(self, c => c.aead_key_size())
    }
    fn aead_nonce_size(&self) -> usize {
        each!(self, c => c.aead_nonce_size())
    }
    fn kdf_extract(&self, salt: &[u8], ikm: &[u8]) -> Result<Zeroizing<Vec<u8>>, PErr> {
        each!(self, c => c.kdf_extract(salt, ikm).map_err(pe))
    }
    fn kdf_expand(&self, prk: &[u8], info: &[u8], len: usize) -> Result<Zeroizing<Vec<u8>>, PErr> {
        each!(self, c => c.kdf_expand(prk, info, len).map_err(pe))
    }
    fn kdf_extract_size(&self) -> usize {
        each!(self, c => c.kdf_extract_size())
    }
    fn hpke_seal(&self, remote_key: &HpkePublicKey, info: &[u8], aad: Option<&[u8]>, pt: &[u8]) -> Result<HpkeCiphertext, PErr> {
        self.log.lock().unwrap().push(Event::HpkeSeal { to: remote_key.to_vec(), info: info.to_vec() });
        each!(self, c => c.hpke_seal(remote_key, info, aad, pt).map_err(pe))
    }
    fn hpke_seal_psk(&self, remote_key: &HpkePublicKey, info: &[u8], aad: Option<&[u8]>, pt: &[u8], psk: HpkePsk<'_>) -> Result<HpkeCiphertext, PErr> {
        each!(self, c => c.hpke_seal_psk(remote_key, info, aad, pt, psk).map_err(pe))
    }
    fn hpke_open(&self, ct: &HpkeCiphertext, sk: &HpkeSecretKey, pk: &HpkePublicKey, info: &[u8], aad: Option<&[u8]>) -> Result<Zeroizing<Vec<u8>>, PErr> {
        each!(self, c => c.hpke_open(ct, sk, pk, info, aad).map_err(pe))
    }
    fn hpke_open_psk(&self, ct: &HpkeCiphertext, sk: &HpkeSecretKey, pk: &HpkePublicKey, info: &[u8], aad: Option<&[u8]>, psk: HpkePsk<'_>) -> Result<Zeroizing<Vec<u8>>, PErr> {
        each!(self, c => c.hpke_open_psk(ct, sk, pk, info, aad, psk).map_err(pe))
    }
    fn hpke_setup_s(&self, remote_key: &HpkePublicKey, info: &[u8]) -> Result<(Vec<u8>, CtxS), PErr> {
        match &self.inner {
            Inner::Os(c) => c.hpke_setup_s(remote_key, info).map(|(k, x)| (k, CtxS::Os(x))).map_err(pe),
            Inner::Al(c) => c.hpke_setup_s(remote_key, info).map(|(k, x)| (k, CtxS::Al(x))).map_err(pe),
            Inner::Rc(c) => c.hpke_setup_s(remote_key, info).map(|(k, x)| (k, CtxS::Rc(x))).map_err(pe),
        }
    }
    fn hpke_setup_r(&self, kem_output: &[u8], sk: &HpkeSecretKey, pk: &HpkePublicKey, info: &[u8]) -> Result<CtxR, PErr> {
        match &self.inner {
            Inner::Os(c) => c.hpke_setup_r(kem_output, sk, pk, info).map(CtxR::Os).map_err(pe),
            Inner::Al(c) => c.hpke_setup_r(kem_output, sk, pk, info).map(CtxR::Al).map_err(pe),
            Inner::Rc(c) => c.hpke_setup_r(kem_output, sk, pk, info).map(CtxR::Rc).map_err(pe),
        }
    }
    fn kem_derive(&self, ikm: &[u8]) -> Result<(HpkeSecretKey, HpkePublicKey), PErr> {
        each!(self, c => c.kem_derive(ikm).map_err(pe))
    }
    fn kem_generate(&self) -> Result<(HpkeSecretKey, HpkePublicKey), PErr> {
        each!(self, c => c.kem_generate().map_err(pe))
    }
    fn kem_public_key_validate(&self, key: &HpkePublicKey) -> Result<(), PErr> {
        each!(self, c => c.kem_public_key_validate(key).map_err(pe))
    }
    fn random_bytes(&self, out: &mut [u8]) -> Result<(), PErr> {
        each!(self, c => c.random_bytes(out).map_err(pe))
    }
    fn signature_key_generate(&self) -> Result<(SignatureSecretKey, SignaturePublicKey), PErr> {
        each!(self, c => c.signature_key_generate().map_err(pe))
    }
    fn signature_key_derive_public(&self, sk: &SignatureSecretKey) -> Result<SignaturePublicKey, PErr> {
        each!(self, c => c.signature_key_derive_public(sk).map_err(pe))
    }
    fn sign(&self, sk: &SignatureSecretKey, data: &[u8]) -> Result<Vec<u8>, PErr> {
        each!(self, c => c.sign(sk, data).map_err(pe))
    }
    fn verify(&self, pk: &SignaturePublicKey, sig: &[u8], data: &[u8]) -> Result<(), PErr> {
        each!(self, c => c.verify(pk, sig, data).map_err(pe))
    }
}
