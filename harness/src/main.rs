mod treemath;

fn main() {
    let args: Vec<String> = std::env::args().collect();
    let sub = args.get(1).map(|s| s.as_str()).unwrap_or("");
    let code = match sub {
        "treemath" => treemath::run(),
        _ => {
            eprintln!("usage: mlsh <treemath|...>");
            2
        }
    };
    std::process::exit(code);
}
