mod alloc_count;
mod codec;
mod hist;
mod ks;
mod prov;
mod provider;
mod storage;
mod store;
mod treemath;
mod x509gen;

#[global_allocator]
static GLOBAL: alloc_count::Counting = alloc_count::Counting;

fn main() {
    let args: Vec<String> = std::env::args().collect();
    let sub = args.get(1).map(|s| s.as_str()).unwrap_or("");
    let code = match sub {
        "treemath" => treemath::run(),
        "codec" => codec::run(),
        "hist" => hist::run(),
        "ks" => ks::run(),
        "store" => store::run(),
        "prov" => prov::run(),
        _ => {
            eprintln!("usage: mlsh <treemath|...>");
            2
        }
    };
    std::process::exit(code);
}
