//! `mlsh hist`: interpreter of scripted group histories over the public API of mls-rs.
//! Input (stdin): one JSON document {"suite":1,"members":[..],"ops":[..]}.
//! Output (stdout): one JSON record per op.  Byte strings never appear raw in observations:
//! they are interned to small integers in first-occurrence order, so that two runs of the same
//! script (whose random keys differ) produce identical records iff their equality patterns agree.
use crate::provider::{Event, Kind, Log, VProvider};
use crate::storage::{Ctl, FaultCtl, VGroupStorage, VKeyPackageStorage, VPskStorage};
use mls_rs::client_builder::MlsConfig;
use mls_rs::external_client::builder::MlsConfig as ExternalMlsConfig;
use mls_rs::external_client::{ExternalClient, ExternalGroup, ExternalReceivedMessage, ExternalSnapshot};
use mls_rs::group::proposal::Proposal;
use mls_rs::group::{CommitEffect, ExportedTree, Node, ReceivedMessage};
use mls_rs::identity::basic::{BasicCredential, BasicIdentityProvider};
use mls_rs::identity::SigningIdentity;
use mls_rs::mls_rules::{CommitDirection, CommitOptions, CommitSource, EncryptionOptions, ProposalBundle};
use mls_rs::mls_rs_codec::MlsEncode;
use mls_rs::storage_provider::in_memory::{InMemoryKeyPackageStorage, InMemoryPreSharedKeyStorage};
use mls_rs::{CipherSuite, CipherSuiteProvider, Client, CryptoProvider, ExtensionList, Group, MlsMessage, MlsRules};
use mls_rs_core::crypto::SignatureSecretKey;
use mls_rs::group::Roster;
use mls_rs_core::group::GroupContext;
use serde_json::{json, Value};
use std::collections::{BTreeMap, HashMap};
use std::convert::Infallible;
use std::sync::{Arc, Mutex};

#[derive(Clone, Copy)]
pub struct RuleCfg {
    pub path_required: bool,
    pub tree_ext: bool,
    pub single_welcome: bool,
    pub allow_ext_commit: bool,
    pub encrypt_controls: bool,
    pub custom_needs_path: bool,
}

impl Default for RuleCfg {
    fn default() -> Self {
        RuleCfg { path_required: false, tree_ext: true, single_welcome: true, allow_ext_commit: false, encrypt_controls: false, custom_needs_path: true }
    }
}

#[derive(Clone)]
pub struct VRules(pub Arc<Mutex<RuleCfg>>);

impl MlsRules for VRules {
    type Error = Infallible;
    fn filter_proposals(&self, _d: CommitDirection, _s: CommitSource, _r: &Roster, _c: &GroupContext, p: ProposalBundle) -> Result<ProposalBundle, Infallible> {
        Ok(p)
    }
    fn commit_options(&self, _r: &Roster, _c: &GroupContext, _p: &ProposalBundle) -> Result<CommitOptions, Infallible> {
        let c = *self.0.lock().unwrap();
        Ok(CommitOptions::new()
            .with_path_required(c.path_required)
            .with_ratchet_tree_extension(c.tree_ext)
            .with_single_welcome_message(c.single_welcome)
            .with_allow_external_commit(c.allow_ext_commit))
    }
    fn encryption_options(&self, _r: &Roster, _c: &GroupContext) -> Result<EncryptionOptions, Infallible> {
        let c = *self.0.lock().unwrap();
        Ok(EncryptionOptions::new(c.encrypt_controls, mls_rs::client_builder::PaddingMode::None))
    }
    fn custom_proposal_requires_update_path(&self, _t: mls_rs::group::proposal::ProposalType) -> bool {
        self.0.lock().unwrap().custom_needs_path
    }
}

pub struct Intern {
    map: HashMap<Vec<u8>, u64>,
}

impl Intern {
    pub fn id(&mut self, b: &[u8]) -> u64 {
        let n = self.map.len() as u64;
        *self.map.entry(b.to_vec()).or_insert(n)
    }
}

pub struct Member<C: MlsConfig> {
    pub name: String,
    pub client: Client<C>,
    pub group: Option<Group<C>>,
    /// successor / branch group (C17)
    pub sub: Option<Group<C>>,
    pub ctl: Ctl,
    pub log: Log,
    pub gstore: VGroupStorage,
    pub kpstore: VKeyPackageStorage,
    pub pskstore: VPskStorage,
    pub rules: Arc<Mutex<RuleCfg>>,
    pub suite: CipherSuite,
    pub signer: SignatureSecretKey,
    pub identity: SigningIdentity,
}

pub struct Spec {
    pub name: String,
    pub provider: Kind,
    pub storage: String,
    pub retention: u64,
    pub dir: std::path::PathBuf,
    /// additional custom extension types this client supports (capabilities)
    pub exts: Vec<u16>,
    /// credential identifier (defaults to the party's name)
    pub identity_name: Option<String>,
}

pub struct Parts {
    pub ctl: Ctl,
    pub log: Log,
    pub gstore: VGroupStorage,
    pub kpstore: VKeyPackageStorage,
    pub pskstore: VPskStorage,
    pub rules: Arc<Mutex<RuleCfg>>,
    pub signer: SignatureSecretKey,
    pub identity: SigningIdentity,
}

pub fn make_parts(spec: &Spec, suite: CipherSuite) -> Result<Parts, String> {
    let ctl: Ctl = Arc::new(Mutex::new(FaultCtl::default()));
    let log: Log = Arc::new(Mutex::new(Vec::new()));
    let gstore = if spec.storage == "sqlite" {
        VGroupStorage::sqlite(&spec.dir.join(format!("{}.db", spec.name)), spec.retention, ctl.clone())?
    } else if spec.storage == "sqlite_default" {
        VGroupStorage::sqlite_default(&spec.dir.join(format!("{}.db", spec.name)), ctl.clone())?
    } else if spec.storage == "mem_default" {
        VGroupStorage::mem_default(ctl.clone())?
    } else if spec.storage == "mem_new" {
        VGroupStorage::mem_new(ctl.clone())?
    } else {
        VGroupStorage::mem(spec.retention as usize, ctl.clone())?
    };
    let kpstore = VKeyPackageStorage { inner: InMemoryKeyPackageStorage::default(), ctl: ctl.clone() };
    let pskstore = VPskStorage { inner: InMemoryPreSharedKeyStorage::default(), ctl: ctl.clone() };
    let rules = Arc::new(Mutex::new(RuleCfg::default()));
    let provider = VProvider { kind: spec.provider, log: log.clone() };
    let cs = provider.cipher_suite_provider(suite).ok_or("unsupported suite")?;
    let (signer, public) = cs.signature_key_generate().map_err(|e| format!("{e:?}"))?;
    let identity = SigningIdentity::new(BasicCredential::new(spec.identity_name.clone().unwrap_or(spec.name.clone()).as_bytes().to_vec()).into_credential(), public);
    Ok(Parts { ctl, log, gstore, kpstore, pskstore, rules, signer, identity })
}

pub fn make_client(spec: &Spec, parts: &Parts, suite: CipherSuite) -> Client<impl MlsConfig> {
    Client::builder()
        .crypto_provider(VProvider { kind: spec.provider, log: parts.log.clone() })
        .identity_provider(BasicIdentityProvider)
        .group_state_storage(parts.gstore.clone())
        .key_package_repo(parts.kpstore.clone())
        .psk_store(parts.pskstore.clone())
        .mls_rules(VRules(parts.rules.clone()))
        .custom_proposal_type(mls_rs::group::proposal::ProposalType::new(0xF001))
        .extension_type(mls_rs::extension::ExtensionType::new(0xF010))
        .extension_types(spec.exts.iter().map(|e| mls_rs::extension::ExtensionType::new(*e)))
        .signing_identity(parts.identity.clone(), parts.signer.clone(), suite)
        .build()
}

pub fn make_observer(jitter: Option<u64>, signer: Option<(SignatureSecretKey, SigningIdentity)>, cache: bool) -> ExternalClient<impl ExternalMlsConfig> {
    let b = ExternalClient::builder()
        .crypto_provider(VProvider { kind: Kind::OpenSsl, log: Arc::new(Mutex::new(Vec::new())) })
        .identity_provider(BasicIdentityProvider)
        .custom_proposal_types([mls_rs::group::proposal::ProposalType::new(0xF001)])
        .extension_type(mls_rs::extension::ExtensionType::new(0xF010))
        .cache_proposals(cache);
    let b = match jitter {
        Some(j) => b.max_epoch_jitter(j),
        None => b,
    };
    match signer {
        Some((k, id)) => b.signer(k, id).build(),
        None => b.build(),
    }
}

fn err_name<E: std::fmt::Debug>(e: &E) -> String {
    let s = format!("{e:?}");
    s.chars().take_while(|c| c.is_alphanumeric() || *c == '_').collect()
}

fn hexd(v: &Value) -> Vec<u8> {
    hex::decode(v.as_str().unwrap_or("")).unwrap_or_default()
}

fn prop_kind(p: &Proposal) -> &'static str {
    match p {
        Proposal::Add(_) => "add",
        Proposal::Update(_) => "update",
        Proposal::Remove(_) => "remove",
        Proposal::Psk(_) => "psk",
        Proposal::ReInit(_) => "reinit",
        Proposal::ExternalInit(_) => "extinit",
        Proposal::GroupContextExtensions(_) => "gce",
        Proposal::Custom(_) => "custom",
        _ => "other",
    }
}

pub struct World<C: MlsConfig, E: ExternalMlsConfig> {
    pub observers: BTreeMap<String, ExternalGroup<E>>,
    pub obs_signer: BTreeMap<String, String>,
    pub mk_obs: Box<dyn Fn(Option<u64>, Option<(SignatureSecretKey, SigningIdentity)>, bool) -> ExternalClient<E>>,
    pub obs_nocache: std::collections::BTreeSet<String>,
    pub suite: CipherSuite,
    pub members: BTreeMap<String, Member<C>>,
    pub msgs: HashMap<String, Vec<u8>>,
    pub trees: HashMap<String, Vec<u8>>,
    pub intern: Intern,
    pub suite_ids: HashMap<(String, u16), (SignatureSecretKey, SigningIdentity)>,
}

impl<C: MlsConfig, E: ExternalMlsConfig + Clone> World<C, E> {
    /// the same basic identity with a signature key of ANOTHER cipher suite (re-init to a new suite);
    /// one key per (member, suite), so that key package, commit and join of one member agree
    fn suite_identity(&mut self, who: &str, suite: u16) -> Result<(SignatureSecretKey, SigningIdentity), String> {
        use mls_rs_core::crypto::{CipherSuiteProvider, CryptoProvider};
        if let Some(x) = self.suite_ids.get(&(who.to_string(), suite)) {
            return Ok(x.clone());
        }
        let cs = mls_rs_crypto_openssl::OpensslCryptoProvider::default().cipher_suite_provider(CipherSuite::from(suite)).ok_or("nosuite")?;
        let (sk, pk) = cs.signature_key_generate().map_err(|e| format!("{e:?}"))?;
        let ident = SigningIdentity::new(BasicCredential::new(who.as_bytes().to_vec()).into_credential(), pk);
        self.suite_ids.insert((who.to_string(), suite), (sk.clone(), ident.clone()));
        Ok((sk, ident))
    }
    fn msg(&self, id: &str) -> Result<MlsMessage, String> {
        let b = self.msgs.get(id).ok_or(format!("no message {id}"))?;
        MlsMessage::from_bytes(b).map_err(|e| format!("decode:{}", err_name(&e)))
    }

    /// leaf index of the member with basic identity `name` in `who`'s current roster
    fn index_of(&self, who: &str, name: &str) -> Option<u32> {
        let g = self.members.get(who)?.group.as_ref()?;
        g.roster().members_iter().find(|m| m.signing_identity.credential.as_basic().map(|b| b.identifier == name.as_bytes()).unwrap_or(false)).map(|m| m.index)
    }

    pub fn observe(&mut self, who: &str) -> Value {
        if let Some(g) = self.observers.get(who) {
            let it = &mut self.intern;
            let ctx = g.group_context();
            let tree = g.export_tree().unwrap_or_default();
            let roster: Vec<Value> = g.roster().members_iter().map(|mm| {
                let idb = mm.signing_identity.credential.as_basic().map(|b| String::from_utf8_lossy(&b.identifier).to_string()).unwrap_or_default();
                json!([mm.index, idb])
            }).collect();
            return json!({"group": true, "observer": true, "epoch": ctx.epoch, "ctx": it.id(&ctx.mls_encode_to_vec().unwrap_or_default()),
                "tree_bytes": it.id(&tree), "roster": roster, "nprops": g.get_cached_proposals().len()});
        }
        let Some(m) = self.members.get(who) else { return json!(null) };
        let Some(g) = m.group.as_ref() else { return json!({"group": false}) };
        let it = &mut self.intern;
        let ctx = g.context();
        let tree = g.export_tree();
        let nodes: Vec<Value> = tree
            .nodes()
            .iter()
            .map(|n| match n {
                None => json!("_"),
                Some(Node::Leaf(l)) => {
                    let idb = l.signing_identity.credential.as_basic().map(|b| String::from_utf8_lossy(&b.identifier).to_string()).unwrap_or_default();
                    json!({"L": idb, "k": it.id(&l.public_key), "s": it.id(&l.signing_identity.signature_key)})
                }
                Some(Node::Parent(p)) => {
                    let um: Vec<u32> = p.unmerged_leaves.iter().map(|l| **l).collect();
                    json!({"P": it.id(&p.public_key), "u": um, "h": it.id(&p.parent_hash.mls_encode_to_vec().unwrap_or_default())})
                }
            })
            .collect();
        let roster: Vec<Value> = g
            .roster()
            .members_iter()
            .map(|mm| {
                let idb = mm.signing_identity.credential.as_basic().map(|b| String::from_utf8_lossy(&b.identifier).to_string()).unwrap_or_default();
                json!([mm.index, idb])
            })
            .collect();
        let auth = g.epoch_authenticator().map(|s| it.id(s.as_bytes())).ok();
        let exp = g.export_secret(b"verif", b"ctx", 32).map(|s| it.id(s.as_bytes())).ok();
        let snap = g.verif_snapshot().ok();
        let (idx, privs) = g.verif_private_keys();
        // C09: does every stored private key open what is sealed to the public key of its node?
        let priv_ok: Vec<Value> = {
            use mls_rs_core::crypto::{CipherSuiteProvider, CryptoProvider, HpkePublicKey, HpkeSecretKey};
            let cs = mls_rs_crypto_openssl::OpensslCryptoProvider::default().cipher_suite_provider(g.cipher_suite());
            let nodes = tree.nodes();
            let leaf_count = ((nodes.len() as u32) / 2 + 1).next_power_of_two();
            let path = mls_rs::verif::tree_math::direct_copath(2 * idx, leaf_count);
            privs.iter().enumerate().map(|(i, k)| {
                let Some(k) = k else { return json!(null) };
                let ni = if i == 0 { Some((2 * idx) as usize) } else { path.get(i - 1).map(|p| p.0 as usize) };
                let Some(ni) = ni else { return json!("beyond_path") };
                let pk: Option<HpkePublicKey> = match nodes.get(ni) {
                    Some(Some(Node::Leaf(l))) => Some(l.public_key.clone()),
                    Some(Some(Node::Parent(p))) => Some(p.public_key.clone()),
                    _ => None,
                };
                let Some(pk) = pk else { return json!("blank") };
                let Some(cs) = cs.as_ref() else { return json!("nosuite") };
                let sk = HpkeSecretKey::from(k.clone());
                match cs.hpke_seal(&pk, b"verif", None, b"probe") {
                    Ok(ct) => json!(matches!(cs.hpke_open(&ct, &sk, &pk, b"verif", None), Ok(pt) if &*pt == b"probe")),
                    Err(_) => json!("seal_error"),
                }
            }).collect()
        };
        let gid = g.group_id().to_vec();
        let epoch = g.current_epoch();
        let stored = m.gstore.probe_epochs(&gid, epoch + 1);
        let stored_state = m.gstore.probe_state(&gid);
        json!({
            "group": true,
            "epoch": epoch,
            "gid": it.id(&gid),
            "ctx": it.id(&ctx.mls_encode_to_vec().unwrap_or_default()),
            "tree_hash": it.id(&ctx.tree_hash),
            "cth": it.id(&ctx.confirmed_transcript_hash),
            "ext": it.id(&ctx.extensions.mls_encode_to_vec().unwrap_or_default()),
            "tree": nodes,
            "tree_bytes": it.id(&tree.to_bytes().unwrap_or_default()),
            "roster": roster,
            "auth": auth,
            "exp": exp,
            "idx": idx,
            "priv": privs.iter().map(|k| k.as_ref().map(|k| it.id(k))).collect::<Vec<_>>(),
            "priv_ok": priv_ok,
            "pending": g.has_pending_commit(),
            "reinit": g.verif_has_pending_reinit(),
            "nprops": g.get_cached_proposals().len(),
            "snap": snap.as_ref().map(|s| it.id(s)),
            // order-insensitive digest of the snapshot (hash-map valued parts are encoded in
            // iteration order): the multiset of its bytes together with its length
            "snap_bag": snap.as_ref().map(|s| {
                let mut b = s.clone();
                b.sort_unstable();
                it.id(&b)
            }),
            "stored_epochs": stored,
            "stored_max": m.gstore.probe_max(&gid),
            "stored_state": stored_state.as_ref().map(|s| it.id(s)),
            "stored_bag": stored_state.as_ref().map(|s| {
                let mut b = s.clone();
                b.sort_unstable();
                it.id(&b)
            }),
            "kp_store": m.kpstore.inner.key_packages().iter().map(|(r, _)| hex::encode(r)).collect::<Vec<_>>(),
            "sub": m.sub.as_ref().map(|sg| {
                let names: Vec<String> = sg.roster().members_iter().map(|mm| mm.signing_identity.credential.as_basic().map(|b| String::from_utf8_lossy(&b.identifier).to_string()).unwrap_or_default()).collect();
                json!({"epoch": sg.current_epoch(), "gid": hex::encode(sg.group_id()), "members": names,
                       "auth": sg.epoch_authenticator().ok().map(|a| hex::encode(a.as_bytes())), "suite": u16::from(sg.cipher_suite())})
            }),
        })
    }

    fn describe(&mut self, r: &ReceivedMessage) -> Value {
        match r {
            ReceivedMessage::ApplicationMessage(a) => json!({"kind": "app", "sender": a.sender_index, "data": hex::encode(a.data()), "aad": hex::encode(&a.authenticated_data)}),
            ReceivedMessage::Commit(c) => Self::describe_commit(c),
            ReceivedMessage::Proposal(p) => json!({"kind": "proposal", "ptype": prop_kind(&p.proposal), "sender": format!("{:?}", p.sender), "aad": hex::encode(&p.authenticated_data)}),
            ReceivedMessage::GroupInfo(_) => json!({"kind": "group_info"}),
            ReceivedMessage::Welcome => json!({"kind": "welcome"}),
            ReceivedMessage::KeyPackage(_) => json!({"kind": "key_package"}),
        }
    }

    fn describe_commit(c: &mls_rs::group::CommitMessageDescription) -> Value {
        let (effect, applied, unused, epoch) = match &c.effect {
            CommitEffect::NewEpoch(e) => (
                "new_epoch",
                e.applied_proposals.iter().map(|p| prop_kind(&p.proposal)).collect::<Vec<_>>(),
                e.unused_proposals.iter().map(|p| prop_kind(&p.proposal)).collect::<Vec<_>>(),
                Some(e.epoch),
            ),
            CommitEffect::Removed { new_epoch, .. } => (
                "removed",
                new_epoch.applied_proposals.iter().map(|p| prop_kind(&p.proposal)).collect::<Vec<_>>(),
                new_epoch.unused_proposals.iter().map(|p| prop_kind(&p.proposal)).collect::<Vec<_>>(),
                Some(new_epoch.epoch),
            ),
            CommitEffect::ReInit(_) => ("reinit", vec![], vec![], None),
        };
        let mut a = applied.clone();
        a.sort();
        let mut u = unused.clone();
        u.sort();
        let list = match &c.effect {
            CommitEffect::NewEpoch(e) => Some(&e.applied_proposals),
            CommitEffect::Removed { new_epoch, .. } => Some(&new_epoch.applied_proposals),
            CommitEffect::ReInit(_) => None,
        };
        let name = |si: &SigningIdentity| si.credential.as_basic().map(|b| String::from_utf8_lossy(&b.identifier).to_string()).unwrap_or_default();
        let detail: Vec<Value> = list
            .map(|l| {
                l.iter()
                    .map(|p| {
                        let sender = match p.sender {
                            mls_rs::group::Sender::Member(i) => json!(i),
                            _ => json!(format!("{:?}", p.sender)),
                        };
                        match &p.proposal {
                            Proposal::Add(a) => json!({"k": "add", "id": name(a.signing_identity()), "by": sender}),
                            Proposal::Update(u) => json!({"k": "update", "id": name(u.signing_identity()), "by": sender}),
                            Proposal::Remove(r) => json!({"k": "remove", "idx": r.to_remove(), "by": sender}),
                            Proposal::Psk(pp) => json!({"k": "psk", "by": sender, "enc": hex::encode(pp.mls_encode_to_vec().unwrap_or_default())}),
                            other => json!({"k": prop_kind(other), "by": sender}),
                        }
                    })
                    .collect()
            })
            .unwrap_or_default();
        json!({"kind": "commit", "committer": c.committer, "external": c.is_external, "effect": effect, "applied": a, "unused": u, "detail": detail, "new_epoch": epoch, "aad": hex::encode(&c.authenticated_data)})
    }

    /// Execute one op; Ok(info) or Err(error name).
    fn exec(&mut self, op: &Value) -> Result<Value, String> {
        let kind = op["op"].as_str().unwrap_or("");
        let who = op["who"].as_str().unwrap_or("").to_string();
        let id = op["id"].as_str().unwrap_or("").to_string();
        let aad = hexd(&op["aad"]);
        macro_rules! grp {
            () => {
                self.members.get_mut(&who).ok_or("no such member")?.group.as_mut().ok_or("NoGroup")?
            };
        }
        macro_rules! mls {
            ($e:expr) => {
                $e.map_err(|e| err_name(&e))?
            };
        }
        match kind {
            "create" => {
                // optional ExternalSendersExt: identities of the named (configured) parties
                let mut gce = ExtensionList::new();
                for t in op["ctx_ext_types"].as_array().cloned().unwrap_or_default() {
                    gce.set(mls_rs::Extension::new(mls_rs::extension::ExtensionType::new(t.as_u64().unwrap_or(0xF010) as u16), vec![0u8]));
                }
                if let Some(names) = op["ext_senders"].as_array() {
                    let ids: Vec<SigningIdentity> = names.iter().filter_map(|n| n.as_str()).filter_map(|n| self.members.get(n).map(|m| m.identity.clone())).collect();
                    mls!(gce.set_from(mls_rs::extension::built_in::ExternalSendersExt::new(ids)));
                }
                let m = self.members.get_mut(&who).ok_or("no such member")?;
                let g = match op["gid"].as_str() {
                    Some(gid) => mls!(m.client.create_group_with_id(hex::decode(gid).unwrap_or_default(), gce, ExtensionList::new(), None)),
                    None => mls!(m.client.create_group(gce, ExtensionList::new(), None)),
                };
                m.group = Some(g);
                Ok(json!({}))
            }
            "kp" => {
                let m = self.members.get_mut(&who).ok_or("no such member")?;
                let mut kpe = ExtensionList::new();
                if op["last_resort"].as_bool().unwrap_or(false) {
                    mls!(kpe.set_from(mls_rs::extension::recommended::LastResortKeyPackageExt));
                }
                let kp = mls!(m.client.generate_key_package_message(kpe, ExtensionList::new(), None));
                self.msgs.insert(id, mls!(kp.to_bytes()));
                let init = kp.clone().into_key_package().map(|k| self.intern.id(&k.hpke_init_key));
                // reference of the package in the store: the new entry
                let refs: Vec<String> = m.kpstore.inner.key_packages().iter().map(|(r, _)| hex::encode(r)).collect();
                Ok(json!({"init": init, "store": refs}))
            }
            "propose" => {
                let pk = op["kind"].as_str().unwrap_or("");
                let msg = match pk {
                    "add" => {
                        let kp = self.msg(op["kp"].as_str().unwrap_or(""))?;
                        mls!(grp!().propose_add(kp, aad))
                    }
                    "update" => mls!(grp!().propose_update(aad)),
                    "update_id" => {
                        // same basic identity, NEW signature key (the signer changes when the update is committed)
                        use mls_rs_core::crypto::{CipherSuiteProvider, CryptoProvider};
                        let cs = mls_rs_crypto_openssl::OpensslCryptoProvider::default().cipher_suite_provider(self.suite).ok_or("nosuite")?;
                        let (sk, pk) = cs.signature_key_generate().map_err(|e| format!("{e:?}"))?;
                        let ident = SigningIdentity::new(BasicCredential::new(who.as_bytes().to_vec()).into_credential(), pk);
                        mls!(grp!().propose_update_with_identity(sk, ident, aad))
                    }
                    "remove" => {
                        let idx = match op["name"].as_str() {
                            Some(n) => self.index_of(&who, n).ok_or("NoSuchMemberName")?,
                            None => op["index"].as_u64().unwrap_or(0) as u32,
                        };
                        mls!(grp!().propose_remove(idx, aad))
                    }
                    "psk" => mls!(grp!().propose_external_psk(mls_rs::psk::ExternalPskId::new(hexd(&op["psk_id"])), aad)),
                    "resumption" => mls!(grp!().propose_resumption_psk(op["epoch"].as_u64().unwrap_or(0), aad)),
                    "gce" => {
                        let mut el = ExtensionList::new();
                        let data = hex::decode(op["ext_data"].as_str().unwrap_or("")).unwrap_or_default();
                        match op["ext_types"].as_array() {
                            Some(ts) => {
                                for t in ts {
                                    el.set(mls_rs::Extension::new(mls_rs::extension::ExtensionType::new(t.as_u64().unwrap_or(0xF010) as u16), data.clone()));
                                }
                            }
                            None => {
                                if op["ext_data"].as_str().is_some() {
                                    el.set(mls_rs::Extension::new(mls_rs::extension::ExtensionType::new(0xF010), data));
                                }
                            }
                        }
                        mls!(grp!().propose_group_context_extensions(el, aad))
                    }
                    "custom" => mls!(grp!().propose_custom(
                        mls_rs::group::proposal::CustomProposal::new(mls_rs::group::proposal::ProposalType::new(op["ptype"].as_u64().unwrap_or(0xF001) as u16), hexd(&op["data"])),
                        aad
                    )),
                    "reinit" => {
                        let suite = CipherSuite::from(op["new_suite"].as_u64().unwrap_or(u16::from(self.suite) as u64) as u16);
                        mls!(grp!().propose_reinit(op["new_gid"].as_str().map(|s| hex::decode(s).unwrap_or_default()), mls_rs::ProtocolVersion::MLS_10, suite, ExtensionList::new(), aad))
                    }
                    _ => return Err("bad proposal kind".into()),
                };
                self.msgs.insert(id, mls!(msg.to_bytes()));
                Ok(json!({}))
            }
            "opts" => {
                let m = self.members.get_mut(&who).ok_or("no such member")?;
                let mut r = m.rules.lock().unwrap();
                if let Some(b) = op["path_required"].as_bool() {
                    r.path_required = b;
                }
                if let Some(b) = op["custom_needs_path"].as_bool() {
                    r.custom_needs_path = b;
                }
                if let Some(b) = op["tree_ext"].as_bool() {
                    r.tree_ext = b;
                }
                if let Some(b) = op["single_welcome"].as_bool() {
                    r.single_welcome = b;
                }
                if let Some(b) = op["allow_ext_commit"].as_bool() {
                    r.allow_ext_commit = b;
                }
                if let Some(b) = op["encrypt_controls"].as_bool() {
                    r.encrypt_controls = b;
                }
                Ok(json!({}))
            }
            "commit" => {
                let mut kps = vec![];
                for k in op["add"].as_array().cloned().unwrap_or_default() {
                    kps.push(self.msg(k.as_str().unwrap_or(""))?);
                }
                let mut removes: Vec<u32> = op["remove"].as_array().cloned().unwrap_or_default().iter().map(|v| v.as_u64().unwrap_or(0) as u32).collect();
                for n in op["remove_names"].as_array().cloned().unwrap_or_default() {
                    removes.push(self.index_of(&who, n.as_str().unwrap_or("")).ok_or("NoSuchMemberName")?);
                }
                let psks: Vec<Vec<u8>> = op["psk"].as_array().cloned().unwrap_or_default().iter().map(hexd).collect();
                let res_psks: Vec<u64> = op["resumption"].as_array().cloned().unwrap_or_default().iter().map(|v| v.as_u64().unwrap_or(0)).collect();
                let gce = op["gce"].as_str().map(|d| hex::decode(d).unwrap_or_default());
                let custom = op["custom"].as_str().map(|d| hex::decode(d).unwrap_or_default());
                let reinit = op["reinit"].as_bool().unwrap_or(false);
                let new_gid = op["new_gid"].as_str().map(|s| hex::decode(s).unwrap_or_default());
                let detached = op["detached"].as_bool().unwrap_or(false);
                let suite = CipherSuite::from(op["new_suite"].as_u64().unwrap_or(u16::from(self.suite) as u64) as u16);
                let g = grp!();
                let mut b = g.commit_builder();
                for kp in kps {
                    b = mls!(b.add_member(kp));
                }
                for r in removes {
                    b = mls!(b.remove_member(r));
                }
                for p in psks {
                    b = mls!(b.add_external_psk(mls_rs::psk::ExternalPskId::new(p)));
                }
                // PSKs in a given order: "e:<hex id>" external, "r:<epoch>" resumption
                for item in op["psk_seq"].as_array().cloned().unwrap_or_default() {
                    let it = item.as_str().unwrap_or("").to_string();
                    if let Some(h) = it.strip_prefix("e:") {
                        b = mls!(b.add_external_psk(mls_rs::psk::ExternalPskId::new(hex::decode(h).unwrap_or_default())));
                    } else if let Some(e) = it.strip_prefix("r:") {
                        b = mls!(b.add_resumption_psk(e.parse::<u64>().unwrap_or(0)));
                    }
                }
                for e in res_psks {
                    b = mls!(b.add_resumption_psk(e));
                }
                if let Some(d) = gce {
                    let mut el = ExtensionList::new();
                    match op["ext_types"].as_array() {
                        Some(ts) => {
                            for t in ts {
                                el.set(mls_rs::Extension::new(mls_rs::extension::ExtensionType::new(t.as_u64().unwrap_or(0xF010) as u16), d.clone()));
                            }
                        }
                        None => el.set(mls_rs::Extension::new(mls_rs::extension::ExtensionType::new(0xF010), d)),
                    }
                    b = mls!(b.set_group_context_ext(el));
                }
                if let Some(d) = custom {
                    b = b.custom_proposal(mls_rs::group::proposal::CustomProposal::new(mls_rs::group::proposal::ProposalType::new(0xF001), d));
                }
                if reinit {
                    b = mls!(b.reinit(new_gid, mls_rs::ProtocolVersion::MLS_10, suite, ExtensionList::new()));
                }
                // insider: a resumption PSK proposal naming ANY group id / epoch (the builder's own
                // method always names the group itself)
                for rp in op["raw_psk"].as_array().cloned().unwrap_or_default() {
                    use mls_rs_codec::MlsDecode;
                    let gidb = hex::decode(rp["gid"].as_str().unwrap_or("")).unwrap_or_default();
                    let mut bytes = vec![0u8, 4, 2, rp["usage"].as_u64().unwrap_or(1) as u8];
                    bytes.push(gidb.len() as u8);
                    bytes.extend_from_slice(&gidb);
                    bytes.extend_from_slice(&rp["epoch"].as_u64().unwrap_or(0).to_be_bytes());
                    bytes.push(32);
                    bytes.extend_from_slice(&[0x5au8; 32]);
                    let p = mls_rs::group::proposal::Proposal::mls_decode(&mut &*bytes).map_err(|e| format!("raw_psk:{e:?}"))?;
                    b = b.raw_proposal(p);
                }
                if op["new_id"].as_bool().unwrap_or(false) {
                    // the committer rotates its signature key in this commit (same basic identity)
                    use mls_rs_core::crypto::{CipherSuiteProvider, CryptoProvider};
                    let cs = mls_rs_crypto_openssl::OpensslCryptoProvider::default().cipher_suite_provider(suite).ok_or("nosuite")?;
                    let (sk, pk) = cs.signature_key_generate().map_err(|e| format!("{e:?}"))?;
                    let ident = SigningIdentity::new(BasicCredential::new(who.as_bytes().to_vec()).into_credential(), pk);
                    b = b.set_new_signing_identity(sk, ident);
                }
                b = b.authenticated_data(aad);
                let (out, secrets) = if detached {
                    let (o, s) = mls!(b.build_detached());
                    (o, Some(s))
                } else {
                    (mls!(b.build()), None)
                };
                self.msgs.insert(id.clone(), mls!(out.commit_message.to_bytes()));
                for (i, w) in out.welcome_messages.iter().enumerate() {
                    self.msgs.insert(format!("{id}.w{i}"), mls!(w.to_bytes()));
                }
                if let Some(t) = &out.ratchet_tree {
                    self.trees.insert(format!("{id}.tree"), mls!(t.to_bytes()));
                }
                if let Some(gi) = &out.external_commit_group_info {
                    self.msgs.insert(format!("{id}.gi"), mls!(gi.to_bytes()));
                }
                if let Some(s) = secrets {
                    self.msgs.insert(format!("{id}.secrets"), mls!(s.to_bytes()));
                }
                let mut unused: Vec<&str> = out.unused_proposals.iter().map(|p| prop_kind(&p.proposal)).collect();
                unused.sort();
                Ok(json!({"welcomes": out.welcome_messages.len(), "tree": out.ratchet_tree.is_some(), "gi": out.external_commit_group_info.is_some(), "path": out.contains_update_path, "unused": unused}))
            }
            "apply" => {
                let d = mls!(grp!().apply_pending_commit());
                Ok(Self::describe_commit(&d))
            }
            "apply_detached" => {
                let b = self.msgs.get(op["secrets"].as_str().unwrap_or("")).ok_or("no secrets")?.clone();
                let s = mls!(mls_rs::group::CommitSecrets::from_bytes(&b));
                let d = mls!(grp!().apply_detached_commit(s));
                Ok(Self::describe_commit(&d))
            }
            "clear" => {
                grp!().clear_pending_commit();
                Ok(json!({}))
            }
            "sweep" => {
                // Systematic corruption of one stored message / tree, every variant processed by a
                // CLONE of the target: never a panic, never acceptance, state unchanged on error,
                // the genuine message still accepted afterwards (sampled).
                use std::panic::{catch_unwind, AssertUnwindSafe};
                let key = op["msg"].as_str().unwrap_or("").to_string();
                let genuine = self.msgs.get(&key).or_else(|| self.trees.get(&key)).ok_or("no message")?.clone();
                let other = op["other"].as_str().and_then(|k| self.msgs.get(k).or_else(|| self.trees.get(k))).cloned();
                let kind = op["kind"].as_str().unwrap_or("bits").to_string();
                let stride = op["stride"].as_u64().unwrap_or(1).max(1) as usize;
                let genuine_every = op["genuine_every"].as_u64().unwrap_or(16).max(1) as usize;
                let target = op["target"].as_str().unwrap_or("member").to_string();
                let mut variants: Vec<(String, Vec<u8>)> = vec![];
                match kind.as_str() {
                    "bits" => {
                        let mut bit = op["offset"].as_u64().unwrap_or(0) as usize;
                        while bit < genuine.len() * 8 {
                            let mut b = genuine.clone();
                            b[bit / 8] ^= 1 << (bit % 8);
                            variants.push((format!("flip{bit}"), b));
                            bit += stride;
                        }
                    }
                    "trunc" => {
                        let mut l = 0;
                        while l < genuine.len() {
                            variants.push((format!("trunc{l}"), genuine[..l].to_vec()));
                            l += stride;
                        }
                        let mut b = genuine.clone();
                        b.push(0);
                        variants.push(("append0".into(), b));
                    }
                    "splice" => {
                        // ranges of the other message (same offsets, and end-aligned) written over this one
                        if let Some(o) = &other {
                            let n = genuine.len().min(o.len());
                            let mut st = op["seed"].as_u64().unwrap_or(1).wrapping_mul(0x9E3779B97F4A7C15) | 1;
                            let mut next = |m: usize| { st ^= st << 13; st ^= st >> 7; st ^= st << 17; (st as usize) % m.max(1) };
                            let count = op["count"].as_u64().unwrap_or(200) as usize;
                            for _ in 0..count {
                                let a = next(n);
                                let len = 1 + next((n - a).min(96));
                                let mut b = genuine.clone();
                                b[a..a + len].copy_from_slice(&o[a..a + len]);
                                if b != genuine {
                                    variants.push((format!("splice{a}+{len}"), b));
                                }
                                // end-aligned (signatures and tags sit at the end)
                                let mut b = genuine.clone();
                                let (gl, ol) = (genuine.len(), o.len());
                                if len <= gl && len <= ol && a + len <= gl.min(ol) {
                                    b[gl - a - len..gl - a].copy_from_slice(&o[ol - a - len..ol - a]);
                                    if b != genuine {
                                        variants.push((format!("splice_end{a}+{len}"), b));
                                    }
                                }
                            }
                            variants.push(("whole_other".into(), o.clone()));
                        }
                    }
                    _ => {}
                }
                let mut errors: BTreeMap<String, u64> = BTreeMap::new();
                let (mut accepted, mut panics, mut changed, mut refused) = (vec![], vec![], vec![], vec![]);
                let mut genuine_ok = 0u64;
                let total = variants.len();
                match target.as_str() {
                    "member" => {
                        let base = self.members.get(&who).and_then(|m| m.group.clone()).ok_or("NoGroup")?;
                        let snap0 = mls!(base.verif_snapshot());
                        let gmsg = MlsMessage::from_bytes(&genuine).map_err(|e| format!("decode:{}", err_name(&e)))?;
                        // what the genuine message does (for the same-effect comparison)
                        let mut gg = base.clone();
                        let genuine_result = gg.process_incoming_message(gmsg.clone()).map(|_| gg.verif_snapshot().ok());
                        for (vi, (name, bytes)) in variants.iter().enumerate() {
                            let m = match MlsMessage::from_bytes(bytes) {
                                Ok(m) => m,
                                Err(_) => { *errors.entry("decode".into()).or_default() += 1; continue; }
                            };
                            let mut g = base.clone();
                            let r = catch_unwind(AssertUnwindSafe(|| g.process_incoming_message(m)));
                            match r {
                                Err(_) => panics.push(json!(name)),
                                Ok(Ok(_)) => {
                                    let same = matches!(&genuine_result, Ok(Some(s)) if g.verif_snapshot().ok().as_ref() == Some(s));
                                    accepted.push(json!({"variant": name, "same_effect_as_genuine": same}));
                                }
                                Ok(Err(e)) => {
                                    let en = err_name(&e);
                                    *errors.entry(en.clone()).or_default() += 1;
                                    if g.verif_snapshot().ok().as_ref() != Some(&snap0) {
                                        changed.push(json!({"variant": name, "err": en}));
                                    }
                                    if vi % genuine_every == 0 && genuine_result.is_ok() {
                                        match catch_unwind(AssertUnwindSafe(|| g.process_incoming_message(gmsg.clone()))) {
                                            Ok(Ok(_)) => genuine_ok += 1,
                                            Ok(Err(e2)) => refused.push(json!({"variant": name, "err": en, "genuine_err": err_name(&e2)})),
                                            Err(_) => panics.push(json!(format!("{name}:genuine_after"))),
                                        }
                                    }
                                }
                            }
                        }
                        Ok(json!({"n": total, "genuine": genuine_result.as_ref().map(|_| "ok".to_string()).unwrap_or_else(|e| err_name(e)), "errors": errors, "accepted": accepted, "panics": panics, "state_changed": changed, "genuine_refused": refused, "genuine_ok": genuine_ok}))
                    }
                    "join" | "join_tree" => {
                        // Welcome (or the out-of-band tree) for a joiner
                        let tree_key = op["tree"].as_str().map(|s| s.to_string());
                        let gtree = match &tree_key { Some(t) => Some(self.trees.get(t).ok_or("no tree")?.clone()), None => None };
                        let wkey = op["welcome"].as_str().unwrap_or(&key).to_string();
                        let gw = self.msgs.get(&wkey).ok_or("no welcome")?.clone();
                        let m = self.members.get(&who).ok_or("no such member")?;
                        let join = |w: &[u8], t: Option<&Vec<u8>>| -> Result<Result<Vec<u8>, String>, ()> {
                            let wm = match MlsMessage::from_bytes(w) { Ok(x) => x, Err(_) => return Ok(Err("decode".into())) };
                            let tr = match t { Some(tb) => match ExportedTree::from_bytes(tb) { Ok(x) => Some(x.into_owned()), Err(_) => return Ok(Err("decode_tree".into())) }, None => None };
                            catch_unwind(AssertUnwindSafe(|| m.client.join_group(tr, &wm, None).map(|(g, _)| g.verif_snapshot().unwrap_or_default()).map_err(|e| err_name(&e)))).map_err(|_| ())
                        };
                        let gres = join(&gw, gtree.as_ref());
                        for (name, bytes) in variants.iter() {
                            let r = if target == "join" { join(bytes, gtree.as_ref()) } else { join(&gw, Some(bytes)) };
                            match r {
                                Err(()) => panics.push(json!(name)),
                                Ok(Err(e)) => { *errors.entry(e).or_default() += 1; }
                                Ok(Ok(snap)) => {
                                    let same = matches!(&gres, Ok(Ok(s)) if s == &snap);
                                    accepted.push(json!({"variant": name, "same_effect_as_genuine": same}));
                                }
                            }
                        }
                        Ok(json!({"n": total, "genuine": match &gres { Ok(Ok(_)) => "ok".to_string(), Ok(Err(e)) => e.clone(), Err(()) => "PANIC".into() }, "errors": errors, "accepted": accepted, "panics": panics}))
                    }
                    "observe" | "observe_tree" => {
                        // GroupInfo (or tree) handed to an outside observer
                        let tree_key = op["tree"].as_str().map(|s| s.to_string());
                        let gtree = match &tree_key { Some(t) => Some(self.trees.get(t).ok_or("no tree")?.clone()), None => None };
                        let gikey = op["gi"].as_str().unwrap_or(&key).to_string();
                        let ggi = self.msgs.get(&gikey).ok_or("no group info")?.clone();
                        let mk = &self.mk_obs;
                        let obs = |gi: &[u8], t: Option<&Vec<u8>>| -> Result<Result<Vec<u8>, String>, ()> {
                            let gm = match MlsMessage::from_bytes(gi) { Ok(x) => x, Err(_) => return Ok(Err("decode".into())) };
                            let tr = match t { Some(tb) => match ExportedTree::from_bytes(tb) { Ok(x) => Some(x.into_owned()), Err(_) => return Ok(Err("decode_tree".into())) }, None => None };
                            catch_unwind(AssertUnwindSafe(|| mk(None, None, true).observe_group(gm, tr, None).map(|g| g.group_context().mls_encode_to_vec().unwrap_or_default()).map_err(|e| err_name(&e)))).map_err(|_| ())
                        };
                        let gres = obs(&ggi, gtree.as_ref());
                        for (name, bytes) in variants.iter() {
                            let r = if target == "observe" { obs(bytes, gtree.as_ref()) } else { obs(&ggi, Some(bytes)) };
                            match r {
                                Err(()) => panics.push(json!(name)),
                                Ok(Err(e)) => { *errors.entry(e).or_default() += 1; }
                                Ok(Ok(c)) => {
                                    let same = matches!(&gres, Ok(Ok(s)) if s == &c);
                                    accepted.push(json!({"variant": name, "same_effect_as_genuine": same}));
                                }
                            }
                        }
                        Ok(json!({"n": total, "genuine": match &gres { Ok(Ok(_)) => "ok".to_string(), Ok(Err(e)) => e.clone(), Err(()) => "PANIC".into() }, "errors": errors, "accepted": accepted, "panics": panics}))
                    }
                    _ => Err("bad sweep target".into()),
                }
            }
            "secrets_dump" => {
                // key schedule of the current epoch (through the hook) for the RFC comparison of C13
                let g = grp!();
                let (ks, res) = mls!(g.verif_epoch_secrets());
                let ctx = mls!(g.context().mls_encode_to_vec());
                Ok(json!({"ks": hex::encode(ks), "resumption": hex::encode(res), "ctx": hex::encode(ctx), "epoch": g.current_epoch(),
                          "auth": hex::encode(mls!(g.epoch_authenticator()).as_bytes())}))
            }
            "ctx_dump" => {
                let g = grp!();
                let ctx = mls!(g.context().mls_encode_to_vec());
                Ok(json!({"ctx": hex::encode(ctx), "mkey": hex::encode(g.verif_membership_key()), "epoch": g.current_epoch(), "idx": g.current_member_index()}))
            }
            "sigkey" => {
                let m = self.members.get(&who).ok_or("no such member")?;
                Ok(json!({"pk": hex::encode(m.identity.signature_key.as_bytes())}))
            }
            "sigverify" => {
                use mls_rs_core::crypto::{CipherSuiteProvider, CryptoProvider};
                let cs = mls_rs_crypto_openssl::OpensslCryptoProvider::default().cipher_suite_provider(self.suite).ok_or("nosuite")?;
                let pk = mls_rs_core::crypto::SignaturePublicKey::from(hexd(&op["pk"]));
                let ok = cs.verify(&pk, &hexd(&op["sig"]), &hexd(&op["data"])).is_ok();
                Ok(json!({"valid": ok}))
            }
            "remac" => {
                // insider: alter a public message (flip one bit at `bit`, counted from the END when
                // `from_end` is set) and give it a valid membership tag again
                let mut b = self.msgs.get(op["src"].as_str().unwrap_or("")).ok_or("no message")?.clone();
                let bit = op["bit"].as_u64().unwrap_or(0) as usize;
                let pos = if op["from_end"].as_bool().unwrap_or(false) { b.len() * 8 - 1 - bit } else { bit };
                if pos / 8 < b.len() {
                    b[pos / 8] ^= 1 << (pos % 8);
                }
                let out = mls!(grp!().verif_remac(&b));
                self.msgs.insert(id, out);
                Ok(json!({}))
            }
            "preset" => {
                grp!().verif_set_commit_preset(op["preset"].as_str().unwrap_or("none"));
                Ok(json!({}))
            }
            "clear_proposals" => {
                grp!().clear_proposal_cache();
                Ok(json!({}))
            }
            "deliver" => {
                let to = op["to"].as_str().unwrap_or("").to_string();
                let msg = self.msg(op["msg"].as_str().unwrap_or(""))?;
                let g = self.members.get_mut(&to).ok_or("no such member")?.group.as_mut().ok_or("NoGroup")?;
                // roster BEFORE processing: the sender is a member of the epoch the message was made in
                let names: Vec<(u32, String)> = g.roster().members_iter().map(|mm| (mm.index, mm.signing_identity.credential.as_basic().map(|b| String::from_utf8_lossy(&b.identifier).to_string()).unwrap_or_default())).collect();
                let r = mls!(g.process_incoming_message(msg));
                let mut d = self.describe(&r);
                let idx = match &r {
                    ReceivedMessage::ApplicationMessage(a) => Some(a.sender_index),
                    ReceivedMessage::Commit(c) if !c.is_external => Some(c.committer),
                    ReceivedMessage::Proposal(p) => match p.sender { mls_rs::group::ProposalSender::Member(i) => Some(i), _ => None },
                    _ => None,
                };
                if let Some(i) = idx {
                    d["sender_name"] = json!(names.iter().find(|(k, _)| *k == i).map(|(_, n)| n.clone()));
                }
                Ok(d)
            }
            "app" => {
                // "burn": n  -> n messages are encrypted and thrown away first (the message then carries
                // a generation n ahead of what any receiver has seen)
                for _ in 0..op["burn"].as_u64().unwrap_or(0) {
                    mls!(grp!().encrypt_application_message(b"", vec![]));
                }
                let msg = mls!(grp!().encrypt_application_message(&hexd(&op["data"]), aad));
                self.msgs.insert(id, mls!(msg.to_bytes()));
                Ok(json!({}))
            }
            "group_info" => {
                let tree_ext = op["tree_ext"].as_bool().unwrap_or(true);
                let msg = if op["ext_commit"].as_bool().unwrap_or(false) {
                    mls!(grp!().group_info_message_allowing_ext_commit(tree_ext))
                } else {
                    mls!(grp!().group_info_message(tree_ext))
                };
                self.msgs.insert(id.clone(), mls!(msg.to_bytes()));
                let t = mls!(grp!().export_tree().to_bytes());
                self.trees.insert(format!("{id}.tree"), t);
                Ok(json!({}))
            }
            "join" => {
                let tree = match op["tree"].as_str() {
                    Some(t) => Some(mls!(ExportedTree::from_bytes(self.trees.get(t).ok_or("no tree")?)).into_owned()),
                    None => None,
                };
                // "welcome": one message id; "welcome_any": commit id, try <id>.w0, <id>.w1, ...
                let mut cands = vec![];
                if let Some(w) = op["welcome"].as_str() {
                    cands.push(w.to_string());
                }
                if let Some(c) = op["welcome_any"].as_str() {
                    let mut i = 0;
                    while self.msgs.contains_key(&format!("{c}.w{i}")) {
                        cands.push(format!("{c}.w{i}"));
                        i += 1;
                    }
                }
                let mut last = "NoWelcome".to_string();
                for wid in cands {
                    let w = self.msg(&wid)?;
                    let m = self.members.get_mut(&who).ok_or("no such member")?;
                    match m.client.join_group(tree.clone(), &w, None) {
                        Ok((g, _info)) => {
                            m.group = Some(g);
                            return Ok(json!({"welcome": wid}));
                        }
                        Err(e) => last = err_name(&e),
                    }
                }
                Err(last)
            }
            "ext_commit" => {
                let gi = self.msg(op["gi"].as_str().unwrap_or(""))?;
                let tree = match op["tree"].as_str() {
                    Some(t) => Some(mls!(ExportedTree::from_bytes(self.trees.get(t).ok_or("no tree")?)).into_owned()),
                    None => None,
                };
                let m = self.members.get_mut(&who).ok_or("no such member")?;
                let mut b = mls!(m.client.external_commit_builder());
                if let Some(t) = tree {
                    b = b.with_tree_data(t);
                }
                if let Some(r) = op["remove"].as_u64() {
                    b = b.with_removal(r as u32);
                }
                if op["remove_self"].as_bool().unwrap_or(false) {
                    if let Some(old) = m.group.as_ref() {
                        b = b.with_removal(old.current_member_index());
                    }
                }
                for p in op["psk"].as_array().cloned().unwrap_or_default() {
                    b = b.with_external_psk(mls_rs::psk::ExternalPskId::new(hexd(&p)));
                }
                let (g, msg) = mls!(b.build(gi));
                m.group = Some(g);
                self.msgs.insert(id, mls!(msg.to_bytes()));
                Ok(json!({}))
            }
            "ext_add" => {
                // a non-member proposes its own addition (NewMemberProposal sender)
                let gi = self.msg(op["gi"].as_str().unwrap_or(""))?;
                let tree = match op["tree"].as_str() {
                    Some(t) => Some(mls!(ExportedTree::from_bytes(self.trees.get(t).ok_or("no tree")?)).into_owned()),
                    None => None,
                };
                let m = self.members.get_mut(&who).ok_or("no such member")?;
                let msg = mls!(m.client.external_add_proposal(&gi, tree, aad, ExtensionList::new(), ExtensionList::new(), None));
                self.msgs.insert(id, mls!(msg.to_bytes()));
                Ok(json!({}))
            }
            "save" => {
                if op["no_tree"].as_bool().unwrap_or(false) {
                    // the state goes to storage without the ratchet tree; the tree is kept aside
                    let t = mls!(grp!().export_tree().to_bytes());
                    self.trees.insert(format!("saved.{who}"), t);
                    mls!(grp!().write_to_storage_without_ratchet_tree());
                } else {
                    mls!(grp!().write_to_storage());
                }
                Ok(json!({}))
            }
            "load" => {
                let m = self.members.get_mut(&who).ok_or("no such member")?;
                let gid = match op["gid"].as_str() {
                    Some(g) => hex::decode(g).unwrap_or_default(),
                    None => m.group.as_ref().map(|g| g.group_id().to_vec()).ok_or("NoGroup")?,
                };
                m.group = None;
                let g = if op["no_tree"].as_bool().unwrap_or(false) {
                    let t = self.trees.get(&format!("saved.{who}")).ok_or("no saved tree")?;
                    let tree = mls!(ExportedTree::from_bytes(t)).into_owned();
                    mls!(m.client.load_group_with_ratchet_tree(&gid, tree))
                } else {
                    mls!(m.client.load_group(&gid))
                };
                m.group = Some(g);
                Ok(json!({}))
            }
            "drop" => {
                self.members.get_mut(&who).ok_or("no such member")?.group = None;
                Ok(json!({}))
            }
            "psk_insert" => {
                let m = self.members.get_mut(&who).ok_or("no such member")?;
                m.pskstore.inner.insert(mls_rs::psk::ExternalPskId::new(hexd(&op["psk_id"])), mls_rs::psk::PreSharedKey::new(hexd(&op["value"])));
                Ok(json!({}))
            }
            "mutate" => {
                let mut b = self.msgs.get(op["src"].as_str().unwrap_or("")).ok_or("no message")?.clone();
                match op["how"].as_str().unwrap_or("") {
                    "flip" => {
                        let bit = op["bit"].as_u64().unwrap_or(0) as usize;
                        if bit / 8 < b.len() {
                            b[bit / 8] ^= 1 << (bit % 8);
                        }
                    }
                    "trunc" => b.truncate(op["len"].as_u64().unwrap_or(0) as usize),
                    "set" => b = hexd(&op["bytes"]),
                    _ => {}
                }
                self.msgs.insert(id, b);
                Ok(json!({}))
            }
            "dump" => {
                let key = op["msg"].as_str().unwrap_or("");
                let b = self.msgs.get(key).or_else(|| self.trees.get(key)).ok_or("no message")?;
                Ok(json!({"hex": hex::encode(b)}))
            }
            "dump_snapshot" => {
                let s = mls!(grp!().verif_snapshot());
                Ok(json!({"hex": hex::encode(s)}))
            }
            "tree_dump" => {
                let g = grp!();
                let t = mls!(g.export_tree().to_bytes());
                // the member's whole state, for its hash cache (TreeKemPublic::tree_hashes) next to its own node vector
                let snap = g.verif_snapshot().map(hex::encode).unwrap_or_default();
                Ok(json!({"tree": hex::encode(t), "tree_hash": hex::encode(&g.context().tree_hash), "suite": u16::from(g.cipher_suite()), "snapshot": snap}))
            }
            "obs_join" => {
                let gi = self.msg(op["gi"].as_str().unwrap_or(""))?;
                let tree = match op["tree"].as_str() {
                    Some(t) => Some(mls!(ExportedTree::from_bytes(self.trees.get(t).ok_or("no tree")?)).into_owned()),
                    None => None,
                };
                let signer = match op["signer_of"].as_str() {
                    Some(n) => self.members.get(n).map(|m| (m.signer.clone(), m.identity.clone())),
                    None => None,
                };
                if let Some(n) = op["signer_of"].as_str() {
                    self.obs_signer.insert(who.clone(), n.to_string());
                }
                // "no_cache": an observer that does not keep the proposals it sees (it still has to know its own)
                if op["no_cache"].as_bool().unwrap_or(false) {
                    self.obs_nocache.insert(who.clone());
                }
                let ec = (self.mk_obs)(op["jitter"].as_u64(), signer, !self.obs_nocache.contains(&who));
                let g = mls!(ec.observe_group(gi, tree, None));
                self.observers.insert(who.clone(), g);
                Ok(json!({}))
            }
            "obs_deliver" => {
                let to = op["to"].as_str().unwrap_or("").to_string();
                let msg = self.msg(op["msg"].as_str().unwrap_or(""))?;
                let mid = op["msg"].as_str().unwrap_or("").to_string();
                let g = self.observers.get_mut(&to).ok_or("no such observer")?;
                let r = mls!(g.process_incoming_message(msg));
                // the stateless-server pattern: what the observer would persist for a proposal
                if let ExternalReceivedMessage::Proposal(p) = &r {
                    if let Ok(b) = p.clone().cached_proposal().to_bytes() {
                        self.msgs.insert(format!("cached:{mid}"), b);
                    }
                }
                Ok(match &r {
                    ExternalReceivedMessage::Commit(c) => Self::describe_commit(c),
                    ExternalReceivedMessage::Proposal(p) => json!({"kind": "proposal", "ptype": prop_kind(&p.proposal)}),
                    ExternalReceivedMessage::Ciphertext(ct) => json!({"kind": "ciphertext", "ctype": format!("{ct:?}")}),
                    ExternalReceivedMessage::GroupInfo(_) => json!({"kind": "group_info"}),
                    ExternalReceivedMessage::Welcome => json!({"kind": "welcome"}),
                    ExternalReceivedMessage::KeyPackage(_) => json!({"kind": "key_package"}),
                })
            }
            "reinit_kp" => {
                let g = grp!().clone();
                // "as": come back under the identity of another configured party (replaced identity)
                let alt = match op["new_suite"].as_u64() {
                    Some(ns) => Some(self.suite_identity(&who, ns as u16)?),
                    None => op["as"].as_str().and_then(|n| self.members.get(n)).map(|m| (m.signer.clone(), m.identity.clone())),
                };
                let rc = match alt {
                    Some((sk, idn)) => mls!(g.get_reinit_client(Some(sk), Some(idn))),
                    None => mls!(g.get_reinit_client(None, None)),
                };
                let kp = mls!(rc.generate_key_package(None));
                self.msgs.insert(id, mls!(kp.to_bytes()));
                Ok(json!({}))
            }
            "reinit_commit" => {
                let mut kps = vec![];
                for k in op["kps"].as_array().cloned().unwrap_or_default() {
                    kps.push(self.msg(k.as_str().unwrap_or(""))?);
                }
                let g = grp!().clone();
                // "as": the creator of the successor comes back under another configured party's identity
                let alt = match op["new_suite"].as_u64() {
                    Some(ns) => Some(self.suite_identity(&who, ns as u16)?),
                    None => op["as"].as_str().and_then(|n| self.members.get(n)).map(|m| (m.signer.clone(), m.identity.clone())),
                };
                let rc = match alt {
                    Some((sk, idn)) => mls!(g.get_reinit_client(Some(sk), Some(idn))),
                    None => mls!(g.get_reinit_client(None, None)),
                };
                let (ng, welcomes) = mls!(rc.commit(kps, ExtensionList::new(), None));
                for (i, w) in welcomes.iter().enumerate() {
                    self.msgs.insert(format!("{id}.w{i}"), mls!(w.to_bytes()));
                }
                self.trees.insert(format!("{id}.tree"), mls!(ng.export_tree().to_bytes()));
                self.members.get_mut(&who).ok_or("no such member")?.sub = Some(ng);
                Ok(json!({"welcomes": welcomes.len()}))
            }
            "reinit_join" | "join_subgroup" => {
                let c = op["welcome_any"].as_str().unwrap_or("").to_string();
                let mut cands = vec![];
                let mut i = 0;
                while self.msgs.contains_key(&format!("{c}.w{i}")) {
                    cands.push(format!("{c}.w{i}"));
                    i += 1;
                }
                if let Some(w) = op["welcome"].as_str() {
                    cands.push(w.to_string());
                }
                let tree = match op["tree"].as_str() {
                    Some(t) => Some(mls!(ExportedTree::from_bytes(self.trees.get(t).ok_or("no tree")?)).into_owned()),
                    None => None,
                };
                let mut last = "NoWelcome".to_string();
                for wid in cands {
                    let w = self.msg(&wid)?;
                    let g = grp!().clone();
                    let alt = match op["new_suite"].as_u64() {
                    Some(ns) => Some(self.suite_identity(&who, ns as u16)?),
                    None => op["as"].as_str().and_then(|n| self.members.get(n)).map(|m| (m.signer.clone(), m.identity.clone())),
                };
                    let r = if kind == "reinit_join" {
                        match (match alt { Some((sk, idn)) => g.get_reinit_client(Some(sk), Some(idn)), None => g.get_reinit_client(None, None) }) {
                            Ok(rc) => rc.join(&w, tree.clone(), None).map(|x| x.0),
                            Err(e) => Err(e),
                        }
                    } else {
                        g.join_subgroup(&w, tree.clone(), None).map(|x| x.0)
                    };
                    match r {
                        Ok(ng) => {
                            self.members.get_mut(&who).ok_or("no such member")?.sub = Some(ng);
                            return Ok(json!({"welcome": wid}));
                        }
                        Err(e) => last = err_name(&e),
                    }
                }
                Err(last)
            }
            "branch" => {
                let mut kps = vec![];
                for k in op["kps"].as_array().cloned().unwrap_or_default() {
                    kps.push(self.msg(k.as_str().unwrap_or(""))?);
                }
                let gid = hex::decode(op["gid"].as_str().unwrap_or("b0")).unwrap_or_default();
                let (ng, welcomes) = mls!(grp!().branch(gid, kps, None));
                for (i, w) in welcomes.iter().enumerate() {
                    self.msgs.insert(format!("{id}.w{i}"), mls!(w.to_bytes()));
                }
                self.trees.insert(format!("{id}.tree"), mls!(ng.export_tree().to_bytes()));
                if !op["discard"].as_bool().unwrap_or(false) {
                    self.members.get_mut(&who).ok_or("no such member")?.sub = Some(ng);
                }
                Ok(json!({"welcomes": welcomes.len()}))
            }
            "swap" => {
                let m = self.members.get_mut(&who).ok_or("no such member")?;
                std::mem::swap(&mut m.group, &mut m.sub);
                Ok(json!({}))
            }
            "obs_propose" => {
                // the observer acts as an EXTERNAL SENDER (it was created with signer_of)
                let kind = op["kind"].as_str().unwrap_or("").to_string();
                let msg = match kind.as_str() {
                    "add" => {
                        let kp = self.msg(op["kp"].as_str().unwrap_or(""))?;
                        let g = self.observers.get_mut(&who).ok_or("no such observer")?;
                        mls!(g.propose_add(kp, aad))
                    }
                    "remove" => {
                        let idx = match op["name"].as_str() {
                            Some(n) => {
                                let g = self.observers.get(&who).ok_or("no such observer")?;
                                g.roster().members_iter().find(|m| m.signing_identity.credential.as_basic().map(|b| b.identifier == n.as_bytes()).unwrap_or(false)).map(|m| m.index).ok_or("NoSuchMemberName")?
                            }
                            None => op["index"].as_u64().unwrap_or(0) as u32,
                        };
                        let g = self.observers.get_mut(&who).ok_or("no such observer")?;
                        mls!(g.propose_remove(idx, aad))
                    }
                    _ => return Err("bad obs_propose kind".into()),
                };
                self.msgs.insert(id, mls!(msg.to_bytes()));
                Ok(json!({}))
            }
            "obs_snapshot" => {
                let g = self.observers.get(&who).ok_or("no such observer")?;
                let b = mls!(g.snapshot().to_bytes());
                self.msgs.insert(id, b);
                Ok(json!({}))
            }
            "obs_restore" => {
                // load the observer from a snapshot taken earlier (what it held in memory since is gone)
                let b = self.msgs.get(op["snap"].as_str().unwrap_or("")).cloned().ok_or("no snapshot")?;
                let snap = mls!(ExternalSnapshot::from_bytes(&b));
                let signer = self.obs_signer.get(&who).and_then(|n| self.members.get(n)).map(|m| (m.signer.clone(), m.identity.clone()));
                let ec = (self.mk_obs)(op["jitter"].as_u64(), signer, !self.obs_nocache.contains(&who));
                let g2 = mls!(ec.load_group(snap));
                self.observers.insert(who.clone(), g2);
                Ok(json!({}))
            }
            "obs_insert" => {
                // re-insert a persisted proposal (ExternalGroup::insert_proposal)
                let b = self.msgs.get(&format!("cached:{}", op["msg"].as_str().unwrap_or(""))).cloned().ok_or("no cached proposal")?;
                let cp = mls!(mls_rs::group::CachedProposal::from_bytes(&b));
                let g = self.observers.get_mut(&who).ok_or("no such observer")?;
                g.insert_proposal(cp);
                Ok(json!({}))
            }
            "obs_reload" => {
                let g = self.observers.get(&who).ok_or("no such observer")?;
                let b = mls!(g.snapshot().to_bytes());
                let snap = mls!(ExternalSnapshot::from_bytes(&b));
                let signer = self.obs_signer.get(&who).and_then(|n| self.members.get(n)).map(|m| (m.signer.clone(), m.identity.clone()));
                let ec = (self.mk_obs)(op["jitter"].as_u64(), signer, !self.obs_nocache.contains(&who));
                let g2 = mls!(ec.load_group(snap));
                self.observers.insert(who.clone(), g2);
                Ok(json!({"bytes": b.len()}))
            }
            "observe" => Ok(json!({})),
            _ => Err(format!("unknown op {kind}")),
        }
    }
}

pub fn run_world<C: MlsConfig, E: ExternalMlsConfig + Clone + 'static>(script: &Value, mk: &dyn Fn(&Spec, &Parts, CipherSuite) -> Client<C>, mk_obs: fn(Option<u64>, Option<(SignatureSecretKey, SigningIdentity)>, bool) -> ExternalClient<E>, dir: &std::path::Path) -> i32 {
    let suite = CipherSuite::from(script["suite"].as_u64().unwrap_or(1) as u16);
    let mut world = World { observers: BTreeMap::new(), obs_signer: BTreeMap::new(), obs_nocache: Default::default(), mk_obs: Box::new(mk_obs), suite, members: BTreeMap::new(), msgs: HashMap::new(), trees: HashMap::new(), intern: Intern { map: HashMap::new() }, suite_ids: HashMap::new() };
    for m in script["members"].as_array().cloned().unwrap_or_default() {
        let spec = Spec {
            name: m["name"].as_str().unwrap_or("?").to_string(),
            provider: Kind::parse(m["provider"].as_str().unwrap_or("openssl")),
            storage: m["storage"].as_str().unwrap_or("mem").to_string(),
            retention: m["retention"].as_u64().unwrap_or(3),
            dir: dir.to_path_buf(),
            identity_name: m["identity_name"].as_str().map(|x| x.to_string()),
            exts: m["exts"].as_array().cloned().unwrap_or_default().iter().filter_map(|v| v.as_u64()).map(|v| v as u16).collect(),
        };
        let parts = match make_parts(&spec, suite) {
            Ok(p) => p,
            Err(e) => {
                println!("{}", json!({"setup_error": e, "member": spec.name}));
                return 1;
            }
        };
        let client = mk(&spec, &parts, suite);
        world.members.insert(
            spec.name.clone(),
            Member { name: spec.name.clone(), client, group: None, sub: None, ctl: parts.ctl, log: parts.log, gstore: parts.gstore, kpstore: parts.kpstore, pskstore: parts.pskstore, rules: parts.rules, suite, signer: parts.signer, identity: parts.identity },
        );
    }
    let ops = script["ops"].as_array().cloned().unwrap_or_default();
    for (i, op) in ops.iter().enumerate() {
        let subject = op["who"].as_str().or(op["to"].as_str()).unwrap_or("").to_string();
        // fault schedule and logs apply to this op only
        if let Some(m) = world.members.get(&subject) {
            let mut c = m.ctl.lock().unwrap();
            c.calls = 0;
            c.log.clear();
            c.fail_at = op["fail_at"].as_array().cloned().unwrap_or_default().iter().map(|v| v.as_u64().unwrap_or(0) as usize).collect();
            m.log.lock().unwrap().clear();
        }
        let before = if op["snap_before"].as_bool().unwrap_or(false) {
            world.members.get(&subject).and_then(|m| m.group.as_ref()).and_then(|g| g.verif_snapshot().ok()).map(|s| world.intern.id(&s))
        } else {
            None
        };
        let r = std::panic::catch_unwind(std::panic::AssertUnwindSafe(|| world.exec(op)));
        let mut rec = json!({"i": i, "op": op["op"], "who": subject});
        match r {
            Ok(Ok(info)) => {
                rec["ok"] = json!(true);
                rec["info"] = info;
            }
            Ok(Err(e)) => {
                rec["ok"] = json!(false);
                rec["err"] = json!(e);
            }
            Err(_) => {
                rec["ok"] = json!(false);
                rec["err"] = json!("PANIC");
            }
        }
        if let Some(b) = before {
            rec["snap_before"] = json!(b);
        }
        if let Some(m) = world.members.get(&subject).filter(|_| op["op"] != "sweep") {
            let c = m.ctl.lock().unwrap();
            if !c.log.is_empty() {
                rec["storage"] = json!(c.log);
            }
            let evs = m.log.lock().unwrap();
            let mut seals = vec![];
            let mut aead = vec![];
            for e in evs.iter() {
                match e {
                    Event::HpkeSeal { to, .. } => seals.push(world.intern.id(to)),
                    Event::AeadSeal { key, nonce } => aead.push(json!(["s", world.intern.id(key), world.intern.id(nonce)])),
                    Event::AeadOpen { key, nonce, ok } => aead.push(json!(["o", world.intern.id(key), world.intern.id(nonce), ok])),
                }
            }
            if !seals.is_empty() {
                rec["hpke_seal_to"] = json!(seals);
            }
            if !aead.is_empty() {
                rec["aead"] = json!(aead);
            }
        }
        let obs_who: Vec<String> = match &op["observe"] {
            Value::String(s) if s == "all" => world.members.keys().cloned().chain(world.observers.keys().cloned()).collect(),
            Value::String(s) => vec![s.clone()],
            Value::Bool(true) => vec![subject.clone()],
            Value::Array(a) => a.iter().filter_map(|v| v.as_str().map(|s| s.to_string())).collect(),
            _ => vec![],
        };
        if !obs_who.is_empty() {
            let mut o = serde_json::Map::new();
            for w in obs_who {
                o.insert(w.clone(), world.observe(&w));
            }
            rec["obs"] = Value::Object(o);
        }
        println!("{}", rec);
    }
    if script["dump_all"].as_bool().unwrap_or(false) {
        let mut keys: Vec<&String> = world.msgs.keys().collect();
        keys.sort();
        for k in keys {
            println!("{}", json!({"dump": k, "type": "MlsMessage", "hex": hex::encode(&world.msgs[k])}));
        }
        let mut keys: Vec<&String> = world.trees.keys().collect();
        keys.sort();
        for k in keys {
            println!("{}", json!({"dump": k, "type": "ExportedTree", "hex": hex::encode(&world.trees[k])}));
        }
        for (n, m) in world.members.iter() {
            if let Some(s) = m.group.as_ref().and_then(|g| g.verif_snapshot().ok()) {
                println!("{}", json!({"dump": format!("snapshot.{n}"), "type": "Snapshot", "hex": hex::encode(s)}));
            }
        }
    }
    0
}

pub fn run() -> i32 {
    std::panic::set_hook(Box::new(|_| {}));
    let mut input = String::new();
    std::io::Read::read_to_string(&mut std::io::stdin(), &mut input).unwrap();
    let dir = std::env::temp_dir().join(format!("mlsh-{}", std::process::id()));
    std::fs::create_dir_all(&dir).ok();
    let mut code = 0;
    // one script per line (JSON lines), so that one process can run a whole batch
    for line in input.lines() {
        if line.trim().is_empty() {
            continue;
        }
        let script: Value = match serde_json::from_str(line) {
            Ok(v) => v,
            Err(e) => {
                println!("{}", json!({"script_error": e.to_string()}));
                code = 1;
                continue;
            }
        };
        println!("{}", json!({"begin": script["name"]}));
        let sub = dir.join(format!("s{}", rand_id()));
        std::fs::create_dir_all(&sub).ok();
        code |= run_world(&script, &|s, p, cs| make_client(s, p, cs), make_observer, &sub);
        std::fs::remove_dir_all(&sub).ok();
        println!("{}", json!({"end": script["name"]}));
    }
    std::fs::remove_dir_all(&dir).ok();
    code
}

fn rand_id() -> u64 {
    use std::sync::atomic::{AtomicU64, Ordering};
    static N: AtomicU64 = AtomicU64::new(0);
    N.fetch_add(1, Ordering::Relaxed)
}
