//! Storage wrappers used by the history interpreter: every call is logged and counted and can
//! be made to fail (fault schedule), on top of the library's own in-memory and SQLite providers.
use mls_rs::storage_provider::in_memory::{InMemoryGroupStateStorage, InMemoryKeyPackageStorage, InMemoryPreSharedKeyStorage};
use mls_rs_core::error::IntoAnyError;
use mls_rs_core::group::{EpochRecord, GroupState, GroupStateStorage};
use mls_rs_core::key_package::{KeyPackageData, KeyPackageStorage};
use mls_rs_core::psk::{ExternalPskId, PreSharedKey, PreSharedKeyStorage};
use mls_rs_provider_sqlite::connection_strategy::FileConnectionStrategy;
use mls_rs_provider_sqlite::storage::SqLiteGroupStateStorage;
use mls_rs_provider_sqlite::SqLiteDataStorageEngine;
use std::collections::BTreeSet;
use std::sync::{Arc, Mutex};
use zeroize::Zeroizing;

#[derive(Debug)]
pub struct VErr(pub String);
impl std::fmt::Display for VErr {
    fn fmt(&self, f: &mut std::fmt::Formatter<'_>) -> std::fmt::Result {
        write!(f, "{}", self.0)
    }
}
impl std::error::Error for VErr {}
impl IntoAnyError for VErr {
    fn into_dyn_error(self) -> Result<Box<dyn std::error::Error + Send + Sync>, Self> {
        Ok(Box::new(self))
    }
}

/// Per-member fault control shared by all three stores of the member.
#[derive(Default)]
pub struct FaultCtl {
    pub calls: usize,
    pub fail_at: BTreeSet<usize>,
    pub log: Vec<String>,
}

pub type Ctl = Arc<Mutex<FaultCtl>>;

fn tick(ctl: &Ctl, what: &str) -> Result<(), VErr> {
    let mut c = ctl.lock().unwrap();
    let n = c.calls;
    c.calls += 1;
    let fail = c.fail_at.contains(&n);
    c.log.push(format!("{}{}", what, if fail { "!" } else { "" }));
    if fail {
        Err(VErr(format!("injected fault at storage call {n} ({what})")))
    } else {
        Ok(())
    }
}

#[derive(Clone)]
pub enum GroupBackend {
    Mem(InMemoryGroupStateStorage),
    Sqlite(SqLiteGroupStateStorage),
}

#[derive(Clone)]
pub struct VGroupStorage {
    pub backend: GroupBackend,
    pub ctl: Ctl,
}

impl VGroupStorage {
    pub fn mem(retention: usize, ctl: Ctl) -> Result<Self, String> {
        let s = InMemoryGroupStateStorage::new().with_max_epoch_retention(retention).map_err(|e| format!("{e:?}"))?;
        Ok(Self { backend: GroupBackend::Mem(s), ctl })
    }

    /// the storage a client gets when nothing is configured: `Default::default()`, no retention call
    pub fn mem_default(ctl: Ctl) -> Result<Self, String> {
        Ok(Self { backend: GroupBackend::Mem(InMemoryGroupStateStorage::default()), ctl })
    }

    /// `new()` without a retention call
    pub fn mem_new(ctl: Ctl) -> Result<Self, String> {
        Ok(Self { backend: GroupBackend::Mem(InMemoryGroupStateStorage::new()), ctl })
    }

    /// SQLite storage without a retention call
    pub fn sqlite_default(path: &std::path::Path, ctl: Ctl) -> Result<Self, String> {
        let eng = SqLiteDataStorageEngine::new(FileConnectionStrategy::new(path)).map_err(|e| format!("{e:?}"))?;
        let s = eng.group_state_storage().map_err(|e| format!("{e:?}"))?;
        Ok(Self { backend: GroupBackend::Sqlite(s), ctl })
    }

    pub fn sqlite(path: &std::path::Path, retention: u64, ctl: Ctl) -> Result<Self, String> {
        let eng = SqLiteDataStorageEngine::new(FileConnectionStrategy::new(path)).map_err(|e| format!("{e:?}"))?;
        let s = eng.group_state_storage().map_err(|e| format!("{e:?}"))?.with_max_epoch_retention(retention);
        Ok(Self { backend: GroupBackend::Sqlite(s), ctl })
    }

    /// Observation without fault injection or logging: which epochs of `gid` can be read back.
    pub fn probe_epochs(&self, gid: &[u8], upto: u64) -> Vec<u64> {
        (0..=upto)
            .filter(|e| match &self.backend {
                GroupBackend::Mem(s) => s.epoch(gid, *e).ok().flatten().is_some(),
                GroupBackend::Sqlite(s) => s.epoch(gid, *e).ok().flatten().is_some(),
            })
            .collect()
    }

    pub fn probe_state(&self, gid: &[u8]) -> Option<Vec<u8>> {
        match &self.backend {
            GroupBackend::Mem(s) => s.state(gid).ok().flatten().map(|z| z.to_vec()),
            GroupBackend::Sqlite(s) => s.state(gid).ok().flatten().map(|z| z.to_vec()),
        }
    }

    pub fn probe_max(&self, gid: &[u8]) -> Option<u64> {
        match &self.backend {
            GroupBackend::Mem(s) => s.max_epoch_id(gid).ok().flatten(),
            GroupBackend::Sqlite(s) => s.max_epoch_id(gid).ok().flatten(),
        }
    }
}

fn e<E: std::fmt::Debug>(x: E) -> VErr {
    VErr(format!("{x:?}"))
}

impl GroupStateStorage for VGroupStorage {
    type Error = VErr;

    fn state(&self, group_id: &[u8]) -> Result<Option<Zeroizing<Vec<u8>>>, VErr> {
        tick(&self.ctl, "gs.state")?;
        match &self.backend {
            GroupBackend::Mem(s) => s.state(group_id).map_err(e),
            GroupBackend::Sqlite(s) => s.state(group_id).map_err(e),
        }
    }

    fn epoch(&self, group_id: &[u8], epoch_id: u64) -> Result<Option<Zeroizing<Vec<u8>>>, VErr> {
        tick(&self.ctl, &format!("gs.epoch({epoch_id})"))?;
        match &self.backend {
            GroupBackend::Mem(s) => s.epoch(group_id, epoch_id).map_err(e),
            GroupBackend::Sqlite(s) => s.epoch(group_id, epoch_id).map_err(e),
        }
    }

    fn write(&mut self, state: GroupState, inserts: Vec<EpochRecord>, updates: Vec<EpochRecord>) -> Result<(), VErr> {
        let ins: Vec<u64> = inserts.iter().map(|r| r.id).collect();
        let upd: Vec<u64> = updates.iter().map(|r| r.id).collect();
        tick(&self.ctl, &format!("gs.write(ins={ins:?},upd={upd:?})"))?;
        match &mut self.backend {
            GroupBackend::Mem(s) => s.write(state, inserts, updates).map_err(e),
            GroupBackend::Sqlite(s) => s.write(state, inserts, updates).map_err(e),
        }
    }

    fn max_epoch_id(&self, group_id: &[u8]) -> Result<Option<u64>, VErr> {
        tick(&self.ctl, "gs.max_epoch_id")?;
        match &self.backend {
            GroupBackend::Mem(s) => s.max_epoch_id(group_id).map_err(e),
            GroupBackend::Sqlite(s) => s.max_epoch_id(group_id).map_err(e),
        }
    }
}

#[derive(Clone)]
pub struct VKeyPackageStorage {
    pub inner: InMemoryKeyPackageStorage,
    pub ctl: Ctl,
}

impl KeyPackageStorage for VKeyPackageStorage {
    type Error = VErr;
    fn delete(&mut self, id: &[u8]) -> Result<(), VErr> {
        tick(&self.ctl, "kp.delete")?;
        self.inner.delete(id);
        Ok(())
    }
    fn insert(&mut self, id: Vec<u8>, pkg: KeyPackageData) -> Result<(), VErr> {
        tick(&self.ctl, "kp.insert")?;
        self.inner.insert(id, pkg);
        Ok(())
    }
    fn get(&self, id: &[u8]) -> Result<Option<KeyPackageData>, VErr> {
        tick(&self.ctl, "kp.get")?;
        Ok(self.inner.get(id))
    }
}

#[derive(Clone)]
pub struct VPskStorage {
    pub inner: InMemoryPreSharedKeyStorage,
    pub ctl: Ctl,
}

impl PreSharedKeyStorage for VPskStorage {
    type Error = VErr;
    fn get(&self, id: &ExternalPskId) -> Result<Option<PreSharedKey>, VErr> {
        tick(&self.ctl, "psk.get")?;
        Ok(self.inner.get(id))
    }
}
