//! Counting global allocator: live and peak bytes since the last reset (per process; the
//! harness is single threaded while measuring).
use std::alloc::{GlobalAlloc, Layout, System};
use std::sync::atomic::{AtomicUsize, Ordering::Relaxed};

pub struct Counting;
static LIVE: AtomicUsize = AtomicUsize::new(0);
static PEAK: AtomicUsize = AtomicUsize::new(0);
static BASE: AtomicUsize = AtomicUsize::new(0);

unsafe impl GlobalAlloc for Counting {
    unsafe fn alloc(&self, l: Layout) -> *mut u8 {
        let p = System.alloc(l);
        if !p.is_null() {
            let live = LIVE.fetch_add(l.size(), Relaxed) + l.size();
            PEAK.fetch_max(live, Relaxed);
        }
        p
    }
    unsafe fn dealloc(&self, p: *mut u8, l: Layout) {
        System.dealloc(p, l);
        LIVE.fetch_sub(l.size(), Relaxed);
    }
    unsafe fn realloc(&self, p: *mut u8, l: Layout, new: usize) -> *mut u8 {
        let q = System.realloc(p, l, new);
        if !q.is_null() {
            if new >= l.size() {
                let live = LIVE.fetch_add(new - l.size(), Relaxed) + (new - l.size());
                PEAK.fetch_max(live, Relaxed);
            } else {
                LIVE.fetch_sub(l.size() - new, Relaxed);
            }
        }
        q
    }
}

pub fn reset() {
    let live = LIVE.load(Relaxed);
    BASE.store(live, Relaxed);
    PEAK.store(live, Relaxed);
}

/// peak bytes allocated above the level at the last reset
pub fn peak() -> usize {
    PEAK.load(Relaxed).saturating_sub(BASE.load(Relaxed))
}
