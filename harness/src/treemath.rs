//! `mlsh treemath`: one query per stdin line, one answer per stdout line.
//! Answers use the same canonical text as the Coq model printer:
//!   numbers in decimal, `N` = None, `P` = panic, lists as space separated items.
use mls_rs::verif::tree_math as tm;
use std::io::{BufRead, Write};
use std::panic::catch_unwind;

fn p<T, F: FnOnce() -> T + std::panic::UnwindSafe>(f: F) -> Option<T> {
    catch_unwind(f).ok()
}

pub fn run() -> i32 {
    std::panic::set_hook(Box::new(|_| {}));
    let stdin = std::io::stdin();
    let out = std::io::stdout();
    let mut out = std::io::BufWriter::new(out.lock());
    for line in stdin.lock().lines() {
        let line = line.unwrap();
        let mut it = line.split_whitespace();
        let Some(f) = it.next() else { continue };
        let a: Vec<u64> = it.map(|x| x.parse().unwrap()).collect();
        let u = |i: usize| a[i] as u32;
        let ans = match f {
            "root" => p(|| tm::root(u(0))).map(|v| v.to_string()),
            "left" => p(|| tm::left_unchecked(u(0))).map(|v| v.to_string()),
            "right" => p(|| tm::right_unchecked(u(0))).map(|v| v.to_string()),
            "parent_sibling" => p(|| tm::parent_sibling(u(0), u(1))).map(|v| match v {
                None => "N".to_string(),
                Some((a, b)) => format!("{} {}", a, b),
            }),
            "is_leaf" => p(|| tm::is_leaf(u(0))).map(|v| (v as u8).to_string()),
            "is_in_tree" => p(|| tm::is_in_tree(u(0), u(1))).map(|v| (v as u8).to_string()),
            "direct_copath" => p(|| tm::direct_copath(u(0), u(1))).map(|v| {
                v.iter()
                    .map(|(a, b)| format!("{} {}", a, b))
                    .collect::<Vec<_>>()
                    .join(" ")
            }),
            "lca" => p(|| tm::leaf_lca_level(u(0), u(1))).map(|v| v.to_string()),
            "subtree" => p(|| tm::subtree(u(0))).map(|(a, b)| format!("{} {}", a, b)),
            "bfs" => p(|| tm::bfs_top_down(a[0] as usize)).map(|v| {
                v.iter().map(|x| x.to_string()).collect::<Vec<_>>().join(" ")
            }),
            "leaf_index" => p(|| tm::leaf_index_try_from(u(0))).map(|v| match v {
                None => "N".to_string(),
                Some(x) => x.to_string(),
            }),
            // NodeVec::borrow_node on an all-blank vector of a[0] nodes: 1 = answered (a blank node), 0 = InvalidNodeIndex
            "nodevec" => p(|| {
                let nodes = mls_rs::group::NodeVec::from(vec![None; a[0] as usize]);
                match nodes.borrow_node(u(1)) {
                    Ok(_) => "1".to_string(),
                    Err(mls_rs::error::MlsError::InvalidNodeIndex(_)) => "0".to_string(),
                    Err(_) => "E".to_string(),
                }
            }),
            _ => Some("?".to_string()),
        };
        writeln!(out, "{}", ans.unwrap_or_else(|| "P".to_string())).unwrap();
    }
    0
}
