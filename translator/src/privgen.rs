//! Translate the loops that write a member's private keys: TreeKemPrivate::update_secrets and
//! update_leaf (tree_kem/private.rs) and the blanking loop of Group::provisional_private_tree
//! (group/mod.rs) into Gallina folds over Model/Priv.v's private state.  The iterator chain, the
//! skip count, the `continue` condition, the written index, the resize length and the node whose
//! public key is compared are taken from the source; anything else is refused (exit code 3).
use syn::*;

fn die(msg: &str) -> ! {
    eprintln!("rs2v privgen: cannot translate: {msg}");
    std::process::exit(3);
}

fn flat<T: quote::ToTokens>(t: &T) -> String {
    quote::quote!(#t).to_string().replace(' ', "")
}

fn parse(path: &str) -> File {
    let src = std::fs::read_to_string(path).unwrap_or_else(|e| panic!("{path}: {e}"));
    syn::parse_file(&src).unwrap_or_else(|e| panic!("{path}: {e}"))
}

fn method<'a>(f: &'a File, name: &str) -> &'a ImplItemFn {
    let mut v = vec![];
    for i in &f.items {
        if let Item::Impl(im) = i {
            if im.trait_.is_some() || im.attrs.iter().any(|a| flat(a).contains("cfg(test)")) {
                continue;
            }
            for it in &im.items {
                if let ImplItem::Fn(m) = it {
                    if m.sig.ident == name {
                        v.push(m);
                    }
                }
            }
        }
    }
    if v.len() != 1 {
        die(&format!("{} methods named {name}, expected 1", v.len()));
    }
    v[0]
}

/// `i + 1`, `i`, `path.len() + 1` ... over nat
fn nat_expr(e: &Expr, vars: &[(&str, &str)]) -> String {
    match e {
        Expr::Paren(p) => nat_expr(&p.expr, vars),
        Expr::Binary(b) if matches!(b.op, BinOp::Add(_)) => format!("({} + {})", nat_expr(&b.left, vars), nat_expr(&b.right, vars)),
        Expr::Lit(ExprLit { lit: Lit::Int(i), .. }) => i.base10_digits().to_string(),
        _ => {
            let s = flat(e);
            for (k, v) in vars {
                if s == *k {
                    return v.to_string();
                }
            }
            die(&format!("index expression `{s}`"))
        }
    }
}

fn resize_len(stmt: &Stmt, recv: &str) -> String {
    // <recv>.resize(path.len() + 1, None);
    let f = flat(stmt);
    let pre = format!("{recv}.resize(");
    let inner = f.strip_prefix(&pre).and_then(|r| r.strip_suffix(",None);")).unwrap_or_else(|| die(&format!("resize statement `{f}`")));
    let e: Expr = syn::parse_str(inner).unwrap_or_else(|_| die("resize length"));
    nat_expr(&e, &[("path.len()", "length path")])
}

fn update_secrets(pf: &File) -> String {
    let m = method(pf, "update_secrets");
    let st = &m.block.stmts;
    if st.len() != 7 {
        die(&format!("update_secrets has {} statements, expected 7", st.len()));
    }
    if flat(&st[0]) != "letlca_index=leaf_lca_level(self.self_index.into(),signer_index.into())asusize-2;" {
        die(&format!("lca_index is `{}`", flat(&st[0])));
    }
    if flat(&st[1]) != "letmutnode_secret_gen=PathSecretGenerator::starting_with(cipher_suite_provider,path_secret);" {
        die("path secret generator");
    }
    if flat(&st[2]) != "letpath=public_tree.nodes.direct_copath(self.self_index);" || flat(&st[3]) != "letfiltered=&public_tree.nodes.filtered(self.self_index)?;" {
        die("path / filtered bindings");
    }
    let len = resize_len(&st[4], "self.secret_keys");
    let Stmt::Expr(Expr::ForLoop(fl), _) = &st[5] else { die("statement 6 of update_secrets is not the loop") };
    if flat(&fl.pat) != "(i,(n,f))" {
        die(&format!("loop pattern `{}`", flat(&fl.pat)));
    }
    let it = flat(&fl.expr);
    let skip = it.strip_prefix("path.iter().zip(filtered).enumerate().skip(").and_then(|r| r.strip_suffix(')')).unwrap_or_else(|| die(&format!("loop iterator `{it}`")));
    if skip != "lca_index" {
        die(&format!("skip count `{skip}`"));
    }
    let b = &fl.body.stmts;
    if b.len() != 6 {
        die(&format!("loop body has {} statements, expected 6", b.len()));
    }
    // if *f { continue; }
    let cont = match &b[0] {
        Stmt::Expr(Expr::If(i), _) if i.else_branch.is_none() && flat(&i.then_branch) == "{continue;}" => match flat(&i.cond).as_str() {
            "*f" => "f",
            "!*f" => "negb f",
            x => die(&format!("continue condition `{x}`")),
        },
        _ => die("first statement of the loop body"),
    };
    if flat(&b[1]) != "letsecret=node_secret_gen.next_secret().await?;" {
        die("next_secret");
    }
    let pk = flat(&b[2]);
    let node = pk
        .strip_prefix("letexpected_pub_key=public_tree.nodes.borrow_node(")
        .and_then(|r| r.strip_suffix(")?.as_ref().map(|n|n.public_key()).ok_or(MlsError::PubKeyMismatch)?;"))
        .unwrap_or_else(|| die(&format!("expected public key `{pk}`")));
    let node = match node {
        "n.path" => "n",
        x => die(&format!("node of the expected key `{x}`")),
    };
    if flat(&b[3]) != "let(secret_key,public_key)=secret.to_hpke_key_pair(cipher_suite_provider).await?;" {
        die("key pair derivation");
    }
    if flat(&b[4]) != "ifexpected_pub_key!=&public_key{returnErr(MlsError::PubKeyMismatch);}" {
        die(&format!("public key comparison `{}`", flat(&b[4])));
    }
    let w = flat(&b[5]);
    let idx = w.strip_prefix("self.secret_keys[").and_then(|r| r.strip_suffix("]=Some(secret_key);")).unwrap_or_else(|| die(&format!("write `{w}`")));
    let idx = nat_expr(&syn::parse_str::<Expr>(idx).unwrap_or_else(|_| die("write index")), &[("i", "i")]);
    if flat(&st[6]) != "Ok(())" {
        die("last statement of update_secrets");
    }
    format!(
        "(* TreeKemPrivate::update_secrets: path = the nodes of the joiner's direct path (CopathNode.path),\n   filtered = one flag per node, ks = the public keys of the tree; the key derived for a node must be the\n   key of that node in the tree (PubKeyMismatch = None) *)\n\
Definition gen_update_secrets (ks : keys) (pr : priv) (path : list N) (filtered : list bool) (lca_index : nat) : option priv :=\n\
  fold_left (fun acc (x : nat * (N * bool)) => match acc with\n\
                          | None => None\n\
                          | Some sk => let '(i, (n, f)) := x in\n\
                                       if {cont} then Some sk\n\
                                       else match ks {node} with\n\
                                            | None => None\n\
                                            | Some key => Some (set_nth sk {idx} (Some key))\n\
                                            end\n\
                          end)\n\
            (skipn lca_index (enumerate (combine path filtered)))\n\
            (Some (resize pr {len})).\n"
    )
}

fn update_leaf(pf: &File) -> String {
    let m = method(pf, "update_leaf");
    let b = flat(&m.block);
    if b != "{self.secret_keys=vec![None;self.secret_keys.len()];self.secret_keys[0]=Some(new_leaf);}" {
        die(&format!("update_leaf is `{b}`"));
    }
    "(* TreeKemPrivate::update_leaf: every key is dropped, the new leaf key is installed *)\n\
Definition gen_update_leaf (pr : priv) (new_leaf : N) : priv := set_nth (repeat None (length pr)) 0 (Some new_leaf).\n"
        .to_string()
}

fn provisional(gf: &File) -> String {
    let m = method(gf, "provisional_private_tree");
    let st = &m.block.stmts;
    if st.len() < 6 {
        die("provisional_private_tree is too short");
    }
    if flat(&st[0]) != "letmutprovisional_private_tree=self.private_tree.clone();" || flat(&st[1]) != "letself_index=provisional_private_tree.self_index;" {
        die("first statements of provisional_private_tree");
    }
    if flat(&st[2]) != "letpath=provisional_state.public_tree.nodes.direct_copath(self_index);" {
        die(&format!("path binding `{}`", flat(&st[2])));
    }
    let len = resize_len(&st[3], "provisional_private_tree.secret_keys");
    let Stmt::Expr(Expr::ForLoop(fl), _) = &st[4] else { die("statement 5 of provisional_private_tree is not the loop") };
    if flat(&fl.pat) != "(i,n)" || flat(&fl.expr) != "path.iter().enumerate()" {
        die(&format!("blanking loop `for {} in {}`", flat(&fl.pat), flat(&fl.expr)));
    }
    if fl.body.stmts.len() != 1 {
        die("blanking loop body");
    }
    let (cond, idx) = match &fl.body.stmts[0] {
        Stmt::Expr(Expr::If(i), _) if i.else_branch.is_none() => {
            let c = match flat(&i.cond).as_str() {
                "provisional_state.public_tree.nodes.is_blank(n.path)?" => "blank n",
                x => die(&format!("blanking condition `{x}`")),
            };
            let w = flat(&i.then_branch);
            let idx = w.strip_prefix("{provisional_private_tree.secret_keys[").and_then(|r| r.strip_suffix("]=None;}")).unwrap_or_else(|| die(&format!("blanking write `{w}`")));
            (c, nat_expr(&syn::parse_str::<Expr>(idx).unwrap_or_else(|_| die("blanking index")), &[("i", "i")]))
        }
        _ => die("blanking loop body"),
    };
    // the own update: first update whose sender is this member; its pending leaf key replaces everything
    let rest: String = st[5..].iter().map(|s| flat(s)).collect();
    for needle in [
        "forpin&provisional_state.applied_proposals.updates{ifp.sender==Sender::Member(*self_index){",
        "provisional_private_tree.update_leaf(new_leaf_sk.ok_or(MlsError::UpdateErrorNoSecretKey)?);break;}}",
        "Ok((provisional_private_tree,new_signer))",
    ] {
        if !rest.contains(needle) {
            die(&format!("provisional_private_tree lacks `{needle}`"));
        }
    }
    format!(
        "(* Group::provisional_private_tree, the loop that drops the keys of blanked nodes: path = the nodes of\n   the member's direct path in the provisional tree, blank = is that node blank there *)\n\
Definition gen_provisional_blank (blank : N -> bool) (pr : priv) (path : list N) : priv :=\n\
  fold_left (fun sk (x : nat * N) => let '(i, n) := x in if {cond} then set_nth sk {idx} None else sk)\n\
            (enumerate path) (resize pr {len}).\n"
    )
}

fn kem_method<'a>(f: &'a File, name: &str) -> &'a ImplItemFn {
    method(f, name)
}

/// TreeKem::decap, the loop that installs the keys derived from the decrypted path secret
fn decap(kf: &File) -> String {
    let m = kem_method(kf, "decap");
    let st = &m.block.stmts;
    let fl: Vec<String> = st.iter().map(|s| flat(s)).collect();
    // path = direct_copath(self) with the own leaf put in front: path.len() = copath length + 1
    let p0 = fl.iter().position(|s| s == "letmutpath=self.tree_kem_public.nodes.direct_copath(self_index);").unwrap_or_else(|| die("decap: path binding"));
    if fl.get(p0 + 1).map(|s| s.as_str()) != Some("letleaf=CopathNode::new(self_index.into(),0);") || fl.get(p0 + 2).map(|s| s.as_str()) != Some("path.insert(0,leaf);") {
        die("decap: the own leaf is not inserted in front of the path");
    }
    if !fl.iter().any(|s| s == "letlca_index=tree_math::leaf_lca_level(self_index.into(),sender_index.into())asusize-2;") {
        die("decap: lca_index");
    }
    let r = st.iter().position(|s| flat(s).starts_with("self.private_key.secret_keys.resize(")).unwrap_or_else(|| die("decap: resize"));
    let len = {
        let f = flat(&st[r]);
        let inner = f.strip_prefix("self.private_key.secret_keys.resize(").and_then(|x| x.strip_suffix(",None);")).unwrap_or_else(|| die("decap: resize"));
        nat_expr(&syn::parse_str::<Expr>(inner).unwrap_or_else(|_| die("decap: resize length")), &[("path.len()", "(pathlen + 1)")])
    };
    let Some(Stmt::Expr(Expr::ForLoop(lp), _)) = st.get(r + 1) else { die("decap: no loop after the resize") };
    if flat(&lp.pat) != "(i,update)" || flat(&lp.expr) != "update_path.nodes.iter().enumerate().skip(lca_index)" {
        die(&format!("decap: loop `for {} in {}`", flat(&lp.pat), flat(&lp.expr)));
    }
    if lp.body.stmts.len() != 1 {
        die("decap: loop body");
    }
    let Stmt::Expr(Expr::If(i), _) = &lp.body.stmts[0] else { die("decap: loop body") };
    if flat(&i.cond) != "letSome(update)=update" {
        die("decap: loop condition");
    }
    let t: Vec<String> = i.then_branch.stmts.iter().map(|s| flat(s)).collect();
    if t.len() != 4 || t[0] != "letsecret=node_secret_gen.next_secret().await?;" || t[1] != "let(hpke_private,hpke_public)=secret.to_hpke_key_pair(cipher_suite_provider).await?;" || t[2] != "ifhpke_public!=update.public_key{returnErr(MlsError::PubKeyMismatch);}" {
        die(&format!("decap: Some branch {t:?}"));
    }
    let idx_some = t[3].strip_prefix("self.private_key.secret_keys[").and_then(|x| x.strip_suffix("]=Some(hpke_private);")).unwrap_or_else(|| die(&format!("decap: write `{}`", t[3])));
    let idx_some = nat_expr(&syn::parse_str::<Expr>(idx_some).unwrap_or_else(|_| die("decap: index")), &[("i", "i")]);
    let e = flat(&i.else_branch.as_ref().unwrap_or_else(|| die("decap: no else branch")).1);
    let idx_none = e.strip_prefix("{self.private_key.secret_keys[").and_then(|x| x.strip_suffix("]=None;}")).unwrap_or_else(|| die(&format!("decap: else branch `{e}`")));
    let idx_none = nat_expr(&syn::parse_str::<Expr>(idx_none).unwrap_or_else(|_| die("decap: index")), &[("i", "i")]);
    format!(
        "(* TreeKem::decap, the writes: nodes = the public keys of the update path (None = filtered node), each
   derived key must be the key of the node (PubKeyMismatch otherwise: not a state of this function);
   pathlen = length of the receiver's direct path *)
Definition gen_decap_writes (pr : priv) (pathlen : nat) (nodes : list (option N)) (lca_index : nat) : priv :=
  fold_left (fun sk (x : nat * option N) => let '(i, update) := x in
                                           match update with
                                           | Some key => set_nth sk {idx_some} (Some key)
                                           | None => set_nth sk {idx_none} None
                                           end)
            (skipn lca_index (enumerate nodes)) (resize pr {len}).
"
    )
}

/// TreeKem::encap, the committer's writes
fn encap(kf: &File) -> String {
    let m = kem_method(kf, "encap");
    let st = &m.block.stmts;
    let fl: Vec<String> = st.iter().map(|s| flat(s)).collect();
    if !fl.iter().any(|s| s == "letpath=self.tree_kem_public.nodes.direct_copath(self_index);") || !fl.iter().any(|s| s == "letfiltered=self.tree_kem_public.nodes.filtered(self_index)?;") {
        die("encap: path / filtered bindings");
    }
    let r = st.iter().position(|s| flat(s).starts_with("self.private_key.secret_keys.resize(")).unwrap_or_else(|| die("encap: resize"));
    let len = {
        let f = flat(&st[r]);
        let inner = f.strip_prefix("self.private_key.secret_keys.resize(").and_then(|x| x.strip_suffix(",None);")).unwrap_or_else(|| die("encap: resize"));
        nat_expr(&syn::parse_str::<Expr>(inner).unwrap_or_else(|_| die("encap: resize length")), &[("path.len()", "length path")])
    };
    let lp = st.iter().find_map(|s| if let Stmt::Expr(Expr::ForLoop(l), _) = s { Some(l) } else { None }).unwrap_or_else(|| die("encap: loop"));
    if flat(&lp.pat) != "(i,(node,f))" || flat(&lp.expr) != "path.iter().zip(&filtered).enumerate()" {
        die(&format!("encap: loop `for {} in {}`", flat(&lp.pat), flat(&lp.expr)));
    }
    let Some(Stmt::Expr(Expr::If(i), _)) = lp.body.stmts.first() else { die("encap: loop body") };
    if lp.body.stmts.len() != 1 {
        die("encap: loop body");
    }
    let c = match flat(&i.cond).as_str() {
        "!f" => "negb f",
        "*f" | "f" => "f",
        x => die(&format!("encap: condition `{x}`")),
    };
    let t: Vec<String> = i.then_branch.stmts.iter().map(|s| flat(s)).collect();
    let e: Vec<String> = match &i.else_branch { Some((_, b)) => match &**b { Expr::Block(bb) => bb.block.stmts.iter().map(|s| flat(s)).collect(), _ => die("encap: else") }, None => die("encap: no else branch") };
    // the branch that generates a key
    let (gen_b, blank_b) = if c == "negb f" { (&t, &e) } else { (&e, &t) };
    if gen_b.len() != 5 || gen_b[0] != "letsecret=secret_generator.next_secret().await?;" || gen_b[1] != "let(secret_key,public_key)=secret.to_hpke_key_pair(cipher_suite_provider).await?;" || gen_b[3] != "self.tree_kem_public.update_node(public_key,node.path)?;" || gen_b[4] != "path_secrets.push(Some(secret));" {
        die(&format!("encap: key branch {gen_b:?}"));
    }
    let idx_some = gen_b[2].strip_prefix("self.private_key.secret_keys[").and_then(|x| x.strip_suffix("]=Some(secret_key);")).unwrap_or_else(|| die("encap: key write"));
    let idx_some = nat_expr(&syn::parse_str::<Expr>(idx_some).unwrap_or_else(|_| die("encap: index")), &[("i", "i")]);
    if blank_b.len() != 2 || blank_b[1] != "path_secrets.push(None);" {
        die(&format!("encap: filtered branch {blank_b:?}"));
    }
    let idx_none = blank_b[0].strip_prefix("self.private_key.secret_keys[").and_then(|x| x.strip_suffix("]=None;")).unwrap_or_else(|| die("encap: filtered write"));
    let idx_none = nat_expr(&syn::parse_str::<Expr>(idx_none).unwrap_or_else(|_| die("encap: index")), &[("i", "i")]);
    let all: String = fl.concat();
    if !all.contains("self.private_key.secret_keys[0]=Some(own_leaf.commit(cipher_suite_provider,&context.group_id,*self_index,update_leaf_properties,signing_identity,signer,).await?,);") {
        die("encap: the new leaf key is not installed at position 0");
    }
    let (a, b) = if c == "negb f" { ("negb f", (idx_some.clone(), idx_none.clone())) } else { ("f", (idx_some.clone(), idx_none.clone())) };
    let (then_w, else_w) = if c == "negb f" {
        (format!("set_nth sk {} (Some (fk (N.of_nat {})))", b.0, b.0), format!("set_nth sk {} None", b.1))
    } else {
        (format!("set_nth sk {} None", b.1), format!("set_nth sk {} (Some (fk (N.of_nat {})))", b.0, b.0))
    };
    format!(
        "(* TreeKem::encap, the committer's writes: a fresh key (fk level) for every non-filtered node of its
   direct path, nothing for a filtered one, and the key of the new leaf at position 0 *)
Definition gen_encap_writes (pr : priv) (path : list N) (filtered : list bool) (fk : N -> N) (leafkey : N) : priv :=
  set_nth (fold_left (fun sk (x : nat * (N * bool)) => let '(i, (node, f)) := x in if {a} then {then_w} else {else_w})
                     (enumerate (combine path filtered)) (resize pr {len})) 0 (Some leafkey).
"
    )
}

/// the receiver's pipeline (Group::apply_update_path): the proposals' effect on the private tree comes
/// FIRST, for every commit with a path (member commits and external commits alike), and decap then works
/// on that provisional private tree with the leaves added by the commit excluded
fn receiver_pipeline(gf: &File) -> String {
    // the function lives in `impl MessageProcessor for Group<C>`
    let mut found: Option<&ImplItemFn> = None;
    for i in &gf.items {
        if let Item::Impl(im) = i {
            if im.trait_.as_ref().map(|t| flat(&t.1)).as_deref() != Some("MessageProcessor") {
                continue;
            }
            for it in &im.items {
                if let ImplItem::Fn(m) = it {
                    if m.sig.ident == "apply_update_path" {
                        found = Some(m);
                    }
                }
            }
        }
    }
    let m = found.unwrap_or_else(|| die("Group's apply_update_path not found"));
    let st: Vec<String> = m.block.stmts.iter().map(|s| flat(s)).collect();
    if st.first().map(|s| s.as_str()) != Some("let(mutprovisional_private_tree,_)=self.provisional_private_tree(provisional_state)?;") {
        die(&format!("apply_update_path does not start with the provisional private tree: `{}`", st.first().cloned().unwrap_or_default()));
    }
    let all = st.concat();
    if !all.contains("TreeKem::new(&mutprovisional_state.public_tree,&mutprovisional_private_tree,).decap(sender,update_path,&provisional_state.indexes_of_added_kpkgs,&context_bytes,&self.cipher_suite_provider,).await.map(|root_secret|Some((provisional_private_tree,root_secret)))") {
        die("apply_update_path: decap is not run on the provisional private tree with the added leaves excluded");
    }
    "(* Group::apply_update_path: provisional_private_tree, then the public path, then decap on the\n   provisional private tree excluding the leaves the commit added *)\nDefinition gen_receiver_pipeline : list nat := [1; 2; 3]%nat.\n".to_string()
}

pub fn run(repo: &str, out: &str) {
    let pf = parse(&format!("{repo}/mls-rs/src/tree_kem/private.rs"));
    let gf = parse(&format!("{repo}/mls-rs/src/group/mod.rs"));
    let kf = parse(&format!("{repo}/mls-rs/src/tree_kem/kem.rs"));
    let s = format!(
        "(* GENERATED by rs2v privgen from mls-rs/src/tree_kem/private.rs, tree_kem/kem.rs and group/mod.rs.  Do not edit. *)\n\
From Coq Require Import NArith List Bool Arith.\nFrom MlsV Require Import Res TreeMathGen Tree Priv.\nImport ListNotations.\nLocal Open Scope N_scope.\n\n{}\n{}\n{}\n{}\n{}\n{}",
        update_secrets(&pf),
        update_leaf(&pf),
        provisional(&gf),
        decap(&kf),
        encap(&kf),
        receiver_pipeline(&gf)
    );
    std::fs::write(out, s).unwrap();
}
