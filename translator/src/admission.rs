//! Translate MessageProcessor::check_metadata (group/message_processor.rs): the admission of an
//! incoming message by protocol version, group id, epoch and content type, into a Gallina
//! decision tree over the view of Model/Admission.v.  Statements are compiled in continuation
//! style: `if C { return Err(E) }` becomes `if C then E else <rest>`, the `match content_type`
//! becomes a match on the content type whose arms are compiled expression by expression.
//! Anything outside the supported forms is refused (exit code 3).
use std::collections::HashMap;
use syn::*;

fn die(msg: &str) -> ! {
    eprintln!("rs2v admission: cannot translate: {msg}");
    std::process::exit(3);
}

fn flat<T: quote::ToTokens>(t: &T) -> String {
    quote::quote!(#t).to_string().replace(' ', "")
}

struct Cx {
    lets: HashMap<String, String>, // boolean locals, already compiled
}

fn err_name(e: &Expr) -> String {
    // Err(MlsError::X) or MlsError::X
    let s = flat(e);
    let s = s.trim_start_matches("Err(").trim_end_matches(')').to_string();
    match s.as_str() {
        "MlsError::ProtocolVersionMismatch" => "AVersionMismatch".into(),
        "MlsError::GroupIdMismatch" => "AGroupIdMismatch".into(),
        "MlsError::InvalidEpoch" => "AInvalidEpoch".into(),
        "MlsError::UnencryptedApplicationMessage" => "AUnencryptedApplication".into(),
        x => die(&format!("error value `{x}`")),
    }
}

fn num(e: &Expr) -> String {
    match flat(e).as_str() {
        "epoch" => "epoch".into(),
        "context.epoch" => "av_epoch v".into(),
        "min" => "min".into(),
        "group_id" => "gid".into(),
        "&context.group_id" | "context.group_id" => "av_gid v".into(),
        x => die(&format!("operand `{x}`")),
    }
}

fn cond(cx: &Cx, e: &Expr) -> String {
    match e {
        Expr::Paren(p) => cond(cx, &p.expr),
        Expr::Path(p) => {
            let n = flat(p);
            cx.lets.get(&n).cloned().unwrap_or_else(|| die(&format!("boolean variable `{n}`")))
        }
        Expr::Unary(u) if matches!(u.op, UnOp::Not(_)) => format!("negb ({})", cond(cx, &u.expr)),
        Expr::Macro(m) if flat(m) == "matches!(&message.payload,MlsMessagePayload::Cipher(_))" => "cipher".into(),
        Expr::Binary(b) => match b.op {
            BinOp::And(_) => format!("({} && {})", cond(cx, &b.left), cond(cx, &b.right)),
            BinOp::Or(_) => format!("({} || {})", cond(cx, &b.left), cond(cx, &b.right)),
            BinOp::Eq(_) | BinOp::Ne(_) => {
                let (l, r) = (flat(&b.left), flat(&b.right));
                let eq = if l == "message.version" && r == "context.protocol_version" {
                    "av_version_ok v".to_string()
                } else if l == "content_type" && r.starts_with("ContentType::") {
                    format!("ct_is ct Ct{}", r.trim_start_matches("ContentType::"))
                } else {
                    format!("({} =? {})", num(&b.left), num(&b.right))
                };
                if matches!(b.op, BinOp::Ne(_)) {
                    format!("negb ({eq})")
                } else {
                    eq
                }
            }
            BinOp::Lt(_) => format!("({} <? {})", num(&b.left), num(&b.right)),
            BinOp::Le(_) => format!("({} <=? {})", num(&b.left), num(&b.right)),
            BinOp::Gt(_) => format!("({} <? {})", num(&b.right), num(&b.left)),
            BinOp::Ge(_) => format!("({} <=? {})", num(&b.right), num(&b.left)),
            _ => die("operator in a condition"),
        },
        _ => die(&format!("condition `{}`", flat(e))),
    }
}

fn block_expr(b: &Block) -> &Expr {
    if b.stmts.len() != 1 {
        die(&format!("block with {} statements where one expression is expected", b.stmts.len()));
    }
    match &b.stmts[0] {
        Stmt::Expr(e, None) => e,
        _ => die("block does not end in an expression"),
    }
}

/// an expression of type Result<(), MlsError>: Ok(()) continues with k
fn result_expr(cx: &Cx, e: &Expr, k: &str) -> String {
    match e {
        Expr::Paren(p) => result_expr(cx, &p.expr, k),
        Expr::Block(b) => result_expr(cx, block_expr(&b.block), k),
        Expr::Call(_) if flat(e) == "Ok(())" => k.to_string(),
        Expr::Call(_) if flat(e).starts_with("Err(") => err_name(e),
        Expr::If(i) => {
            let els = match &i.else_branch {
                Some((_, e)) => result_expr(cx, e, k),
                None => die("if without else in result position"),
            };
            if let Expr::Let(l) = &*i.cond {
                // if let Some(min) = self.min_epoch_available() { .. } else { .. }
                if flat(&l.pat) != "Some(min)" || flat(&l.expr) != "self.min_epoch_available()" {
                    die(&format!("if let `{}`", flat(&i.cond)));
                }
                format!("(match av_min v with Some min => {} | None => {} end)", result_expr(cx, block_expr(&i.then_branch), k), els)
            } else {
                format!("(if {} then {} else {})", cond(cx, &i.cond), result_expr(cx, block_expr(&i.then_branch), k), els)
            }
        }
        _ => die(&format!("result expression `{}`", flat(e))),
    }
}

fn stmts(cx: &mut Cx, ss: &[Stmt], k: &str) -> String {
    let Some((first, rest)) = ss.split_first() else { return k.to_string() };
    match first {
        // if C { return Err(E); }
        Stmt::Expr(Expr::If(i), _) if i.else_branch.is_none() && !matches!(&*i.cond, Expr::Let(_)) => {
            let body = flat(&i.then_branch);
            if !(body.starts_with("{returnErr(") && body.ends_with(");}")) {
                die(&format!("if body `{body}`"));
            }
            let e = err_name(&syn::parse_str::<Expr>(&body["{return".len()..body.len() - 2]).unwrap_or_else(|_| die("error expression")));
            let c = cond(cx, &i.cond);
            let r = stmts(cx, rest, k);
            format!("(if {c} then {e} else {r})")
        }
        // match content_type { arms }?;
        Stmt::Expr(Expr::Try(t), _) => match &*t.expr {
            Expr::Match(m) if flat(&m.expr) == "content_type" => {
                let r = stmts(cx, rest, k);
                let mut arms = vec![];
                for a in &m.arms {
                    let p = flat(&a.pat);
                    if !p.starts_with("ContentType::") {
                        die(&format!("match arm `{p}`"));
                    }
                    arms.push(format!("| Ct{} => {}", p.trim_start_matches("ContentType::"), result_expr(cx, &a.body, &r)));
                }
                format!("(match ct with {} end)", arms.join(" "))
            }
            _ => die("`?` statement that is not the match on content_type"),
        },
        // let check_epoch = <bool expr>;
        Stmt::Local(l) => {
            let name = match &l.pat {
                Pat::Ident(i) => i.ident.to_string(),
                _ => die("let pattern"),
            };
            let init = &l.init.as_ref().unwrap_or_else(|| die("let without value")).expr;
            let c = cond(cx, init);
            cx.lets.insert(name, c);
            stmts(cx, rest, k)
        }
        s => die(&format!("statement `{}`", flat(s))),
    }
}

pub fn run(repo: &str, out: &str) {
    let path = format!("{repo}/mls-rs/src/group/message_processor.rs");
    let src = std::fs::read_to_string(&path).unwrap_or_else(|e| panic!("{path}: {e}"));
    let file = syn::parse_file(&src).unwrap_or_else(|e| panic!("{path}: {e}"));
    let mut f: Option<TraitItemFn> = None;
    for item in &file.items {
        if let Item::Trait(t) = item {
            for it in &t.items {
                if let TraitItem::Fn(m) = it {
                    if m.sig.ident == "check_metadata" && m.default.is_some() {
                        f = Some(m.clone());
                    }
                }
            }
        }
    }
    let f = f.unwrap_or_else(|| die("check_metadata not found"));
    let body = f.default.unwrap().stmts;
    // let context = ..;  if version..;  if let Some((group_id, epoch, content_type)) = match &message.payload {..} { BODY }  Ok(())
    if body.len() != 4 {
        die(&format!("{} top-level statements, expected 4", body.len()));
    }
    if flat(&body[0]) != "letcontext=&self.group_state().context;" {
        die("first statement");
    }
    if flat(&body[3]) != "Ok(())" {
        die("last statement");
    }
    let mut cx = Cx { lets: HashMap::new() };
    let inner = match &body[2] {
        Stmt::Expr(Expr::If(i), _) if i.else_branch.is_none() => {
            let Expr::Let(l) = &*i.cond else { die("third statement is not `if let`") };
            if flat(&l.pat) != "Some((group_id,epoch,content_type))" {
                die("header pattern");
            }
            let m = flat(&l.expr);
            // the header comes from the plaintext's content or from the ciphertext, nothing else has one
            for needle in [
                "MlsMessagePayload::Plain(plaintext)=>Some((&plaintext.content.group_id,plaintext.content.epoch,plaintext.content.content_type(),))",
                "MlsMessagePayload::Cipher(ciphertext)=>Some((&ciphertext.group_id,ciphertext.epoch,ciphertext.content_type,))",
                "_=>None",
            ] {
                if !m.contains(needle) {
                    die(&format!("header match lacks `{needle}`"));
                }
            }
            stmts(&mut cx, &i.then_branch.stmts, "AOk")
        }
        _ => die("third statement"),
    };
    let whole = stmts(&mut cx, &body[1..2], &inner);
    let s = format!(
        "(* GENERATED by rs2v admission from mls-rs/src/group/message_processor.rs. Do not edit. *)\n\
From Coq Require Import NArith Bool.\nFrom MlsV Require Import Admission.\nLocal Open Scope N_scope.\n\n\
Definition ct_is (a b : ctype) : bool :=\n  match a, b with CtApplication, CtApplication | CtProposal, CtProposal | CtCommit, CtCommit => true | _, _ => false end.\n\n\
(* check_metadata for a message that carries a header (PublicMessage or PrivateMessage) *)\n\
Definition gen_check_metadata (v : aview) (gid epoch : N) (ct : ctype) (cipher : bool) : averdict :=\n  {whole}.\n"
    );
    std::fs::write(out, s).unwrap();
}
