//! Translate the KDF dataflow of the key schedule (group/key_schedule.rs) and of the PSK chain
//! (psk/secret.rs) into Gallina over Model/KeyScheduleCode.v's primitives: every `let` of
//! from_key_schedule, from_joiner, from_epoch_secret (with its label for every field),
//! get_pre_epoch_secret, get_welcome_secret, export_secret and the body of the loop of
//! PskSecret::calculate is compiled expression by expression (argument ORDER of kdf_extract, labels,
//! contexts, lengths).  Anything outside the small vocabulary is refused (exit code 3).
use std::collections::HashMap;
use syn::*;

fn die(msg: &str) -> ! {
    eprintln!("rs2v keysched: cannot translate: {msg}");
    std::process::exit(3);
}

fn flat<T: quote::ToTokens>(t: &T) -> String {
    quote::quote!(#t).to_string().replace(' ', "")
}

fn parse(path: &str) -> File {
    let src = std::fs::read_to_string(path).unwrap_or_else(|e| panic!("{path}: {e}"));
    syn::parse_file(&src).unwrap_or_else(|e| panic!("{path}: {e}"))
}

fn find_fn<'a>(f: &'a File, name: &str) -> &'a Block {
    let mut v: Vec<&Block> = vec![];
    for i in &f.items {
        match i {
            Item::Fn(x) if x.sig.ident == name => v.push(&x.block),
            Item::Impl(im) if im.trait_.is_none() => {
                for it in &im.items {
                    if let ImplItem::Fn(m) = it {
                        if m.sig.ident == name && !m.attrs.iter().any(|a| flat(a).contains("cfg(not(feature=\"psk\"))")) {
                            v.push(&m.block);
                        }
                    }
                }
            }
            _ => {}
        }
    }
    if v.len() != 1 {
        die(&format!("{} functions named {name}, expected 1", v.len()));
    }
    v[0]
}

fn ascii(bytes: &[u8]) -> String {
    format!("[{}]", bytes.iter().map(|b| b.to_string()).collect::<Vec<_>>().join(";"))
}

struct Cx {
    vars: HashMap<String, String>,
}

impl Cx {
    fn new(pairs: &[(&str, &str)]) -> Self {
        Cx { vars: pairs.iter().map(|(a, b)| (a.to_string(), b.to_string())).collect() }
    }

    /// strip `.await`, `?`, `.map_err(..)`, `.into()`, `.map(Wrapper)`, references, parentheses
    fn core<'a>(&self, e: &'a Expr) -> &'a Expr {
        match e {
            Expr::Await(a) => self.core(&a.base),
            Expr::Try(t) => self.core(&t.expr),
            Expr::Paren(p) => self.core(&p.expr),
            Expr::Reference(r) => self.core(&r.expr),
            Expr::MethodCall(m) if ["map_err", "into"].contains(&m.method.to_string().as_str()) => self.core(&m.receiver),
            Expr::MethodCall(m) if m.method == "map" && ["PskSecret", "Zeroizing::new", "Into::into", "PathSecret::from"].contains(&flat(&m.args[0]).as_str()) => self.core(&m.receiver),
            _ => e,
        }
    }

    fn bytes(&self, e: &Expr) -> String {
        let e = self.core(e);
        match e {
            Expr::Lit(ExprLit { lit: Lit::ByteStr(b), .. }) => ascii(&b.value()),
            Expr::Array(a) if a.elems.is_empty() => "[]".into(),
            Expr::Macro(m) if ["vec![0;cipher_suite_provider.kdf_extract_size()]", "vec![0u8;cipher_suite_provider.kdf_extract_size()]"].contains(&flat(m).as_str()) => "(repeat 0 extract_size)".into(),
            Expr::MethodCall(m) if m.method == "kdf_extract" && m.args.len() == 2 && ["cipher_suite_provider", "cipher_suite"].contains(&flat(&m.receiver).as_str()) => {
                format!("(hkdf_extract H {} {})", self.bytes(&m.args[0]), self.bytes(&m.args[1]))
            }
            Expr::MethodCall(m) if m.method == "hash" && m.args.len() == 1 && flat(&m.receiver) == "cipher_suite" => format!("(h_fun H {})", self.bytes(&m.args[0])),
            Expr::MethodCall(m) if m.method == "derive" && m.args.len() == 1 && flat(&m.receiver) == "secrets_producer" => {
                format!("(kdf_derive_secret H {} {})", self.vars.get("secrets_producer").cloned().unwrap_or_else(|| die("secrets_producer")), self.bytes(&m.args[0]))
            }
            Expr::MethodCall(m) if m.method == "mls_encode_to_vec" && m.args.is_empty() => {
                let r = flat(&m.receiver);
                self.vars.get(&format!("{r}.mls_encode_to_vec()")).cloned().unwrap_or_else(|| die(&format!("encoding of `{r}`")))
            }
            Expr::Call(c) => {
                let f = flat(&c.func);
                let a: Vec<&Expr> = c.args.iter().collect();
                match (f.as_str(), a.len()) {
                    ("kdf_expand_with_label", 5) => {
                        let len = match flat(self.core(a[4])).as_str() {
                            "None" => "None".to_string(),
                            "Some(len)" => "(Some len)".to_string(),
                            x => die(&format!("length argument `{x}`")),
                        };
                        format!("(kdf_expand_with_label H {} {} {} {len})", self.bytes(a[1]), self.bytes(a[2]), self.bytes(a[3]))
                    }
                    ("kdf_derive_secret", 3) => format!("(kdf_derive_secret H {} {})", self.bytes(a[1]), self.bytes(a[2])),
                    ("get_pre_epoch_secret", 3) => format!("(gen_get_pre_epoch_secret {} {})", self.bytes(a[1]), self.bytes(a[2])),
                    ("PreSharedKey::from", 1) | ("SenderDataSecret::from", 1) | ("InitSecret", 1) | ("PathSecret::from", 1) | ("Zeroizing::new", 1) => self.bytes(a[0]),
                    _ => die(&format!("call `{}`", flat(e))),
                }
            }
            _ => {
                let s = flat(e);
                self.vars.get(&s).cloned().unwrap_or_else(|| die(&format!("value `{s}`")))
            }
        }
    }

    /// `let x = e;` statements up to the last one; returns (let-prefix, remaining statements)
    fn lets<'a>(&mut self, st: &'a [Stmt]) -> (String, &'a [Stmt]) {
        let mut out = String::new();
        let mut i = 0;
        while i < st.len() {
            match &st[i] {
                Stmt::Local(l) => {
                    let name = match &l.pat {
                        Pat::Ident(p) => p.ident.to_string(),
                        Pat::Type(t) => flat(&t.pat),
                        _ => die(&format!("let pattern `{}`", flat(&l.pat))),
                    };
                    let init = &l.init.as_ref().unwrap_or_else(|| die("let without value")).expr;
                    let v = self.bytes(init);
                    out.push_str(&format!("let {name} := {v} in\n  "));
                    self.vars.insert(name.clone(), name.clone());
                    self.vars.insert(format!("{name}.0"), name);
                    i += 1;
                }
                _ => break,
            }
        }
        (out, &st[i..])
    }
}

fn struct_fields(e: &Expr, name: &str) -> Vec<(String, Expr)> {
    let e = match e {
        Expr::Call(c) if flat(&c.func) == "Ok" && c.args.len() == 1 => &c.args[0],
        x => x,
    };
    match e {
        Expr::Struct(s) if flat(&s.path) == name => s
            .fields
            .iter()
            .filter(|f| !f.attrs.iter().any(|a| flat(a).contains("cfg(not(")))
            .map(|f| (flat(&f.member), f.expr.clone()))
            .collect(),
        _ => die(&format!("expected a {name} literal, found `{}`", flat(e))),
    }
}

fn from_epoch_secret(kf: &File) -> String {
    let b = find_fn(kf, "from_epoch_secret");
    let st = &b.stmts;
    if st.len() != 4 || flat(&st[0]) != "letsecrets_producer=SecretsProducer::new(cipher_suite_provider,epoch_secret);" {
        die("from_epoch_secret: shape");
    }
    let d = flat(find_fn(kf, "derive"));
    if d != "{kdf_derive_secret(self.cipher_suite_provider,self.epoch_secret,label).await}" {
        die(&format!("SecretsProducer::derive is `{d}`"));
    }
    let cx = Cx::new(&[("secrets_producer", "epoch_secret")]);
    let get = |fields: &[(String, Expr)], n: &str| -> String {
        let e = &fields.iter().find(|(k, _)| k == n).unwrap_or_else(|| die(&format!("field {n}"))).1;
        // SecretTree::new(size, secret)
        if let Expr::Call(c) = e {
            if flat(&c.func) == "SecretTree::new" && c.args.len() == 2 {
                return cx.bytes(&c.args[1]);
            }
        }
        cx.bytes(e)
    };
    let es = match &st[1] {
        Stmt::Local(l) if flat(&l.pat) == "epoch_secrets" => struct_fields(&l.init.as_ref().unwrap().expr, "EpochSecrets"),
        _ => die("from_epoch_secret: epoch_secrets"),
    };
    let ks = match &st[2] {
        Stmt::Local(l) if flat(&l.pat) == "key_schedule" => struct_fields(&l.init.as_ref().unwrap().expr, "Self"),
        _ => die("from_epoch_secret: key_schedule"),
    };
    let res = match &st[3] {
        Stmt::Expr(e, None) => struct_fields(e, "KeyScheduleDerivationResult"),
        _ => die("from_epoch_secret: result"),
    };
    let names = |f: &[(String, Expr)]| f.iter().map(|(k, _)| k.clone()).collect::<Vec<_>>();
    if names(&es) != ["resumption_secret", "sender_data_secret", "secret_tree"] || names(&ks) != ["exporter_secret", "authentication_secret", "external_secret", "membership_key", "init_secret"] {
        die(&format!("from_epoch_secret: fields {:?} / {:?}", names(&es), names(&ks)));
    }
    let rf: Vec<(String, String)> = res.iter().map(|(k, e)| (k.clone(), flat(e))).collect();
    if rf.iter().map(|(k, _)| k.as_str()).collect::<Vec<_>>() != ["key_schedule", "confirmation_key", "joiner_secret", "epoch_secrets"] || rf[0].1 != "key_schedule" || rf[3].1 != "epoch_secrets" || rf[2].1 != "Zeroizing::new(vec![]).into()" {
        die(&format!("from_epoch_secret: result {rf:?}"));
    }
    format!(
        "Definition gen_from_epoch_secret (epoch_secret : list N) : derivation :=\n\
  let es := {{| es_resumption := {}; es_sender_data := {}; es_encryption := {} |}} in\n\
  let ks := {{| ks_exporter := {}; ks_authentication := {}; ks_external := {};\n               ks_membership := {}; ks_init := {} |}} in\n\
  {{| d_ks := ks; d_confirm := {}; d_joiner := []; d_epoch := es |}}.\n",
        get(&es, "resumption_secret"),
        get(&es, "sender_data_secret"),
        get(&es, "secret_tree"),
        get(&ks, "exporter_secret"),
        get(&ks, "authentication_secret"),
        get(&ks, "external_secret"),
        get(&ks, "membership_key"),
        get(&ks, "init_secret"),
        cx.bytes(&res[1].1)
    )
}

fn simple(kf: &File, name: &str, vars: &[(&str, &str)], sig: &str) -> String {
    let b = find_fn(kf, name);
    let mut cx = Cx::new(vars);
    let (lets, rest) = cx.lets(&b.stmts);
    let last = match rest {
        [Stmt::Expr(e, None)] => cx.bytes(e),
        _ => die(&format!("{name}: tail")),
    };
    format!("Definition gen_{name} {sig} : list N :=\n  {lets}{last}.\n")
}

fn from_joiner(kf: &File) -> String {
    let b = find_fn(kf, "from_joiner");
    let mut cx = Cx::new(&[("psk_secret", "psk_secret"), ("joiner_secret", "joiner"), ("context.mls_encode_to_vec()", "ctx")]);
    let (lets, rest) = cx.lets(&b.stmts);
    let last = match rest {
        [Stmt::Expr(e, None)] => {
            let c = match cx.core(e) {
                Expr::Call(c) if flat(&c.func) == "Self::from_epoch_secret" => c,
                _ => die("from_joiner: tail"),
            };
            format!("gen_from_epoch_secret {}", cx.bytes(&c.args[1]))
        }
        _ => die("from_joiner: tail"),
    };
    // `let context = context.mls_encode_to_vec()?;` rebinds the name to the encoding
    let lets = lets.replace("let context := ctx in\n  ", "");
    let last = last.replace(" context", " ctx");
    let lets = lets.replace(" context ", " ctx ");
    format!("Definition gen_from_joiner (joiner ctx psk_secret : list N) : derivation :=\n  {lets}{last}.\n")
}

fn from_key_schedule(kf: &File) -> String {
    let b = find_fn(kf, "from_key_schedule");
    let mut cx = Cx::new(&[("last_key_schedule.init_secret.0", "last_init"), ("commit_secret", "commit_secret"), ("psk_secret", "psk_secret"), ("context.mls_encode_to_vec()", "ctx")]);
    // the first two lets are KDF expressions; the third calls from_joiner
    let (lets, rest) = cx.lets(&b.stmts[..2]);
    if !rest.is_empty() {
        die("from_key_schedule: first statements");
    }
    let call = match &b.stmts[2] {
        Stmt::Local(l) if flat(&l.pat) == "key_schedule_result" => match cx.core(&l.init.as_ref().unwrap().expr) {
            Expr::Call(c) if flat(&c.func) == "Self::from_joiner" => {
                let args: Vec<&Expr> = c.args.iter().filter(|a| !flat(a).ends_with("secret_tree_size")).collect();
                if args.len() != 4 || flat(args[2]) != "context" {
                    die("from_key_schedule: arguments of from_joiner");
                }
                format!("gen_from_joiner {} ctx {}", cx.bytes(args[1]), cx.bytes(args[3]))
            }
            _ => die("from_key_schedule: from_joiner call"),
        },
        _ => die("from_key_schedule: third statement"),
    };
    let res = match &b.stmts[3] {
        Stmt::Expr(e, None) => struct_fields(e, "KeyScheduleDerivationResult"),
        _ => die("from_key_schedule: result"),
    };
    let rf: Vec<(String, String)> = res.iter().map(|(k, e)| (k.clone(), flat(e))).collect();
    let want = [("key_schedule", "key_schedule_result.key_schedule"), ("confirmation_key", "key_schedule_result.confirmation_key"), ("joiner_secret", "joiner_secret"), ("epoch_secrets", "key_schedule_result.epoch_secrets")];
    if rf.len() != 4 || rf.iter().zip(want.iter()).any(|((k, v), (wk, wv))| k != wk || v != wv) {
        die(&format!("from_key_schedule: result {rf:?}"));
    }
    format!(
        "Definition gen_from_key_schedule (last_init commit_secret ctx psk_secret : list N) : derivation :=\n  {lets}let r := {call} in\n  {{| d_ks := d_ks r; d_confirm := d_confirm r; d_joiner := joiner_secret; d_epoch := d_epoch r |}}.\n"
    )
}

fn psk_calculate(pf: &File, lf: &File) -> String {
    let b = find_fn(pf, "calculate");
    let st = &b.stmts;
    if st.len() != 4 {
        die(&format!("PskSecret::calculate has {} statements, expected 4", st.len()));
    }
    if flat(&st[0]) != "letlen=u16::try_from(input.len()).map_err(|_|MlsError::TooManyPskIds)?;" || flat(&st[1]) != "letmutpsk_secret=PskSecret::new(cipher_suite_provider);" || flat(&st[3]) != "Ok(psk_secret)" {
        die("PskSecret::calculate: frame");
    }
    let n = flat(find_fn(pf, "new"));
    if n != "{PskSecret(Zeroizing::new(vec![0u8;provider.kdf_extract_size()]))}" {
        die(&format!("PskSecret::new is `{n}`"));
    }
    let Stmt::Expr(Expr::ForLoop(lp), _) = &st[2] else { die("PskSecret::calculate: loop") };
    if flat(&lp.pat) != "(index,psk_secret_input)" || flat(&lp.expr) != "input.iter().enumerate()" {
        die("PskSecret::calculate: loop header");
    }
    let body = &lp.body.stmts;
    if body.len() != 5 || flat(&body[0]) != "letindex=indexasu16;" {
        die("PskSecret::calculate: loop body");
    }
    // PSKLabel { id, index, count }: the field order of the struct is the order of the encoding
    let mut order: Vec<String> = vec![];
    for i in &lf.items {
        if let Item::Struct(s) = i {
            if s.ident == "PSKLabel" {
                order = s.fields.iter().map(|f| f.ident.as_ref().unwrap().to_string()).collect();
            }
        }
    }
    let lit = match &body[1] {
        Stmt::Local(l) if flat(&l.pat) == "label" => struct_fields(&l.init.as_ref().unwrap().expr, "PSKLabel"),
        _ => die("PskSecret::calculate: label"),
    };
    let mut parts = vec![];
    for f in &order {
        let v = flat(&lit.iter().find(|(k, _)| k == f).unwrap_or_else(|| die(&format!("PSKLabel field {f}"))).1);
        parts.push(match (f.as_str(), v.as_str()) {
            ("id", "&psk_secret_input.id") => "id",
            ("index", "index") => "u16be index",
            ("count", "len") => "u16be len",
            _ => die(&format!("PSKLabel.{f} = `{v}`")),
        });
    }
    if parts.len() != 3 {
        die("PSKLabel fields");
    }
    let mut cx = Cx::new(&[("psk_secret_input.psk", "psk"), ("psk_secret", "psk_secret"), ("label.mls_encode_to_vec()", "label")]);
    let (lets, rest) = cx.lets(&body[2..4]);
    if !rest.is_empty() {
        die("PskSecret::calculate: derivations");
    }
    let upd = match &body[4] {
        Stmt::Expr(Expr::Assign(a), _) if flat(&a.left) == "psk_secret" => cx.bytes(&a.right),
        _ => die("PskSecret::calculate: update of psk_secret"),
    };
    format!(
        "(* one iteration of the loop of PskSecret::calculate; label = PSKLabel {{ {} }} *)\n\
Definition gen_psk_step (len : N) (psk_secret : list N) (index : N) (id psk : list N) : list N :=\n\
  let label := {} in\n  {lets}{upd}.\n\n\
Fixpoint gen_psk_loop (input : list (list N * list N)) (index len : N) (psk_secret : list N) : list N :=\n\
  match input with\n  | [] => psk_secret\n  | (id, psk) :: r => gen_psk_loop r (index + 1) len (gen_psk_step len psk_secret index id psk)\n  end.\n\
Definition gen_psk_calculate (input : list (list N * list N)) : list N :=\n\
  gen_psk_loop input 0 (N.of_nat (length input)) (repeat 0 extract_size).\n",
        order.join(", "),
        parts.join(" ++ ")
    )
}

fn find_method<'a>(f: &'a File, ty: &str, name: &str) -> &'a Block {
    for i in &f.items {
        if let Item::Impl(im) = i {
            if im.trait_.is_some() || flat(&im.self_ty) != ty {
                continue;
            }
            for it in &im.items {
                if let ImplItem::Fn(m) = it {
                    if m.sig.ident == name {
                        return &m.block;
                    }
                }
            }
        }
    }
    die(&format!("{ty}::{name} not found"))
}

/// secret_tree.rs: the two children of a consumed node, the ratchet of a leaf, one ratchet step
fn secret_tree(sf: &File) -> String {
    // consume_node
    let b = find_method(sf, "SecretTree<T>", "consume_node");
    let f = flat(b);
    if !f.starts_with("{letnode=self.known_secrets.take_node(index);ifletSome(secret)=node.and_then(|n|n.into_secret()){letleft_index=index.left().ok_or(MlsError::LeafNodeNoChildren)?;letright_index=index.right().ok_or(MlsError::LeafNodeNoChildren)?;") {
        die("consume_node: head");
    }
    if !f.ends_with("self.known_secrets.set_node(left_index,SecretTreeNode::Secret(left_secret.into()));self.known_secrets.set_node(right_index,SecretTreeNode::Secret(right_secret.into()));}Ok(())}") {
        die("consume_node: the children are not stored at left_index / right_index");
    }
    let Stmt::Expr(Expr::If(i), _) = &b.stmts[1] else { die("consume_node: if let") };
    let mut cx = Cx::new(&[("secret", "s")]);
    let (lets, _) = cx.lets(&i.then_branch.stmts[2..4]);
    let children = format!("Definition gen_consume_children (s : list N) : list N * list N :=\n  {lets}(left_secret, right_secret).\n");
    // SecretKeyRatchet::derive_secret
    let d = find_method(sf, "SecretKeyRatchet", "derive_secret");
    let cx = Cx::new(&[("self.secret.as_ref()", "(r_secret r)"), ("label", "label"), ("self.generation.to_be_bytes()", "(u32be (r_gen r))")]);
    let dv = match d.stmts.as_slice() {
        [Stmt::Expr(e, None)] => cx.bytes(e),
        _ => die("derive_secret: shape"),
    };
    let derive = format!("Definition gen_derive_secret (r : ratchet) (label : list N) (len : nat) : list N :=\n  {dv}.\n");
    // SecretKeyRatchet::new
    let nb = find_method(sf, "SecretKeyRatchet", "new");
    if nb.stmts.len() != 3 {
        die("SecretKeyRatchet::new: shape");
    }
    let lab = flat(&nb.stmts[0]);
    let (hs, app) = lab
        .strip_prefix("letlabel=matchkey_type{KeyType::Handshake=>b\"")
        .and_then(|r| r.split_once("\".as_slice(),KeyType::Application=>b\""))
        .and_then(|(h, r)| r.strip_suffix("\".as_slice(),};").map(|a| (h.to_string(), a.to_string())))
        .unwrap_or_else(|| die(&format!("SecretKeyRatchet::new: label `{lab}`")));
    let mut cx = Cx::new(&[("secret", "leaf_sec"), ("label", "label")]);
    let (lets, _) = cx.lets(&nb.stmts[1..2]);
    let res = struct_fields(match &nb.stmts[2] { Stmt::Expr(e, None) => e, _ => die("SecretKeyRatchet::new: result") }, "Self");
    let rf: Vec<(String, String)> = res.iter().map(|(k, e)| (k.clone(), flat(e))).collect();
    if rf != [("secret".to_string(), "TreeSecret::from(secret)".to_string()), ("generation".to_string(), "0".to_string()), ("history".to_string(), "Default::default()".to_string())] {
        die(&format!("SecretKeyRatchet::new: result {rf:?}"));
    }
    let new = format!(
        "Definition gen_ratchet_new (leaf_sec : list N) (handshake : bool) : ratchet :=\n  let label := if handshake then {} else {} in\n  {lets}{{| r_secret := secret; r_gen := 0; r_history := [] |}}.\n",
        ascii(hs.as_bytes()),
        ascii(app.as_bytes())
    );
    // SecretKeyRatchet::next_message_key
    let nm = find_method(sf, "SecretKeyRatchet", "next_message_key");
    let st = &nm.stmts;
    if st.len() != 5 || flat(&st[0]) != "letgeneration=self.generation;" || flat(&st[3]) != "self.generation=generation+1;" || flat(&st[4]) != "Ok(key)" {
        die("SecretKeyRatchet::next_message_key: frame");
    }
    let call = |e: &Expr| -> String {
        // self.derive_secret(csp, b"label", csp.<size>())
        let cx = Cx::new(&[]);
        match cx.core(e) {
            Expr::MethodCall(m) if m.method == "derive_secret" && flat(&m.receiver) == "self" && m.args.len() == 3 => {
                let len = match flat(&m.args[2]).as_str() {
                    "cipher_suite_provider.aead_nonce_size()" => "nn",
                    "cipher_suite_provider.aead_key_size()" => "nk",
                    "cipher_suite_provider.kdf_extract_size()" => "extract_size",
                    x => die(&format!("length `{x}`")),
                };
                format!("gen_derive_secret r {} {len}", cx.bytes(&m.args[1]))
            }
            _ => die(&format!("next_message_key: `{}`", flat(e))),
        }
    };
    let key = match &st[1] {
        Stmt::Local(l) if flat(&l.pat) == "key" => struct_fields(&l.init.as_ref().unwrap().expr, "MessageKeyData"),
        _ => die("next_message_key: key"),
    };
    let kn: Vec<String> = key.iter().map(|(k, _)| k.clone()).collect();
    if kn != ["nonce", "key", "generation"] || flat(&key[2].1) != "generation" {
        die(&format!("next_message_key: MessageKeyData {kn:?}"));
    }
    let (nonce, keyv) = (call(&key[0].1), call(&key[1].1));
    let sec = match &st[2] {
        Stmt::Expr(Expr::Assign(a), _) if flat(&a.left) == "self.secret" => call(&a.right),
        _ => die("next_message_key: new secret"),
    };
    let next = format!(
        "Definition gen_next_message_key (nk nn : nat) (r : ratchet) : res ((N * (list N * list N)) * ratchet) :=\n  let generation := r_gen r in\n  let nonce := {nonce} in\n  let key := {keyv} in\n  let secret' := {sec} in\n  bind (u32_add generation 1) (fun g' =>\n    ret ((generation, (nonce, key)), {{| r_secret := secret'; r_gen := g'; r_history := r_history r |}})).\n"
    );
    // the leaf ratchet is put back into the tree BEFORE the result of the request is looked at: a refused
    // request (key missing, generation too far ahead) leaves the ratchet in place
    let mk = flat(find_method(sf, "SecretTree<T>", "message_key_generation"));
    if mk != "{letmutratchet=self.take_leaf_ratchet(cipher_suite,&leaf_index).await?;letres=ratchet.message_key_generation(cipher_suite,generation,key_type).await;self.known_secrets.set_node(leaf_index,SecretTreeNode::Ratchet(ratchet));res}" {
        die(&format!("SecretTree::message_key_generation is `{mk}`"));
    }
    let tl = flat(find_method(sf, "SecretTree<T>", "take_leaf_ratchet"));
    if !tl.contains("foriinnode_index.direct_copath(&self.leaf_count).into_iter().rev(){self.consume_node(cipher_suite,&i.path).await?;}self.known_secrets.take_node(node_index).ok_or(MlsError::InvalidLeafConsumption)?") {
        die("SecretTree::take_leaf_ratchet: the walk from the root");
    }
    let order = "(* SecretTree::message_key_generation: take the leaf's ratchets, ask, put them back, only then\n   return the answer; take_leaf_ratchet consumes the nodes of the direct path from the root down *)\nDefinition gen_request_order : list nat := [1; 2; 3; 4]%nat.\n";
    format!("{children}\n{derive}\n{new}\n{next}\n{order}")
}


/// tree_kem/path_secret.rs: PathSecret::empty, the node secret of to_hpke_key_pair and the state
/// machine of PathSecretGenerator::next_secret (starting_with, else derive from last, else random;
/// then remember the secret handed out)
fn path_secret(tf: &File) -> String {
    // empty
    let b = find_method(tf, "PathSecret", "empty");
    let empty = match &b.stmts[..] {
        [Stmt::Expr(e, None)] => Cx::new(&[]).bytes(e),
        _ => die("PathSecret::empty: shape"),
    };
    // to_hpke_key_pair: let node_secret = ...; cs.kem_derive(&node_secret)...
    let b = find_method(tf, "PathSecret", "to_hpke_key_pair");
    let mut cx = Cx::new(&[("self", "path_secret")]);
    let (lets, rest) = cx.lets(&b.stmts);
    match rest {
        [Stmt::Expr(e, None)] if flat(cx.core(e)) == "cs.kem_derive(&node_secret)" => {}
        _ => die("to_hpke_key_pair: tail"),
    }
    if !lets.starts_with("let node_secret := ") || lets.matches("let ").count() != 1 {
        die("to_hpke_key_pair: lets");
    }
    // the two constructors of the generator
    if flat(find_method(tf, "PathSecretGenerator<'a,P>", "new")) != "{Self{cipher_suite_provider,last:None,starting_with:None,}}"
        || flat(find_method(tf, "PathSecretGenerator<'a,P>", "starting_with")) != "{Self{starting_with:Some(secret),..Self::new(cipher_suite_provider)}}"
    {
        die("PathSecretGenerator constructors");
    }
    // next_secret
    let b = find_method(tf, "PathSecretGenerator<'a,P>", "next_secret");
    if b.stmts.len() != 3 || flat(&b.stmts[1]) != "self.last=Some(secret.clone());" || flat(&b.stmts[2]) != "Ok(secret)" {
        die("next_secret: statements");
    }
    let init = match &b.stmts[0] {
        Stmt::Local(l) if flat(&l.pat) == "secret" => &l.init.as_ref().unwrap_or_else(|| die("next_secret: let")).expr,
        _ => die("next_secret: first statement"),
    };
    let outer = match &**init {
        Expr::Try(t) => match &*t.expr {
            Expr::If(i) => i,
            _ => die("next_secret: not an if"),
        },
        _ => die("next_secret: no ?"),
    };
    if flat(&outer.cond) != "letSome(starting_with)=self.starting_with.take()" || flat(&outer.then_branch) != "{Ok(starting_with)}" {
        die("next_secret: first branch");
    }
    let inner = match outer.else_branch.as_ref().map(|(_, e)| &**e) {
        Some(Expr::If(i)) => i,
        _ => die("next_secret: second branch"),
    };
    if flat(&inner.cond) != "letSome(last)=self.last.take()" {
        die("next_secret: second condition");
    }
    let derived = match &inner.then_branch.stmts[..] {
        [Stmt::Expr(e, None)] => Cx::new(&[("last", "last")]).bytes(e),
        _ => die("next_secret: derivation"),
    };
    match inner.else_branch.as_ref().map(|(_, e)| flat(e)) {
        Some(x) if x == "{PathSecret::random(self.cipher_suite_provider)}" => {}
        _ => die("next_secret: random branch"),
    }
    format!(
        "(* tree_kem/path_secret.rs *)\nDefinition gen_path_secret_empty : list N := {empty}.\n\n\
Definition gen_node_secret (path_secret : list N) : list N :=\n  {lets}node_secret.\n\n\
Record psgen := {{ pg_last : option (list N); pg_start : option (list N) }}.\n\
Definition psgen_new : psgen := {{| pg_last := None; pg_start := None |}}.\n\
Definition psgen_starting_with (s : list N) : psgen := {{| pg_last := None; pg_start := Some s |}}.\n\
(* next_secret: [random] is what PathSecret::random would return *)\n\
Definition gen_next_secret (g : psgen) (random : list N) : list N * psgen :=\n\
  let '(secret, g1) :=\n\
    match pg_start g with\n\
    | Some starting_with => (starting_with, {{| pg_last := pg_last g; pg_start := None |}})\n\
    | None => match pg_last g with\n\
              | Some last => ({derived}, {{| pg_last := None; pg_start := None |}})\n\
              | None => (random, g)\n\
              end\n\
    end in\n\
  (secret, {{| pg_last := Some secret; pg_start := pg_start g1 |}}).\n\n"
    )
}

pub fn run(repo: &str, out: &str) {
    let kf = parse(&format!("{repo}/mls-rs/src/group/key_schedule.rs"));
    let pf = parse(&format!("{repo}/mls-rs/src/psk/secret.rs"));
    let lf = parse(&format!("{repo}/mls-rs/src/psk.rs"));
    let sf = parse(&format!("{repo}/mls-rs/src/group/secret_tree.rs"));
    let tf = parse(&format!("{repo}/mls-rs/src/tree_kem/path_secret.rs"));
    let pre = simple(&kf, "get_pre_epoch_secret", &[("psk_secret", "psk_secret"), ("joiner_secret.0", "joiner")], "(psk_secret joiner : list N)");
    let wel = simple(&kf, "get_welcome_secret", &[("psk_secret", "psk_secret"), ("joiner_secret", "joiner")], "(joiner psk_secret : list N)");
    // export_secret: the guard on a deleted exporter is not part of the dataflow
    let exp = {
        let b = find_fn(&kf, "export_secret");
        if b.stmts.len() != 4 || flat(&b.stmts[0]) != "ifself.exporter_secret.is_empty(){returnErr(MlsError::ExporterDeleted);}" {
            die("export_secret: shape");
        }
        let mut cx = Cx::new(&[("self.exporter_secret", "exporter_secret"), ("label", "label"), ("context", "context")]);
        let (lets, rest) = cx.lets(&b.stmts[1..]);
        let last = match rest {
            [Stmt::Expr(e, None)] => cx.bytes(e),
            _ => die("export_secret: tail"),
        };
        format!("Definition gen_export_secret (exporter_secret label context : list N) (len : nat) : list N :=\n  {lets}{last}.\n")
    };
    let s = format!(
        "(* GENERATED by rs2v keysched from mls-rs/src/group/key_schedule.rs, group/secret_tree.rs, psk/secret.rs and tree_kem/path_secret.rs.  Do not edit. *)\n\
From Coq Require Import NArith List Bool.\nFrom MlsV Require Import Res Codec Hkdf KeyScheduleRFC KeyScheduleCode.\nImport ListNotations.\nLocal Open Scope N_scope.\n\n\
Section Gen.\n  Variable H : hash_alg.\n  Let extract_size := h_len H.\n\n{}\n{}\n{}\n{}\n{}\n{}\n{}\n{}{}End Gen.\n",
        pre,
        from_epoch_secret(&kf),
        from_joiner(&kf),
        from_key_schedule(&kf),
        wel,
        exp,
        psk_calculate(&pf, &lf),
        secret_tree(&sf),
        path_secret(&tf)
    );
    std::fs::write(out, s).unwrap();
}
