//! Translate the receiver- and sender-side selection logic of TreeKEM (tree_kem/kem.rs):
//!   find_ciphertext_pos   - which ciphertext of an update-path node a receiver opens,
//!   find_resolved_pos     - which of its own nodes (hence which private key) it uses,
//!   encrypt_copath_node_resolution - which members of a resolution the committer seals to.
//! Each function must have exactly the statement skeleton known here; the predicates inside
//! (the filter closures, the loop condition, the fallback test) are compiled expression by
//! expression.  Anything else is refused (exit code 3), which the checks report.
use syn::*;

fn die(msg: &str) -> ! {
    eprintln!("rs2v kem: cannot translate: {msg}");
    std::process::exit(3);
}

fn strip(e: &Expr) -> &Expr {
    match e {
        Expr::Paren(p) => strip(&p.expr),
        Expr::Reference(r) => strip(&r.expr),
        Expr::Unary(u) if matches!(u.op, UnOp::Deref(_)) => strip(&u.expr),
        Expr::Group(g) => strip(&g.expr),
        Expr::Block(b) if b.block.stmts.len() == 1 => match &b.block.stmts[0] {
            Stmt::Expr(x, None) => strip(x),
            _ => e,
        },
        _ => e,
    }
}

fn is_var(e: &Expr, name: &str) -> bool {
    matches!(strip(e), Expr::Path(p) if p.path.is_ident(name))
}

/// boolean expression over the closure variable `var` (a node index) and the exclusion list
fn pred(e: &Expr, var: &str, excl: &str, excl_is_leaves: bool) -> String {
    match strip(e) {
        Expr::Binary(b) => match b.op {
            BinOp::Or(_) => format!("({} || {})", pred(&b.left, var, excl, excl_is_leaves), pred(&b.right, var, excl, excl_is_leaves)),
            BinOp::And(_) => format!("({} && {})", pred(&b.left, var, excl, excl_is_leaves), pred(&b.right, var, excl, excl_is_leaves)),
            BinOp::Eq(_) => format!("({} =? {})", num(&b.left, var), num(&b.right, var)),
            BinOp::Ne(_) => format!("negb ({} =? {})", num(&b.left, var), num(&b.right, var)),
            _ => die("operator in a predicate"),
        },
        Expr::Unary(u) if matches!(u.op, UnOp::Not(_)) => format!("negb ({})", pred(&u.expr, var, excl, excl_is_leaves)),
        Expr::MethodCall(m) if m.method == "contains" && m.args.len() == 1 && is_var(&m.receiver, excl) => {
            // excluding.contains(&X): X is either the node index itself or LeafIndex::from_node_index_unchecked(idx)
            let a = strip(&m.args[0]);
            match a {
                Expr::Call(c) => {
                    let f = quote::quote!(#c).to_string().replace(' ', "");
                    if f.starts_with("LeafIndex::from_node_index_unchecked(") && c.args.len() == 1 && is_var(&c.args[0], var) && excl_is_leaves {
                        format!("mem ({var} / 2) {excl}")
                    } else {
                        die("argument of contains")
                    }
                }
                _ if is_var(a, var) && !excl_is_leaves => format!("mem {var} {excl}"),
                _ => die("argument of contains"),
            }
        }
        _ => die("predicate shape"),
    }
}

fn num(e: &Expr, var: &str) -> String {
    match strip(e) {
        Expr::Lit(ExprLit { lit: Lit::Int(i), .. }) => i.base10_digits().to_string(),
        Expr::Path(p) if p.path.is_ident(var) => var.to_string(),
        Expr::Binary(b) => match b.op {
            BinOp::Rem(_) => format!("({} mod {})", num(&b.left, var), num(&b.right, var)),
            BinOp::Div(_) => format!("({} / {})", num(&b.left, var), num(&b.right, var)),
            _ => die("arithmetic operator in a predicate"),
        },
        _ => die("number shape"),
    }
}

/// collect a method chain `recv.m1(a1).m2(a2)...` into (recv, [(name, args)])
fn chain(e: &Expr) -> (&Expr, Vec<(String, Vec<&Expr>)>) {
    let mut cur = e;
    let mut out = vec![];
    loop {
        match cur {
            Expr::MethodCall(m) => {
                out.push((m.method.to_string(), m.args.iter().collect()));
                cur = &m.receiver;
            }
            Expr::Try(t) => {
                out.push(("?".to_string(), vec![]));
                cur = &t.expr;
            }
            Expr::Paren(p) => cur = &p.expr,
            _ => break,
        }
    }
    out.reverse();
    (cur, out)
}

fn closure1(e: &Expr) -> (&ExprClosure, String) {
    match e {
        Expr::Closure(c) if c.inputs.len() == 1 => {
            let name = match &c.inputs[0] {
                Pat::Ident(i) => i.ident.to_string(),
                Pat::Reference(r) => match &*r.pat {
                    Pat::Ident(i) => i.ident.to_string(),
                    _ => die("closure parameter"),
                },
                _ => die("closure parameter"),
            };
            (c, name)
        }
        _ => die("closure expected"),
    }
}

fn find_fn<'a>(file: &'a File, name: &str) -> &'a ImplItemFn {
    for item in &file.items {
        if let Item::Impl(im) = item {
            for it in &im.items {
                if let ImplItem::Fn(f) = it {
                    if f.sig.ident == name {
                        return f;
                    }
                }
            }
        }
    }
    die(&format!("function {name} not found"))
}

pub fn run(repo: &str, out: &str) {
    let path = format!("{repo}/mls-rs/src/tree_kem/kem.rs");
    let src = std::fs::read_to_string(&path).unwrap_or_else(|e| panic!("{path}: {e}"));
    let file = syn::parse_file(&src).unwrap_or_else(|e| panic!("{path}: {e}"));

    // ---- find_ciphertext_pos(lca, resolved, excluding)
    let f = find_fn(&file, "find_ciphertext_pos");
    let params: Vec<String> = f.sig.inputs.iter().filter_map(|a| match a { FnArg::Typed(t) => match &*t.pat { Pat::Ident(i) => Some(i.ident.to_string()), _ => None }, _ => None }).collect();
    if params != ["lca", "resolved", "excluding"] || f.block.stmts.len() != 3 {
        die("find_ciphertext_pos: signature / number of statements");
    }
    // let reso = self.tree_kem_public.nodes.get_resolution_index(lca)?;
    let reso_name = match &f.block.stmts[0] {
        Stmt::Local(l) => {
            let n = match &l.pat { Pat::Ident(i) => i.ident.to_string(), _ => die("find_ciphertext_pos: first let") };
            let init = &l.init.as_ref().unwrap_or_else(|| die("find_ciphertext_pos: first let")).expr;
            let (_, ch) = chain(init);
            let names: Vec<&str> = ch.iter().map(|c| c.0.as_str()).collect();
            if names != ["get_resolution_index", "?"] || !is_var(ch[0].1[0], "lca") {
                die("find_ciphertext_pos: the resolution is not get_resolution_index(lca)");
            }
            n
        }
        _ => die("find_ciphertext_pos: first statement"),
    };
    // let (ct_pos, _) = reso.iter().filter(|idx| P).find_position(|idx| idx == &&resolved).ok_or(..)?;
    let (keep, keep_var) = match &f.block.stmts[1] {
        Stmt::Local(l) => {
            let init = &l.init.as_ref().unwrap_or_else(|| die("find_ciphertext_pos: second let")).expr;
            let (recv, ch) = chain(init);
            let names: Vec<&str> = ch.iter().map(|c| c.0.as_str()).collect();
            if !is_var(recv, &reso_name) || names != ["iter", "filter", "find_position", "ok_or", "?"] {
                die("find_ciphertext_pos: chain is not iter().filter(..).find_position(..).ok_or(..)?");
            }
            let (c, v) = closure1(ch[1].1[0]);
            let p = pred(&c.body, &v, "excluding", true);
            let (c2, v2) = closure1(ch[2].1[0]);
            match strip(&c2.body) {
                Expr::Binary(b) if matches!(b.op, BinOp::Eq(_)) && is_var(&b.left, &v2) && is_var(&b.right, "resolved") => {}
                _ => die("find_ciphertext_pos: find_position does not look for `resolved`"),
            }
            match &l.pat {
                Pat::Tuple(t) if t.elems.len() == 2 => {}
                _ => die("find_ciphertext_pos: result pattern"),
            }
            (p, v)
        }
        _ => die("find_ciphertext_pos: second statement"),
    };

    // ---- find_resolved_pos(path, lca_index)
    let g = find_fn(&file, "find_resolved_pos");
    if g.block.stmts.len() != 3 {
        die("find_resolved_pos: number of statements");
    }
    // while self.tree_kem_public.nodes.is_blank(path[lca_index].path)? { lca_index -= 1; }
    match &g.block.stmts[0] {
        Stmt::Expr(Expr::While(w), _) => {
            let c = quote::quote!(#w).to_string().replace(' ', "");
            if c != "whileself.tree_kem_public.nodes.is_blank(path[lca_index].path)?{lca_index-=1;}" {
                die(&format!("find_resolved_pos: loop is {c}"));
            }
        }
        _ => die("find_resolved_pos: first statement is not the while loop"),
    }
    // if self.private_key.secret_keys[lca_index].is_none() { lca_index = 0; }
    match &g.block.stmts[1] {
        Stmt::Expr(Expr::If(i), _) => {
            let c = quote::quote!(#i).to_string().replace(' ', "");
            if c != "ifself.private_key.secret_keys[lca_index].is_none(){lca_index=0;}" {
                die(&format!("find_resolved_pos: fallback is {c}"));
            }
        }
        _ => die("find_resolved_pos: second statement is not the fallback"),
    }
    match &g.block.stmts[2] {
        Stmt::Expr(e, None) if quote::quote!(#e).to_string().replace(' ', "") == "Ok(lca_index)" => {}
        _ => die("find_resolved_pos: result"),
    }

    // ---- decap: the three uses
    let d = find_fn(&file, "decap");
    let dsrc = quote::quote!(#d).to_string().replace(' ', "");
    for needle in [
        "letlca_index=tree_math::leaf_lca_level(self_index.into(),sender_index.into())asusize-2;",
        "letresolved_pos=self.find_resolved_pos(&path,lca_index)?;",
        "letct_pos=self.find_ciphertext_pos(path[lca_index].path,path[resolved_pos].path,added_leaves)?;",
        "letsecret=self.private_key.secret_keys[resolved_pos]",
        ".encrypted_path_secret.get(ct_pos)",
    ] {
        if !dsrc.contains(needle) {
            die(&format!("decap: expected `{needle}`"));
        }
    }

    // ---- encrypt_copath_node_resolution: wrap_iter(reso).filter(|&idx| async move { !excluding.contains(&idx) })
    let h = find_fn(&file, "encrypt_copath_node_resolution");
    let mut seal_keep: Option<(String, String)> = None;
    for st in &h.block.stmts {
        if let Stmt::Local(l) = st {
            if let Some(init) = &l.init {
                let (recv, ch) = chain(&init.expr);
                let names: Vec<&str> = ch.iter().map(|c| c.0.as_str()).collect();
                if names == ["filter"] && quote::quote!(#recv).to_string().replace(' ', "") == "wrap_iter(reso)" {
                    let (c, v) = closure1(ch[0].1[0]);
                    let body = match &*c.body {
                        Expr::Async(a) if a.block.stmts.len() == 1 => match &a.block.stmts[0] {
                            Stmt::Expr(e, None) => e.clone(),
                            _ => die("encrypt_copath_node_resolution: async block"),
                        },
                        e => e.clone(),
                    };
                    seal_keep = Some((pred(&body, &v, "excluding", false), v));
                }
            }
        }
    }
    let Some((seal, seal_var)) = seal_keep else { die("encrypt_copath_node_resolution: filter over the resolution not found") };
    let hsrc = quote::quote!(#h).to_string().replace(' ', "");
    if !hsrc.contains(".get_resolution_index(copath_index)?;") {
        die("encrypt_copath_node_resolution: the resolution is not get_resolution_index(copath_index)");
    }

    let s = format!(
        "(* GENERATED by rs2v kem from mls-rs/src/tree_kem/kem.rs. Do not edit. *)\n\
From Coq Require Import NArith List Bool.\nFrom MlsV Require Import Res Kem.\nImport ListNotations.\nLocal Open Scope N_scope.\n\n\
(* find_ciphertext_pos: the filter over the resolution (excluding = leaves added by the commit) *)\n\
Definition gen_keep (excluding : list N) ({keep_var} : N) : bool := {keep}.\n\n\
(* encrypt_copath_node_resolution: the filter over the resolution (excluding = node indices of the added leaves) *)\n\
Definition gen_seal_keep (excluding : list N) ({seal_var} : N) : bool := {seal}.\n\n\
(* find_resolved_pos: `while is_blank(path[i]) {{ i -= 1 }}` then `if secret_keys[i].is_none() {{ i = 0 }}`;\n   blank / nokey are the two tests, by position on the receiver's path (0 = its leaf) *)\n\
Fixpoint gen_walk_down (blank : nat -> bool) (fuel i : nat) : res nat :=\n  match fuel with\n  | O => OutOfFuel\n  | S f => if blank i then (match i with O => Panic | S i' => gen_walk_down blank f i' end) else ret i\n  end.\n\
Definition gen_resolved_pos (blank nokey : nat -> bool) (lca_index : nat) : res nat :=\n  bind (gen_walk_down blank (S lca_index) lca_index) (fun i => ret (if nokey i then O else i)).\n"
    );
    std::fs::write(out, s).unwrap();
}
