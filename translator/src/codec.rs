//! Translate every `#[derive(MlsEncode ...)]` item of mls-rs and mls-rs-core into a codec
//! descriptor (coq/Model/Codec.v `ty`).  The hand-written codecs of the library
//! (Proposal, Credential, ExtensionList, PublicMessage, ...) are emitted from the templates in
//! CUSTOM below, at their place in the dependency order.
use std::collections::{BTreeMap, BTreeSet};
use syn::*;

const FEATURES: &[&str] = &[
    "std", "rayon", "rfc_compliant", "tree_index", "fast_serialize", "private_message", "custom_proposal",
    "out_of_order", "psk", "x509", "prior_epoch", "by_ref_proposal", "external_client", "sqlite", "arbitrary",
    "secret_tree_access", "last_resort_key_package_ext",
];

fn cfg_eval(m: &Meta) -> bool {
    match m {
        Meta::NameValue(nv) if nv.path.is_ident("feature") => {
            if let Expr::Lit(ExprLit { lit: Lit::Str(s), .. }) = &nv.value {
                FEATURES.contains(&s.value().as_str())
            } else {
                false
            }
        }
        Meta::Path(p) => {
            // bare idents: test, mls_build_async, docsrs, target_arch... all off
            let _ = p;
            false
        }
        Meta::List(l) => {
            let inner: Vec<Meta> = l
                .parse_args_with(punctuated::Punctuated::<Meta, Token![,]>::parse_terminated)
                .map(|p| p.into_iter().collect())
                .unwrap_or_default();
            if l.path.is_ident("not") {
                !cfg_eval(&inner[0])
            } else if l.path.is_ident("all") {
                inner.iter().all(cfg_eval)
            } else if l.path.is_ident("any") {
                inner.iter().any(cfg_eval)
            } else {
                false
            }
        }
        _ => false,
    }
}

fn cfg_on(attrs: &[Attribute]) -> bool {
    attrs.iter().all(|a| {
        if !a.path().is_ident("cfg") {
            return true;
        }
        match a.parse_args::<Meta>() {
            Ok(m) => cfg_eval(&m),
            Err(_) => false,
        }
    })
}

fn derives_codec(attrs: &[Attribute]) -> bool {
    attrs.iter().any(|a| {
        if a.path().is_ident("derive") {
            let s = quote::quote!(#a).to_string();
            s.contains("MlsEncode")
        } else if a.path().is_ident("cfg_attr") {
            false
        } else {
            false
        }
    })
}

fn with_attr(attrs: &[Attribute]) -> Option<String> {
    for a in attrs {
        if a.path().is_ident("mls_codec") {
            let s = quote::quote!(#a).to_string().replace(' ', "");
            if let Some(i) = s.find("with=\"") {
                let rest = &s[i + 6..];
                let j = rest.find('"').unwrap();
                return Some(rest[..j].to_string());
            }
        }
    }
    None
}

fn repr_width(attrs: &[Attribute]) -> Option<usize> {
    for a in attrs {
        if a.path().is_ident("repr") {
            let s = quote::quote!(#a).to_string();
            for (n, w) in [("u8", 1), ("u16", 2), ("u32", 4), ("u64", 8)] {
                if s.contains(n) {
                    return Some(w);
                }
            }
        }
    }
    None
}

#[derive(Clone)]
struct ItemInfo {
    file: String,
    item: Item,
}

/// Hand-written codecs: name -> (dependencies that must be emitted first, Gallina text).
/// `$T` in the text of a generic custom type is its type parameter.
const CUSTOM: &[(&str, &[&str], &str)] = &[
    ("LeafIndex", &[], "Definition T_LeafIndex : ty := TLeafIndex."),
    // mls-rs-core/src/extension/list.rs: Vec<Extension> with duplicate extension types rejected, order kept
    ("ExtensionList", &["Extension"], "Definition T_ExtensionList : ty := TMap true (TU 2) TBytes.\n(* the entries of the map are Extension { extension_type: u16, extension_data: bytes } *)\nLemma T_Extension_shape : T_Extension = tstruct [TU 2; TBytes].\nProof. reflexivity. Qed."),
    // mls-rs-core/src/identity/credential.rs
    ("Credential", &["BasicCredential", "CertificateChain"], "Definition T_Credential : ty := tenum_d 2 [(1, T_BasicCredential); (2, T_CertificateChain)] 0 TBytes."),
    // mls-rs/src/group/proposal.rs: encoding refuses custom proposal types <= 7
    ("Proposal", &["AddProposal", "UpdateProposal", "RemoveProposal", "PreSharedKeyProposal", "ReInitProposal", "ExternalInit", "ExtensionList"],
     "Definition T_Proposal : ty := tenum_d 2 [(1, T_AddProposal); (2, T_UpdateProposal); (3, T_RemoveProposal); (4, T_PreSharedKeyProposal); (5, T_ReInitProposal); (6, T_ExternalInit); (7, T_ExtensionList)] 8 TBytes."),
    ("ProposalInfo", &["Sender", "ProposalSource"], "Definition T_ProposalInfo (T : ty) : ty := tstruct [T; T_Sender; T_ProposalSource]."),
    ("CommitEffect", &["NewEpoch", "Sender", "ProposalInfo", "ReInitProposal"],
     "Definition T_CommitEffect : ty := tenum 1 [(1, T_NewEpoch); (2, tstruct [T_NewEpoch; T_Sender]); (3, T_ProposalInfo T_ReInitProposal)]."),
    ("SecretKeyRatchet", &["MessageKeyData"], "Definition T_SecretKeyRatchet : ty := tstruct [TBytes; TU 4; TVec T_MessageKeyData]."),
    // message_signature.rs: the confirmation tag is present exactly for commits (content type 3)
    ("FramedContentAuthData", &["MessageSignature", "ConfirmationTag"],
     "Definition T_FramedContentAuthData (content_type : N) : ty :=\n  if content_type =? 3 then tstruct [T_MessageSignature; T_ConfirmationTag] else tstruct [T_MessageSignature]."),
    // framing.rs: FramedContent = group_id, epoch, sender, authenticated_data, content
    ("PublicMessage", &["FramedContent", "FramedContentAuthData", "MembershipTag"],
     "Definition fc_sender_tag (fc : val) : N := match vfield 2 fc with VEnum d _ => d | _ => 0 end.\nDefinition fc_content_type (fc : val) : N := match vfield 4 fc with VEnum d _ => d | _ => 0 end.\nDefinition T_PublicMessage : ty :=\n  TDep T_FramedContent (fun fc =>\n    TPair (T_FramedContentAuthData (fc_content_type fc))\n          (if fc_sender_tag fc =? 1 then TPair T_MembershipTag TUnit else TUnit))."),
    // message_signature.rs: the group context is signed for member and new-member-commit senders
    ("AuthenticatedContentTBS", &["ProtocolVersion", "WireFormat", "FramedContent", "GroupContext", "PublicMessage"],
     "Definition T_AuthenticatedContentTBS : ty :=\n  TPair T_ProtocolVersion (TPair T_WireFormat (TDep T_FramedContent (fun fc =>\n    if (fc_sender_tag fc =? 1) || (fc_sender_tag fc =? 4) then TPair T_GroupContext TUnit else TUnit)))."),
    // membership_tag.rs: TBM = TBS followed by the auth data
    ("AuthenticatedContentTBM", &["AuthenticatedContentTBS", "FramedContentAuthData"],
     "Definition T_AuthenticatedContentTBM : ty :=\n  TPair T_ProtocolVersion (TPair T_WireFormat (TDep T_FramedContent (fun fc =>\n    TPair (if (fc_sender_tag fc =? 1) || (fc_sender_tag fc =? 4) then TPair T_GroupContext TUnit else TUnit)\n          (T_FramedContentAuthData (fc_content_type fc)))))."),
    ("AuthenticatedContent", &["WireFormat", "FramedContent", "FramedContentAuthData", "PublicMessage"],
     "Definition T_AuthenticatedContent : ty :=\n  TPair T_WireFormat (TDep T_FramedContent (fun fc => T_FramedContentAuthData (fc_content_type fc)))."),
];

struct Tr {
    items: BTreeMap<String, Vec<ItemInfo>>, // name -> definitions (possibly several files)
    aliases: BTreeMap<String, Type>,
    /// per file: imported identifier -> module path segments of its `use`
    uses: BTreeMap<String, BTreeMap<String, Vec<String>>>,
    consts: BTreeMap<String, u64>,
    emitted: BTreeSet<String>,
    in_progress: BTreeSet<String>,
    out: String,
    table: Vec<(String, String, bool)>, // (display name, coq name, generic)
}

fn die(msg: String) -> ! {
    eprintln!("rs2v codec: {msg}");
    std::process::exit(3);
}

fn collect_items(file: &str, items: &[Item], tr: &mut Tr) {
    for it in items {
        match it {
            Item::Struct(s) if cfg_on(&s.attrs) && derives_codec(&s.attrs) => {
                tr.items.entry(s.ident.to_string()).or_default().push(ItemInfo { file: file.into(), item: it.clone() });
            }
            Item::Enum(e) if cfg_on(&e.attrs) && derives_codec(&e.attrs) => {
                tr.items.entry(e.ident.to_string()).or_default().push(ItemInfo { file: file.into(), item: it.clone() });
            }
            Item::Use(u) if cfg_on(&u.attrs) => {
                fn walk_use(t: &UseTree, prefix: &mut Vec<String>, out: &mut BTreeMap<String, Vec<String>>) {
                    match t {
                        UseTree::Path(p) => {
                            prefix.push(p.ident.to_string());
                            walk_use(&p.tree, prefix, out);
                            prefix.pop();
                        }
                        UseTree::Name(n) => {
                            out.insert(n.ident.to_string(), prefix.clone());
                        }
                        UseTree::Rename(r) => {
                            out.insert(r.rename.to_string(), prefix.clone());
                        }
                        UseTree::Group(g) => {
                            for i in &g.items {
                                walk_use(i, prefix, out);
                            }
                        }
                        UseTree::Glob(_) => {}
                    }
                }
                let m = tr.uses.entry(file.to_string()).or_default();
                walk_use(&u.tree, &mut vec![], m);
            }
            Item::Type(t) if cfg_on(&t.attrs) => {
                tr.aliases.insert(t.ident.to_string(), (*t.ty).clone());
            }
            Item::Const(c) if cfg_on(&c.attrs) => {
                if let Expr::Lit(ExprLit { lit: Lit::Int(i), .. }) = &*c.expr {
                    if let Ok(v) = i.base10_parse::<u64>() {
                        tr.consts.insert(c.ident.to_string(), v);
                    }
                }
            }
            Item::Mod(m) if cfg_on(&m.attrs) => {
                if let Some((_, its)) = &m.content {
                    if m.ident != "tests" && m.ident != "test_utils" && m.ident != "test_util" {
                        collect_items(file, its, tr);
                    }
                }
            }
            _ => {}
        }
    }
}

impl Tr {
    fn coq_name(&self, name: &str, file: &str) -> String {
        let defs = &self.items[name];
        if defs.len() > 1 {
            let stem = std::path::Path::new(file).file_stem().map(|s| s.to_string_lossy().to_string()).unwrap_or_default();
            format!("T_{stem}_{name}")
        } else {
            format!("T_{name}")
        }
    }

    fn pick<'a>(&'a self, name: &str, from_file: &str) -> Option<&'a ItemInfo> {
        let defs = self.items.get(name)?;
        if let Some(d) = defs.iter().find(|d| d.file == from_file) {
            return Some(d);
        }
        if defs.len() > 1 {
            // follow the `use` of the referring file: the definition lives in the file named
            // after the last module segment of the import path
            if let Some(path) = self.uses.get(from_file).and_then(|m| m.get(name)) {
                if let Some(last) = path.iter().rev().find(|s| *s != "crate" && *s != "super" && *s != "self") {
                    if let Some(d) = defs.iter().find(|d| d.file.ends_with(&format!("/{last}.rs")) || d.file.ends_with(&format!("/{last}/mod.rs"))) {
                        return Some(d);
                    }
                }
            }
            die(format!("ambiguous type {name} referenced from {from_file}: cannot resolve which definition is meant"));
        }
        defs.first()
    }

    fn ty(&mut self, t: &Type, file: &str, generics: &[String]) -> String {
        match t {
            Type::Path(p) => {
                let seg = p.path.segments.last().unwrap();
                let name = seg.ident.to_string();
                let args: Vec<&Type> = match &seg.arguments {
                    PathArguments::AngleBracketed(a) => a.args.iter().filter_map(|g| if let GenericArgument::Type(t) = g { Some(t) } else { None }).collect(),
                    _ => vec![],
                };
                if generics.contains(&name) {
                    return name;
                }
                match name.as_str() {
                    "u8" => "(TU 1)".into(),
                    "u16" => "(TU 2)".into(),
                    "u32" => "(TU 4)".into(),
                    "u64" => "(TU 8)".into(),
                    "bool" => "TBool".into(),
                    "Vec" => {
                        let inner = self.ty(args[0], file, generics);
                        if inner == "(TU 1)" { "TBytes".into() } else { format!("(TVec {inner})") }
                    }
                    "Option" => format!("(TOpt {})", self.ty(args[0], file, generics)),
                    "Box" | "Cow" | "Zeroizing" | "Arc" => self.ty(args[0], file, generics),
                    "HashMap" | "BTreeMap" | "LargeMap" | "SmallMap" => {
                        let k = self.ty(args[0], file, generics);
                        let v = self.ty(args[1], file, generics);
                        format!("(TMap false {k} {v})")
                    }
                    _ => {
                        if let Some(al) = self.aliases.get(&name).cloned() {
                            if !self.items.contains_key(&name) {
                                return self.ty(&al, file, generics);
                            }
                        }
                        self.ensure(&name, file);
                        let base = if CUSTOM.iter().any(|c| c.0 == name) { format!("T_{name}") } else { self.coq_name(&name, self.pick(&name, file).map(|d| d.file.clone()).unwrap_or_default().as_str()) };
                        if args.is_empty() {
                            base
                        } else {
                            let a: Vec<String> = args.iter().map(|a| self.ty(a, file, generics)).collect();
                            format!("({} {})", base, a.join(" "))
                        }
                    }
                }
            }
            Type::Array(a) => {
                let n = match &a.len {
                    Expr::Lit(ExprLit { lit: Lit::Int(i), .. }) => i.base10_parse::<u64>().unwrap(),
                    Expr::Path(p) => {
                        let c = p.path.segments.last().unwrap().ident.to_string();
                        *self.consts.get(&c).unwrap_or_else(|| die(format!("array length constant {c} not found")))
                    }
                    other => die(format!("array length {other:?}")),
                };
                format!("(TArr {n})")
            }
            Type::Tuple(t) => {
                let a: Vec<String> = t.elems.iter().map(|e| self.ty(e, file, generics)).collect();
                format!("(tstruct [{}])", a.join("; "))
            }
            Type::Reference(r) => self.ty(&r.elem, file, generics),
            Type::Slice(sl) => {
                let inner = self.ty(&sl.elem, file, generics);
                if inner == "(TU 1)" { "TBytes".into() } else { format!("(TVec {inner})") }
            }
            Type::Paren(p) => self.ty(&p.elem, file, generics),
            other => die(format!("unsupported field type {}", quote::quote!(#other))),
        }
    }

    fn field(&mut self, f: &Field, file: &str, generics: &[String]) -> String {
        match with_attr(&f.attrs).as_deref() {
            Some("mls_rs_codec::byte_vec") => "TBytes".into(),
            Some(other) => die(format!("unsupported mls_codec(with = {other})")),
            None => self.ty(&f.ty, file, generics),
        }
    }

    fn ensure(&mut self, name: &str, from_file: &str) {
        if let Some((cname, deps, text)) = CUSTOM.iter().find(|c| c.0 == name) {
            if self.emitted.contains(*cname) {
                return;
            }
            if !self.in_progress.insert(cname.to_string()) {
                die(format!("cyclic custom type {name}"));
            }
            // the library's own derive on the custom item (e.g. MlsEncode only) is superseded
            for d in deps.iter() {
                self.ensure(d, from_file);
            }
            self.out.push_str(text);
            self.out.push_str("\n\n");
            self.emitted.insert(cname.to_string());
            let generic = text.contains(&format!("T_{cname} ("));
            self.table.push((cname.to_string(), format!("T_{cname}"), generic));
            return;
        }
        let Some(info) = self.pick(name, from_file).cloned() else { die(format!("type {name} (used in {from_file}) has no derive and no custom model")) };
        let coq = self.coq_name(name, &info.file);
        if self.emitted.contains(&coq) {
            return;
        }
        if !self.in_progress.insert(coq.clone()) {
            die(format!("recursive wire type {name}"));
        }
        let file = info.file.clone();
        let (generics, body) = match &info.item {
            Item::Struct(s) => {
                let generics: Vec<String> = s.generics.type_params().map(|p| p.ident.to_string()).collect();
                let fields: Vec<String> = s.fields.iter().filter(|f| cfg_on(&f.attrs)).map(|f| self.field(f, &file, &generics)).collect();
                let body = if matches!(s.fields, Fields::Unnamed(_)) && fields.len() == 1 { fields[0].clone() } else { format!("tstruct [{}]", fields.join("; ")) };
                (generics, body)
            }
            Item::Enum(e) => {
                let generics: Vec<String> = e.generics.type_params().map(|p| p.ident.to_string()).collect();
                let mut width = repr_width(&e.attrs);
                let mut cases = vec![];
                for v in e.variants.iter().filter(|v| cfg_on(&v.attrs)) {
                    let Some((_, d)) = &v.discriminant else { die(format!("enum {name}: variant {} has no discriminant", v.ident)) };
                    let Expr::Lit(ExprLit { lit: Lit::Int(i), .. }) = d else { die(format!("enum {name}: non literal discriminant")) };
                    let val = i.base10_parse::<u64>().unwrap();
                    match i.suffix() {
                        "u8" => width = Some(1),
                        "u16" => width = Some(2),
                        "u32" => width = Some(4),
                        "u64" => width = Some(8),
                        _ => {}
                    }
                    let fields: Vec<&Field> = v.fields.iter().filter(|f| cfg_on(&f.attrs)).collect();
                    let payload = match fields.len() {
                        0 => "TUnit".to_string(),
                        1 => self.field(fields[0], &file, &generics),
                        _ => die(format!("enum {name}: variant with more than one field")),
                    };
                    cases.push(format!("({val}, {payload})"));
                }
                let w = width.unwrap_or_else(|| die(format!("enum {name}: no repr")));
                (generics, format!("tenum {w} [{}]", cases.join("; ")))
            }
            _ => unreachable!(),
        };
        let params: String = generics.iter().map(|g| format!(" ({g} : ty)")).collect();
        self.out.push_str(&format!("(* {} *)\nDefinition {coq}{params} : ty := {body}.\n\n", file));
        self.in_progress.remove(&coq);
        self.emitted.insert(coq.clone());
        self.table.push((coq[2..].to_string(), coq, !generics.is_empty()));
    }
}

fn walk(dir: &std::path::Path, out: &mut Vec<std::path::PathBuf>) {
    let mut ents: Vec<_> = std::fs::read_dir(dir).unwrap().map(|e| e.unwrap().path()).collect();
    ents.sort();
    for p in ents {
        if p.is_dir() {
            walk(&p, out);
        } else if p.extension().map(|e| e == "rs").unwrap_or(false) {
            out.push(p);
        }
    }
}

/// The hand-written codec of SecretKeyRatchet (group/secret_tree.rs), out_of_order build: the field
/// sequence is read off the three impls (size, encode, decode), which must agree with each other;
/// the descriptor is built from it and must be the one of the CUSTOM table.
fn ratchet_descriptor(repo: &str) -> String {
    let path = format!("{repo}/mls-rs/src/group/secret_tree.rs");
    let text = std::fs::read_to_string(&path).unwrap_or_else(|e| die(format!("{path}: {e}")));
    let file = syn::parse_file(&text).unwrap_or_else(|e| die(format!("{path}: {e}")));
    let flat = |t: &dyn quote::ToTokens| quote::quote!(#t).to_string().replace(' ', "");
    let other_build = |attrs: &[Attribute]| attrs.iter().any(|a| quote::quote!(#a).to_string().replace(' ', "").contains("cfg(not(feature=\"out_of_order\"))"));
    let mut size: Option<Vec<String>> = None;
    let mut enc: Option<Vec<String>> = None;
    let mut dec: Option<Vec<String>> = None;
    let part = |s: &str| -> String {
        match s {
            "mls_rs_codec::byte_vec::mls_encoded_len(&self.secret)" | "mls_rs_codec::byte_vec::mls_encode(&self.secret,writer)?;" | "secret:mls_rs_codec::byte_vec::mls_decode(reader)?" => "secret:TBytes".into(),
            "self.generation.mls_encoded_len()" | "self.generation.mls_encode(writer)?;" | "generation:u32::mls_decode(reader)?" => "generation:TU 4".into(),
            "mls_rs_codec::iter::mls_encoded_len(self.history.values())" | "mls_rs_codec::iter::mls_encode(self.history.values(),writer)" => "history:TVec T_MessageKeyData".into(),
            x => die(format!("SecretKeyRatchet codec: part `{x}`")),
        }
    };
    for it in &file.items {
        let Item::Impl(im) = it else { continue };
        if flat(&im.self_ty) != "SecretKeyRatchet" || other_build(&im.attrs) {
            continue;
        }
        let Some((_, tr, _)) = &im.trait_ else { continue };
        let body: Vec<Stmt> = im.items.iter().find_map(|i| if let ImplItem::Fn(f) = i { Some(f.block.stmts.clone()) } else { None }).unwrap_or_default();
        match flat(tr).as_str() {
            "MlsSize" => {
                // let len = A + B;  return len + C;   (the statement of the other build is dropped)
                let st: Vec<&Stmt> = body.iter().filter(|s| match s { Stmt::Expr(Expr::Return(r), _) => !other_build(&r.attrs), _ => true }).collect();
                if st.len() != 2 {
                    die(format!("SecretKeyRatchet::mls_encoded_len has {} statements", st.len()));
                }
                let mut v = vec![];
                let f0 = flat(st[0]);
                let sum = f0.strip_prefix("letlen=").and_then(|r| r.strip_suffix(';')).unwrap_or_else(|| die(format!("SecretKeyRatchet size: `{f0}`")));
                for p in sum.split('+') {
                    v.push(part(p));
                }
                let f1 = flat(st[1]);
                let last = f1.strip_prefix("#[cfg(feature=\"out_of_order\")]returnlen+").and_then(|r| r.strip_suffix(';')).unwrap_or_else(|| die(format!("SecretKeyRatchet size: `{f1}`")));
                v.push(part(last));
                size = Some(v);
            }
            "MlsEncode" => enc = Some(body.iter().map(|s| part(&flat(s))).collect()),
            "MlsDecode" => {
                let f = body.iter().map(|s| flat(s)).collect::<String>();
                let inner = f.strip_prefix("Ok(Self{").and_then(|r| r.strip_suffix("})")).unwrap_or_else(|| die(format!("SecretKeyRatchet decode: `{f}`")));
                let hist = "#[cfg(feature=\"out_of_order\")]history:mls_rs_codec::iter::mls_decode_collection(reader,|data|{letmutitems=LargeMap::default();while!data.is_empty(){letitem=MessageKeyData::mls_decode(data)?;items.insert(item.generation,item);}Ok(items)})?,";
                let Some(head) = inner.strip_suffix(hist) else { die(format!("SecretKeyRatchet decode of the history: `{inner}`")) };
                let mut v: Vec<String> = head.trim_end_matches(',').split(',').map(|p| part(p)).collect();
                v.push("history:TVec T_MessageKeyData".into());
                dec = Some(v);
            }
            _ => {}
        }
    }
    let (size, enc, dec) = (size.unwrap_or_else(|| die("SecretKeyRatchet: no MlsSize".into())), enc.unwrap_or_else(|| die("SecretKeyRatchet: no MlsEncode".into())), dec.unwrap_or_else(|| die("SecretKeyRatchet: no MlsDecode".into())));
    if size != enc || enc != dec {
        die(format!("SecretKeyRatchet: size {size:?}, encode {enc:?} and decode {dec:?} disagree"));
    }
    let tys: Vec<&str> = enc.iter().map(|f| f.split_once(':').unwrap().1).collect();
    format!("Definition T_SecretKeyRatchet : ty := tstruct [{}].", tys.join("; "))
}

pub fn run(repo: &str, out: &str) {
    let derived = ratchet_descriptor(repo);
    match CUSTOM.iter().find(|c| c.0 == "SecretKeyRatchet") {
        Some((_, _, text)) if *text == derived => {}
        _ => die(format!("SecretKeyRatchet: the descriptor read off the source is `{derived}`")),
    }
    let mut tr = Tr { items: BTreeMap::new(), uses: BTreeMap::new(), aliases: BTreeMap::new(), consts: BTreeMap::new(), emitted: BTreeSet::new(), in_progress: BTreeSet::new(), out: String::new(), table: vec![] };
    for krate in ["mls-rs-core/src", "mls-rs/src"] {
        let mut files = vec![];
        walk(std::path::Path::new(&format!("{repo}/{krate}")), &mut files);
        for f in files {
            let rel = f.strip_prefix(repo).unwrap().to_string_lossy().to_string();
            if rel.contains("test_utils") || rel.contains("/tests") || rel.ends_with("verif.rs") || rel.contains("interop_test_vectors") {
                continue;
            }
            let text = std::fs::read_to_string(&f).unwrap();
            let file = syn::parse_file(&text).unwrap_or_else(|e| die(format!("{rel}: {e}")));
            collect_items(&rel, &file.items, &mut tr);
        }
    }
    let names: Vec<(String, String)> = tr.items.iter().flat_map(|(n, ds)| ds.iter().map(move |d| (n.clone(), d.file.clone()))).collect();
    for (n, f) in &names {
        tr.ensure(n, f);
    }
    for (c, _, _) in CUSTOM {
        tr.ensure(c, "");
    }
    let mut o = String::new();
    o.push_str("(* GENERATED by /verif/translator (rs2v codec) from the derive(MlsSize, MlsEncode, MlsDecode) items of\n   mls-rs and mls-rs-core (cfg evaluated for the feature set of the verification harness).\n   Regenerated on every run of a check; do not edit. *)\n");
    o.push_str("From Coq Require Import NArith List String Bool.\nFrom MlsV Require Import Codec.\nImport ListNotations.\nLocal Open Scope bool_scope.\nLocal Open Scope N_scope.\n\n");
    o.push_str("Fixpoint vfield (n : nat) (v : val) : val :=\n  match v with VCons h t => match n with O => h | S n' => vfield n' t end | _ => VNil end.\n\n");
    o.push_str(&tr.out);
    o.push_str("Definition all_types : list (string * ty) := [\n");
    let rows: Vec<String> = tr.table.iter().filter(|(_, _, g)| !g).map(|(n, c, _)| format!("  (\"{n}\"%string, {c})")).collect();
    o.push_str(&rows.join(";\n"));
    o.push_str("\n].\n");
    std::fs::write(out, o).unwrap();
}
