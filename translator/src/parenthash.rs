//! Translate the computation of the parent hashes of an update path (tree_kem/parent_hash.rs:
//! ParentHash::new, TreeKemPublic::parent_hash_for_leaf, update_parent_hashes) into Gallina over the tree,
//! decoration and hash-cache models (Model/ParentHashCode.v).  The loop of parent_hash_for_leaf becomes
//! recursion on the reversed direct path; which nodes are skipped, which node is borrowed, which arguments go
//! to ParentHash::new in which order, what is stored in the parent and what becomes the running hash are
//! compiled from the source.  Anything outside the known shapes is refused (exit code 3).
use syn::*;

fn die(msg: &str) -> ! {
    eprintln!("rs2v parenthash: cannot translate: {msg}");
    std::process::exit(3);
}

fn flat<T: quote::ToTokens>(t: &T) -> String {
    quote::quote!(#t).to_string().replace(' ', "")
}

fn parse(path: &str) -> File {
    let src = std::fs::read_to_string(path).unwrap_or_else(|e| panic!("{path}: {e}"));
    syn::parse_file(&src).unwrap_or_else(|e| panic!("{path}: {e}"))
}

fn method<'a>(f: &'a File, ty: &str, name: &str) -> &'a ImplItemFn {
    let mut v = vec![];
    for i in &f.items {
        if let Item::Impl(im) = i {
            if im.trait_.is_some() || flat(&im.self_ty) != ty || im.attrs.iter().any(|a| flat(a).contains("cfg(test)")) {
                continue;
            }
            for it in &im.items {
                if let ImplItem::Fn(m) = it {
                    if m.sig.ident == name {
                        v.push(m);
                    }
                }
            }
        }
    }
    if v.len() != 1 {
        die(&format!("{} methods {ty}::{name}, expected 1", v.len()));
    }
    v[0]
}

fn params(sig: &Signature) -> Vec<String> {
    sig.inputs
        .iter()
        .filter_map(|a| match a {
            FnArg::Typed(t) => Some(flat(&t.pat)),
            _ => None,
        })
        .collect()
}

fn core(e: &Expr) -> &Expr {
    match e {
        Expr::Await(a) => core(&a.base),
        Expr::Try(t) => core(&t.expr),
        Expr::Paren(p) => core(&p.expr),
        Expr::Group(p) => core(&p.expr),
        Expr::Reference(r) => core(&r.expr),
        Expr::Cast(c) => core(&c.expr),
        _ => e,
    }
}

/// `node.<field>` of the loop variable
fn node_field(e: &Expr) -> String {
    match core(e) {
        Expr::Field(f) if flat(&f.base) == "node" => format!("CopathNode_{} node", flat(&f.member)),
        x => die(&format!("expected a field of the loop variable, found `{}`", flat(x))),
    }
}

/// the position of each field of ParentHashInput in PH's argument list, via ParentHash::new
fn ph_new(f: &File) -> Vec<String> {
    let fields: Vec<String> = f
        .items
        .iter()
        .find_map(|i| if let Item::Struct(s) = i { (s.ident == "ParentHashInput").then(|| s.fields.iter().map(|x| x.ident.as_ref().unwrap().to_string()).collect()) } else { None })
        .unwrap_or_else(|| die("struct ParentHashInput"));
    if fields != ["public_key", "parent_hash", "original_sibling_tree_hash"] {
        die("fields of ParentHashInput");
    }
    let m = method(f, "ParentHash", "new");
    let p = params(&m.sig);
    if p.len() != 4 || p[0] != "cipher_suite_provider" {
        die("parameters of ParentHash::new");
    }
    let st = &m.block.stmts;
    let Some(Stmt::Local(l)) = st.first() else { die("ParentHash::new: let input") };
    let Expr::Struct(sl) = core(&l.init.as_ref().unwrap_or_else(|| die("let input")).expr) else { die("ParentHashInput literal") };
    // for each struct field (= PH argument position) the parameter of `new` it is filled from
    let mut from = vec![];
    for fld in &fields {
        let v = sl.fields.iter().find(|x| flat(&x.member) == *fld).map(|x| flat(core(&x.expr))).unwrap_or_else(|| die("field of the literal"));
        let pos = p.iter().position(|q| *q == v).unwrap_or_else(|| die(&format!("field {fld} is filled from `{v}`")));
        from.push(pos);
    }
    let rest = flat(&m.block);
    if !rest.contains("letinput_bytes=input.mls_encode_to_vec()?;lethash=cipher_suite_provider.hash(&input_bytes)") || !rest.ends_with("Ok(Self(hash))}") {
        die("body of ParentHash::new");
    }
    if flat(&method(f, "ParentHash", "empty").block) != "{ParentHash(Vec::new())}" {
        die("ParentHash::empty");
    }
    from.iter().map(|x| x.to_string()).collect()
}

fn for_leaf(f: &File, nf: &File, from: &[String]) -> String {
    // NodeVec::direct_copath(index) = NodeIndex::from(index).direct_copath(&self.total_leaf_count())
    if flat(&method(nf, "NodeVec", "direct_copath").block) != "{NodeIndex::from(index).direct_copath(&self.total_leaf_count())}" {
        die("NodeVec::direct_copath");
    }
    if flat(&method(nf, "NodeVec", "is_resolution_empty").block) != "{self.find_in_resolution(index,None).is_none()}" {
        die("NodeVec::is_resolution_empty");
    }
    let m = method(f, "TreeKemPublic", "parent_hash_for_leaf");
    let st = &m.block.stmts;
    if st.len() != 3 {
        die("parent_hash_for_leaf has changed shape");
    }
    let init = match flat(&st[0]).as_str() {
        "letmuthash=ParentHash::empty();" => "0",
        x => die(&format!("initial hash `{x}`")),
    };
    let Stmt::Expr(Expr::ForLoop(fl), _) = &st[1] else { die("the loop of parent_hash_for_leaf") };
    if flat(&fl.pat) != "node" {
        die("loop variable");
    }
    let order = match flat(&fl.expr).as_str() {
        "self.nodes.direct_copath(index).into_iter().rev()" => "rev dp",
        "self.nodes.direct_copath(index).into_iter()" | "self.nodes.direct_copath(index)" => "dp",
        x => die(&format!("what the loop runs over: `{x}`")),
    };
    let b = &fl.body.stmts;
    if b.len() != 4 {
        die("body of the loop");
    }
    // if self.nodes.is_resolution_empty(node.X) { continue; }
    let Stmt::Expr(Expr::If(i), _) = &b[0] else { die("the skip test") };
    if i.else_branch.is_some() || flat(&i.then_branch) != "{continue;}" {
        die("the skip test");
    }
    let (neg, c) = match &*i.cond {
        Expr::Unary(u) if matches!(u.op, UnOp::Not(_)) => (true, core(&u.expr)),
        x => (false, core(x)),
    };
    let Expr::MethodCall(mc) = c else { die("the skip condition") };
    if mc.method != "is_resolution_empty" || flat(&mc.receiver) != "self.nodes" || mc.args.len() != 1 {
        die("the skip condition");
    }
    let skip_arg = node_field(&mc.args[0]);
    let skip = if neg { "negb e" } else { "e" };
    // let parent = self.nodes.borrow_as_parent_mut(node.Y)?;
    let Stmt::Local(lp) = &b[1] else { die("let parent") };
    if flat(&lp.pat) != "parent" {
        die("let parent");
    }
    let Expr::MethodCall(bp) = core(&lp.init.as_ref().unwrap_or_else(|| die("let parent")).expr) else { die("let parent") };
    if bp.method != "borrow_as_parent_mut" || flat(&bp.receiver) != "self.nodes" || bp.args.len() != 1 {
        die("let parent");
    }
    let parent = node_field(&bp.args[0]);
    // let calculated = ParentHash::new(csp, A, B, C).await?;
    let Stmt::Local(lc) = &b[2] else { die("let calculated") };
    if flat(&lc.pat) != "calculated" {
        die("let calculated");
    }
    let Expr::Call(nc) = core(&lc.init.as_ref().unwrap_or_else(|| die("let calculated")).expr) else { die("let calculated") };
    if flat(&nc.func) != "ParentHash::new" || nc.args.len() != 4 || flat(&nc.args[0]) != "cipher_suite_provider" {
        die("call of ParentHash::new");
    }
    let mut needs_cache: Option<String> = None;
    let mut arg = |e: &Expr| -> String {
        match core(e) {
            Expr::Field(fe) if flat(&fe.base) == "parent" && flat(&fe.member) == "public_key" => format!("(fst (d ({parent})))"),
            Expr::Field(fe) if flat(&fe.base) == "parent" && flat(&fe.member) == "parent_hash" => format!("(snd (d ({parent})))"),
            Expr::Path(p) if flat(p) == "hash" => "hash".into(),
            Expr::Index(ix) if flat(&ix.expr) == "self.tree_hashes.current" => {
                needs_cache = Some(node_field(&ix.index));
                "sh".into()
            }
            x => die(&format!("argument of ParentHash::new: `{}`", flat(x))),
        }
    };
    let given: Vec<String> = nc.args.iter().skip(1).map(|a| arg(a)).collect();
    // PH's arguments in the order of the struct fields
    let ph_args: Vec<String> = from.iter().map(|p| given[p.parse::<usize>().unwrap() - 1].clone()).collect();
    let cache_ix = needs_cache.unwrap_or_else(|| die("ParentHash::new is not given a cached tree hash"));
    // parent.parent_hash = core::mem::replace(&mut hash, calculated);
    let (stored, next) = match flat(&b[3]).as_str() {
        "parent.parent_hash=core::mem::replace(&muthash,calculated);" => ("hash", "calculated"),
        "parent.parent_hash=calculated.clone();hash=calculated;" => ("calculated", "calculated"),
        x => die(&format!("what the loop stores: `{x}`")),
    };
    if flat(&st[2]) != "Ok(hash)" {
        die("result of parent_hash_for_leaf");
    }
    format!(
        "  Fixpoint gen_ph_loop (t : tree) (c : hcache) (nodes : list CopathNode) (d : dec) (hash : N) : res (dec * N) :=\n    \
match nodes with\n    | [] => Ok (d, hash)\n    | node :: rest =>\n        \
bind (resolution_empty t ({skip_arg})) (fun e =>\n        if {skip} then gen_ph_loop t c rest d hash else\n        \
match get t ({parent}) with\n        | Some (Par _) =>\n            bind (hidx c ({cache_ix})) (fun sh =>\n            \
let calculated := PH {} {} {} in\n            gen_ph_loop t c rest (set_ph d ({parent}) {stored}) {next})\n        \
| _ => Panic\n        end)\n    end.\n\n  \
Definition gen_parent_hash_for_leaf (t : tree) (c : hcache) (d : dec) (index : N) : res (dec * N) :=\n    \
bind (direct_copath (2 * index) (total_leaf_count t)) (fun dp => gen_ph_loop t c ({order}) d {init}).\n",
        ph_args[0], ph_args[1], ph_args[2]
    )
}

fn update(f: &File) -> String {
    let m = method(f, "TreeKemPublic", "update_parent_hashes");
    let p = params(&m.sig);
    if p != ["index", "verify_leaf_hash", "cipher_suite_provider"] {
        die("parameters of update_parent_hashes");
    }
    let st = &m.block.stmts;
    if st.len() != 5 {
        die("update_parent_hashes has changed shape");
    }
    let hashes = |s: &Stmt| -> bool { flat(s).starts_with("self.update_hashes(&[index],cipher_suite_provider).await") };
    if !hashes(&st[0]) || !hashes(&st[4]) {
        die("update_parent_hashes: the two update_hashes calls");
    }
    if flat(&st[1]) != "letleaf_hash=self.parent_hash_for_leaf(cipher_suite_provider,index).await?;" {
        die("update_parent_hashes: parent_hash_for_leaf call");
    }
    if flat(&st[2]) != "letleaf=self.nodes.borrow_as_leaf_mut(index)?;" {
        die("update_parent_hashes: let leaf");
    }
    let Stmt::Expr(Expr::If(i), _) = &st[3] else { die("update_parent_hashes: verify branch") };
    if flat(&i.cond) != "verify_leaf_hash" {
        die("update_parent_hashes: verify branch");
    }
    if flat(&i.then_branch) != "{ifletLeafNodeSource::Commit(parent_hash)=&leaf.leaf_node_source{if!leaf_hash.matches(parent_hash){returnErr(MlsError::ParentHashMismatch);}}else{returnErr(MlsError::InvalidLeafNodeSource);}}" {
        die("update_parent_hashes: the verifying branch");
    }
    match i.else_branch.as_ref().map(|e| flat(&e.1)).as_deref() {
        Some("{leaf.leaf_node_source=LeafNodeSource::Commit(leaf_hash);}") => {}
        _ => die("update_parent_hashes: the computing branch"),
    }
    "  (* verify_leaf_hash = false: the committer; with true the stored leaf hash is compared instead of assigned *)\n  \
Definition gen_update_parent_hashes (t : tree) (c : hcache) (d : dec) (index : N) : res (dec * hcache) :=\n    \
bind (update_hashes (fun n => enc (d n)) c t [index]) (fun c1 =>\n    \
bind (gen_parent_hash_for_leaf t c1 d index) (fun dh =>\n    \
let d2 := set_ph (fst dh) (2 * index) (snd dh) in\n    \
bind (update_hashes (fun n => enc (d2 n)) c1 t [index]) (fun c2 => Ok (d2, c2)))).\n"
        .into()
}

pub fn run(repo: &str, out: &str) {
    let f = parse(&format!("{repo}/mls-rs/src/tree_kem/parent_hash.rs"));
    let nf = parse(&format!("{repo}/mls-rs/src/tree_kem/node.rs"));
    let from = ph_new(&f);
    let s = format!(
        "(* GENERATED by rs2v parenthash from mls-rs/src/tree_kem/parent_hash.rs.  Do not edit. *)\n\
From Coq Require Import NArith List Bool.\nFrom MlsV Require Import Res TreeMathGen TreeMathProofs Tree Kem HashCache ParentHashCode.\nImport ListNotations.\nLocal Open Scope N_scope.\n\n\
Section Gen.\n  Variable PH : N -> N -> hterm -> N.\n  Variable enc : N * N -> N.\n\n{}\n{}End Gen.\n",
        for_leaf(&f, &nf, &from),
        update(&f)
    );
    std::fs::write(out, s).unwrap();
}
