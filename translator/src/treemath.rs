//! Translate mls-rs/src/tree_kem/math.rs (+ the index arithmetic of node.rs) to Gallina.
use crate::expr::*;
use proc_macro2::{Delimiter, Group, TokenStream, TokenTree};
use std::collections::{BTreeMap, BTreeSet};
use syn::*;

fn subst_t(ts: TokenStream) -> TokenStream {
    // replace `$t` by `u32` in a macro transcriber
    let mut out = Vec::new();
    let mut it = ts.into_iter().peekable();
    while let Some(tt) = it.next() {
        match tt {
            TokenTree::Punct(ref p) if p.as_char() == '$' => {
                if let Some(TokenTree::Ident(id)) = it.peek() {
                    if id == "t" {
                        it.next();
                        out.push(TokenTree::Ident(proc_macro2::Ident::new("u32", proc_macro2::Span::call_site())));
                        continue;
                    }
                }
                out.push(tt);
            }
            TokenTree::Group(g) => {
                let mut ng = Group::new(g.delimiter(), subst_t(g.stream()));
                ng.set_span(g.span());
                out.push(TokenTree::Group(ng));
            }
            other => out.push(other),
        }
    }
    out.into_iter().collect()
}

struct Src {
    fns: Vec<(String, Signature, Block)>, // (qualified rust name, sig, body)
    structs: BTreeMap<String, Vec<String>>,
    newtypes: BTreeSet<String>,
    consts: Vec<(String, Expr)>,
}

fn cfg_off(attrs: &[Attribute]) -> bool {
    // Items gated on cfg(test) or on features the harness build does not need are skipped.
    attrs.iter().any(|a| {
        if !a.path().is_ident("cfg") {
            return false;
        }
        let s = quote::quote!(#a).to_string();
        s.contains("test") && !s.contains("any")
    })
}

fn self_ty_name(t: &Type) -> String {
    match t {
        Type::Path(p) => p.path.segments.last().unwrap().ident.to_string(),
        _ => "?".into(),
    }
}

fn collect(file: &File, src: &mut Src) {
    for item in &file.items {
        match item {
            Item::Fn(f) if !cfg_off(&f.attrs) => src.fns.push((f.sig.ident.to_string(), f.sig.clone(), (*f.block).clone())),
            Item::Struct(s) => match &s.fields {
                Fields::Named(n) => {
                    src.structs.insert(s.ident.to_string(), n.named.iter().map(|f| f.ident.as_ref().unwrap().to_string()).collect());
                }
                Fields::Unnamed(u) if u.unnamed.len() == 1 => {
                    src.newtypes.insert(s.ident.to_string());
                }
                _ => {}
            },
            Item::Const(c) => src.consts.push((c.ident.to_string(), (*c.expr).clone())),
            Item::Trait(t) => {
                for ti in &t.items {
                    if let TraitItem::Fn(f) = ti {
                        if let Some(b) = &f.default {
                            if !cfg_off(&f.attrs) {
                                src.fns.push((f.sig.ident.to_string(), f.sig.clone(), b.clone()));
                            }
                        }
                    }
                }
            }
            Item::Impl(im) if !cfg_off(&im.attrs) => collect_impl(im, src),
            Item::Macro(m) if m.ident.as_ref().map(|i| i == "impl_tree_stdint").unwrap_or(false) => {
                // macro_rules! impl_tree_stdint { ($t:ty) => { impl TreeIndex for $t { .. } }; }
                let toks: Vec<TokenTree> = m.mac.tokens.clone().into_iter().collect();
                let body = toks
                    .iter()
                    .rev()
                    .find_map(|t| match t {
                        TokenTree::Group(g) if g.delimiter() == Delimiter::Brace => Some(g.stream()),
                        _ => None,
                    })
                    .expect("macro transcriber");
                let im: ItemImpl = syn::parse2(subst_t(body)).expect("impl_tree_stdint body parses as an impl");
                collect_impl(&im, src);
            }
            _ => {}
        }
    }
}

fn collect_impl(im: &ItemImpl, src: &mut Src) {
    let ty = self_ty_name(&im.self_ty);
    for ii in &im.items {
        if let ImplItem::Fn(f) = ii {
            if cfg_off(&f.attrs) {
                continue;
            }
            let n = f.sig.ident.to_string();
            let q = if ty == "u32" { n } else { format!("{ty}::{n}") };
            src.fns.push((q, f.sig.clone(), f.block.clone()));
        }
    }
}

pub fn run(repo: &str, out: &str) {
    let mut src = Src { fns: vec![], structs: BTreeMap::new(), newtypes: BTreeSet::new(), consts: vec![] };
    for f in ["mls-rs/src/tree_kem/math.rs", "mls-rs/src/tree_kem/node.rs"] {
        let p = format!("{repo}/{f}");
        let text = std::fs::read_to_string(&p).unwrap_or_else(|e| panic!("{p}: {e}"));
        let file = syn::parse_file(&text).unwrap_or_else(|e| panic!("{p}: {e}"));
        collect(&file, &mut src);
    }
    // what is translated, in dependency order (rust name, coq name, loop fuel)
    let wanted: &[(&str, &str)] = &[
        ("root", "root"),
        ("left_unchecked", "left_unchecked"),
        ("right_unchecked", "right_unchecked"),
        ("is_leaf", "is_leaf"),
        ("is_in_tree", "is_in_tree"),
        ("parent_sibling", "parent_sibling"),
        ("direct_copath", "direct_copath"),
        ("leaf_lca_level", "leaf_lca_level"),
        ("LeafIndex::from_node_index_unchecked", "LeafIndex_from_node_index_unchecked"),
        ("LeafIndex::next_unchecked", "LeafIndex_next_unchecked"),
        ("LeafIndex::try_from", "LeafIndex_try_from"),
        ("subtree", "subtree"),
    ];
    let mut env = Env { fns: BTreeMap::new(), bool_fns: BTreeSet::new(), structs: BTreeMap::new(), newtypes: src.newtypes.clone(), consts: BTreeMap::new() };
    for (r, c) in wanted {
        env.fns.insert(r.to_string(), c.to_string());
        if let Some(tail) = r.rsplit("::").next() {
            env.fns.entry(tail.to_string()).or_insert(c.to_string());
        }
    }
    for s in ["ParentSibling", "CopathNode", "SubTree"] {
        env.structs.insert(s.to_string(), src.structs.get(s).unwrap_or_else(|| panic!("struct {s} not found")).clone());
    }
    for (r, _) in wanted {
        let (_, sig, _) = src.fns.iter().find(|(n, _, _)| n == r).unwrap_or_else(|| {
            eprintln!("rs2v: function {r} not found in source");
            std::process::exit(3)
        });
        if let ReturnType::Type(_, t) = &sig.output {
            if quote::quote!(#t).to_string() == "bool" {
                env.bool_fns.insert(r.rsplit("::").next().unwrap().to_string());
            }
        }
    }
    let mut o = String::new();
    o.push_str("(* GENERATED by /verif/translator (rs2v treemath) from mls-rs/src/tree_kem/{math,node}.rs.\n   Regenerated on every run of a check; do not edit. *)\n");
    o.push_str("From Coq Require Import NArith List.\nFrom MlsV Require Import Res.\nImport ListNotations.\nLocal Open Scope N_scope.\n\n");
    for (name, fields) in &env.structs {
        let fs: Vec<String> = fields.iter().map(|f| format!("{name}_{f} : N")).collect();
        o.push_str(&format!("Record {name} := mk{name} {{ {} }}.\n", fs.join("; ")));
    }
    o.push('\n');
    // constants
    for (n, e) in &src.consts {
        if n == "MAX_LEAF_INDEX" {
            let mut f = Fun::new(&env, n, IntTy::U32, vec![]);
            let m = f.expr_m(e);
            o.push_str(&format!("Definition {n}_m : res N :=\n  {m}.\n"));
            o.push_str(&format!("Definition {n} : N := match {n}_m with Ok v => v | _ => 0 end.\n\n"));
            env.consts.insert(n.clone(), n.clone());
        }
    }
    if !env.consts.contains_key("MAX_LEAF_INDEX") {
        eprintln!("rs2v: const MAX_LEAF_INDEX not found");
        std::process::exit(3);
    }
    for (r, c) in wanted {
        let (_, sig, body) = src.fns.iter().find(|(n, _, _)| n == r).unwrap();
        let mut params = vec![];
        for a in &sig.inputs {
            match a {
                FnArg::Receiver(_) => params.push("self".to_string()),
                FnArg::Typed(t) => match &*t.pat {
                    Pat::Ident(i) => params.push(i.ident.to_string()),
                    other => panic!("param pattern {other:?}"),
                },
            }
        }
        let mut f = Fun::new(&env, c, IntTy::U32, params.clone());
        let m = f.block_m(&body.stmts, None);
        for a in &f.aux {
            o.push_str(a);
            o.push('\n');
        }
        let ps: Vec<String> = params.iter().map(|p| format!("({p} : N)")).collect();
        o.push_str(&format!("Definition {c} {} :=\n  {m}.\n\n", ps.join(" ")));
    }
    std::fs::write(out, o).unwrap();
}
