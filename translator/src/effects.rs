//! Extract, from the message-processing and commit code of mls-rs, the ORDER of possible
//! failure points (`?`, `return Err`) and of mutations of the member's state (`self.x = ..`,
//! mutating calls on `self.x`, calls handing out `&mut self`), with the branch / loop structure,
//! callees inlined.  Output: Gen/ProcessEffects.v (lists of `ev` for Model/Effects.v).
//!
//! The extraction is syntactic and conservative in one direction only where stated:
//!  - a mutation is: an assignment whose target is rooted at `self` (or at a local bound to
//!    `self.group_state_mut()` / `&mut self.f`); a method call on such a root whose name is a
//!    known mutator or whose receiver chain goes through a `*_mut()` getter; a call of a
//!    `&mut self` method that is not inlined;
//!  - a fallible mutation (`EFMut`) is a mutating call directly under `?`;
//!  - every `?` and every `return Err(..)` is a failure point.
use proc_macro2::Span;
use std::collections::{BTreeMap, HashSet};
use std::fmt::Write as _;
use syn::spanned::Spanned;
use syn::*;

#[derive(Clone, Debug)]
enum Ev {
    Fail(usize),
    Mut(String, usize),
    FMut(String, usize),
    Alt(Vec<Vec<Ev>>),
    Loop(Vec<Ev>),
    Ret,
}

struct FnDef {
    container: String,
    file: String,
    mut_self: bool,
    block: Block,
}

struct Db {
    fns: BTreeMap<String, Vec<FnDef>>,
}

const MUTATORS: &[&str] = &[
    "insert", "push", "pop", "remove", "clear", "retain", "extend", "truncate", "resize", "take", "replace", "swap", "drain",
    "append", "set", "push_back", "pop_front", "insert_leaf", "update_leaf", "update_node", "apply_update_path", "batch_edit",
    "get_epoch_mut", "write_to_storage", "delete", "message_key_generation", "next_message_key", "get_message_key",
];

fn cfg_test(attrs: &[Attribute]) -> bool {
    attrs.iter().any(|a| {
        if !a.path().is_ident("cfg") {
            return false;
        }
        let s = quote::quote!(#a).to_string();
        (s.contains("test") && !s.contains("any") && !s.contains("not")) || s.contains("not (feature = \"prior_epoch\")") || s.contains("not (feature = \"by_ref_proposal\")") || s.contains("not (feature = \"private_message\")") || s.contains("not (feature = \"std\")") || s.contains("not (feature = \"psk\")") || s.contains("not (feature = \"tree_index\")")
    })
}

fn ty_name(t: &Type) -> String {
    match t {
        Type::Path(p) => p.path.segments.last().map(|s| s.ident.to_string()).unwrap_or_default(),
        Type::Reference(r) => ty_name(&r.elem),
        _ => "?".into(),
    }
}

fn load(db: &mut Db, repo: &str, rel: &str) {
    let path = format!("{repo}/{rel}");
    let src = std::fs::read_to_string(&path).unwrap_or_else(|e| panic!("{path}: {e}"));
    let file = syn::parse_file(&src).unwrap_or_else(|e| panic!("{path}: {e}"));
    for item in &file.items {
        match item {
            Item::Impl(im) if !cfg_test(&im.attrs) => {
                let container = ty_name(&im.self_ty);
                for it in &im.items {
                    if let ImplItem::Fn(f) = it {
                        if cfg_test(&f.attrs) {
                            continue;
                        }
                        let mut_self = matches!(f.sig.inputs.first(), Some(FnArg::Receiver(r)) if r.mutability.is_some());
                        db.fns.entry(f.sig.ident.to_string()).or_default().push(FnDef { container: container.clone(), file: rel.to_string(), mut_self, block: f.block.clone() });
                    }
                }
            }
            Item::Trait(tr) if !cfg_test(&tr.attrs) => {
                let container = tr.ident.to_string();
                for it in &tr.items {
                    if let TraitItem::Fn(f) = it {
                        if cfg_test(&f.attrs) {
                            continue;
                        }
                        if let Some(b) = &f.default {
                            let mut_self = matches!(f.sig.inputs.first(), Some(FnArg::Receiver(r)) if r.mutability.is_some());
                            db.fns.entry(f.sig.ident.to_string()).or_default().push(FnDef { container: container.clone(), file: rel.to_string(), mut_self, block: b.clone() });
                        }
                    }
                }
            }
            _ => {}
        }
    }
}

struct Cx<'a> {
    db: &'a Db,
    container: String,
    aliases: HashSet<String>,
    stack: Vec<String>,
    skip: &'a [&'a str],
    notes: Vec<String>,
}

fn line(s: Span) -> usize {
    s.start().line
}

fn strip(e: &Expr) -> &Expr {
    match e {
        Expr::Paren(p) => strip(&p.expr),
        Expr::Await(a) => strip(&a.base),
        Expr::Group(g) => strip(&g.expr),
        _ => e,
    }
}

fn is_self(e: &Expr) -> bool {
    matches!(strip(e), Expr::Path(p) if p.path.is_ident("self"))
}

/// (rooted at self / alias, went through a `*_mut()` getter, textual path)
fn root_info(e: &Expr, cx: &Cx) -> (bool, bool, String) {
    match strip(e) {
        Expr::Path(p) => {
            let id = p.path.segments.last().map(|s| s.ident.to_string()).unwrap_or_default();
            let rooted = p.path.is_ident("self") || cx.aliases.contains(&id);
            (rooted, cx.aliases.contains(&id), id)
        }
        Expr::Field(f) => {
            let (r, m, s) = root_info(&f.base, cx);
            let name = match &f.member {
                Member::Named(i) => i.to_string(),
                Member::Unnamed(i) => i.index.to_string(),
            };
            (r, m, format!("{s}.{name}"))
        }
        Expr::Index(i) => {
            let (r, m, s) = root_info(&i.expr, cx);
            (r, m, format!("{s}[..]"))
        }
        Expr::Unary(u) => root_info(&u.expr, cx),
        Expr::Reference(r) => root_info(&r.expr, cx),
        Expr::Try(t) => root_info(&t.expr, cx),
        Expr::MethodCall(m) => {
            let (r, mm, s) = root_info(&m.receiver, cx);
            let n = m.method.to_string();
            let getter_mut = n.ends_with("_mut") || n == "as_mut" || n == "borrow_mut";
            let passthrough = getter_mut || matches!(n.as_str(), "as_ref" | "unwrap" | "expect" | "iter" | "iter_mut" | "ok_or" | "as_deref" | "as_deref_mut");
            if passthrough || getter_mut {
                (r, mm || getter_mut, format!("{s}.{n}()"))
            } else {
                (false, false, format!("{s}.{n}()"))
            }
        }
        _ => (false, false, "?".into()),
    }
}

fn passes_self(args: &syn::punctuated::Punctuated<Expr, Token![,]>, cx: &Cx) -> bool {
    args.iter().any(|a| match strip(a) {
        Expr::Path(p) => p.path.is_ident("self"),
        Expr::Reference(r) if r.mutability.is_some() => root_info(&r.expr, cx).0,
        _ => false,
    })
}

fn resolve<'a>(cx: &Cx<'a>, name: &str, prefer: &[&str]) -> Option<&'a FnDef> {
    let c = cx.db.fns.get(name)?;
    // the analysed object is a Group: its impl of a trait method overrides the trait's default body
    let first = if cx.container == "MessageProcessor" { "Group" } else { cx.container.as_str() };
    for p in std::iter::once(first).chain(std::iter::once(cx.container.as_str())).chain(prefer.iter().copied()) {
        if let Some(f) = c.iter().find(|f| f.container == p) {
            return Some(f);
        }
    }
    if c.len() == 1 {
        c.first()
    } else {
        None
    }
}

fn inline(cx: &mut Cx, name: &str, f: &FnDef, at: usize) -> Vec<Ev> {
    let key = format!("{}::{}", f.container, name);
    if cx.skip.contains(&name) {
        cx.notes.push(format!("call of {key} at line {at}: not followed (separate obligation)"));
        return vec![];
    }
    if cx.stack.contains(&key) || cx.stack.len() > 10 {
        return if f.mut_self { vec![Ev::Mut(format!("{key} (recursive call)"), at)] } else { vec![] };
    }
    cx.stack.push(key);
    let saved = (std::mem::take(&mut cx.aliases), std::mem::replace(&mut cx.container, f.container.clone()));
    let ev = seq(block(cx, &f.block), vec![]);
    cx.aliases = saved.0;
    cx.container = saved.1;
    cx.stack.pop();
    ev
}

fn block(cx: &mut Cx, b: &Block) -> Vec<Ev> {
    let mut out = vec![];
    for st in &b.stmts {
        match st {
            Stmt::Local(l) => {
                if cfg_test(&l.attrs) {
                    continue;
                }
                if let Some(init) = &l.init {
                    out.extend(expr(cx, &init.expr));
                    // alias tracking
                    let e0 = strip(&init.expr);
                    let is_alias = match e0 {
                        Expr::MethodCall(m) => is_self(&m.receiver) && m.method.to_string().ends_with("_mut"),
                        Expr::Reference(r) => r.mutability.is_some() && root_info(&r.expr, cx).0,
                        _ => false,
                    };
                    if is_alias {
                        if let Pat::Ident(pi) = &l.pat {
                            cx.aliases.insert(pi.ident.to_string());
                        }
                    }
                    if let Some((_, els)) = &init.diverge {
                        let e = expr(cx, els);
                        out.push(Ev::Alt(vec![e, vec![]]));
                    }
                }
            }
            Stmt::Expr(e, _) => out.extend(expr(cx, e)),
            Stmt::Item(_) | Stmt::Macro(_) => {}
        }
    }
    out
}

fn is_err_value(e: &Expr) -> bool {
    match strip(e) {
        Expr::Call(c) => matches!(strip(&c.func), Expr::Path(p) if p.path.segments.last().map(|s| s.ident == "Err").unwrap_or(false)),
        _ => false,
    }
}

/// Is this expression (directly) a mutating call? Returns its description.
fn mutating_call(cx: &Cx, e: &Expr) -> Option<String> {
    match strip(e) {
        Expr::MethodCall(m) => {
            let n = m.method.to_string();
            if is_self(&m.receiver) {
                if let Some(f) = resolve(cx, &n, &["Group", "MessageProcessor"]) {
                    let _ = f;
                    return None; // inlined instead
                }
                return None;
            }
            let (rooted, via_mut, path) = root_info(&m.receiver, cx);
            if rooted && (MUTATORS.contains(&n.as_str()) || via_mut) && !n.ends_with("_mut") {
                return Some(format!("{path}.{n}()"));
            }
            None
        }
        _ => None,
    }
}

fn is_inlined_call(cx: &Cx, e: &Expr) -> bool {
    match strip(e) {
        Expr::MethodCall(m) if is_self(&m.receiver) => {
            let n = m.method.to_string();
            !cx.skip.contains(&n.as_str()) && resolve(cx, &n, &["Group", "MessageProcessor"]).is_some()
        }
        Expr::Call(c) => {
            let first_self = c.args.first().map(is_self).unwrap_or(false);
            match strip(&c.func) {
                Expr::Path(p) if first_self => {
                    let last = p.path.segments.last().map(|s| s.ident.to_string()).unwrap_or_default();
                    !cx.skip.contains(&last.as_str()) && cx.db.fns.contains_key(&last)
                }
                _ => false,
            }
        }
        _ => false,
    }
}

/// mutations that are not mutations of an existing member's state, with the reason
const ALLOWED: &[(&str, &str)] = &[
    ("self.private_tree.self_index = ..", "commit_internal for an EXTERNAL commit: `self` is the group under construction, dropped when the build fails"),
];

/// Events of `e?`: the `?` is a failure point of its own unless `e` is (a `.map(..)` of) an
/// inlined call, whose failure points are already listed; for a match / if / block the `?`
/// is distributed over the arms.
fn try_of(cx: &mut Cx, e: &Expr, at: usize) -> Vec<Ev> {
    let inner = strip(e);
    let mut out = vec![];
    match inner {
        Expr::Match(m) => {
            out.extend(expr(cx, &m.expr));
            let mut arms = vec![];
            for arm in &m.arms {
                if cfg_test(&arm.attrs) {
                    continue;
                }
                let mut a = vec![];
                if let Some((_, g)) = &arm.guard {
                    a.extend(expr(cx, g));
                }
                a.extend(try_of(cx, &arm.body, at));
                arms.push(a);
            }
            out.push(Ev::Alt(arms));
        }
        Expr::If(i) => {
            out.extend(expr(cx, &i.cond));
            let t = try_of_block(cx, &i.then_branch, at);
            let f = match &i.else_branch {
                Some((_, e)) => try_of(cx, e, at),
                None => vec![],
            };
            out.push(Ev::Alt(vec![t, f]));
        }
        Expr::Block(b) => out.extend(try_of_block(cx, &b.block, at)),
        Expr::MethodCall(m) if matches!(m.method.to_string().as_str(), "map" | "map_err") && passthrough_inlined(cx, &m.receiver) => {
            out.extend(expr(cx, inner));
        }
        _ => {
            if let Some(desc) = mutating_call(cx, inner) {
                if let Expr::MethodCall(m) = inner {
                    out.extend(expr(cx, &m.receiver).into_iter().filter(|x| !matches!(x, Ev::Mut(..))));
                    for a in &m.args {
                        out.extend(expr(cx, a));
                    }
                }
                out.push(Ev::FMut(desc, at));
            } else {
                out.extend(expr(cx, e));
                if !is_inlined_call(cx, inner) {
                    out.push(Ev::Fail(at));
                }
            }
        }
    }
    out
}

fn passthrough_inlined(cx: &Cx, e: &Expr) -> bool {
    let e = strip(e);
    if is_inlined_call(cx, e) {
        return true;
    }
    match e {
        Expr::MethodCall(m) if matches!(m.method.to_string().as_str(), "map" | "map_err") => passthrough_inlined(cx, &m.receiver),
        _ => false,
    }
}

fn try_of_block(cx: &mut Cx, b: &Block, at: usize) -> Vec<Ev> {
    // all statements but the tail expression as usual
    let mut stmts = b.stmts.clone();
    let tail = match stmts.last() {
        Some(Stmt::Expr(e, None)) => Some(e.clone()),
        _ => None,
    };
    if tail.is_some() {
        stmts.pop();
    }
    let head = Block { brace_token: b.brace_token, stmts };
    let mut out = block(cx, &head);
    match tail {
        Some(e) => out.extend(try_of(cx, &e, at)),
        None => out.push(Ev::Fail(at)),
    }
    out
}

fn expr(cx: &mut Cx, e: &Expr) -> Vec<Ev> {
    let mut out = vec![];
    match e {
        Expr::Try(t) => out.extend(try_of(cx, &t.expr, line(t.question_token.span()))),
        Expr::Await(a) => out.extend(expr(cx, &a.base)),
        Expr::Paren(p) => out.extend(expr(cx, &p.expr)),
        Expr::Group(g) => out.extend(expr(cx, &g.expr)),
        Expr::MethodCall(m) => {
            let n = m.method.to_string();
            let at = line(m.method.span());
            if is_self(&m.receiver) {
                for a in &m.args {
                    out.extend(expr(cx, a));
                }
                if let Some(f) = resolve(cx, &n, &["Group", "MessageProcessor"]) {
                    let f: &FnDef = f;
                    let evs = inline(cx, &n, f, at);
                    out.extend(evs);
                }
            } else {
                // a constructor that is handed `self` followed by a method: CiphertextProcessor::new(self, ..).open(..)
                let carrier = match strip(&m.receiver) {
                    Expr::Call(c) => passes_self(&c.args, cx),
                    _ => false,
                };
                out.extend(expr(cx, &m.receiver));
                for a in &m.args {
                    out.extend(expr(cx, a));
                }
                if carrier {
                    let target = match strip(&m.receiver) {
                        Expr::Call(c) => match strip(&c.func) {
                            Expr::Path(p) if p.path.segments.len() >= 2 => p.path.segments[p.path.segments.len() - 2].ident.to_string(),
                            _ => String::new(),
                        },
                        _ => String::new(),
                    };
                    let cand = cx.db.fns.get(&n).and_then(|v| v.iter().find(|f| f.container == target));
                    if let Some(f) = cand {
                        let evs = inline(cx, &n, f, at);
                        out.extend(evs);
                    } else {
                        out.push(Ev::Mut(format!("{target}::{n} is handed &mut self"), at));
                    }
                } else if let Some(desc) = mutating_call(cx, e) {
                    out.push(Ev::Mut(desc, at));
                }
            }
        }
        Expr::Call(c) => {
            // Trait::method(self, ..)
            let (last, first_self) = match strip(&c.func) {
                Expr::Path(p) => (p.path.segments.last().map(|s| s.ident.to_string()).unwrap_or_default(), c.args.first().map(is_self).unwrap_or(false)),
                _ => (String::new(), false),
            };
            for a in &c.args {
                out.extend(expr(cx, a));
            }
            if last == "Err" {
                out.push(Ev::Fail(line(c.func.span())));
            }
            let qualifier = match strip(&c.func) {
                Expr::Path(p) if p.path.segments.len() >= 2 => Some(p.path.segments[p.path.segments.len() - 2].ident.to_string()),
                _ => None,
            };
            if first_self {
                let cand = match &qualifier {
                    Some(q) => cx.db.fns.get(&last).and_then(|v| v.iter().find(|f| &f.container == q)),
                    None => resolve(cx, &last, &["MessageProcessor", "Group"]),
                };
                if let Some(f) = cand {
                    let f: &FnDef = f;
                    let at = line(c.func.span());
                    out.extend(inline(cx, &last, f, at));
                }
            } else if c.args.iter().any(|a| matches!(strip(a), Expr::Reference(r) if r.mutability.is_some() && root_info(&r.expr, cx).0)) && last != "new" {
                out.push(Ev::Mut(format!("{last}(&mut self..)"), line(c.func.span())));
            }
        }
        Expr::Assign(a) => {
            out.extend(expr(cx, &a.right));
            let (rooted, _, path) = root_info(&a.left, cx);
            if rooted {
                let d = format!("{path} = ..");
                if let Some((_, why)) = ALLOWED.iter().find(|(w, _)| *w == d) {
                    cx.notes.push(format!("{d} at line {}: not a state mutation ({why})", line(a.eq_token.span())));
                } else {
                    out.push(Ev::Mut(d, line(a.eq_token.span())));
                }
            } else {
                out.extend(expr(cx, &a.left));
            }
        }
        Expr::Binary(b) => {
            out.extend(expr(cx, &b.left));
            out.extend(expr(cx, &b.right));
            let assign = matches!(b.op, BinOp::AddAssign(_) | BinOp::SubAssign(_) | BinOp::MulAssign(_) | BinOp::DivAssign(_) | BinOp::RemAssign(_) | BinOp::BitXorAssign(_) | BinOp::BitAndAssign(_) | BinOp::BitOrAssign(_) | BinOp::ShlAssign(_) | BinOp::ShrAssign(_));
            if assign {
                let (rooted, _, path) = root_info(&b.left, cx);
                if rooted {
                    out.push(Ev::Mut(format!("{path} op= .."), line(b.op.span())));
                }
            }
        }
        Expr::If(i) => {
            out.extend(expr(cx, &i.cond));
            let t = block(cx, &i.then_branch);
            let f = match &i.else_branch {
                Some((_, e)) => expr(cx, e),
                None => vec![],
            };
            out.push(Ev::Alt(vec![t, f]));
        }
        Expr::Match(m) => {
            out.extend(expr(cx, &m.expr));
            let mut arms = vec![];
            for arm in &m.arms {
                if cfg_test(&arm.attrs) {
                    continue;
                }
                let mut a = vec![];
                if let Some((_, g)) = &arm.guard {
                    a.extend(expr(cx, g));
                }
                a.extend(expr(cx, &arm.body));
                arms.push(a);
            }
            out.push(Ev::Alt(arms));
        }
        Expr::ForLoop(f) => {
            out.extend(expr(cx, &f.expr));
            let b = block(cx, &f.body);
            out.push(Ev::Loop(b));
        }
        Expr::While(w) => {
            let mut b = expr(cx, &w.cond);
            b.extend(block(cx, &w.body));
            out.push(Ev::Loop(b));
        }
        Expr::Loop(l) => {
            let b = block(cx, &l.body);
            out.push(Ev::Loop(b));
        }
        Expr::Return(r) => {
            if let Some(v) = &r.expr {
                out.extend(expr(cx, v));
                if is_err_value(v) {
                    out.push(Ev::Fail(line(r.return_token.span())));
                }
            }
            out.push(Ev::Ret);
        }
        Expr::Closure(c) => {
            let b = expr(cx, &c.body);
            if !b.is_empty() {
                out.push(Ev::Alt(vec![b, vec![]]));
            }
        }
        Expr::Block(b) => out.extend(block(cx, &b.block)),
        Expr::Async(b) => out.extend(block(cx, &b.block)),
        Expr::Unsafe(b) => out.extend(block(cx, &b.block)),
        Expr::Let(l) => out.extend(expr(cx, &l.expr)),
        Expr::Field(f) => out.extend(expr(cx, &f.base)),
        Expr::Index(i) => {
            out.extend(expr(cx, &i.expr));
            out.extend(expr(cx, &i.index));
        }
        Expr::Unary(u) => out.extend(expr(cx, &u.expr)),
        Expr::Reference(r) => out.extend(expr(cx, &r.expr)),
        Expr::Cast(c) => out.extend(expr(cx, &c.expr)),
        Expr::Tuple(t) => {
            for x in &t.elems {
                out.extend(expr(cx, x));
            }
        }
        Expr::Array(t) => {
            for x in &t.elems {
                out.extend(expr(cx, x));
            }
        }
        Expr::Struct(s) => {
            for f in &s.fields {
                if !cfg_test(&f.attrs) {
                    out.extend(expr(cx, &f.expr));
                }
            }
            if let Some(r) = &s.rest {
                out.extend(expr(cx, r));
            }
        }
        Expr::Range(r) => {
            if let Some(a) = &r.start {
                out.extend(expr(cx, a));
            }
            if let Some(a) = &r.end {
                out.extend(expr(cx, a));
            }
        }
        Expr::Repeat(r) => out.extend(expr(cx, &r.expr)),
        _ => {}
    }
    out
}

fn coq(evs: &[Ev], ind: usize, s: &mut String) {
    let pad = " ".repeat(ind);
    s.push('[');
    for (i, e) in evs.iter().enumerate() {
        if i > 0 {
            s.push_str(";\n");
            s.push_str(&pad);
            s.push(' ');
        }
        match e {
            Ev::Fail(l) => write!(s, "EFail {l}").unwrap(),
            Ev::Mut(w, l) => write!(s, "EMut \"{}\" {l}", w.replace('"', "'")).unwrap(),
            Ev::FMut(w, l) => write!(s, "EFMut \"{}\" {l}", w.replace('"', "'")).unwrap(),
            Ev::Alt(bs) => {
                s.push_str("EAlt [");
                for (j, b) in bs.iter().enumerate() {
                    if j > 0 {
                        s.push_str(";\n");
                        s.push_str(&pad);
                        s.push_str("       ");
                    }
                    coq(b, ind + 7, s);
                }
                s.push(']');
            }
            Ev::Loop(b) => {
                s.push_str("ELoop ");
                coq(b, ind + 7, s);
            }
            Ev::Ret => s.push_str("EAlt []"),
        }
    }
    s.push(']');
}

fn has_ret(evs: &[Ev]) -> bool {
    evs.iter().any(|e| match e {
        Ev::Ret => true,
        Ev::Alt(bs) => bs.iter().any(|b| has_ret(b)),
        _ => false,
    })
}

fn strip_ret(evs: Vec<Ev>) -> Vec<Ev> {
    evs.into_iter()
        .filter_map(|e| match e {
            Ev::Ret => None,
            Ev::Alt(bs) => Some(Ev::Alt(bs.into_iter().map(strip_ret).collect())),
            Ev::Loop(b) => Some(Ev::Loop(strip_ret(b))),
            o => Some(o),
        })
        .collect()
}

/// Resolve `return`s inside one function body: what follows a return does not run on that path.
/// (A return inside a loop body is treated as the end of the iteration: over-approximation.)
fn seq(evs: Vec<Ev>, cont: Vec<Ev>) -> Vec<Ev> {
    let mut result = cont;
    for e in evs.into_iter().rev() {
        match e {
            Ev::Ret => result = vec![],
            Ev::Alt(bs) if bs.iter().any(|b| has_ret(b)) => {
                let r = result.clone();
                result = vec![Ev::Alt(bs.into_iter().map(|b| seq(b, r.clone())).collect())];
            }
            Ev::Loop(b) => {
                let mut v = vec![Ev::Loop(strip_ret(b))];
                v.extend(result);
                result = v;
            }
            other => {
                let mut v = vec![other];
                v.extend(result);
                result = v;
            }
        }
    }
    result
}

fn simplify(evs: Vec<Ev>) -> Vec<Ev> {
    let mut out = vec![];
    for e in evs {
        match e {
            Ev::Alt(bs) => {
                let bs: Vec<Vec<Ev>> = bs.into_iter().map(simplify).collect();
                if bs.iter().all(|b| b.is_empty()) {
                    continue;
                }
                out.push(Ev::Alt(bs));
            }
            Ev::Loop(b) => {
                let b = simplify(b);
                if b.is_empty() {
                    continue;
                }
                out.push(Ev::Loop(b));
            }
            other => out.push(other),
        }
    }
    out
}

pub fn run(repo: &str, out: &str) {
    let mut db = Db { fns: BTreeMap::new() };
    for f in ["mls-rs/src/group/message_processor.rs", "mls-rs/src/group/mod.rs", "mls-rs/src/group/ciphertext_processor.rs", "mls-rs/src/group/commit.rs", "mls-rs/src/group/state_repo.rs"] {
        load(&mut db, repo, f);
    }
    // entry points: (coq name, container, fn, callees not followed)
    let entries: &[(&str, &str, &str, &[&str])] = &[
        ("ev_incoming", "Group", "process_incoming_message", &["process_ciphertext", "get_unauthenticated_key_generation_from_sender_data"]),
        ("ev_decrypt", "Group", "process_ciphertext", &[]),
        ("ev_commit_build", "Group", "commit_internal", &[]),
        ("ev_apply_pending", "Group", "apply_pending_commit", &[]),
        ("ev_repo_write", "GroupStateRepository", "write_to_storage", &[]),
        ("ev_repo_get", "GroupStateRepository", "get_epoch_mut", &[]),
        ("ev_repo_insert", "GroupStateRepository", "insert", &[]),
    ];
    let mut s = String::new();
    s.push_str("(* GENERATED by rs2v effects from mls-rs/src/group/{message_processor,mod,ciphertext_processor,commit}.rs.\n   Do not edit: regenerated on every check. Line numbers are those of the source file of the\n   function in which the event occurs. *)\nFrom Coq Require Import NArith List String.\nFrom MlsV Require Import Effects.\nImport ListNotations.\nLocal Open Scope N_scope.\nLocal Open Scope string_scope.\n\n");
    for (name, cont, f, skip) in entries {
        let def = db.fns.get(*f).and_then(|v| v.iter().find(|d| d.container == *cont && (*f != "process_incoming_message" || d.file.ends_with("mod.rs"))));
        let Some(def) = def else {
            eprintln!("effects: entry {cont}::{f} not found");
            std::process::exit(3);
        };
        let mut cx = Cx { db: &db, container: cont.to_string(), aliases: HashSet::new(), stack: vec![format!("{cont}::{f}")], skip, notes: vec![] };
        let evs = simplify(seq(block(&mut cx, &def.block), vec![]));
        for n in &cx.notes {
            writeln!(s, "(* {n} *)").unwrap();
        }
        write!(s, "Definition {name} : list ev :=\n  ").unwrap();
        coq(&evs, 2, &mut s);
        s.push_str(".\n\n");
    }
    std::fs::write(out, s).unwrap();
}
