//! Translate the joiner-side bookkeeping of a Welcome: which path secret the committer hands to a
//! joiner (Group::encrypt_group_secrets, commit.rs), which key package of the store the Welcome is
//! opened with (util.rs find_key_package_generation) and when the used package is deleted
//! (Group::from_welcome_message -> GroupStateRepository::new -> write_to_storage).
//! Anything outside the known shapes is refused (exit code 3).
use syn::*;

fn die(msg: &str) -> ! {
    eprintln!("rs2v welcome: cannot translate: {msg}");
    std::process::exit(3);
}

fn flat<T: quote::ToTokens>(t: &T) -> String {
    quote::quote!(#t).to_string().replace(' ', "")
}

fn parse(path: &str) -> File {
    let src = std::fs::read_to_string(path).unwrap_or_else(|e| panic!("{path}: {e}"));
    syn::parse_file(&src).unwrap_or_else(|e| panic!("{path}: {e}"))
}

fn bodies(f: &File, name: &str) -> Vec<String> {
    let mut v = vec![];
    for i in &f.items {
        match i {
            Item::Fn(x) if x.sig.ident == name => v.push(flat(&x.block)),
            Item::Impl(im) if im.trait_.is_none() => {
                for it in &im.items {
                    if let ImplItem::Fn(m) = it {
                        if m.sig.ident == name {
                            v.push(flat(&m.block));
                        }
                    }
                }
            }
            _ => {}
        }
    }
    v
}

fn one(f: &File, name: &str) -> String {
    let v = bodies(f, name);
    if v.len() != 1 {
        die(&format!("{} functions named {name}, expected 1", v.len()));
    }
    v[0].clone()
}

pub fn run(repo: &str, out: &str) {
    let gf = parse(&format!("{repo}/mls-rs/src/group/mod.rs"));
    let cf = parse(&format!("{repo}/mls-rs/src/group/commit.rs"));
    let uf = parse(&format!("{repo}/mls-rs/src/group/util.rs"));
    let rf = parse(&format!("{repo}/mls-rs/src/group/state_repo.rs"));
    // 1. the path secret handed to a joiner: position leaf_lca_level(committer, joiner) - 1 of the
    //    committer's path secrets, whenever the commit has an update path
    let e = one(&gf, "encrypt_group_secrets");
    let pre = "{letpath_secret=path_secrets.map(|secrets|{secrets.get(tree_math::leaf_lca_level(*self.private_tree.self_index,*leaf_index)asusize";
    let rest = e.strip_prefix(pre).unwrap_or_else(|| die("encrypt_group_secrets: selection of the path secret"));
    let (off, rest) = rest.split_once(",).cloned().flatten().ok_or(MlsError::InvalidTreeKemPrivateKey)}).transpose()?;").unwrap_or_else(|| die("encrypt_group_secrets: shape after the index"));
    let pos = match off {
        "-1" => "lca_level - 1",
        "" => "lca_level",
        "-2" => "lca_level - 2",
        x => die(&format!("index offset `{x}`")),
    };
    if !rest.contains("letgroup_secrets=GroupSecrets{joiner_secret:joiner_secret.clone(),path_secret,psks,};") {
        die("GroupSecrets literal");
    }
    let c = one(&cf, "commit_internal");
    if !c.contains("letpath_secrets=path_secrets.as_ref();") {
        die("commit_internal: the path secrets are not passed on as they are");
    }
    if c.matches("self.encrypt_group_secrets(").count() == 0 || !c.contains("path_secrets,") {
        die("commit_internal: encrypt_group_secrets is not called with the path secrets");
    }
    // 2. which key package opens the Welcome: the first entry whose reference is in the store
    let f = one(&uf, "find_key_package_generation");
    if f != "{forsecretinsecrets{ifletSome(val)=key_package_repo.get(&secret.new_member).await.map_err(|e|MlsError::KeyPackageRepoError(e.into_any_error())).and_then(|maybe_data|{ifletSome(data)=maybe_data{KeyPackageGeneration::from_storage(secret.new_member.to_vec(),data).map(|kpg|Some((secret,kpg)))}else{Ok::<_,MlsError>(None)}})?{returnOk(val);}}Err(MlsError::WelcomeKeyPackageNotFound)}" {
        die(&format!("find_key_package_generation is `{f}`"));
    }
    // 3. the used package is remembered unless it is a last-resort package, and deleted by the write
    let w = bodies(&gf, "from_welcome_message").concat();
    let keep = if w.contains("letused_key_package_ref=(!is_last_resort).then_some(key_package_generation.reference);") {
        "if negb last_resort then Some r else None"
    } else {
        die("from_welcome_message: used_key_package_ref")
    };
    if !w.contains("letis_last_resort=key_package.extensions.has_extension(LastResortKeyPackageExt::extension_type());") {
        die("from_welcome_message: is_last_resort");
    }
    if !w.contains("Self::join_with(config,group_info,public_tree,key_schedule_result.key_schedule,key_schedule_result.epoch_secrets,private_tree,used_key_package_ref,signer,).await") {
        die("from_welcome_message: join_with");
    }
    let j = one(&gf, "join_with");
    if !j.contains("config.key_package_repo(),used_key_package_ref,)?;") {
        die("join_with: the repository does not get the key package reference");
    }
    let n = one(&rf, "new");
    if !n.contains("pending_key_package_removal:key_package_to_remove,") {
        die("GroupStateRepository::new");
    }
    let wr = one(&rf, "write_to_storage");
    if !wr.ends_with("ifletSome(refkey_package_ref)=self.pending_key_package_removal{self.key_package_repo.delete(key_package_ref).await.map_err(|e|MlsError::KeyPackageRepoError(e.into_any_error()))?;}Ok(())}") {
        die("write_to_storage: deletion of the used key package");
    }
    let all = flat(&rf);
    if all.matches("pending_key_package_removal").count() != 4 {
        // field, Debug impl (twice: name + value), new, write_to_storage ... anything else would be a new writer
        let nset = all.matches("pending_key_package_removal=").count() + all.matches("pending_key_package_removal.take()").count();
        if nset != 0 {
            die("pending_key_package_removal is assigned somewhere else");
        }
    }
    let s = format!(
        "(* GENERATED by rs2v welcome from mls-rs/src/group/{{mod,commit,util,state_repo}}.rs.  Do not edit. *)\n\
From Coq Require Import NArith List Bool.\nFrom MlsV Require Import Join.\nImport ListNotations.\nLocal Open Scope N_scope.\n\n\
(* Group::encrypt_group_secrets: index, in the committer's list of path secrets, of the secret a joiner gets *)\n\
Definition gen_joiner_secret_position (lca_level : N) : N := {pos}.\n\n\
(* find_key_package_generation + from_welcome_message: refs = the key package references the Welcome is\n   addressed to, in order; the first one found in the store is used and remembered for deletion *)\n\
Definition gen_k_join (s : kstate) (refs : list N) (last_resort : bool) : option kstate :=\n\
  match find (fun r => has r (kps s)) refs with\n\
  | Some r => Some {{| kps := kps s; pending_rm := {keep} |}}\n\
  | None => None\n  end.\n\n\
(* write_to_storage: the remembered package is deleted from the store (the reference itself stays set) *)\n\
Definition gen_k_write (s : kstate) : kstate :=\n\
  match pending_rm s with\n  | Some r => {{| kps := del r (kps s); pending_rm := pending_rm s |}}\n  | None => s\n  end.\n"
    );
    std::fs::write(out, s).unwrap();
}
