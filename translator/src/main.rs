mod admission;
mod codec;
mod effects;
mod expr;
mod hashcache;
mod kem;
mod keysched;
mod latesender;
mod nodevec;
mod parenthash;
mod pathreq;
mod privgen;
mod ratchet;
mod varint;
mod reinitrule;
mod resume;
mod transcript;
mod treemath;
mod welcome;
mod window;

fn main() {
    let a: Vec<String> = std::env::args().collect();
    if a.len() < 4 {
        eprintln!("usage: rs2v <treemath> <repo> <out.v>");
        std::process::exit(2);
    }
    match a[1].as_str() {
        "treemath" => treemath::run(&a[2], &a[3]),
        "codec" => codec::run(&a[2], &a[3]),
        "effects" => effects::run(&a[2], &a[3]),
        "window" => window::run(&a[2], &a[3]),
        "kem" => kem::run(&a[2], &a[3]),
        "pathreq" => pathreq::run(&a[2], &a[3]),
        "ratchet" => ratchet::run(&a[2], &a[3]),
        "varint" => varint::run(&a[2], &a[3]),
        "admission" => admission::run(&a[2], &a[3]),
        "resume" => resume::run(&a[2], &a[3]),
        "privgen" => privgen::run(&a[2], &a[3]),
        "nodevec" => nodevec::run(&a[2], &a[3]),
        "transcript" => transcript::run(&a[2], &a[3]),
        "latesender" => latesender::run(&a[2], &a[3]),
        "welcome" => welcome::run(&a[2], &a[3]),
        "keysched" => keysched::run(&a[2], &a[3]),
        "reinitrule" => reinitrule::run(&a[2], &a[3]),
        "hashcache" => hashcache::run(&a[2], &a[3]),
        "parenthash" => parenthash::run(&a[2], &a[3]),
        _ => std::process::exit(2),
    }
}
