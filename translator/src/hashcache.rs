//! Translate the incremental tree-hash cache (tree_kem/tree_hash.rs: tree_hash, hash_for_leaf,
//! hash_for_parent, TreeKemPublic::update_hashes, initialize_hashes) into Gallina over the cache model
//! (Model/HashCache.v), and the list of leaves every caller of update_hashes passes.  The two loops of
//! tree_hash become recursion on the leaf list and on fuel; index expressions, the children read, the
//! parent queued, the filter on the leaves and the retained unmerged leaves are compiled from the source.
//! Anything outside the known shapes is refused (exit code 3).
use syn::*;

fn die(msg: &str) -> ! {
    eprintln!("rs2v hashcache: cannot translate: {msg}");
    std::process::exit(3);
}

fn flat<T: quote::ToTokens>(t: &T) -> String {
    quote::quote!(#t).to_string().replace(' ', "")
}

fn parse(path: &str) -> File {
    let src = std::fs::read_to_string(path).unwrap_or_else(|e| panic!("{path}: {e}"));
    syn::parse_file(&src).unwrap_or_else(|e| panic!("{path}: {e}"))
}

fn free_fn<'a>(f: &'a File, name: &str) -> &'a ItemFn {
    let v: Vec<&ItemFn> = f.items.iter().filter_map(|i| if let Item::Fn(x) = i { (x.sig.ident == name).then_some(x) } else { None }).collect();
    if v.len() != 1 {
        die(&format!("{} functions {name}, expected 1", v.len()));
    }
    v[0]
}

fn methods<'a>(f: &'a File, ty: &str, name: &str, with_traits: bool) -> Vec<&'a ImplItemFn> {
    let mut v = vec![];
    for i in &f.items {
        if let Item::Impl(im) = i {
            if (!with_traits && im.trait_.is_some()) || flat(&im.self_ty).split('<').next() != Some(ty) || im.attrs.iter().any(|a| flat(a).contains("cfg(test)")) {
                continue;
            }
            for it in &im.items {
                if let ImplItem::Fn(m) = it {
                    if m.sig.ident == name {
                        v.push(m);
                    }
                }
            }
        }
    }
    v
}

fn method<'a>(f: &'a File, ty: &str, name: &str) -> &'a ImplItemFn {
    let v = methods(f, ty, name, true);
    if v.len() != 1 {
        die(&format!("{} methods {ty}::{name}, expected 1", v.len()));
    }
    v[0]
}

fn params(sig: &Signature) -> Vec<String> {
    sig.inputs
        .iter()
        .filter_map(|a| match a {
            FnArg::Typed(t) => Some(flat(&t.pat).trim_start_matches("mut").to_string()),
            _ => None,
        })
        .collect()
}

/// strip `.await`, `?`, references, derefs, casts and parentheses
fn core(e: &Expr) -> &Expr {
    match e {
        Expr::Await(a) => core(&a.base),
        Expr::Try(t) => core(&t.expr),
        Expr::Paren(p) => core(&p.expr),
        Expr::Group(p) => core(&p.expr),
        Expr::Reference(r) => core(&r.expr),
        Expr::Cast(c) => core(&c.expr),
        Expr::Unary(u) if matches!(u.op, UnOp::Deref(_)) => core(&u.expr),
        _ => e,
    }
}

/// N-valued expressions over the loop variables
fn num(e: &Expr) -> String {
    match core(e) {
        Expr::Lit(ExprLit { lit: Lit::Int(i), .. }) => i.base10_digits().to_string(),
        Expr::Binary(b) if matches!(b.op, BinOp::Mul(_)) => format!("({} * {})", num(&b.left), num(&b.right)),
        Expr::Path(p) if p.path.get_ident().is_some() => p.path.get_ident().unwrap().to_string(),
        x => die(&format!("expression `{}`", flat(x))),
    }
}

/// checked usize arithmetic in continuation-passing style
fn checked(e: &Expr, n: &mut u32, k: &dyn Fn(String) -> String) -> String {
    match core(e) {
        Expr::Binary(b) => {
            let op = match b.op {
                BinOp::Mul(_) => "u64_mul",
                BinOp::Sub(_) => "u64_sub",
                BinOp::Add(_) => "u64_add",
                _ => die(&format!("operator in `{}`", flat(e))),
            };
            let id = *n;
            *n += 2;
            let inner = |l: String| {
                let mut n2 = id + 1;
                checked(&b.right, &mut n2, &|r: String| format!("bind ({op} {l} {r}) (fun x{id} => {})", k(format!("x{id}"))))
            };
            let mut n1 = id + 1;
            checked(&b.left, &mut n1, &inner)
        }
        _ => k(num(e)),
    }
}

fn call<'a>(e: &'a Expr, name: &str, nargs: usize) -> &'a ExprCall {
    match core(e) {
        Expr::Call(c) if flat(&c.func) == name && c.args.len() == nargs => c,
        x => die(&format!("expected a call of {name} with {nargs} arguments, found `{}`", flat(x))),
    }
}

fn mcall<'a>(e: &'a Expr, name: &str, nargs: usize) -> &'a ExprMethodCall {
    match core(e) {
        Expr::MethodCall(c) if c.method == name && c.args.len() == nargs => c,
        x => die(&format!("expected a call of .{name} with {nargs} arguments, found `{}`", flat(x))),
    }
}

/// `if let Some(ps) = X.parent_sibling(&num_leaves) { node_queue.push_back(ps.F); }`
fn push_parent(s: &Stmt, q: &str) -> (String, String, String) {
    let Stmt::Expr(Expr::If(i), _) = s else { die("expected the `if let Some(ps) = ...parent_sibling` statement") };
    let Expr::Let(l) = &*i.cond else { die("parent_sibling test is not an if-let") };
    if flat(&l.pat) != "Some(ps)" || i.else_branch.is_some() || i.then_branch.stmts.len() != 1 {
        die("shape of the parent_sibling test");
    }
    let m = mcall(&l.expr, "parent_sibling", 1);
    let Stmt::Expr(p, _) = &i.then_branch.stmts[0] else { die("body of the parent_sibling test") };
    let pb = mcall(p, "push_back", 1);
    if flat(&pb.receiver) != q {
        die("the queue pushed to");
    }
    let Expr::Field(f) = core(&pb.args[0]) else { die("pushed value") };
    if flat(&f.base) != "ps" {
        die("pushed value");
    }
    (num(&m.receiver), num(&m.args[0]), flat(&f.member))
}

/// `hashes[I] = TreeHash(V);`
fn assign<'a>(s: &'a Stmt, arr: &str) -> (&'a Expr, &'a Expr) {
    let Stmt::Expr(Expr::Assign(a), _) = s else { die("expected an assignment into the hash vector") };
    let Expr::Index(ix) = &*a.left else { die("assignment target") };
    if flat(&ix.expr) != arr {
        die("assignment target");
    }
    let v = match core(&a.right) {
        Expr::Call(c) if flat(&c.func) == "TreeHash" && c.args.len() == 1 => &c.args[0],
        x => x,
    };
    (&ix.index, v)
}

fn hash_for_leaf(f: &File) -> String {
    let hf = free_fn(f, "hash_for_leaf");
    let p = params(&hf.sig);
    if p != ["leaf_index", "leaf_node", "cipher_suite_provider"] {
        die("parameters of hash_for_leaf");
    }
    let body = flat(&hf.block);
    if !body.starts_with("{letinput=TreeHashInput::Leaf(LeafNodeHashInput{leaf_index,leaf_node,});cipher_suite_provider.hash(&input.mls_encode_to_vec()?)") {
        die("body of hash_for_leaf");
    }
    // the struct hashed: its fields in order
    let fields = struct_fields(f, "LeafNodeHashInput");
    if fields != ["leaf_index", "leaf_node"] {
        die("fields of LeafNodeHashInput");
    }
    "Definition gen_hash_for_leaf (leaf_index : N) (leaf_node : option (N * N)) : hterm := HLeaf leaf_index leaf_node.\n".into()
}

fn struct_fields(f: &File, name: &str) -> Vec<String> {
    for i in &f.items {
        if let Item::Struct(s) = i {
            if s.ident == name {
                return s.fields.iter().map(|x| x.ident.as_ref().map(|i| i.to_string()).unwrap_or_default()).collect();
            }
        }
    }
    die(&format!("struct {name} not found"))
}

fn hash_for_parent(f: &File) -> String {
    let hf = free_fn(f, "hash_for_parent");
    let p = params(&hf.sig);
    if p != ["parent_node", "cipher_suite_provider", "filtered", "left_hash", "right_hash"] {
        die("parameters of hash_for_parent");
    }
    let st = &hf.block.stmts;
    if st.len() != 4 {
        die("hash_for_parent has changed shape");
    }
    if flat(&st[0]) != "letmutparent_node=parent_node.cloned();" {
        die("first statement of hash_for_parent");
    }
    // if let Some(ref mut parent_node) = parent_node { parent_node.unmerged_leaves.retain(|u| !filtered.contains(u)); }
    let Stmt::Expr(Expr::If(i), _) = &st[1] else { die("second statement of hash_for_parent") };
    if flat(&i.cond) != "letSome(refmutparent_node)=parent_node" || i.then_branch.stmts.len() != 1 || i.else_branch.is_some() {
        die("retain guard of hash_for_parent");
    }
    let Stmt::Expr(r, _) = &i.then_branch.stmts[0] else { die("retain statement") };
    let rc = mcall(r, "retain", 1);
    if flat(&rc.receiver) != "parent_node.unmerged_leaves" {
        die("retain receiver");
    }
    let Expr::Closure(cl) = &rc.args[0] else { die("retain closure") };
    let v = flat(&cl.inputs[0]);
    let keep = match core(&cl.body) {
        Expr::Unary(u) if matches!(u.op, UnOp::Not(_)) => {
            let c = mcall(&u.expr, "contains", 1);
            if flat(core(&c.args[0])) != v {
                die("retain closure argument");
            }
            format!("negb (mem u {})", flat(&c.receiver))
        }
        Expr::MethodCall(c) if c.method == "contains" && flat(core(&c.args[0])) == v => format!("mem u {}", flat(&c.receiver)),
        x => die(&format!("retain closure `{}`", flat(x))),
    };
    // the struct literal: which expression lands in which field
    let Stmt::Local(l) = &st[2] else { die("third statement of hash_for_parent") };
    let init = &l.init.as_ref().unwrap_or_else(|| die("let input")).expr;
    let c = call(init, "TreeHashInput::Parent", 1);
    let Expr::Struct(sl) = &c.args[0] else { die("ParentNodeTreeHashInput literal") };
    if flat(&sl.path) != "ParentNodeTreeHashInput" {
        die("ParentNodeTreeHashInput literal");
    }
    let get = |n: &str| -> String {
        sl.fields.iter().find(|f| flat(&f.member) == n).map(|f| flat(core(&f.expr))).unwrap_or_else(|| die("field of the literal"))
    };
    if get("parent_node") != "parent_node.as_ref()" {
        die("parent_node field");
    }
    if struct_fields(f, "ParentNodeTreeHashInput") != ["parent_node", "left_hash", "right_hash"] {
        die("fields of ParentNodeTreeHashInput");
    }
    if !flat(&st[3]).starts_with("cipher_suite_provider.hash(&input.mls_encode_to_vec()?)") {
        die("last statement of hash_for_parent");
    }
    format!(
        "Definition gen_hash_for_parent (parent_node : option (N * list N)) (filtered : list N) (left_hash right_hash : hterm) : hterm :=\n  \
HPar (match parent_node with Some (x, um) => Some (x, filter (fun u => {keep}) um) | None => None end) {} {}.\n",
        get("left_hash"),
        get("right_hash")
    )
}

fn tree_hash(f: &File) -> String {
    let tf = free_fn(f, "tree_hash");
    let p = params(&tf.sig);
    if p != ["hashes", "nodes", "leaves_to_update", "filtered_leaves", "num_leaves", "cipher_suite_provider"] {
        die("parameters of tree_hash");
    }
    let st = &tf.block.stmts;
    if st.len() != 6 {
        die(&format!("tree_hash has {} statements, expected 6", st.len()));
    }
    // 0: the default list of leaves
    let Stmt::Local(l0) = &st[0] else { die("first statement of tree_hash") };
    if flat(&l0.pat) != "leaves_to_update" {
        die("first statement of tree_hash");
    }
    let u = mcall(&l0.init.as_ref().unwrap_or_else(|| die("let leaves_to_update")).expr, "unwrap_or_else", 1);
    if flat(&u.receiver) != "leaves_to_update" {
        die("unwrap_or_else receiver");
    }
    let Expr::Closure(cl) = &u.args[0] else { die("default leaves closure") };
    let cv = mcall(&cl.body, "collect_vec", 0);
    let mp = mcall(&cv.receiver, "map", 1);
    if flat(&mp.args[0]) != "LeafIndex::unchecked" {
        die("default leaves map");
    }
    let Expr::Range(r) = core(&mp.receiver) else { die("default leaves range") };
    if !matches!(r.limits, RangeLimits::HalfOpen(_)) || r.start.as_ref().map(|s| flat(s)) != Some("0".into()) {
        die("default leaves range");
    }
    let all = format!("leaf_range {}", num(r.end.as_ref().unwrap_or_else(|| die("open range"))));
    // 1: resize
    let Stmt::Expr(rs, _) = &st[1] else { die("second statement of tree_hash") };
    let rz = mcall(rs, "resize", 2);
    if flat(&rz.receiver) != "hashes" || flat(&rz.args[1]) != "TreeHash::default()" {
        die("resize");
    }
    // 2: the queue
    if !flat(&st[2]).starts_with("letmutnode_queue=VecDeque::with_capacity(") {
        die("third statement of tree_hash");
    }
    // 3: the leaf loop
    let Stmt::Expr(Expr::ForLoop(fl), _) = &st[3] else { die("fourth statement of tree_hash is not the for loop") };
    if flat(&fl.pat) != "l" {
        die("loop variable");
    }
    let fi = mcall(&fl.expr, "filter", 1);
    let it = mcall(&fi.receiver, "iter", 0);
    if flat(&it.receiver) != "leaves_to_update" {
        die("the list the leaf loop runs over");
    }
    let Expr::Closure(fc) = &fi.args[0] else { die("filter closure") };
    if flat(&fc.inputs[0]) != "l" {
        die("filter closure");
    }
    let keep = match core(&fc.body) {
        Expr::Binary(b) if matches!(b.op, BinOp::Lt(_)) => format!("({} <? {})", num(&b.left), num(&b.right)),
        Expr::Binary(b) if matches!(b.op, BinOp::Le(_)) => format!("({} <=? {})", num(&b.left), num(&b.right)),
        x => die(&format!("filter condition `{}`", flat(x))),
    };
    let b = &fl.body.stmts;
    if b.len() != 3 {
        die("body of the leaf loop");
    }
    // let leaf = (!filtered_leaves.contains(l)).then_some(nodes.borrow_as_leaf(*l).ok()).flatten();
    let Stmt::Local(ll) = &b[0] else { die("let leaf") };
    if flat(&ll.pat) != "leaf" {
        die("let leaf");
    }
    let flt = mcall(&ll.init.as_ref().unwrap_or_else(|| die("let leaf")).expr, "flatten", 0);
    let ts = mcall(&flt.receiver, "then_some", 1);
    let guard = match core(&ts.receiver) {
        Expr::Unary(u) if matches!(u.op, UnOp::Not(_)) => {
            let c = mcall(&u.expr, "contains", 1);
            format!("negb (mem {} {})", num(&c.args[0]), flat(&c.receiver))
        }
        x => die(&format!("leaf guard `{}`", flat(x))),
    };
    let ok = mcall(&ts.args[0], "ok", 0);
    let bl = mcall(&ok.receiver, "borrow_as_leaf", 1);
    let leaf = format!("if {guard} then leaf_of pay {} {} else None", flat(&bl.receiver), num(&bl.args[0]));
    let (ix, v) = assign(&b[1], "hashes");
    let hc = call(v, "hash_for_leaf", 3);
    let leaf_hash = format!("gen_hash_for_leaf {} {}", num(&hc.args[0]), flat(&hc.args[1]));
    let leaf_ix = num(ix);
    let (pn, pl, pf) = push_parent(&b[2], "node_queue");
    // 4: the queue loop
    let Stmt::Expr(Expr::While(w), _) = &st[4] else { die("fifth statement of tree_hash is not the while loop") };
    let Expr::Let(wl) = &*w.cond else { die("while-let") };
    if flat(&wl.pat) != "Some(n)" || flat(&wl.expr) != "node_queue.pop_front()" {
        die("while-let");
    }
    let wb = &w.body.stmts;
    if wb.len() != 3 {
        die("body of the queue loop");
    }
    let Stmt::Local(lh) = &wb[0] else { die("let hash") };
    if flat(&lh.pat) != "hash" {
        die("let hash");
    }
    let hv = match core(&lh.init.as_ref().unwrap_or_else(|| die("let hash")).expr) {
        Expr::Call(c) if flat(&c.func) == "TreeHash" && c.args.len() == 1 => &c.args[0],
        _ => die("let hash"),
    };
    let hp = call(hv, "hash_for_parent", 5);
    let ok = mcall(&hp.args[0], "ok", 0);
    let bp = mcall(&ok.receiver, "borrow_as_parent", 1);
    let parent = format!("parent_of pay {} {}", flat(&bp.receiver), num(&bp.args[0]));
    if flat(&hp.args[1]) != "cipher_suite_provider" {
        die("second argument of hash_for_parent");
    }
    let filtered = flat(core(&hp.args[2]));
    let child = |e: &Expr| -> (String, String) {
        let Expr::Index(ix) = core(e) else { die("child hash") };
        if flat(&ix.expr) != "hashes" {
            die("child hash");
        }
        let m = match core(&ix.index) {
            Expr::MethodCall(m) if m.args.is_empty() && (m.method == "left_unchecked" || m.method == "right_unchecked") => m,
            x => die(&format!("child index `{}`", flat(x))),
        };
        (m.method.to_string(), num(&m.receiver))
    };
    let (c1, a1) = child(&hp.args[3]);
    let (c2, a2) = child(&hp.args[4]);
    let (ix2, v2) = assign(&wb[1], "hashes");
    if flat(v2) != "hash" {
        die("value stored by the queue loop");
    }
    let par_ix = num(ix2);
    let (qn, ql, qf) = push_parent(&wb[2], "node_queue");
    if flat(&st[5]) != "Ok(())" {
        die("last statement of tree_hash");
    }
    let mut cnt = 0;
    let resize = checked(&rz.args[0], &mut cnt, &|len: String| {
        format!(
            "let hashes := hresize hashes {len} in\n  \
bind (gen_leaf_pass nodes filtered_leaves num_leaves leaves_to_update hashes []) (fun cq =>\n  \
gen_queue_pass (33 * S (List.length leaves_to_update)) nodes filtered_leaves num_leaves (snd cq) (fst cq))"
        )
    });
    format!(
        "Section Gen.\n  Variable pay : N -> N.\n\n  \
(* the first loop of tree_hash *)\n  \
Fixpoint gen_leaf_pass (nodes : tree) (filtered_leaves : list N) (num_leaves : N) (ls : list N) (hashes : hcache) (node_queue : list N) : res (hcache * list N) :=\n    \
match ls with\n    | [] => Ok (hashes, node_queue)\n    | l :: ls' =>\n        \
if {keep} then\n          let leaf := {leaf} in\n          \
bind (hset hashes {leaf_ix} ({leaf_hash})) (fun hashes =>\n          \
bind (parent_sibling {pn} {pl}) (fun ps =>\n          \
let node_queue := match ps with Some ps => node_queue ++ [ParentSibling_{pf} ps] | None => node_queue end in\n          \
gen_leaf_pass nodes filtered_leaves num_leaves ls' hashes node_queue))\n        \
else gen_leaf_pass nodes filtered_leaves num_leaves ls' hashes node_queue\n    end.\n\n  \
(* the second loop: while let Some(n) = node_queue.pop_front() *)\n  \
Fixpoint gen_queue_pass (fuel : nat) (nodes : tree) (filtered_leaves : list N) (num_leaves : N) (q : list N) (hashes : hcache) : res hcache :=\n    \
match q with\n    | [] => Ok hashes\n    | n :: node_queue =>\n        match fuel with\n        | O => OutOfFuel\n        | S fuel' =>\n            \
bind ({c1} {a1}) (fun i1 => bind (hidx hashes i1) (fun h1 =>\n            \
bind ({c2} {a2}) (fun i2 => bind (hidx hashes i2) (fun h2 =>\n            \
bind (hset hashes {par_ix} (gen_hash_for_parent ({parent}) {filtered} h1 h2)) (fun hashes =>\n            \
bind (parent_sibling {qn} {ql}) (fun ps =>\n            \
let node_queue := match ps with Some ps => node_queue ++ [ParentSibling_{qf} ps] | None => node_queue end in\n            \
gen_queue_pass fuel' nodes filtered_leaves num_leaves node_queue hashes))))))\n        end\n    end.\n\n  \
Definition gen_tree_hash (hashes : hcache) (nodes : tree) (leaves_to_update : option (list N)) (filtered_leaves : list N) (num_leaves : N) : res hcache :=\n  \
let leaves_to_update := match leaves_to_update with Some x => x | None => {all} end in\n  {resize}.\n"
    )
}

fn update_hashes(f: &File) -> String {
    let m = method(f, "TreeKemPublic", "update_hashes");
    let st = &m.block.stmts;
    if st.len() != 4 {
        die("update_hashes has changed shape");
    }
    if flat(&st[0]) != "letnum_leaves=self.total_leaf_count();" {
        die("first statement of update_hashes");
    }
    // let leaves = updated_leaves.iter().copied().chain((0..num_leaves).rev().map_while(|l| current.get(2*l).is_none().then_some(l))).collect()
    let Stmt::Local(l) = &st[1] else { die("let leaves") };
    if flat(&l.pat) != "leaves" {
        die("let leaves");
    }
    let cv = mcall(&l.init.as_ref().unwrap_or_else(|| die("let leaves")).expr, "collect", 0);
    let ch = mcall(&cv.receiver, "chain", 1);
    if flat(&ch.receiver) != "updated_leaves.iter().copied()" {
        die("first part of the leaves of update_hashes");
    }
    let mw = mcall(&ch.args[0], "map_while", 1);
    if flat(&mw.receiver) != "(0..num_leaves).rev()" {
        die("range of the uncached leaves");
    }
    let Expr::Closure(cl) = &mw.args[0] else { die("map_while closure") };
    let body = flat(&cl.body);
    if body.trim_start_matches('{').trim_end_matches('}') != "self.tree_hashes.current.get(2*lasusize).is_none().then_some(LeafIndex::unchecked(l))" {
        die("map_while closure of update_hashes");
    }
    // tree_hash(&mut self.tree_hashes.current, &self.nodes, Some(leaves), &[], num_leaves, csp)
    let Stmt::Expr(e, _) = &st[2] else { die("third statement of update_hashes") };
    let c = call(e, "tree_hash", 6);
    let a: Vec<String> = c.args.iter().map(|x| flat(core(x))).collect();
    if a[0] != "self.tree_hashes.current" || a[1] != "self.nodes" || a[4] != "num_leaves" {
        die("arguments of tree_hash in update_hashes");
    }
    let ls = match a[2].as_str() {
        "Some(leaves)" => "(Some (updated_leaves ++ uncached c num_leaves))",
        x => die(&format!("leaves argument `{x}`")),
    };
    let flt = match a[3].as_str() {
        "[]" => "[]",
        x => die(&format!("filtered argument `{x}`")),
    };
    if flat(&st[3]) != "Ok(())" {
        die("last statement of update_hashes");
    }
    format!(
        "  Definition gen_update_hashes (c : hcache) (t : tree) (updated_leaves : list N) : res hcache :=\n    \
let num_leaves := total_leaf_count t in\n    gen_tree_hash c t {ls} {flt} num_leaves.\n"
    )
}

fn initialize_hashes(f: &File) -> String {
    let m = method(f, "TreeKemPublic", "initialize_hashes");
    let st = &m.block.stmts;
    if st.len() != 2 || flat(&st[1]) != "Ok(())" {
        die("initialize_hashes has changed shape");
    }
    let Stmt::Expr(Expr::If(i), _) = &st[0] else { die("first statement of initialize_hashes") };
    if flat(&i.cond) != "self.tree_hashes.current.is_empty()" || i.else_branch.is_some() || i.then_branch.stmts.len() != 2 {
        die("guard of initialize_hashes");
    }
    if flat(&i.then_branch.stmts[0]) != "letnum_leaves=self.total_leaf_count();" {
        die("initialize_hashes: num_leaves");
    }
    let Stmt::Expr(e, _) = &i.then_branch.stmts[1] else { die("initialize_hashes: tree_hash call") };
    let c = call(e, "tree_hash", 6);
    let a: Vec<String> = c.args.iter().map(|x| flat(core(x))).collect();
    if a[0] != "self.tree_hashes.current" || a[1] != "self.nodes" || a[2] != "None" || a[3] != "[]" || a[4] != "num_leaves" {
        die("arguments of tree_hash in initialize_hashes");
    }
    "  Definition gen_initialize_hashes (c : hcache) (t : tree) : res hcache :=\n    \
match c with\n    | [] => gen_tree_hash c t None [] (total_leaf_count t)\n    | _ => Ok c\n    end.\nEnd Gen.\n"
        .into()
}

/// the argument of every update_hashes call in a function, in source order
fn hash_calls(b: &Block) -> Vec<String> {
    struct V(Vec<String>);
    impl<'a> syn::visit::Visit<'a> for V {
        fn visit_expr_method_call(&mut self, m: &'a ExprMethodCall) {
            syn::visit::visit_expr_method_call(self, m);
            if m.method == "update_hashes" && m.args.len() == 2 {
                self.0.push(flat(core(&m.args[0])));
            }
        }
    }
    let mut v = V(vec![]);
    syn::visit::Visit::visit_block(&mut v, b);
    v.0
}

fn sites(repo: &str) -> String {
    let tf = parse(&format!("{repo}/mls-rs/src/tree_kem/mod.rs"));
    let pf = parse(&format!("{repo}/mls-rs/src/tree_kem/parent_hash.rs"));
    let kf = parse(&format!("{repo}/mls-rs/src/tree_kem/kem.rs"));
    let mf = parse(&format!("{repo}/mls-rs/src/group/message_processor.rs"));
    let cf = parse(&format!("{repo}/mls-rs/src/group/commit.rs"));
    // batch_edit: what `updated_leaves` is made of
    let be = methods(&tf, "TreeKemPublic", "batch_edit", false);
    if be.len() != 1 {
        die("batch_edit");
    }
    let mut chained = None;
    for s in &be[0].block.stmts {
        if let Stmt::Local(l) = s {
            if flat(&l.pat) == "chained" && !l.attrs.iter().any(|a| flat(a).contains("cfg")) {
                chained = Some(flat(&l.init.as_ref().unwrap().expr));
            }
        }
    }
    let parts = match chained.as_deref() {
        Some("proposal_bundle.remove_proposals().iter().map(|p|p.proposal.to_remove).chain(updated_indices).chain(added.iter().copied())") => "removes ++ updated_indices ++ added",
        Some(x) => die(&format!("the leaves batch_edit hashes: `{x}`")),
        None => die("batch_edit: `chained` not found"),
    };
    let bc = hash_calls(&be[0].block);
    if bc != ["updated_leaves"] || !flat(&be[0].block).contains("letupdated_leaves=chained.collect_vec();") {
        die("batch_edit: update_hashes call");
    }
    let site = |f: &File, ty: &str, name: &str| -> String {
        let v = methods(f, ty, name, true);
        let mut blocks: Vec<&Block> = v.iter().map(|m| &m.block).collect();
        // default methods of a trait
        for i in &f.items {
            if let Item::Trait(t) = i {
                if t.ident == ty {
                    for it in &t.items {
                        if let TraitItem::Fn(m) = it {
                            if m.sig.ident == name {
                                if let Some(b) = &m.default {
                                    blocks.push(b);
                                }
                            }
                        }
                    }
                }
            }
        }
        if blocks.len() != 1 {
            die(&format!("{} methods {ty}::{name}", blocks.len()));
        }
        let c = hash_calls(blocks[0]);
        format!("[{}]", c.iter().map(|x| format!("\"{x}\"")).collect::<Vec<_>>().join("; "))
    };
    format!(
        "(* the leaves each caller of update_hashes lists *)\n\
Definition gen_batch_edit_hash_leaves (removes updated_indices added : list N) : list N := {parts}.\n\
Local Open Scope string_scope.\n\
Definition gen_hash_sites : list (string * list string) :=\n  \
[(\"update_parent_hashes\", {});\n   (\"encap\", {});\n   (\"process_commit\", {});\n   (\"commit_internal\", {});\n   (\"add_leaves\", {})].\n",
        site(&pf, "TreeKemPublic", "update_parent_hashes"),
        site(&kf, "TreeKem", "encap"),
        site(&mf, "MessageProcessor", "process_commit"),
        site(&cf, "Group", "commit_internal"),
        site(&tf, "TreeKemPublic", "add_leaves"),
    )
}

pub fn run(repo: &str, out: &str) {
    let f = parse(&format!("{repo}/mls-rs/src/tree_kem/tree_hash.rs"));
    let s = format!(
        "(* GENERATED by rs2v hashcache from mls-rs/src/tree_kem/tree_hash.rs and the callers of update_hashes.  Do not edit. *)\n\
From Coq Require Import NArith List Bool String.\nFrom MlsV Require Import Res TreeMathGen Tree Kem HashCache.\nImport ListNotations.\nLocal Open Scope N_scope.\n\n{}{}\n{}\n{}\n{}\n{}",
        hash_for_leaf(&f),
        hash_for_parent(&f),
        tree_hash(&f),
        update_hashes(&f),
        initialize_hashes(&f),
        sites(repo)
    );
    std::fs::write(out, s).unwrap();
}
