//! Translate the "re-init travels alone" rule: ProposalBundle::length (proposal_filter/bundle.rs), which
//! counts the proposals of every kind, and filter_out_reinit_if_other_proposals
//! (proposal_filter/filtering.rs), which decides on the counts.  Conditions are compiled operator by
//! operator; the statement skeleton must have the known shape.  Anything else is refused (exit code 3).
use syn::*;

fn die(msg: &str) -> ! {
    eprintln!("rs2v reinitrule: cannot translate: {msg}");
    std::process::exit(3);
}

fn flat<T: quote::ToTokens>(t: &T) -> String {
    quote::quote!(#t).to_string().replace(' ', "")
}

fn parse(path: &str) -> File {
    let src = std::fs::read_to_string(path).unwrap_or_else(|e| panic!("{path}: {e}"));
    syn::parse_file(&src).unwrap_or_else(|e| panic!("{path}: {e}"))
}

fn kind_of(field: &str) -> &'static str {
    match field {
        "self.psks.len()" => "n_psk c",
        "self.external_initializations.len()" => "n_extinit c",
        "self.custom_proposals.len()" => "n_custom c",
        "self.updates.len()" => "n_update c",
        "self.additions.len()" => "n_add c",
        "self.removals.len()" => "n_remove c",
        "self.reinitializations.len()" => "n_reinit c",
        "self.group_context_extensions.len()" => "n_gce c",
        x => die(&format!("term `{x}` of ProposalBundle::length")),
    }
}

fn sum(e: &Expr, out: &mut Vec<String>) {
    match e {
        Expr::Binary(b) if matches!(b.op, BinOp::Add(_)) => {
            sum(&b.left, out);
            sum(&b.right, out);
        }
        Expr::Paren(p) => sum(&p.expr, out),
        Expr::Lit(ExprLit { lit: Lit::Int(i), .. }) if i.base10_digits() == "0" => {}
        _ => {
            let s = flat(e);
            if s != "len" {
                out.push(kind_of(&s).to_string());
            }
        }
    }
}

fn cond(e: &Expr) -> String {
    match e {
        Expr::Paren(p) => cond(&p.expr),
        Expr::Unary(u) if matches!(u.op, UnOp::Not(_)) => format!("negb ({})", cond(&u.expr)),
        Expr::Binary(b) => {
            let num = |x: &Expr| -> String {
                match flat(x).as_str() {
                    "proposal_count" => "count".into(),
                    "1" => "1".into(),
                    "proposals.reinit_proposals().len()" => "nre".into(),
                    y => die(&format!("operand `{y}`")),
                }
            };
            match b.op {
                BinOp::And(_) => format!("({} && {})", cond(&b.left), cond(&b.right)),
                BinOp::Or(_) => format!("({} || {})", cond(&b.left), cond(&b.right)),
                BinOp::Ne(_) => format!("negb (Nat.eqb {} {})", num(&b.left), num(&b.right)),
                BinOp::Eq(_) => format!("(Nat.eqb {} {})", num(&b.left), num(&b.right)),
                BinOp::Gt(_) => format!("(Nat.ltb {} {})", num(&b.right), num(&b.left)),
                BinOp::Lt(_) => format!("(Nat.ltb {} {})", num(&b.left), num(&b.right)),
                _ => die(&format!("operator in `{}`", flat(e))),
            }
        }
        _ => match flat(e).as_str() {
            "proposals.reinit_proposals().is_empty()" => "(Nat.eqb nre 0)".into(),
            "any_by_val" => "any_by_val".into(),
            "filter" => "filter".into(),
            "has_reinit_and_other_proposal" => "has_reinit_and_other_proposal".into(),
            "has_other_proposal_type" => "has_other_proposal_type".into(),
            x => die(&format!("condition `{x}`")),
        },
    }
}

pub fn run(repo: &str, out: &str) {
    let bf = parse(&format!("{repo}/mls-rs/src/group/proposal_filter/bundle.rs"));
    let ff = parse(&format!("{repo}/mls-rs/src/group/proposal_filter/filtering.rs"));
    // ProposalBundle::length: `let len = <sum>;` statements (cfg'd ones belong to enabled features) and a final sum
    let mut terms: Vec<String> = vec![];
    let mut found = false;
    for i in &bf.items {
        if let Item::Impl(im) = i {
            if im.trait_.is_some() || flat(&im.self_ty) != "ProposalBundle" {
                continue;
            }
            for it in &im.items {
                if let ImplItem::Fn(m) = it {
                    if m.sig.ident != "length" {
                        continue;
                    }
                    found = true;
                    for s in &m.block.stmts {
                        match s {
                            Stmt::Local(l) if flat(&l.pat) == "len" => {
                                // the self_remove feature is off in the verified build
                                if l.attrs.iter().any(|a| flat(a).contains("self_remove_proposal")) {
                                    continue;
                                }
                                sum(&l.init.as_ref().unwrap_or_else(|| die("let len")).expr, &mut terms);
                            }
                            Stmt::Expr(e, None) => sum(e, &mut terms),
                            _ => die(&format!("statement `{}` of ProposalBundle::length", flat(s))),
                        }
                    }
                }
            }
        }
    }
    if !found {
        die("ProposalBundle::length not found");
    }
    // filter_out_reinit_if_other_proposals
    let f = ff.items.iter().find_map(|i| if let Item::Fn(x) = i { (x.sig.ident == "filter_out_reinit_if_other_proposals").then_some(x) } else { None }).unwrap_or_else(|| die("filter_out_reinit_if_other_proposals not found"));
    let st = &f.block.stmts;
    if st.len() != 4 || flat(&st[0]) != "letproposal_count=proposals.length();" || flat(&st[3]) != "Ok(proposals)" {
        die("filter_out_reinit_if_other_proposals: frame");
    }
    let c0 = match &st[1] {
        Stmt::Local(l) if flat(&l.pat) == "has_reinit_and_other_proposal" => cond(&l.init.as_ref().unwrap().expr),
        _ => die("has_reinit_and_other_proposal"),
    };
    let Stmt::Expr(Expr::If(top), _) = &st[2] else { die("third statement") };
    if top.else_branch.is_some() || flat(&top.cond) != "has_reinit_and_other_proposal" {
        die("outer test");
    }
    let b = &top.then_branch.stmts;
    if b.len() != 4 || flat(&b[0]) != "letany_by_val=proposals.reinit_proposals().iter().any(|p|p.is_by_value());" {
        die("inner frame");
    }
    let c1 = match &b[1] {
        Stmt::Expr(Expr::If(i), _) if i.else_branch.is_none() && flat(&i.then_branch) == "{returnErr(MlsError::OtherProposalWithReInit);}" => cond(&i.cond),
        _ => die("error branch"),
    };
    let c2 = match &b[2] {
        Stmt::Local(l) if flat(&l.pat) == "has_other_proposal_type" => cond(&l.init.as_ref().unwrap().expr),
        _ => die("has_other_proposal_type"),
    };
    let (then_v, else_v) = match &b[3] {
        Stmt::Expr(Expr::If(i), _) if flat(&i.cond) == "has_other_proposal_type" => {
            let t = flat(&i.then_branch);
            let e = flat(&i.else_branch.as_ref().unwrap_or_else(|| die("no else")).1);
            let v = |s: &str| match s {
                "{proposals.reinitializations=Vec::new();}" => "RDropAllReinits",
                "{proposals.reinitializations.truncate(1);}" => "RKeepFirstReinit",
                x => die(&format!("branch `{x}`")),
            };
            (v(&t), v(&e))
        }
        _ => die("last test"),
    };
    let s = format!(
        "(* GENERATED by rs2v reinitrule from mls-rs/src/group/proposal_filter/{{bundle,filtering}}.rs.  Do not edit. *)\n\
From Coq Require Import NArith Arith List Bool.\nFrom MlsV Require Import Filter.\nImport ListNotations.\n\n\
(* ProposalBundle::length over the number of proposals of every kind *)\n\
Definition gen_bundle_length (c : pcounts) : nat := {}.\n\n\
(* filter_out_reinit_if_other_proposals: count = proposals.length(), nre = number of re-init proposals,\n   any_by_val = one of them is by value, filter = the committer's strategy (drop by-reference offenders) *)\n\
Definition gen_reinit_rule (filter any_by_val : bool) (count nre : nat) : reinit_verdict :=\n\
  let has_reinit_and_other_proposal := {c0} in\n\
  if has_reinit_and_other_proposal then\n\
    if {c1} then RError\n\
    else let has_other_proposal_type := {c2} in\n\
         if has_other_proposal_type then {then_v} else {else_v}\n\
  else RKeepAll.\n",
        terms.join(" + ")
    );
    std::fs::write(out, s).unwrap();
}
