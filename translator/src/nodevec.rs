//! Translate the node-vector operations behind every tree edit (tree_kem/node.rs): next_empty_leaf,
//! insert_leaf, trim, total_leaf_count, and the order of the phases of TreeKemPublic::batch_edit /
//! add_leaf (tree_kem/mod.rs) into Gallina over the tree model (Model/Tree.v).  Loops become
//! recursion on fuel (the vector length bounds them); expressions are compiled from the source.
//! Anything outside the known shapes is refused (exit code 3).
use syn::*;

fn die(msg: &str) -> ! {
    eprintln!("rs2v nodevec: cannot translate: {msg}");
    std::process::exit(3);
}

fn flat<T: quote::ToTokens>(t: &T) -> String {
    quote::quote!(#t).to_string().replace(' ', "")
}

fn parse(path: &str) -> File {
    let src = std::fs::read_to_string(path).unwrap_or_else(|e| panic!("{path}: {e}"));
    syn::parse_file(&src).unwrap_or_else(|e| panic!("{path}: {e}"))
}

fn methods<'a>(f: &'a File, ty: &str, name: &str) -> Vec<&'a ImplItemFn> {
    let mut v = vec![];
    for i in &f.items {
        if let Item::Impl(im) = i {
            if im.trait_.is_some() || flat(&im.self_ty) != ty || im.attrs.iter().any(|a| flat(a).contains("cfg(test)")) {
                continue;
            }
            for it in &im.items {
                if let ImplItem::Fn(m) = it {
                    if m.sig.ident == name {
                        v.push(m);
                    }
                }
            }
        }
    }
    v
}

fn method<'a>(f: &'a File, ty: &str, name: &str) -> &'a ImplItemFn {
    let v = methods(f, ty, name);
    if v.len() != 1 {
        die(&format!("{} methods {ty}::{name}, expected 1", v.len()));
    }
    v[0]
}

/// N-valued expressions over the vector `t` and the loop variable
fn num(e: &Expr) -> String {
    match e {
        Expr::Paren(p) => num(&p.expr),
        Expr::Cast(c) => num(&c.expr),
        Expr::Lit(ExprLit { lit: Lit::Int(i), .. }) => i.base10_digits().to_string(),
        Expr::Binary(b) => {
            let (l, r) = (num(&b.left), num(&b.right));
            match b.op {
                BinOp::Add(_) => format!("({l} + {r})"),
                BinOp::Div(_) => format!("({l} / {r})"),
                BinOp::Mul(_) => format!("({l} * {r})"),
                BinOp::Shl(_) if r == "1" => format!("(2 * {l})"),
                BinOp::Shr(_) if r == "1" => format!("({l} / 2)"),
                _ => die(&format!("operator in `{}`", flat(e))),
            }
        }
        // LeafIndex::from_node_index_unchecked(X)  = X >> 1, pinned in run()
        Expr::Call(c) if flat(&c.func) == "LeafIndex::from_node_index_unchecked" && c.args.len() == 1 => format!("({} / 2)", num(&c.args[0])),
        Expr::MethodCall(m) if m.method == "next_power_of_two" && m.args.is_empty() => format!("next_power_of_two {}", num(&m.receiver)),
        _ => match flat(e).as_str() {
            "n" => "n".into(),
            "self.len()" => "tlen t".into(),
            "NodeIndex::from(start)" => "(2 * start)".into(),   // impl From<LeafIndex> for NodeIndex, pinned below
            "*index" => "index".into(),
            "node_index" => "node_index".into(),
            x => die(&format!("expression `{x}`")),
        },
    }
}

fn cond(e: &Expr) -> String {
    match e {
        Expr::Paren(p) => cond(&p.expr),
        Expr::Binary(b) => match b.op {
            BinOp::Lt(_) => format!("({} <? {})", num(&b.left), num(&b.right)),
            BinOp::Gt(_) => format!("({} <? {})", num(&b.right), num(&b.left)),
            BinOp::Le(_) => format!("({} <=? {})", num(&b.left), num(&b.right)),
            BinOp::Ge(_) => format!("({} <=? {})", num(&b.right), num(&b.left)),
            BinOp::Eq(_) if flat(e) == "self.last()==Some(&None)" => "last_is_blank t".into(),
            _ => die(&format!("condition `{}`", flat(e))),
        },
        _ => match flat(e).as_str() {
            "self.0[n].is_none()" => "is_none (get t n)".into(),
            "self.is_empty()" => "(tlen t =? 0)".into(),
            x => die(&format!("condition `{x}`")),
        },
    }
}

fn next_empty_leaf(nf: &File) -> String {
    let m = method(nf, "NodeVec", "next_empty_leaf");
    let st = &m.block.stmts;
    if st.len() != 3 {
        die(&format!("next_empty_leaf has {} statements, expected 3", st.len()));
    }
    let init = match &st[0] {
        Stmt::Local(l) if flat(&l.pat) == "mutn" => num(&l.init.as_ref().unwrap_or_else(|| die("let mut n")).expr),
        _ => die("first statement of next_empty_leaf"),
    };
    let Stmt::Expr(Expr::While(w), _) = &st[1] else { die("second statement of next_empty_leaf is not the loop") };
    let c = cond(&w.cond);
    let b = &w.body.stmts;
    if b.len() != 2 {
        die("loop body of next_empty_leaf");
    }
    let (c2, ret) = match &b[0] {
        Stmt::Expr(Expr::If(i), _) if i.else_branch.is_none() && i.then_branch.stmts.len() == 1 => match &i.then_branch.stmts[0] {
            Stmt::Expr(Expr::Return(r), _) => (cond(&i.cond), num(r.expr.as_ref().unwrap_or_else(|| die("bare return")))),
            _ => die("return inside the loop"),
        },
        _ => die("test inside the loop"),
    };
    let step = match &b[1] {
        Stmt::Expr(Expr::Binary(x), _) if matches!(x.op, BinOp::AddAssign(_)) && flat(&x.left) == "n" => format!("(n + {})", num(&x.right)),
        _ => die("loop increment"),
    };
    let fin = match &st[2] {
        Stmt::Expr(e, None) => num(e),
        _ => die("last statement of next_empty_leaf"),
    };
    format!(
        "(* NodeVec::next_empty_leaf: the loop runs at most once per node, fuel = the vector length + 1 *)\n\
Fixpoint gen_next_empty_loop (fuel : nat) (t : tree) (n : N) : N :=\n\
  match fuel with\n  | O => {fin}\n  | S fuel' => if {c} then (if {c2} then {ret} else gen_next_empty_loop fuel' t {step}) else {fin}\n  end.\n\
Definition gen_next_empty_leaf (t : tree) (start : N) : N := gen_next_empty_loop (S (length t)) t {init}.\n"
    )
}

fn insert_leaf(nf: &File) -> String {
    let m = method(nf, "NodeVec", "insert_leaf");
    let st = &m.block.stmts;
    if st.len() != 3 {
        die(&format!("insert_leaf has {} statements, expected 3", st.len()));
    }
    let ni = match &st[0] {
        Stmt::Local(l) if flat(&l.pat) == "node_index" => num(&l.init.as_ref().unwrap_or_else(|| die("let node_index")).expr),
        _ => die("first statement of insert_leaf"),
    };
    fn pushes(b: &Block) -> String {
        let mut s = String::from("t");
        for x in &b.stmts {
            if flat(x) != "self.push(None);" {
                die(&format!("statement `{}` in insert_leaf", flat(x)));
            }
            s = format!("({s} ++ [None])");
        }
        s
    }
    let grown = match &st[1] {
        Stmt::Expr(Expr::If(i), _) => {
            let c1 = cond(&i.cond);
            let a = pushes(&i.then_branch);
            let els = match &i.else_branch {
                Some((_, e)) => match &**e {
                    Expr::If(j) if j.else_branch.is_none() => format!("if {} then {} else t", cond(&j.cond), pushes(&j.then_branch)),
                    _ => die("else branch of insert_leaf"),
                },
                None => "t".into(),
            };
            format!("if {c1} then {a} else {els}")
        }
        _ => die("second statement of insert_leaf"),
    };
    if flat(&st[2]) != "self.0[node_index]=Some(leaf.into());" {
        die(&format!("write of insert_leaf is `{}`", flat(&st[2])));
    }
    format!(
        "(* NodeVec::insert_leaf *)\n\
Definition gen_insert_leaf (t : tree) (index : N) (leaf : tnode) : tree :=\n\
  let node_index := {ni} in\n  let t' := {grown} in\n  set t' node_index (Some leaf).\n"
    )
}

fn trim(nf: &File) -> String {
    let m = method(nf, "NodeVec", "trim");
    let st = &m.block.stmts;
    if st.len() != 1 {
        die("trim is not one loop");
    }
    let Stmt::Expr(Expr::While(w), _) = &st[0] else { die("trim is not one loop") };
    let c = cond(&w.cond);
    if flat(&w.body) != "{self.pop();}" {
        die(&format!("body of trim is `{}`", flat(&w.body)));
    }
    format!(
        "(* NodeVec::trim *)\n\
Fixpoint gen_trim_loop (fuel : nat) (t : tree) : tree :=\n  match fuel with O => t | S fuel' => if {c} then gen_trim_loop fuel' (removelast t) else t end.\n\
Definition gen_trim (t : tree) : tree := gen_trim_loop (length t) t.\n"
    )
}

fn total_leaf_count(nf: &File) -> String {
    let m = method(nf, "NodeVec", "total_leaf_count");
    let st = &m.block.stmts;
    let e = match st.as_slice() {
        [Stmt::Expr(e, None)] => num(e),
        _ => die("total_leaf_count is not one expression"),
    };
    format!("(* NodeVec::total_leaf_count *)\nDefinition gen_total_leaf_count (t : tree) : N := {e}.\n")
}

fn phases(tf: &File) -> String {
    let m = methods(tf, "TreeKemPublic", "batch_edit").into_iter().next().unwrap_or_else(|| die("TreeKemPublic::batch_edit not found"));
    let mut out = vec![];
    for s in &m.block.stmts {
        let f = flat(s);
        match s {
            Stmt::Expr(Expr::ForLoop(fl), _) => {
                let it = flat(&fl.expr);
                if it == "(0..proposal_bundle.remove_proposals().len()).rev()" && f.contains("self.apply_remove::<RemoveProposal,I>(index,i,") {
                    out.push("PRemovesLastFirst");
                } else if it == "proposal_bundle.updates.iter().zip(senders).enumerate()" && f.contains("self.nodes.blank_leaf_node(index)") {
                    out.push("PUpdatesOut");
                } else if it == "partial_updates.into_iter()" && f.contains("self.nodes.insert_leaf(index,new_leaf)") {
                    out.push("PUpdatesIn");
                } else if it == "0..proposal_bundle.additions.len()" && f.contains("letres=self.add_leaf(leaf,id_provider,extensions,Some(start)).await;") && f.contains("ifletOk(index)=res{start=index;added.push(start);}") {
                    out.push("PAddsRunningStart");
                } else if it.contains("self_removes") || it == "bad_indexes.into_iter().rev()" {
                    // self-removes (feature off in this build) and the removal of rejected adds from the bundle
                } else {
                    die(&format!("loop over `{it}` in batch_edit"));
                }
            }
            _ if f == "updated_indices.iter().try_for_each(|index|self.nodes.blank_direct_path(*index).map(|_|()))?;" => out.push("PBlankPaths"),
            _ if f == "self.nodes.trim();" => out.push("PTrim"),
            _ if f == "self.update_hashes(&updated_leaves,cipher_suite_provider).await?;" => out.push("PHashes"),
            _ if f == "letmutstart=LeafIndex::unchecked(0);" => out.push("PStartZero"),
            _ if f.contains("self.nodes.trim()") || f.contains("add_leaf(") || f.contains("blank_direct_path") && !f.starts_with("if") && !f.starts_with("let") => die(&format!("statement `{f}` in batch_edit")),
            _ => {}
        }
    }
    // add_leaf: first free slot from `start`, insert, unmerged
    let a = methods(tf, "TreeKemPublic", "add_leaf").into_iter().next().unwrap_or_else(|| die("TreeKemPublic::add_leaf not found"));
    let ab = flat(&a.block);
    if !(ab.starts_with("{letindex=self.nodes.next_empty_leaf(start.unwrap_or(LeafIndex::unchecked(0)));") && ab.ends_with("self.nodes.insert_leaf(index,leaf);self.update_unmerged(index)?;Ok(index)}")) {
        die("TreeKemPublic::add_leaf changed");
    }
    // apply_remove: blank the leaf, then its direct path
    let r = flat(&methods(tf, "TreeKemPublic", "apply_remove").into_iter().next().unwrap_or_else(|| die("apply_remove not found")).block);
    if !r.starts_with("{letres=self.nodes.blank_leaf_node(index);ifres.is_ok(){self.nodes.blank_direct_path(index)?;}") {
        die("TreeKemPublic::apply_remove changed");
    }
    format!(
        "(* TreeKemPublic::batch_edit: the phases in the order of the source *)\nDefinition gen_batch_phases : list phase := [{}].\n",
        out.join("; ")
    )
}

pub fn run(repo: &str, out: &str) {
    let nf = parse(&format!("{repo}/mls-rs/src/tree_kem/node.rs"));
    let tf = parse(&format!("{repo}/mls-rs/src/tree_kem/mod.rs"));
    // the two index conversions used above
    let mut from_ok = false;
    for i in &nf.items {
        if let Item::Impl(im) = i {
            if im.trait_.as_ref().map(|t| flat(&t.1)) == Some("From<LeafIndex>".into()) && flat(&im.self_ty) == "NodeIndex" {
                from_ok = flat(im).contains("fnfrom(leaf_index:LeafIndex)->Self{leaf_index.0*2}");
            }
        }
    }
    if !from_ok {
        die("impl From<LeafIndex> for NodeIndex changed");
    }
    if flat(&method(&nf, "LeafIndex", "from_node_index_unchecked").block) != "{LeafIndex(index>>1)}" {
        die("LeafIndex::from_node_index_unchecked changed");
    }
    let s = format!(
        "(* GENERATED by rs2v nodevec from mls-rs/src/tree_kem/node.rs and mod.rs.  Do not edit. *)\n\
From Coq Require Import NArith List Bool.\nFrom MlsV Require Import Res TreeMathGen Tree.\nImport ListNotations.\nLocal Open Scope N_scope.\n\n{}\n{}\n{}\n{}\n{}",
        next_empty_leaf(&nf),
        insert_leaf(&nf),
        trim(&nf),
        total_leaf_count(&nf),
        phases(&tf)
    );
    std::fs::write(out, s).unwrap();
}
