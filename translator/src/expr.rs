//! A small Rust -> Gallina compiler for integer code.
//!
//! Supported subset (anything else is a hard error, the translator "fails loudly"):
//! integer and boolean literals, variables, `* & ( )`, `! - + * ^ & | << >>`, comparisons,
//! `&&`/`||` on pure operands, `if/else` expressions, `let`, assignment and compound
//! assignment to local variables, `return`, `Some/None/Ok/Err`, struct literals and
//! `T::new(..)` for structs defined in the translated files, field access, calls of other
//! translated functions, `Vec::new()`, `v.push(e)`, `x.clone()`, `x.trailing_ones()`,
//! `while cond {..}` and `while let Some(p) = e {..}` (both become fuelled Fixpoints).
//!
//! Every translated function has type `... -> res T` where `res` is the three-valued
//! result monad of Base/Res.v: `Ok v`, `Panic` (Rust debug-build arithmetic panic) and
//! `OutOfFuel` (only loops).  Arithmetic on `u32`/`usize` is translated to the checked
//! operations of Base/Res.v.

use std::collections::{BTreeMap, BTreeSet};
use syn::*;

#[derive(Clone, Copy, PartialEq, Debug)]
pub enum IntTy {
    U32,
    U64,
}

pub struct Env {
    /// translated function name (Rust path tail, e.g. "root" or "LeafIndex::try_from") -> Coq name
    pub fns: BTreeMap<String, String>,
    /// functions returning bool (for the typing of `!`)
    pub bool_fns: BTreeSet<String>,
    /// struct name -> ordered field names
    pub structs: BTreeMap<String, Vec<String>>,
    /// newtype structs erased to their single field
    pub newtypes: BTreeSet<String>,
    /// constants name -> Coq name
    pub consts: BTreeMap<String, String>,
}

pub struct Fun<'a> {
    pub env: &'a Env,
    pub name: String,
    pub ity: IntTy,
    tmp: usize,
    nloops: usize,
    pub aux: Vec<String>,
    scope: Vec<String>,
}

type Binds = Vec<(String, String)>;

fn flat(t: proc_macro2::TokenTree) -> Vec<String> {
    match t {
        proc_macro2::TokenTree::Group(g) => g.stream().into_iter().flat_map(flat).collect(),
        proc_macro2::TokenTree::Ident(i) => vec![i.to_string()],
        _ => vec![],
    }
}

fn die(msg: &str, what: &dyn std::fmt::Debug) -> ! {
    eprintln!("rs2v: unsupported construct: {msg}: {what:?}");
    std::process::exit(3);
}

fn wrap(binds: &Binds, body: String) -> String {
    let mut s = body;
    for (t, rhs) in binds.iter().rev() {
        s = format!("bind ({rhs}) (fun {t} =>\n  {s})");
    }
    s
}

impl<'a> Fun<'a> {
    pub fn new(env: &'a Env, name: &str, ity: IntTy, params: Vec<String>) -> Self {
        Fun { env, name: name.to_string(), ity, tmp: 0, nloops: 0, aux: vec![], scope: params }
    }

    fn fresh(&mut self) -> String {
        self.tmp += 1;
        format!("t{}", self.tmp)
    }

    fn pfx(&self) -> &'static str {
        match self.ity {
            IntTy::U32 => "u32",
            IntTy::U64 => "u64",
        }
    }

    fn is_bool(&self, e: &Expr) -> bool {
        match e {
            Expr::Binary(b) => matches!(
                b.op,
                BinOp::Eq(_) | BinOp::Ne(_) | BinOp::Lt(_) | BinOp::Le(_) | BinOp::Gt(_) | BinOp::Ge(_) | BinOp::And(_) | BinOp::Or(_)
            ),
            Expr::MethodCall(m) => self.env.bool_fns.contains(&m.method.to_string()),
            Expr::Paren(p) => self.is_bool(&p.expr),
            Expr::Lit(l) => matches!(l.lit, Lit::Bool(_)),
            Expr::Unary(u) => matches!(u.op, UnOp::Not(_)) && self.is_bool(&u.expr),
            _ => false,
        }
    }

    fn path_str(p: &Path) -> String {
        p.segments.iter().map(|s| s.ident.to_string()).collect::<Vec<_>>().join("::")
    }

    /// Compile an expression to A-normal form: monadic bindings plus a pure atom.
    pub fn anf(&mut self, e: &Expr) -> (Binds, String) {
        match e {
            Expr::Lit(l) => match &l.lit {
                Lit::Int(i) => (vec![], format!("{}%N", i.base10_parse::<u128>().unwrap())),
                Lit::Bool(b) => (vec![], format!("{}", b.value)),
                other => die("literal", other),
            },
            Expr::Path(p) => {
                let s = Self::path_str(&p.path);
                if s == "None" {
                    return (vec![], "None".into());
                }
                if let Some(c) = self.env.consts.get(&s) {
                    return (vec![], c.clone());
                }
                (vec![], s.replace("::", "_"))
            }
            Expr::Paren(p) => self.anf(&p.expr),
            Expr::Group(p) => self.anf(&p.expr),
            Expr::Reference(r) => self.anf(&r.expr),
            Expr::Cast(c) => self.anf(&c.expr),
            Expr::Unary(u) => match u.op {
                UnOp::Deref(_) => self.anf(&u.expr),
                UnOp::Not(_) => {
                    let b = self.is_bool(&u.expr);
                    let (bs, a) = self.anf(&u.expr);
                    if b {
                        (bs, format!("(negb {a})"))
                    } else {
                        (bs, format!("({}_not {a})", self.pfx()))
                    }
                }
                _ => die("unary op", &u.op),
            },
            Expr::Binary(b) => {
                let (mut bs, x) = self.anf(&b.left);
                let (bs2, y) = self.anf(&b.right);
                bs.extend(bs2);
                let pfx = self.pfx();
                let checked = |op: &str| format!("{pfx}_{op} {x} {y}");
                let (monadic, s) = match b.op {
                    BinOp::Add(_) => (true, checked("add")),
                    BinOp::Sub(_) => (true, checked("sub")),
                    BinOp::Mul(_) => (true, checked("mul")),
                    BinOp::Shl(_) => (true, checked("shl")),
                    BinOp::Shr(_) => (true, checked("shr")),
                    BinOp::BitXor(_) => (false, format!("(N.lxor {x} {y})")),
                    BinOp::BitAnd(_) => (false, format!("(N.land {x} {y})")),
                    BinOp::BitOr(_) => (false, format!("(N.lor {x} {y})")),
                    BinOp::Eq(_) => (false, format!("(N.eqb {x} {y})")),
                    BinOp::Ne(_) => (false, format!("(negb (N.eqb {x} {y}))")),
                    BinOp::Lt(_) => (false, format!("(N.ltb {x} {y})")),
                    BinOp::Le(_) => (false, format!("(N.leb {x} {y})")),
                    BinOp::Gt(_) => (false, format!("(N.ltb {y} {x})")),
                    BinOp::Ge(_) => (false, format!("(N.leb {y} {x})")),
                    BinOp::And(_) => (false, format!("(andb {x} {y})")),
                    BinOp::Or(_) => (false, format!("(orb {x} {y})")),
                    _ => die("binary op", &b.op),
                };
                if matches!(b.op, BinOp::And(_) | BinOp::Or(_)) && !bs.is_empty() {
                    die("short-circuit operator with effectful operand", &b.op);
                }
                if monadic {
                    let t = self.fresh();
                    bs.push((t.clone(), s));
                    (bs, t)
                } else {
                    (bs, s)
                }
            }
            Expr::MethodCall(m) => {
                let name = m.method.to_string();
                let (mut bs, recv) = self.anf(&m.receiver);
                let mut args = vec![recv.clone()];
                for a in &m.args {
                    let (b2, s) = self.anf(a);
                    bs.extend(b2);
                    args.push(s);
                }
                match name.as_str() {
                    "clone" => (bs, recv),
                    "trailing_ones" => (bs, format!("(trailing_ones {recv})")),
                    _ => {
                        let Some(cn) = self.env.fns.get(&name) else { die("method", &name) };
                        let t = self.fresh();
                        bs.push((t.clone(), format!("{} {}", cn, args.join(" "))));
                        (bs, t)
                    }
                }
            }
            Expr::Call(c) => {
                let Expr::Path(p) = &*c.func else { die("call target", &c.func) };
                let f = Self::path_str(&p.path);
                let mut bs = vec![];
                let mut args = vec![];
                for a in &c.args {
                    let (b2, s) = self.anf(a);
                    bs.extend(b2);
                    args.push(s);
                }
                let segs: Vec<&str> = f.split("::").collect();
                let head = segs[0];
                match f.as_str() {
                    "Some" | "Ok" => (bs, format!("(Some {})", args[0])),
                    "Err" => (bs, "None".into()),
                    "Vec::new" => (bs, "[]".into()),
                    _ if (self.env.newtypes.contains(&f) || f == "Self") && args.len() == 1 => (bs, args[0].clone()),
                    _ if segs.len() == 2 && segs[1] == "new" && self.env.structs.contains_key(head) => {
                        (bs, format!("(mk{} {})", head, args.join(" ")))
                    }
                    _ => {
                        let Some(cn) = self.env.fns.get(&f).or_else(|| self.env.fns.get(*segs.last().unwrap())) else {
                            die("function", &f)
                        };
                        let t = self.fresh();
                        bs.push((t.clone(), format!("{} {}", cn, args.join(" "))));
                        (bs, t)
                    }
                }
            }
            Expr::Field(f) => {
                let (bs, b) = self.anf(&f.base);
                match &f.member {
                    Member::Unnamed(i) if i.index == 0 => (bs, b),
                    Member::Named(id) => {
                        let n = id.to_string();
                        let owner = self.env.structs.iter().filter(|(_, fs)| fs.contains(&n)).map(|(s, _)| s.clone()).collect::<Vec<_>>();
                        if owner.len() != 1 {
                            die("ambiguous or unknown field", &n);
                        }
                        (bs, format!("({}_{} {})", owner[0], n, b))
                    }
                    other => die("field", other),
                }
            }
            Expr::Struct(s) => {
                let name = Self::path_str(&s.path);
                let Some(order) = self.env.structs.get(&name).cloned() else { die("struct literal", &name) };
                let mut bs = vec![];
                let mut vals = BTreeMap::new();
                for fv in &s.fields {
                    let Member::Named(id) = &fv.member else { die("field", &name) };
                    let (b2, a) = self.anf(&fv.expr);
                    bs.extend(b2);
                    vals.insert(id.to_string(), a);
                }
                let args: Vec<String> = order.iter().map(|f| vals.get(f).cloned().unwrap_or_else(|| die("missing field", f))).collect();
                (bs, format!("(mk{} {})", name, args.join(" ")))
            }
            Expr::If(_) | Expr::Block(_) => {
                let m = self.expr_m(e);
                let t = self.fresh();
                (vec![(t.clone(), m)], t)
            }
            other => die("expression", other),
        }
    }

    /// Compile an expression in tail position to a monadic term.
    pub fn expr_m(&mut self, e: &Expr) -> String {
        match e {
            Expr::If(i) => {
                let (bs, c) = self.anf(&i.cond);
                let saved = self.scope.clone();
                let t = self.block_m(&i.then_branch.stmts, None);
                self.scope = saved.clone();
                let f = match &i.else_branch {
                    Some((_, e)) => self.expr_m(e),
                    None => "ret tt".to_string(),
                };
                self.scope = saved;
                wrap(&bs, format!("(if {c} then {t} else {f})"))
            }
            Expr::Block(b) => {
                let saved = self.scope.clone();
                let r = self.block_m(&b.block.stmts, None);
                self.scope = saved;
                r
            }
            Expr::Return(r) => self.expr_m(r.expr.as_ref().unwrap()),
            _ => {
                let (bs, a) = self.anf(e);
                wrap(&bs, format!("ret {a}"))
            }
        }
    }

    fn ends_with_return(b: &Block) -> bool {
        match b.stmts.last() {
            Some(Stmt::Expr(Expr::Return(_), _)) => true,
            _ => false,
        }
    }

    fn assigned_vars(stmts: &[Stmt], out: &mut Vec<String>) {
        struct V<'b>(&'b mut Vec<String>);
        impl<'ast, 'b> visit::Visit<'ast> for V<'b> {
            fn visit_expr_assign(&mut self, a: &'ast ExprAssign) {
                if let Expr::Path(p) = &*a.left {
                    let n = Fun::path_str(&p.path);
                    if !self.0.contains(&n) {
                        self.0.push(n);
                    }
                }
                visit::visit_expr_assign(self, a);
            }
            fn visit_expr_binary(&mut self, b: &'ast ExprBinary) {
                use BinOp::*;
                if matches!(b.op, AddAssign(_) | SubAssign(_) | MulAssign(_) | ShlAssign(_) | ShrAssign(_) | BitXorAssign(_) | BitAndAssign(_) | BitOrAssign(_)) {
                    if let Expr::Path(p) = &*b.left {
                        let n = Fun::path_str(&p.path);
                        if !self.0.contains(&n) {
                            self.0.push(n);
                        }
                    }
                }
                visit::visit_expr_binary(self, b);
            }
            fn visit_expr_method_call(&mut self, m: &'ast ExprMethodCall) {
                if m.method == "push" {
                    if let Expr::Path(p) = &*m.receiver {
                        let n = Fun::path_str(&p.path);
                        if !self.0.contains(&n) {
                            self.0.push(n);
                        }
                    }
                }
                visit::visit_expr_method_call(self, m);
            }
        }
        let mut v = V(out);
        for s in stmts {
            visit::Visit::visit_stmt(&mut v, s);
        }
    }

    fn tuple(vars: &[String]) -> String {
        match vars.len() {
            0 => "tt".into(),
            1 => vars[0].clone(),
            _ => format!("({})", vars.join(", ")),
        }
    }

    fn pat(vars: &[String]) -> String {
        match vars.len() {
            0 => "_".into(),
            1 => vars[0].clone(),
            _ => format!("'({})", vars.join(", ")),
        }
    }

    /// Compile statements followed by `tail` (a monadic term producing the block's value).
    /// `tail = None` means the block's own trailing expression is the value.
    pub fn block_m(&mut self, stmts: &[Stmt], tail: Option<String>) -> String {
        if stmts.is_empty() {
            return tail.unwrap_or_else(|| "ret tt".into());
        }
        let (first, rest) = stmts.split_first().unwrap();
        match first {
            Stmt::Local(l) => {
                let Pat::Ident(pi) = &l.pat else { die("let pattern", &l.pat) };
                let name = pi.ident.to_string();
                let init = l.init.as_ref().unwrap_or_else(|| die("let without init", &name));
                let (bs, a) = self.anf(&init.expr);
                self.scope.retain(|s| s != &name);
                self.scope.push(name.clone());
                let r = self.block_m(rest, tail);
                wrap(&bs, format!("let {name} := {a} in\n  {r}"))
            }
            Stmt::Expr(e, semi) => {
                if rest.is_empty() && semi.is_none() && tail.is_none() {
                    return self.expr_m(e);
                }
                match e {
                    Expr::Return(r) => self.expr_m(r.expr.as_ref().unwrap()),
                    Expr::If(i) if i.else_branch.is_none() && Self::ends_with_return(&i.then_branch) => {
                        let (bs, c) = self.anf(&i.cond);
                        let saved = self.scope.clone();
                        let t = self.block_m(&i.then_branch.stmts, None);
                        self.scope = saved;
                        let r = self.block_m(rest, tail);
                        wrap(&bs, format!("(if {c} then {t} else\n  {r})"))
                    }
                    Expr::Assign(a) => {
                        let Expr::Path(p) = &*a.left else { die("assignment target", &a.left) };
                        let name = Self::path_str(&p.path);
                        let (bs, v) = self.anf(&a.right);
                        let r = self.block_m(rest, tail);
                        wrap(&bs, format!("let {name} := {v} in\n  {r}"))
                    }
                    Expr::Binary(b) if Self::compound(&b.op).is_some() => {
                        let Expr::Path(p) = &*b.left else { die("assignment target", &b.left) };
                        let name = Self::path_str(&p.path);
                        let op = Self::compound(&b.op).unwrap();
                        let plain = Expr::Binary(ExprBinary { attrs: vec![], left: b.left.clone(), op, right: b.right.clone() });
                        let (bs, v) = self.anf(&plain);
                        let r = self.block_m(rest, tail);
                        wrap(&bs, format!("let {name} := {v} in\n  {r}"))
                    }
                    Expr::MethodCall(m) if m.method == "push" => {
                        let (mut bs, recv) = self.anf(&m.receiver);
                        let (b2, v) = self.anf(&m.args[0]);
                        bs.extend(b2);
                        let r = self.block_m(rest, tail);
                        wrap(&bs, format!("let {recv} := ({recv} ++ [{v}]) in\n  {r}"))
                    }
                    Expr::While(w) => {
                        let mut muts = vec![];
                        Self::assigned_vars(&w.body.stmts, &mut muts);
                        muts.retain(|m| self.scope.contains(m));
                        self.nloops += 1;
                        let lname = format!("{}_loop{}", self.name, self.nloops);
                        let toks: Vec<String> = quote::quote!(#w).into_iter().flat_map(flat).collect();
                        let params: Vec<String> = self.scope.iter().filter(|v| toks.contains(v)).cloned().collect();
                        let rec_call = format!("{} fuel {}", lname, params.join(" "));
                        let exit = format!("ret {}", Self::tuple(&muts));
                        let saved = self.scope.clone();
                        let body = match &*w.cond {
                            Expr::Let(l) => {
                                // while let Some(x) = e { .. }
                                let Pat::TupleStruct(ts) = &*l.pat else { die("while-let pattern", &l.pat) };
                                if Self::path_str(&ts.path) != "Some" {
                                    die("while-let pattern", &l.pat);
                                }
                                let Some(Pat::Ident(pi)) = ts.elems.first() else { die("while-let pattern", &l.pat) };
                                let x = pi.ident.to_string();
                                let (bs, a) = self.anf(&l.expr);
                                self.scope.push(x.clone());
                                let b = self.block_m(&w.body.stmts, Some(rec_call.clone()));
                                wrap(&bs, format!("match {a} with\n  | Some {x} => {b}\n  | None => {exit}\n  end"))
                            }
                            c => {
                                let (bs, a) = self.anf(c);
                                let b = self.block_m(&w.body.stmts, Some(rec_call.clone()));
                                wrap(&bs, format!("(if {a} then {b} else {exit})"))
                            }
                        };
                        self.scope = saved;
                        self.aux.push(format!(
                            "Fixpoint {lname} (fuel : nat) {} {{struct fuel}} :=\n  match fuel with\n  | O => OutOfFuel\n  | S fuel =>\n  {body}\n  end.\n",
                            params.join(" ")
                        ));
                        let r = self.block_m(rest, tail);
                        format!("bind ({lname} loop_fuel {}) (fun {} =>\n  {r})", params.join(" "), Self::pat(&muts))
                    }
                    other => die("statement", other),
                }
            }
            other => die("statement", other),
        }
    }

    fn compound(op: &BinOp) -> Option<BinOp> {
        use BinOp::*;
        Some(match op {
            AddAssign(_) => Add(Default::default()),
            SubAssign(_) => Sub(Default::default()),
            MulAssign(_) => Mul(Default::default()),
            ShlAssign(_) => Shl(Default::default()),
            ShrAssign(_) => Shr(Default::default()),
            BitXorAssign(_) => BitXor(Default::default()),
            BitAndAssign(_) => BitAnd(Default::default()),
            BitOrAssign(_) => BitOr(Default::default()),
            _ => return None,
        })
    }
}
