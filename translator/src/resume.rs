//! Translate the re-init / branch rules (group/resumption.rs), the joiner's handling of the old
//! group's resumption PSK (Group::psk_secret, group/mod.rs) and the PSK resolver
//! (psk/resolver.rs) into Gallina over the models of Model/Subgroup.v and Model/PskIdeal.v.
//! Conditions are compiled operator by operator from the source; the statement skeleton around
//! them must have the known shape.  Anything else is refused (exit code 3).
use std::collections::HashMap;
use syn::*;

fn die(msg: &str) -> ! {
    eprintln!("rs2v resume: cannot translate: {msg}");
    std::process::exit(3);
}

fn flat<T: quote::ToTokens>(t: &T) -> String {
    quote::quote!(#t).to_string().replace(' ', "")
}

fn parse(path: &str) -> File {
    let src = std::fs::read_to_string(path).unwrap_or_else(|e| panic!("{path}: {e}"));
    syn::parse_file(&src).unwrap_or_else(|e| panic!("{path}: {e}"))
}

fn attrs_have(attrs: &[Attribute], needle: &str) -> bool {
    attrs.iter().any(|a| flat(a).contains(needle))
}

/// all free functions of the name
fn free_fns<'a>(f: &'a File, name: &str) -> Vec<&'a ItemFn> {
    f.items.iter().filter_map(|i| if let Item::Fn(x) = i { (x.sig.ident == name).then_some(x) } else { None }).collect()
}

/// all methods of the name in inherent impl blocks
fn methods<'a>(f: &'a File, name: &str) -> Vec<&'a ImplItemFn> {
    let mut v = vec![];
    for i in &f.items {
        if let Item::Impl(im) = i {
            if im.trait_.is_some() {
                continue;
            }
            for it in &im.items {
                if let ImplItem::Fn(m) = it {
                    if m.sig.ident == name {
                        v.push(m);
                    }
                }
            }
        }
    }
    v
}

fn one_method<'a>(f: &'a File, name: &str) -> &'a ImplItemFn {
    let v = methods(f, name);
    if v.len() != 1 {
        die(&format!("{} methods named {name}, expected 1", v.len()));
    }
    v[0]
}

/// generic boolean expression compiler: atoms and comparison operands come from the tables
struct Bx<'a> {
    atoms: &'a [(&'a str, &'a str)],     // whole boolean sub-expressions
    nums: &'a [(&'a str, &'a str)],      // N-valued operands
    nat_operands: bool,                  // compare with Nat.eqb (lengths)
    vars: HashMap<String, String>,
}

impl Bx<'_> {
    fn num(&self, e: &Expr) -> String {
        let s = flat(e);
        if let Some(v) = self.vars.get(&s) {
            return v.clone();
        }
        for (k, v) in self.nums {
            if s == *k {
                return v.to_string();
            }
        }
        die(&format!("operand `{s}`"))
    }
    fn cond(&self, e: &Expr) -> String {
        let s = flat(e);
        for (k, v) in self.atoms {
            if s == *k {
                return v.to_string();
            }
        }
        match e {
            Expr::Paren(p) => self.cond(&p.expr),
            Expr::Unary(u) if matches!(u.op, UnOp::Not(_)) => format!("negb ({})", self.cond(&u.expr)),
            Expr::Binary(b) => match b.op {
                BinOp::And(_) => format!("({} && {})", self.cond(&b.left), self.cond(&b.right)),
                BinOp::Or(_) => format!("({} || {})", self.cond(&b.left), self.cond(&b.right)),
                BinOp::Eq(_) | BinOp::Ne(_) => {
                    let eq = if self.nat_operands {
                        format!("(Nat.eqb ({}) ({}))", self.num(&b.left), self.num(&b.right))
                    } else {
                        format!("({} =? {})", self.num(&b.left), self.num(&b.right))
                    };
                    if matches!(b.op, BinOp::Ne(_)) {
                        format!("negb {eq}")
                    } else {
                        eq
                    }
                }
                _ => die(&format!("operator in `{s}`")),
            },
            _ => die(&format!("condition `{s}`")),
        }
    }
}

// ---------------------------------------------------------------------------------------------
// 1. check_that_subgroup_is_a_subset
fn subgroup(res: &File) -> String {
    let fns: Vec<_> = free_fns(res, "check_that_subgroup_is_a_subset");
    if fns.len() != 1 {
        die("check_that_subgroup_is_a_subset not found exactly once");
    }
    let st = &fns[0].block.stmts;
    if st.len() != 7 {
        die(&format!("check_that_subgroup_is_a_subset has {} statements, expected 7", st.len()));
    }
    let mut bx = Bx {
        atoms: &[("matches!(typ,GroupCreationType::Reinit)", "is_reinit typ")],
        nums: &[("old_roster.members_iter().count()", "length o"), ("new_group.roster().members_iter().count()", "length n")],
        nat_operands: true,
        vars: HashMap::new(),
    };
    let c = match &st[0] {
        Stmt::Expr(Expr::If(i), _) if i.else_branch.is_none() => {
            if flat(&i.then_branch) != "{returnErr(MlsError::NotASubgroup);}" {
                die(&format!("first statement's body is {}", flat(&i.then_branch)));
            }
            bx.cond(&i.cond)
        }
        _ => die("first statement of check_that_subgroup_is_a_subset"),
    };
    if flat(&st[1]) != "letprovider=new_group.identity_provider();" || flat(&st[2]) != "letextensions=new_group.context().extensions();" {
        die("provider / extensions bindings");
    }
    for s in &st[3..5] {
        let f = flat(s);
        let (name, roster) = f
            .strip_prefix("let")
            .and_then(|r| r.split_once("=collect_identities(extensions,"))
            .and_then(|(n, r)| r.strip_suffix(",&provider).await?;").map(|x| (n.to_string(), x.to_string())))
            .unwrap_or_else(|| die(&format!("identity binding `{f}`")));
        let v = match roster.as_str() {
            "old_roster" => "o",
            "new_group.roster()" => "n",
            x => die(&format!("roster `{x}`")),
        };
        bx.vars.insert(name, v.to_string());
    }
    let f5 = flat(&st[5]);
    let (a, b) = f5
        .strip_suffix(").then_some(()).ok_or(MlsError::NotASubgroup)?;")
        .and_then(|r| r.split_once(".is_subset(&"))
        .unwrap_or_else(|| die(&format!("subset statement `{f5}`")));
    let (a, b) = (
        bx.vars.get(a).cloned().unwrap_or_else(|| die(&format!("variable `{a}`"))),
        bx.vars.get(b).cloned().unwrap_or_else(|| die(&format!("variable `{b}`"))),
    );
    if flat(&st[6]) != "Ok(())" {
        die("last statement of check_that_subgroup_is_a_subset");
    }
    // the identities are those of every member of the roster, nothing skipped
    let std_sync = "fncollect_identities<I:IdentityProvider>(extensions:&ExtensionList,roster:Roster<'_>,provider:&I,)->Result<HashSet<Vec<u8>>,MlsError>{roster.members_iter().map(|m|{provider.identity(&m.signing_identity,extensions).map_err(|e|MlsError::IdentityProviderError(e.into_any_error()))}).collect()}";
    let mut seen = false;
    for f in free_fns(res, "collect_identities") {
        let mut g = f.clone();
        g.attrs.clear();
        let s = flat(&g);
        if s == std_sync {
            seen = true;
        } else if !(s.contains("roster.members_iter().map(") && s.contains("provider.identity(&m.signing_identity,extensions)")) || s.contains("filter") || s.contains("skip") || s.contains("take") {
            die(&format!("collect_identities variant `{s}`"));
        }
    }
    if !seen {
        die("the std, synchronous collect_identities changed");
    }
    format!(
        "(* check_that_subgroup_is_a_subset over the identities of the members of the old (o) and of the\n   new (n) group *)\n\
Definition gen_subgroup_ok (typ : creation) (o n : list N) : bool :=\n  if {c} then false else subset_ids {a} {b}.\n"
    )
}

// ---------------------------------------------------------------------------------------------
// 2. ResumptionGroupBuilder::join, its callers, the joiner's own PSK id
fn join(res: &File) -> String {
    let j = methods(res, "join").into_iter().find(|m| flat(&m.sig).contains("verify_group_id:bool")).unwrap_or_else(|| die("ResumptionGroupBuilder::join not found"));
    let st = &j.block.stmts;
    if st.len() != 7 {
        die(&format!("ResumptionGroupBuilder::join has {} statements, expected 7", st.len()));
    }
    let expect = [
        "letexpected_version=self.builder.protocol_version;",
        "letexpected_cipher_suite=self.builder.cipher_suite;",
        "letexpected_group_id=self.builder.group_id;",
        "letexpected_extensions=self.builder.group_context_extensions;",
        "let(group,new_member_info)=Group::from_welcome_message(welcome,tree_data,self.builder.config,self.builder.signer,Some(self.psk_input),self.builder.now_time,).await?;",
        "check_that_subgroup_is_a_subset(old_roster,&group,self.typ).await?;",
    ];
    for (i, e) in expect.iter().enumerate() {
        if flat(&st[i]) != *e {
            die(&format!("statement {i} of ResumptionGroupBuilder::join is `{}`", flat(&st[i])));
        }
    }
    let bx = Bx {
        atoms: &[("verify_group_id", "verify")],
        nums: &[
            ("group.protocol_version()", "pr_version g"),
            ("expected_version", "pr_version e"),
            ("group.cipher_suite()", "pr_suite g"),
            ("expected_cipher_suite", "pr_suite e"),
            ("group.current_epoch()", "pr_epoch g"),
            ("1", "1"),
            ("group.group_id()", "pr_gid g"),
            ("expected_group_id.as_deref().unwrap_or_default()", "pr_gid e"),
            ("group.group_state().context.extensions", "pr_ext g"),
            ("expected_extensions", "pr_ext e"),
        ],
        nat_operands: false,
        vars: HashMap::new(),
    };
    fn chain(bx: &Bx, e: &Expr) -> String {
        match e {
            Expr::If(i) => {
                let t = flat(&i.then_branch);
                if !(t.starts_with("{Err(MlsError::") && t.ends_with(")}")) {
                    die(&format!("branch `{t}` of the parameter checks"));
                }
                let els = i.else_branch.as_ref().unwrap_or_else(|| die("parameter check without else"));
                format!("if {} then false else {}", bx.cond(&i.cond), chain(bx, &els.1))
            }
            Expr::Block(b) if flat(&b.block) == "{Ok((group,new_member_info))}" => "true".to_string(),
            _ => die(&format!("tail `{}` of the parameter checks", flat(e))),
        }
    }
    let body = match &st[6] {
        Stmt::Expr(e, None) => chain(&bx, e),
        _ => die("last statement of ResumptionGroupBuilder::join"),
    };
    // creation side: the old group's PSK is installed for the commit and the membership rule runs
    let c = flat(&one_method(res, "create").block);
    for needle in ["group.previous_psk=Some(self.psk_input);", "check_that_subgroup_is_a_subset(old_roster,&group,self.typ).await?;"] {
        if !c.contains(needle) {
            die(&format!("ResumptionGroupBuilder::create lacks `{needle}`"));
        }
    }
    // callers: which type verifies the group id, which usage labels the joiner's own PSK id
    let lit = |body: &str, pre: &str, post: &str| -> String {
        body.split_once(pre).and_then(|(_, r)| r.split_once(post)).map(|(x, _)| x.to_string()).unwrap_or_else(|| die(&format!("`{pre}..{post}` not found")))
    };
    let rj = methods(res, "join").into_iter().find(|m| !flat(&m.sig).contains("verify_group_id")).unwrap_or_else(|| die("ReinitClient::join not found"));
    let rj = flat(&rj.block);
    if !rj.contains("self.group_builder(timestamp).join(") {
        die("ReinitClient::join does not use group_builder");
    }
    let reinit_verify = lit(&rj, ".join(welcome,tree_data,", ",old_public_tree.roster())");
    let bj = flat(&one_method(res, "join_subgroup").block);
    if !bj.contains("self.branch_group_builder(timestamp,vec![])?.join(") {
        die("join_subgroup does not use branch_group_builder");
    }
    let branch_verify = lit(&bj, ".join(welcome,tree_data,", ",self.roster())");
    for v in [&reinit_verify, &branch_verify] {
        if v != "true" && v != "false" {
            die(&format!("verify_group_id argument `{v}`"));
        }
    }
    let gb = flat(&one_method(res, "group_builder").block);
    if !gb.contains("ResumptionGroupBuilder{builder,psk_input:self.psk_input,typ:GroupCreationType::Reinit,}") {
        die("group_builder's ResumptionGroupBuilder");
    }
    let rc = flat(&one_method(res, "get_reinit_client").block);
    let reinit_usage = lit(&rc, "letpsk_input=self.resumption_psk_input(ResumptionPSKUsage::", ")?;");
    if !rc.contains("Ok(ReinitClient{client,reinit,psk_input,old_public_tree:self.state.public_tree,})") {
        die("reinit_client's ReinitClient");
    }
    let bb = flat(&one_method(res, "branch_group_builder").block);
    let branch_usage = lit(&bb, "psk_input:self.resumption_psk_input(ResumptionPSKUsage::", ")?,");
    if !bb.contains("typ:GroupCreationType::Branch,") {
        die("branch_group_builder's type");
    }
    let rp = flat(&one_method(res, "resumption_psk_input").block);
    if rp != "{letpsk=self.epoch_secrets.resumption_secret.clone();letid=JustPreSharedKeyID::Resumption(ResumptionPsk{usage,psk_group_id:PskGroupId(self.group_id().to_vec()),psk_epoch:self.current_epoch(),});letid=PreSharedKeyID::new(id,self.cipher_suite_provider())?;Ok(PskSecretInput{id,psk})}" {
        die(&format!("resumption_psk_input is `{rp}`"));
    }
    format!(
        "(* ResumptionGroupBuilder::join after the Welcome has been opened: e = what the joiner expects,\n   g = what the new group has *)\n\
Definition gen_join_params (verify : bool) (e g : params) : bool :=\n  {body}.\n\n\
(* ReinitClient::join and Group::join_subgroup: is the group id compared *)\n\
Definition gen_verify_gid (typ : creation) : bool := match typ with Reinit => {reinit_verify} | Branch => {branch_verify} end.\n\n\
(* Group::resumption_psk_input as called by reinit_client / branch_group_builder: the id under which\n   the joiner holds the old group's resumption secret *)\n\
Definition gen_expected_id (typ : creation) (old_gid old_epoch : N) : jpskid :=\n  JResumption (match typ with Reinit => U{reinit_usage} | Branch => U{branch_usage} end) old_gid old_epoch.\n"
    )
}

// ---------------------------------------------------------------------------------------------
// 3. Group::psk_secret
fn joiner_psk(grp: &File) -> String {
    let m = methods(grp, "psk_secret").into_iter().find(|m| attrs_have(&m.attrs, "cfg(feature=\"psk\")")).unwrap_or_else(|| die("Group::psk_secret (psk build) not found"));
    if !flat(&m.sig).contains("psks:&[PreSharedKeyID],additional_psk:Option<PskSecretInput>,") {
        die("signature of Group::psk_secret");
    }
    if m.block.stmts.len() != 1 {
        die("Group::psk_secret is not one `if let`");
    }
    let Stmt::Expr(Expr::If(top), None) = &m.block.stmts[0] else { die("Group::psk_secret is not one `if let`") };
    if flat(&top.cond) != "letSome(psk)=additional_psk" {
        die(&format!("outer condition `{}`", flat(&top.cond)));
    }
    let els = flat(&top.else_branch.as_ref().unwrap_or_else(|| die("no else branch")).1);
    if !(els.contains("group_context:None,current_epoch:None,prior_epochs:None,psk_store:&config.secret_store(),}.resolve_to_secret(psks,cipher_suite_provider).await") && els.starts_with("{PskResolver::<")) {
        die(&format!("resolver branch `{els}`"));
    }
    // the branch with the injected PSK, statement by statement
    fn usage_guard(g: &Expr) -> String {
        match g {
            Expr::Binary(b) if flat(&b.left) == "r.usage" && flat(&b.right).starts_with("ResumptionPSKUsage::") => {
                let u = flat(&b.right).replace("ResumptionPSKUsage::", "U");
                match b.op {
                    BinOp::Ne(_) => format!("negb (usage_eqb u {u})"),
                    BinOp::Eq(_) => format!("usage_eqb u {u}"),
                    _ => die("guard operator"),
                }
            }
            _ => die(&format!("guard `{}`", flat(g))),
        }
    }
    fn verdict(e: &Expr, rest: &str) -> String {
        let s = flat(e);
        match s.as_str() {
            "Ok(())" | "{Ok(())}" => rest.to_string(),
            "Err(MlsError::UnexpectedPskId)" | "{Err(MlsError::UnexpectedPskId)}" => "JUnexpected".to_string(),
            _ => die(&format!("arm body `{s}`")),
        }
    }
    fn go(ss: &[Stmt], first: Option<&str>, nonce: Option<String>) -> String {
        let Some((s, rest)) = ss.split_first() else { die("injected-PSK branch ends without a value") };
        let f = flat(s);
        if f == "letpsk_id=psks.first().ok_or(MlsError::UnexpectedPskId)?;" {
            return format!("match psks with [] => JUnexpected | psk_id :: _ => {} end", go(rest, Some("psk_id"), nonce));
        }
        if let Stmt::Expr(Expr::Try(t), _) = s {
            if let Expr::Match(m) = &*t.expr {
                if flat(&m.expr) != "&psk_id.key_id" || first.is_none() {
                    die(&format!("match on `{}`", flat(&m.expr)));
                }
                let k = go(rest, first, nonce);
                let wild = m.arms.iter().find(|a| flat(&a.pat) == "_").map(|a| verdict(&a.body, &k));
                let mut res_arm = None;
                let mut ext_arm = None;
                for a in &m.arms {
                    match flat(&a.pat).as_str() {
                        "_" => {}
                        "JustPreSharedKeyID::Resumption(r)" | "JustPreSharedKeyID::Resumption(_)" => {
                            let body = verdict(&a.body, &k);
                            res_arm = Some(match &a.guard {
                                Some((_, g)) => format!("if {} then {} else {}", usage_guard(g), body, wild.clone().unwrap_or_else(|| die("guard without `_` arm"))),
                                None => body,
                            });
                        }
                        "JustPreSharedKeyID::External(_)" => ext_arm = Some(verdict(&a.body, &k)),
                        p => die(&format!("arm pattern `{p}`")),
                    }
                }
                let res_arm = res_arm.or(wild.clone()).unwrap_or_else(|| die("no arm for resumption ids"));
                let ext_arm = ext_arm.or(wild).unwrap_or_else(|| die("no arm for external ids"));
                return format!("match w_id psk_id with JResumption u _ _ => {res_arm} | JExternal _ => {ext_arm} end");
            }
        }
        if f == "letmutpsk=psk;" {
            return go(rest, first, nonce);
        }
        if f == "psk.id.psk_nonce=psk_id.psk_nonce.clone();" && first.is_some() {
            return go(rest, first, Some("w_nonce psk_id".to_string()));
        }
        if f == "PskSecret::calculate(&[psk],cipher_suite_provider).await" && rest.is_empty() {
            let n = nonce.unwrap_or_else(|| die("the nonce of the Welcome's PSK id is not copied"));
            return format!("JInject psk ({n})");
        }
        die(&format!("statement `{f}` of the injected-PSK branch"))
    }
    let body = go(&top.then_branch.stmts, None, None);
    // the Welcome path hands the joiner's PSK to psk_secret
    let d = flat(&one_method(grp, "decrypt_group_info_internal").block);
    if !d.contains("Self::psk_secret(config,&cipher_suite_provider,&group_secrets.psks,#[cfg(feature=\"psk\")]additional_psk,).await?") {
        die("decrypt_group_info_internal's call of psk_secret");
    }
    format!(
        "(* Group::psk_secret: psks = the PSK ids listed in the Welcome, additional = the joiner's own id\n   for the old group's resumption secret (re-init / branch), if any *)\n\
Definition gen_joiner_psk (psks : list wpsk) (additional : option jpskid) : jres :=\n  match additional with\n  | Some psk => {body}\n  | None => JResolve\n  end.\n"
    )
}

// ---------------------------------------------------------------------------------------------
// 4. PskResolver
fn resolver(rsv: &File) -> String {
    let rr = one_method(rsv, "resolve_resumption");
    let st: Vec<&Stmt> = rr.block.stmts.iter().collect();
    if st.len() != 3 {
        die(&format!("resolve_resumption has {} statements, expected 3", st.len()));
    }
    let bx = Bx {
        atoms: &[],
        nums: &[("ctx.epoch", "h_epoch h"), ("psk_id.psk_epoch", "epoch"), ("ctx.group_id", "h_gid h"), ("psk_id.psk_group_id.0", "gid")],
        nat_operands: false,
        vars: HashMap::new(),
    };
    // S1: the current epoch of the current group
    let c1 = match st[0] {
        Stmt::Expr(Expr::If(i), _) if i.else_branch.is_none() && flat(&i.cond) == "letSome(ctx)=self.group_context" && i.then_branch.stmts.len() == 1 => match &i.then_branch.stmts[0] {
            Stmt::Expr(Expr::If(j), _) if j.else_branch.is_none() => {
                if flat(&j.then_branch) != "{letepoch=self.current_epoch.ok_or(MlsError::OldGroupStateNotFound)?;returnOk(epoch.resumption_secret.clone());}" {
                    die(&format!("current-epoch branch `{}`", flat(&j.then_branch)));
                }
                bx.cond(&j.cond)
            }
            _ => die("inner statement of the current-epoch test"),
        },
        _ => die("first statement of resolve_resumption"),
    };
    // S2: earlier epochs from the repository
    match st[1] {
        Stmt::Expr(Expr::If(i), _) if attrs_have(&i.attrs, "cfg(feature=\"prior_epoch\")") => {
            let mut j = i.clone();
            j.attrs.clear();
            if flat(&j) != "ifletSome(eps)=self.prior_epochs{ifletSome(psk)=eps.resumption_secret(psk_id).await?{returnOk(psk);}}" {
                die(&format!("prior-epoch statement `{}`", flat(&j)));
            }
        }
        _ => die("second statement of resolve_resumption"),
    }
    if flat(st[2]) != "Err(MlsError::OldGroupStateNotFound)" {
        die("last statement of resolve_resumption");
    }
    let re = flat(&one_method(rsv, "resolve_external").block);
    if re != "{self.psk_store.get(psk_id).await.map_err(|e|MlsError::PskStoreError(e.into_any_error()))?.ok_or(MlsError::MissingRequiredPsk)}" {
        die(&format!("resolve_external is `{re}`"));
    }
    let r = flat(&one_method(rsv, "resolve").block);
    if r != "{letmutsecret_inputs=Vec::new();foridinid{letpsk=match&id.key_id{JustPreSharedKeyID::External(external)=>self.resolve_external(external).await,JustPreSharedKeyID::Resumption(resumption)=>{self.resolve_resumption(resumption).await}}?;secret_inputs.push(PskSecretInput{id:id.clone(),psk,})}Ok(secret_inputs)}" {
        die(&format!("resolve is `{r}`"));
    }
    let rs = flat(&one_method(rsv, "resolve_to_secret").block);
    if rs != "{letpsk=self.resolve(id).await?;PskSecret::calculate(&psk,cipher_suite_provider).await}" {
        die(&format!("resolve_to_secret is `{rs}`"));
    }
    format!(
        "(* PskResolver of a member that processes a commit (group context, current epoch secrets and\n   repository present); repo = GroupStateRepository::resumption_secret *)\n\
Definition gen_resolve_resumption (h : holder) (repo : N -> N -> option N) (gid epoch : N) : option N :=\n  if {c1} then Some (h_current h)\n  else match repo gid epoch with Some psk => Some psk | None => None end.\n\n\
Definition gen_resolve_one (h : holder) (repo : N -> N -> option N) (id : pskid) : option N :=\n  match id with\n  | PExternal external => lookup2 external (h_external h)\n  | PResumption gid epoch => gen_resolve_resumption h repo gid epoch\n  end.\n\n\
(* the loop of PskResolver::resolve: in the order of the list, stop at the first id without a value *)\n\
Definition gen_resolve_all (h : holder) (repo : N -> N -> option N) (ids : list pskid) : option (list N) :=\n  fold_left (fun acc id => match acc with\n                           | None => None\n                           | Some secret_inputs => match gen_resolve_one h repo id with\n                                                   | Some psk => Some (secret_inputs ++ [psk])\n                                                   | None => None\n                                                   end\n                           end) ids (Some []).\n"
    )
}


// ---------------------------------------------------------------------------------------------
// 5. GroupStateRepository::resumption_secret (group/state_repo.rs), statement by statement:
//    `if C { .. }` / `if let Some(x) = E { .. }` without else fall through to what follows,
//    `return Ok(E)` ends
fn repo_expr(e: &str) -> String {
    match e {
        "self.pending_commit.inserts.front().map(|e|e.epoch_id())" => "option_map fst (hd_error (r_inserts r))".into(),
        "self.pending_commit.inserts.get((psk_id.psk_epoch-min)asusize).map(|e|e.secrets.resumption_secret.clone())" => "option_map snd (nth_error (r_inserts r) (N.to_nat (epoch - min)))".into(),
        "Some(self.pending_commit.updates[pending].secrets.resumption_secret.clone(),)" | "Some(self.pending_commit.updates[pending].secrets.resumption_secret.clone())" => "option_map snd (nth_error (r_updates r) pending)".into(),
        "maybe_pending" => "maybe_pending".into(),
        x => die(&format!("repository expression `{x}`")),
    }
}

fn repo_stmts(ss: &[Stmt], k: &str) -> String {
    let Some((s, rest)) = ss.split_first() else { return k.to_string() };
    match s {
        Stmt::Expr(Expr::If(i), _) if i.else_branch.is_none() => {
            let after = repo_stmts(rest, k);
            if let Expr::Let(l) = &*i.cond {
                let pat = flat(&l.pat);
                let var = pat.strip_prefix("Some(").and_then(|x| x.strip_suffix(')')).unwrap_or_else(|| die(&format!("pattern `{pat}`")));
                format!("match {} with Some {var} => {} | None => {after} end", repo_expr(&flat(&l.expr)), repo_stmts(&i.then_branch.stmts, &after))
            } else {
                let c = match flat(&i.cond).as_str() {
                    "psk_id.psk_group_id.0==self.group_id" => "(gid =? r_gid r)",
                    "psk_id.psk_epoch>=min" => "(min <=? epoch)",
                    x => die(&format!("repository condition `{x}`")),
                };
                format!("if {c} then {} else {after}", repo_stmts(&i.then_branch.stmts, &after))
            }
        }
        Stmt::Expr(Expr::Return(r), _) => {
            let f = flat(r.expr.as_ref().unwrap_or_else(|| die("bare return")));
            let inner = f.strip_prefix("Ok(").and_then(|x| x.strip_suffix(')')).unwrap_or_else(|| die(&format!("return value `{f}`")));
            repo_expr(inner)
        }
        Stmt::Local(l) if flat(l) == "letmaybe_pending=self.find_pending(psk_id.psk_epoch);" => {
            format!("let maybe_pending := find_pending r epoch in {}", repo_stmts(rest, k))
        }
        Stmt::Expr(e, None) if rest.is_empty() => {
            let f = flat(e);
            if f != "self.storage.epoch(&psk_id.psk_group_id.0,psk_id.psk_epoch).await.map_err(|e|MlsError::GroupStorageError(e.into_any_error()))?.map(|e|Ok(PriorEpoch::mls_decode(&mut&**e)?.secrets.resumption_secret)).transpose()" {
                die(&format!("storage lookup `{f}`"));
            }
            "stored_lookup r gid epoch".to_string()
        }
        _ => die(&format!("repository statement `{}`", flat(s))),
    }
}

fn repository(repo: &File) -> String {
    let m = one_method(repo, "resumption_secret");
    let body = repo_stmts(&m.block.stmts, "None");
    let fp = flat(&one_method(repo, "find_pending").block);
    if fp != "{self.pending_commit.updates.iter().position(|ep|ep.context.epoch==epoch_id)}" {
        die(&format!("find_pending is `{fp}`"));
    }
    format!(
        "(* GroupStateRepository::resumption_secret: the epochs entered since the last write (inserts,\n   consecutive), the written epochs changed since (updates), then the storage *)\n\
Definition gen_repo_resumption (r : repo) (gid epoch : N) : option N :=\n  {body}.\n"
    )
}

pub fn run(repo: &str, out: &str) {
    let res = parse(&format!("{repo}/mls-rs/src/group/resumption.rs"));
    let grp = parse(&format!("{repo}/mls-rs/src/group/mod.rs"));
    let rsv = parse(&format!("{repo}/mls-rs/src/psk/resolver.rs"));
    let rep = parse(&format!("{repo}/mls-rs/src/group/state_repo.rs"));
    let s = format!(
        "(* GENERATED by rs2v resume from mls-rs/src/group/resumption.rs, group/mod.rs,\n   group/state_repo.rs, psk/resolver.rs.  Do not edit. *)\n\
From Coq Require Import NArith List Bool.\nFrom MlsV Require Import Tree Subgroup PskIdeal.\nImport ListNotations.\nLocal Open Scope N_scope.\n\n{}\n{}\n{}\n{}\n{}",
        subgroup(&res),
        join(&res),
        joiner_psk(&grp),
        resolver(&rsv),
        repository(&rep)
    );
    std::fs::write(out, s).unwrap();
}
