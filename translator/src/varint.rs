//! Translate the hand-written variable-length integer codec (mls-rs-codec/src/varint.rs): the
//! thresholds of count_bytes_to_encode_int with the discriminants of LengthEncoding, VarInt::MAX
//! and the bound of TryFrom<u32>, the byte slice and marker bits of every arm of mls_encode, and
//! the arithmetic of mls_decode (prefix shift, the admitted prefixes, the byte count, the mask of
//! the first byte, the fold step, the minimal-length comparison).  The statement skeleton around
//! these is compared with the expected shape; anything else is refused (exit code 3).
use syn::*;

fn die(msg: &str) -> ! {
    eprintln!("rs2v varint: cannot translate: {msg}");
    std::process::exit(3);
}

fn flat<T: quote::ToTokens>(t: &T) -> String {
    quote::quote!(#t).to_string().replace(' ', "")
}

fn num(s: &str) -> String {
    let s = s.trim_end_matches("u8").trim_end_matches("u32").trim_end_matches("usize");
    let v = if let Some(h) = s.strip_prefix("0x") { u64::from_str_radix(h, 16).ok() } else { s.parse::<u64>().ok() };
    v.unwrap_or_else(|| die(&format!("number `{s}`"))).to_string()
}

/// `pre<X>post` -> X
fn hole<'a>(s: &'a str, pre: &str, post: &str) -> &'a str {
    s.strip_prefix(pre).and_then(|r| r.strip_suffix(post)).unwrap_or_else(|| die(&format!("`{s}` is not `{pre}..{post}`")))
}

fn cmp_op(op: &str, l: &str, r: &str) -> String {
    match op {
        "<" => format!("({l} <? {r})"),
        "<=" => format!("({l} <=? {r})"),
        ">" => format!("({r} <? {l})"),
        ">=" => format!("({r} <=? {l})"),
        _ => die(&format!("comparison `{op}`")),
    }
}

fn split_cmp(s: &str) -> (String, String, String) {
    for op in ["<=", ">=", "<", ">"] {
        if let Some(i) = s.find(op) {
            return (s[..i].to_string(), op.to_string(), s[i + op.len()..].to_string());
        }
    }
    die(&format!("no comparison in `{s}`"))
}

fn method<'a>(f: &'a File, trait_: Option<&str>, ty: &str, name: &str, arg: Option<&str>) -> &'a Block {
    for i in &f.items {
        if let Item::Impl(im) = i {
            let tr = im.trait_.as_ref().map(|(_, p, _)| flat(p));
            if flat(&im.self_ty) != ty || tr.as_deref() != trait_ {
                continue;
            }
            for it in &im.items {
                if let ImplItem::Fn(m) = it {
                    if m.sig.ident == name && arg.map_or(true, |a| flat(&m.sig.inputs).contains(a)) {
                        return &m.block;
                    }
                }
            }
        }
    }
    die(&format!("{ty}::{name} not found"))
}

pub fn run(repo: &str, out: &str) {
    let path = format!("{repo}/mls-rs-codec/src/varint.rs");
    let src = std::fs::read_to_string(&path).unwrap_or_else(|e| panic!("{path}: {e}"));
    let f = syn::parse_file(&src).unwrap_or_else(|e| panic!("{path}: {e}"));

    // enum LengthEncoding { One = 1, Two = 2, Four = 4 }
    let mut disc: Vec<(String, String)> = vec![];
    let mut count_fn: Option<&Block> = None;
    let mut max: Option<String> = None;
    for i in &f.items {
        match i {
            Item::Enum(e) if e.ident == "LengthEncoding" => {
                for v in &e.variants {
                    let d = v.discriminant.as_ref().map(|(_, e)| num(&flat(e))).unwrap_or_else(|| die("discriminant"));
                    disc.push((v.ident.to_string(), d));
                }
            }
            Item::Fn(x) if x.sig.ident == "count_bytes_to_encode_int" => count_fn = Some(&x.block),
            Item::Impl(im) if im.trait_.is_none() && flat(&im.self_ty) == "VarInt" => {
                for it in &im.items {
                    if let ImplItem::Const(c) = it {
                        if c.ident == "MAX" {
                            // VarInt((1 << 30) - 1)
                            let e = flat(&c.expr);
                            let inner = hole(&e, "VarInt((1<<", ")");
                            let (sh, sub) = inner.split_once(")-").unwrap_or_else(|| die("MAX shape"));
                            max = Some(format!("(N.shiftl 1 {}) - {}", num(sh), num(sub)));
                        }
                    }
                }
            }
            _ => {}
        }
    }
    let max = max.unwrap_or_else(|| die("VarInt::MAX"));
    let dv = |n: &str| disc.iter().find(|(a, _)| a == n).map(|(_, d)| d.clone()).unwrap_or_else(|| die(&format!("variant {n}")));

    // count_bytes_to_encode_int
    let cb = count_fn.unwrap_or_else(|| die("count_bytes_to_encode_int"));
    if cb.stmts.len() != 2 || flat(&cb.stmts[0]) != "letused_bits=32-n.0.leading_zeros();" {
        die("count_bytes_to_encode_int: statements");
    }
    let m = match &cb.stmts[1] {
        Stmt::Expr(Expr::Match(m), None) if flat(&m.expr) == "used_bits" => m,
        _ => die("count_bytes_to_encode_int: match"),
    };
    let mut count_body = String::new();
    let n_arms = m.arms.len();
    for (k, arm) in m.arms.iter().enumerate() {
        let pat = flat(&arm.pat);
        let body = flat(&arm.body);
        if k + 1 == n_arms {
            if pat != "_" || !body.starts_with("panic!") {
                die("count_bytes_to_encode_int: last arm");
            }
            count_body.push_str("None");
        } else {
            let (lo, hi) = pat.split_once("..=").unwrap_or_else(|| die(&format!("range `{pat}`")));
            let v = dv(hole(&body, "LengthEncoding::", ""));
            count_body.push_str(&format!("if ({} <=? used_bits) && (used_bits <=? {}) then Some {} else ", num(lo), num(hi), v));
        }
    }

    // TryFrom<u32>
    let tf = method(&f, Some("TryFrom<u32>"), "VarInt", "try_from", None);
    let tfs = match &tf.stmts[..] {
        [Stmt::Expr(e, None)] => flat(e),
        _ => die("try_from: shape"),
    };
    let cond = hole(&tfs, "(", ").then_some(VarInt(n)).ok_or(Error::VarIntOutOfRange)");
    let (l, op, r) = split_cmp(cond);
    if l != "n" || r != "u32::from(VarInt::MAX)" {
        die("try_from: operands");
    }
    let try_from = cmp_op(&op, "n", "gen_varint_max");

    // mls_encode
    let en = method(&f, Some("MlsEncode"), "VarInt", "mls_encode", None);
    if en.stmts.len() != 4
        || flat(&en.stmts[0]) != "letmutbytes=self.0.to_be_bytes();"
        || flat(&en.stmts[2]) != "writer.extend_from_slice(bytes);"
        || flat(&en.stmts[3]) != "Ok(())"
    {
        die("mls_encode: statements");
    }
    let em = match &en.stmts[1] {
        Stmt::Local(l) if flat(&l.pat) == "bytes" => match l.init.as_ref().map(|i| &*i.expr) {
            Some(Expr::Match(m)) if flat(&m.expr) == "count_bytes_to_encode_int(*self)" => m,
            _ => die("mls_encode: match"),
        },
        _ => die("mls_encode: second statement"),
    };
    let mut enc_arms = String::new();
    for arm in &em.arms {
        let v = dv(hole(&flat(&arm.pat), "LengthEncoding::", ""));
        let (stmts, tail): (Vec<String>, String) = match &*arm.body {
            Expr::Block(b) => {
                let n = b.block.stmts.len();
                if n == 0 {
                    die("mls_encode: empty arm");
                }
                (b.block.stmts[..n - 1].iter().map(|s| flat(s)).collect(), flat(&b.block.stmts[n - 1]))
            }
            e => (vec![], flat(e)),
        };
        let mut val = "bytes".to_string();
        for s in &stmts {
            // bytes[i] |= m;
            let inner = hole(s, "bytes[", ";");
            let (i, mask) = inner.split_once("]|=").unwrap_or_else(|| die(&format!("statement `{s}`")));
            val = format!("(or_at {}%nat {} {val})", num(i), num(mask));
        }
        let start = if tail == "&bytes" { "0".to_string() } else { num(hole(&tail, "&bytes[", "..]")) };
        enc_arms.push_str(&format!("  | Some {v} => Some (skipn {start}%nat {val})\n"));
    }

    // mls_decode
    let de = method(&f, Some("MlsDecode"), "VarInt", "mls_decode", None);
    if de.stmts.len() != 6 || flat(&de.stmts[0]) != "letfirst=u8::mls_decode(reader)?;" || flat(&de.stmts[4]) != "letn=VarInt(n);" {
        die("mls_decode: statements");
    }
    let shift = num(hole(&flat(&de.stmts[1]), "letprefix=first>>", ";"));
    let cnt = flat(&de.stmts[2]);
    let inner = hole(&cnt, "letcount=(", ".ok_or(Error::InvalidVarIntPrefix(prefix))?;");
    let (c, then) = inner.split_once(").then_some(").unwrap_or_else(|| die("count shape"));
    let (l, op, r) = split_cmp(c);
    if l != "prefix" {
        die("count: operand");
    }
    let prefix_ok = cmp_op(&op, "prefix", &num(&r));
    let base = num(hole(then, "", "<<prefix)"));
    let fold = flat(&de.stmts[3]);
    let inner = hole(&fold, "letn=(", ".map(|b|(n<<8)|u32::from(b))})?;");
    let (range, rest) = inner.split_once("..count).try_fold(u32::from(first&").unwrap_or_else(|| die("fold shape"));
    let (mask, rest) = rest.split_once("),|n,_|{").unwrap_or_else(|| die("fold init"));
    if rest != "u8::mls_decode(reader)" {
        die("fold body");
    }
    let fin = flat(&de.stmts[5]);
    if fin != "ifcount_bytes_to_encode_int(n)asusize==count{Ok(n)}else{Err(Error::VarIntMinimumLengthEncoding)}" {
        die("mls_decode: final comparison");
    }

    let s = format!(
        "(* GENERATED by rs2v varint from mls-rs-codec/src/varint.rs.  Do not edit. *)\n\
From Coq Require Import NArith List Bool.\nFrom MlsV Require Import Codec.\nImport ListNotations.\nLocal Open Scope N_scope.\n\n\
Definition gen_varint_max : N := {max}.\n\n\
(* 32 - leading_zeros() of a u32 is its bit length *)\n\
Definition gen_count_bytes (n : N) : option N :=\n  let used_bits := N.size n in\n  {count_body}.\n\n\
Definition gen_try_from (n : N) : option N := if {try_from} then Some n else None.\n\n\
Fixpoint or_at (i : nat) (m : N) (l : list N) : list N :=\n  match l, i with\n  | [], _ => []\n  | x :: r, O => N.lor x m :: r\n  | x :: r, S i => x :: or_at i m r\n  end.\n\n\
Definition gen_encode_varint (n : N) : option (list N) :=\n  let bytes := be_bytes 4%nat n in\n  match gen_count_bytes n with\n{enc_arms}  | _ => None\n  end.\n\n\
(* the fold of mls_decode over the bytes after the first *)\n\
Fixpoint gen_fold (more : list N) (n : N) : N :=\n  match more with\n  | [] => n\n  | b :: r => gen_fold r (N.lor (N.shiftl n 8) b)\n  end.\n\n\
Definition gen_decode_varint (bs : list N) : dres (N * list N) :=\n  match bs with\n  | [] => DErr EUnexpectedEOF\n  | first :: r =>\n      let prefix := N.shiftr first {shift} in\n      if {prefix_ok} then\n        let count := N.shiftl {base} prefix in\n        match take_n (N.to_nat count - {range})%nat r with\n        | None => DErr EUnexpectedEOF\n        | Some (more, rest) =>\n            let n := gen_fold more (N.land first {mask}) in\n            match gen_count_bytes n with\n            | Some c => if c =? count then DOk (n, rest) else DErr EVarIntMinimumLengthEncoding\n            | None => DErr EVarIntMinimumLengthEncoding (* the code panics; unreachable below 2^30, proved *)\n            end\n        end\n      else DErr EInvalidVarIntPrefix\n  end.\n",
        mask = num(mask),
        range = num(range),
    );
    std::fs::write(out, s).unwrap();
}
