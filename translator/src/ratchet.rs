//! Translate SecretKeyRatchet::get_message_key (group/secret_tree.rs, out_of_order build): the
//! three comparisons, the window constant and the statement skeleton (take a stored key and
//! REMOVE it / refuse beyond the window / store every skipped key / hand out the next key).
//! Anything else is refused (exit code 3).
use syn::*;

fn die(msg: &str) -> ! {
    eprintln!("rs2v ratchet: cannot translate: {msg}");
    std::process::exit(3);
}

fn flat<T: quote::ToTokens>(t: &T) -> String {
    quote::quote!(#t).to_string().replace(' ', "")
}

/// `not(feature = "out_of_order")` statements belong to the other build
fn other_build(attrs: &[Attribute]) -> bool {
    attrs.iter().any(|a| flat(a).contains("cfg(not(feature=\"out_of_order\"))"))
}

fn operand(e: &Expr) -> &'static str {
    match flat(e).as_str() {
        "generation" => "g",
        "self.generation" => "gen s",
        "max_generation_allowed" => "max_allowed",
        x => die(&format!("operand `{x}`")),
    }
}

fn cmp(e: &Expr) -> String {
    match e {
        Expr::Binary(b) => {
            let (l, r) = (operand(&b.left), operand(&b.right));
            match b.op {
                BinOp::Lt(_) => format!("({l} <? {r})"),
                BinOp::Gt(_) => format!("({r} <? {l})"),
                BinOp::Le(_) => format!("({l} <=? {r})"),
                BinOp::Ge(_) => format!("({r} <=? {l})"),
                _ => die("comparison operator"),
            }
        }
        Expr::Paren(p) => cmp(&p.expr),
        _ => die("comparison shape"),
    }
}

pub fn run(repo: &str, out: &str) {
    let path = format!("{repo}/mls-rs/src/group/secret_tree.rs");
    let src = std::fs::read_to_string(&path).unwrap_or_else(|e| panic!("{path}: {e}"));
    let file = syn::parse_file(&src).unwrap_or_else(|e| panic!("{path}: {e}"));
    let mut window: Option<String> = None;
    let mut body: Option<Vec<Stmt>> = None;
    for item in &file.items {
        match item {
            Item::Const(c) if c.ident == "MAX_RATCHET_BACK_HISTORY" => {
                if let Expr::Lit(ExprLit { lit: Lit::Int(i), .. }) = &*c.expr {
                    window = Some(i.base10_digits().to_string());
                }
            }
            Item::Impl(im) if flat(&im.self_ty) == "SecretKeyRatchet" && im.trait_.is_none() => {
                for it in &im.items {
                    if let ImplItem::Fn(f) = it {
                        if f.sig.ident == "get_message_key" {
                            body = Some(f.block.stmts.clone());
                        }
                    }
                }
            }
            _ => {}
        }
    }
    let window = window.unwrap_or_else(|| die("MAX_RATCHET_BACK_HISTORY not found"));
    let stmts: Vec<Stmt> = body
        .unwrap_or_else(|| die("SecretKeyRatchet::get_message_key not found"))
        .into_iter()
        .filter(|s| match s {
            Stmt::Expr(Expr::If(i), _) => !other_build(&i.attrs),
            Stmt::Expr(Expr::While(w), _) => !other_build(&w.attrs),
            Stmt::Local(l) => !other_build(&l.attrs),
            _ => true,
        })
        .collect();
    if stmts.len() != 5 {
        die(&format!("{} statements in the out_of_order build, expected 5", stmts.len()));
    }
    // 1. a generation of the past: the stored key is taken OUT of the history
    let c1 = match &stmts[0] {
        Stmt::Expr(Expr::If(i), _) if i.else_branch.is_none() => {
            if flat(&i.then_branch) != "{returnself.history.remove_entry(&generation).map(|(_,mk)|mk).ok_or(MlsError::KeyMissing(generation));}" {
                die(&format!("past-generation branch is {}", flat(&i.then_branch)));
            }
            cmp(&i.cond)
        }
        _ => die("statement 1"),
    };
    // 2. the window
    match &stmts[1] {
        Stmt::Local(l) if flat(l) == "letmax_generation_allowed=self.generation+MAX_RATCHET_BACK_HISTORY;" => {}
        s => die(&format!("statement 2 is {}", flat(s))),
    }
    let c2 = match &stmts[2] {
        Stmt::Expr(Expr::If(i), _) if i.else_branch.is_none() => {
            if flat(&i.then_branch) != "{returnErr(MlsError::InvalidFutureGeneration(generation));}" {
                die(&format!("future-generation branch is {}", flat(&i.then_branch)));
            }
            cmp(&i.cond)
        }
        _ => die("statement 3"),
    };
    // 3. every skipped generation is derived and STORED
    let c3 = match &stmts[3] {
        Stmt::Expr(Expr::While(w), _) => {
            if flat(&w.body) != "{letkey_data=self.next_message_key(cipher_suite_provider).await?;self.history.insert(key_data.generation,key_data);}" {
                die(&format!("skip loop body is {}", flat(&w.body)));
            }
            cmp(&w.cond)
        }
        _ => die("statement 4"),
    };
    if c3 != "(gen s <? g)" {
        die(&format!("skip loop condition is {c3}"));
    }
    match &stmts[4] {
        Stmt::Expr(e, None) if flat(e) == "self.next_message_key(cipher_suite_provider).await" => {}
        s => die(&format!("statement 5 is {}", flat(s))),
    }
    let s = format!(
        "(* GENERATED by rs2v ratchet from mls-rs/src/group/secret_tree.rs. Do not edit. *)\n\
From Coq Require Import NArith List Bool.\nFrom MlsV Require Import Res Ratchet.\nImport ListNotations.\nLocal Open Scope N_scope.\n\n\
Definition gen_window : N := {window}.\n\n\
(* get_message_key: past generation -> the stored key, removed from the history, or KeyMissing;\n   beyond the window -> InvalidFutureGeneration; otherwise every skipped generation is stored\n   (the loop `while self.generation < generation`) and the key of `generation` is handed out *)\n\
Definition gen_get_message_key (s : rstate) (g : N) : res (rres * rstate) :=\n\
  if {c1} then\n\
    if has_gen g (hist s) then ret (ROk g, {{| gen := gen s; hist := remove_gen g (hist s) |}})\n\
    else ret (RErr KeyMissing, s)\n\
  else\n\
    bind (u32_add (gen s) gen_window) (fun max_allowed =>\n\
      if {c2} then ret (RErr InvalidFutureGeneration, s)\n\
      else\n\
        bind (u32_add g 1) (fun g' =>\n\
          ret (ROk g, {{| gen := g'; hist := hist s ++ span (N.to_nat (g - gen s)) (gen s) |}}))).\n"
    );
    std::fs::write(out, s).unwrap();
}
