//! Translate the late-sender rule: which signature keys Group::insert_past_epoch archives for a past
//! epoch (group/mod.rs, tree_kem/node.rs leaves) and how validate_sender_signature_key_from_prior_epoch
//! (group/util.rs) compares them with the current tree.  Anything outside the known shapes is
//! refused (exit code 3).
use syn::*;

fn die(msg: &str) -> ! {
    eprintln!("rs2v latesender: cannot translate: {msg}");
    std::process::exit(3);
}

fn flat<T: quote::ToTokens>(t: &T) -> String {
    quote::quote!(#t).to_string().replace(' ', "")
}

fn parse(path: &str) -> File {
    let src = std::fs::read_to_string(path).unwrap_or_else(|e| panic!("{path}: {e}"));
    syn::parse_file(&src).unwrap_or_else(|e| panic!("{path}: {e}"))
}

fn fns<'a>(f: &'a File, name: &str) -> Vec<(Vec<Attribute>, &'a Block)> {
    let mut v = vec![];
    for i in &f.items {
        match i {
            Item::Fn(x) if x.sig.ident == name => v.push((x.attrs.clone(), &*x.block)),
            Item::Impl(im) if im.trait_.is_none() => {
                for it in &im.items {
                    if let ImplItem::Fn(m) = it {
                        if m.sig.ident == name {
                            v.push((m.attrs.clone(), &m.block));
                        }
                    }
                }
            }
            _ => {}
        }
    }
    v
}

pub fn run(repo: &str, out: &str) {
    let gf = parse(&format!("{repo}/mls-rs/src/group/mod.rs"));
    let uf = parse(&format!("{repo}/mls-rs/src/group/util.rs"));
    let nf = parse(&format!("{repo}/mls-rs/src/tree_kem/node.rs"));
    let tf = parse(&format!("{repo}/mls-rs/src/tree_kem/mod.rs"));
    // 1. what is archived: one entry per leaf SLOT, None for a blank leaf
    let ins = fns(&gf, "insert_past_epoch");
    let ins = ins.iter().find(|(a, _)| !a.iter().any(|x| flat(x).contains("cfg(not(feature=\"prior_epoch\"))"))).unwrap_or_else(|| die("insert_past_epoch (prior_epoch build) not found"));
    let st = &ins.1.stmts;
    if st.len() != 4 {
        die(&format!("insert_past_epoch has {} statements, expected 4", st.len()));
    }
    let keys = flat(&st[0]);
    let chain = keys.strip_prefix("letsignature_public_keys=self.state.public_tree.").and_then(|r| r.strip_suffix(".collect();")).unwrap_or_else(|| die(&format!("archived keys `{keys}`")));
    let per_leaf = match chain {
        "leaves().map(|l|l.map(|n|n.signing_identity.signature_key.clone()))" => "option_map (fun n => n) l",
        x => die(&format!("archived keys are `{x}`")),
    };
    let pe = flat(&st[1]);
    if !(pe.starts_with("letpast_epoch=PriorEpoch{context:self.context().clone(),self_index:self.private_tree.self_index,secrets:self.epoch_secrets.clone(),signature_public_keys,") && pe.ends_with("};")) {
        die(&format!("PriorEpoch record `{pe}`"));
    }
    if flat(&st[2]) != "self.state_repo.insert(past_epoch).await?;" || flat(&st[3]) != "Ok(())" {
        die("tail of insert_past_epoch");
    }
    let lv: Vec<String> = fns(&tf, "leaves").iter().map(|(_, b)| flat(*b)).collect();
    if lv != ["{self.nodes.leaves()}"] {
        die(&format!("TreeKemPublic::leaves is {lv:?}"));
    }
    let lv: Vec<String> = fns(&nf, "leaves").iter().map(|(_, b)| flat(*b)).collect();
    if lv != ["{self.iter().step_by(2).map(|n|n.as_leaf().ok())}"] {
        die(&format!("NodeVec::leaves is {lv:?}"));
    }
    // 2. the comparison
    let v = fns(&uf, "validate_sender_signature_key_from_prior_epoch");
    if v.len() != 1 {
        die("validate_sender_signature_key_from_prior_epoch not found exactly once");
    }
    let st = &v[0].1.stmts;
    if st.len() != 2 || flat(&st[1]) != "Ok(())" {
        die("shape of validate_sender_signature_key_from_prior_epoch");
    }
    let Stmt::Expr(Expr::If(top), _) = &st[0] else { die("first statement of the validation") };
    if flat(&top.cond) != "letSender::Member(i)=sender" || top.else_branch.is_some() || top.then_branch.stmts.len() != 3 {
        die("the validation is not `if let Sender::Member(i) = sender { .. }` with three statements");
    }
    let b = &top.then_branch.stmts;
    let old = match flat(&b[0]).as_str() {
        "letold_pk=prior_epoch_signature_keys.get(*iasusize).cloned().flatten();" => "match nth_error old_keys i with Some x => x | None => None end",
        x => die(&format!("old key `{x}`")),
    };
    let cur = match flat(&b[1]).as_str() {
        "letcur_pk=LeafIndex::try_from(*i).ok().and_then(|li|public_tree.get_leaf_node(li).ok()).map(|l|l.signing_identity.signature_key.clone());" => "match nth_error cur_leaves i with Some x => x | None => None end",
        x => die(&format!("current key `{x}`")),
    };
    let cmp = match &b[2] {
        Stmt::Expr(Expr::If(i), _) if i.else_branch.is_none() && flat(&i.then_branch) == "{returnErr(MlsError::MemberNotFound);}" => match flat(&i.cond).as_str() {
            "old_pk!=cur_pk" => "negb (okey_eqb old_pk cur_pk)",
            x => die(&format!("comparison `{x}`")),
        },
        _ => die("comparison statement"),
    };
    // 3. both paths that accept a message of a past epoch run the validation on the archived keys
    let all = flat(&gf);
    let call = "validate_sender_signature_key_from_prior_epoch(&self.state.public_tree,&epoch.signature_public_keys,";
    if all.matches(call).count() != 2 {
        die(&format!("{} calls of the validation with the archived keys, expected 2 (plaintext and ciphertext of a past epoch)", all.matches(call).count()));
    }
    let s = format!(
        "(* GENERATED by rs2v latesender from mls-rs/src/group/mod.rs, group/util.rs, tree_kem/node.rs.  Do not edit. *)\n\
From Coq Require Import NArith List Bool.\nImport ListNotations.\nLocal Open Scope N_scope.\n\n\
Definition okey_eqb (a b : option N) : bool :=\n  match a, b with Some x, Some y => x =? y | None, None => true | _, _ => false end.\n\n\
(* Group::insert_past_epoch: the signature keys archived with an epoch, one entry per leaf slot of the\n   tree (leaves = the signature key of every even node, None where the leaf is blank) *)\n\
Definition gen_archived_keys (leaves : list (option N)) : list (option N) := map (fun l => {per_leaf}) leaves.\n\n\
(* validate_sender_signature_key_from_prior_epoch for Sender::Member(i): true = the message is admitted *)\n\
Definition gen_late_sender_ok (old_keys cur_leaves : list (option N)) (i : nat) : bool :=\n\
  let old_pk := {old} in\n  let cur_pk := {cur} in\n  if {cmp} then false else true.\n"
    );
    std::fs::write(out, s).unwrap();
}
