(* The KDF dataflow of the key schedule and of the PSK chain as translated from
   group/key_schedule.rs and psk/secret.rs (Gen/KeySchedGen.v) is the code-shaped model
   (Model/KeyScheduleCode.v) that the theorems of C13 prove equal to the RFC 9420 formulas. *)
From Coq Require Import NArith List Bool.
From MlsV Require Import Res Codec Hkdf KeyScheduleRFC KeyScheduleCode KeySchedGen.
Import ListNotations.
Local Open Scope N_scope.

Section P.
  Variable H : hash_alg.

  Theorem gen_get_pre_epoch_secret_is_model psk joiner : gen_get_pre_epoch_secret H psk joiner = get_pre_epoch_secret H psk joiner.
  Proof. reflexivity. Qed.

  Theorem gen_from_epoch_secret_is_model s : gen_from_epoch_secret H s = from_epoch_secret H s.
  Proof. reflexivity. Qed.

  Theorem gen_from_joiner_is_model joiner ctx psk : gen_from_joiner H joiner ctx psk = from_joiner H joiner ctx psk.
  Proof. reflexivity. Qed.

  Theorem gen_from_key_schedule_is_model last_init commit ctx psk :
    gen_from_key_schedule H last_init commit ctx psk = from_key_schedule H last_init commit ctx psk.
  Proof. reflexivity. Qed.

  Theorem gen_get_welcome_secret_is_model joiner psk : gen_get_welcome_secret H joiner psk = get_welcome_secret H joiner psk.
  Proof. reflexivity. Qed.

  Theorem gen_export_secret_is_model e l c n : gen_export_secret H e l c n = export_secret H e l c n.
  Proof. reflexivity. Qed.

  Lemma gen_psk_loop_is_model input : forall i len s, gen_psk_loop H input i len s = psk_loop H input i len s.
  Proof. induction input as [|[id psk] r IH]; intros i len s; cbn [gen_psk_loop psk_loop]; [reflexivity|]. rewrite IH. reflexivity. Qed.

  Theorem gen_psk_calculate_is_model input : gen_psk_calculate H input = psk_calculate H input.
  Proof. unfold gen_psk_calculate, psk_calculate. apply gen_psk_loop_is_model. Qed.

  Theorem translated_key_schedule last_init commit ctx psk joiner input e l c n :
    gen_from_key_schedule H last_init commit ctx psk = from_key_schedule H last_init commit ctx psk /\
    gen_from_joiner H joiner ctx psk = from_joiner H joiner ctx psk /\
    gen_get_welcome_secret H joiner psk = get_welcome_secret H joiner psk /\
    gen_export_secret H e l c n = export_secret H e l c n /\
    gen_psk_calculate H input = psk_calculate H input.
  Proof. split; [reflexivity|]. split; [reflexivity|]. split; [reflexivity|]. split; [reflexivity|apply gen_psk_calculate_is_model]. Qed.
  (* secret_tree.rs *)
  Theorem gen_consume_children_is_model s :
    gen_consume_children H s = (kdf_expand_with_label H s L_tree C_left None, kdf_expand_with_label H s L_tree C_right None).
  Proof. reflexivity. Qed.

  Theorem gen_ratchet_new_is_model leaf_sec hs : gen_ratchet_new H leaf_sec hs = ratchet_new H leaf_sec hs.
  Proof. destruct hs; reflexivity. Qed.

  Theorem gen_next_message_key_is_model nk nn r : gen_next_message_key H nk nn r = next_message_key H nk nn r.
  Proof. reflexivity. Qed.

  Theorem translated_secret_tree s leaf_sec hs nk nn r :
    gen_consume_children H s = (kdf_expand_with_label H s L_tree C_left None, kdf_expand_with_label H s L_tree C_right None) /\
    gen_ratchet_new H leaf_sec hs = ratchet_new H leaf_sec hs /\
    gen_next_message_key H nk nn r = next_message_key H nk nn r.
  Proof. split; [reflexivity|]. split; [apply gen_ratchet_new_is_model|reflexivity]. Qed.
End P.
