(* One commit with a path, with the parent hashes computed by the CODE-shaped walk (Model/ParentHashCode.v, the
   translation of parent_hash.rs update_parent_hashes) instead of the specification function [decorate]: from a
   state in which the tree is well formed, parent-hash valid and cached right, batch_edit + update_hashes +
   apply_update_path + update_parent_hashes lead to such a state again, and none of the calls fails. *)
From Coq Require Import NArith Arith List Bool Lia.
From MlsV Require Import Res TreeMathGen BitsN TreeMathProofs Tree TreeProofs TreeWF Kem Priv PrivProofs Decap DecapProofs TreeWF5 PrivComplete CommitStep ParentHash HashCache HashCacheProofs HashCacheTree TreeState ParentHashCode ParentHashCodeProofs ParentHashCommit.
Import ListNotations.
Local Open Scope N_scope.

Section Code.
  Variable PH : N -> N -> hterm -> N.
  Variable enc : N * N -> N.
  Let PHF : N -> N -> cterm -> N := fun k p ct => PH k p (c2h enc ct).

  Theorem commit_with_the_code_parent_hashes s removes updates adds t1 added dm c1 sndr id t2 flt dm0 fk leafkey :
    TInv PHF enc s -> tlen (ts_tree s) + 2 * N.of_nat (length adds) < 2 ^ 25 ->
    batch_edit (ts_tree s) removes updates adds = TOk (t1, added) ->
    (forall n, ~ touched (removes ++ map fst updates ++ added) n -> get (ts_tree s) n <> None -> dm n = ts_deco s n) ->
    (forall n, (forall l, In l (map fst updates) -> n <> 2 * l) -> get (ts_tree s) n <> None -> dm n = ts_deco s n) ->
    update_hashes (pay_of enc dm) (ts_cache s) t1 (removes ++ map fst updates ++ added) = Ok c1 ->
    apply_update_path t1 sndr id = TOk t2 ->
    filtered (set t1 (2 * sndr) (Some (Leaf id))) sndr = Ok flt ->
    (* the decoration after apply_update_path has installed the new keys *)
    (forall x, x <> 2 * sndr -> (forall i, nth_error flt i = Some false -> x <> lvl_node (N.of_nat (S i)) sndr) -> dm0 x = dm x) ->
    (forall i, nth_error flt i = Some false -> fst (dm0 (lvl_node (N.of_nat (S i)) sndr)) = fk (N.of_nat i)) ->
    fst (dm0 (2 * sndr)) = leafkey ->
    exists d2 c2, update_parent_hashes PH enc t2 c1 dm0 sndr = Ok (d2, c2) /\
                  TInv PHF enc {| ts_tree := t2; ts_deco := d2; ts_cache := c2 |}.
  Proof.
    intros Ti Sz B Dt Du U1 Ap Fl Hoff Hkey Hleaf.
    (* the state after the proposals *)
    assert (T1 : TInv PHF enc {| ts_tree := t1; ts_deco := dm; ts_cache := c1 |}).
    { apply (tinv_step_nopath PHF enc s _ removes updates adds Ti Sz). exists added. cbn [ts_tree ts_deco ts_cache]. repeat split; assumption. }
    destruct Ti as ((W3 & W5 & Sh) & Sm & V & C).
    destruct T1 as ((W31 & W51 & Sh1) & Sm1 & V1 & C1). cbn [ts_tree ts_deco ts_cache] in *.
    destruct (update_path_keeps_the_leaf_count t1 sndr id t2 Sm1 Ap) as [Sm2 Lc].
    destruct (update_path_effect t1 sndr id t2 Sm1 Ap) as (dd & flt0 & Et & F0 & Lf & Ls & Off & On & Ofl).
    set (t1' := set t1 (2 * sndr) (Some (Leaf id))) in *.
    assert (flt0 = flt) by congruence. subst flt0.
    assert (Sm' : small t1') by (unfold small, t1'; rewrite set_length; exact Sm1).
    destruct (total_leaf_count_spec t1' Sm') as (d' & Et' & Hd & Hn & _). rewrite Et in Et'.
    assert (d' = dd) by (apply N.pow_inj_r in Et'; lia). subst d'.
    assert (ED : dd = N.of_nat (length flt)) by lia.
    assert (Hs : sndr < 2 ^ dd).
    { unfold t1' in Hn. rewrite set_length in Hn. unfold tlen in Hn, Ls. pose proof (N.div_le_lower_bound (N.of_nat (length t1)) 2 sndr ltac:(lia) ltac:(lia)). lia. }
    (* an untouched node is neither the leaf nor an unfiltered path node *)
    assert (Unt : forall n, ~ touched [sndr] n -> dm0 n = dm n).
    { intros n Nt. apply Hoff.
      - intro E. apply Nt. exists sndr. split; [left; reflexivity|left; exact E].
      - intros i _ E. apply Nt. exists sndr. split; [left; reflexivity|right]. rewrite E. apply ancestor_lvl. lia. }
    (* first update_hashes *)
    unfold update_parent_hashes.
    destruct (cache_right_after_the_update_path (pay_of enc dm) (pay_of enc dm0) t1 sndr id t2 c1 Sm1 Sm2 Ap) as (c1' & E1 & C1'); [|exact C1|].
    { intros n Nt _. unfold pay_of. rewrite (Unt n Nt). reflexivity. }
    change (fun n => enc (dm0 n)) with (pay_of enc dm0). rewrite E1. cbn [bind].
    (* the walk *)
    destruct C1' as (D2 & HD2 & Et2 & Ln2 & Val2).
    assert (D2 = length flt).
    { rewrite Lc in Et2. fold t1' in Et2. rewrite Et, ED in Et2. apply N.pow_inj_r in Et2; lia. }
    subst D2.
    destruct (parent_hash_for_leaf_is_decorate PH enc t2 c1' dm dm0 sndr flt fk leafkey) as (d' & h & Ew & Wd).
    - intros i b Hb. exact (flags_after_update_path t1 sndr id t2 flt Sm1 Ap Fl i b Hb).
    - intros i Hf. exists []. exact (On i Hf).
    - exact Hkey.
    - intros i Hf. assert (Li : (i < length flt)%nat) by (apply nth_error_Some; congruence).
      assert (Ne : sndr / 2 ^ N.of_nat i <> sib (sndr / 2 ^ N.of_nat i)).
      { unfold sib. destruct (N.even (sndr / 2 ^ N.of_nat i)) eqn:Ev; [lia|].
        destruct (N.eq_dec (sndr / 2 ^ N.of_nat i) 0) as [Z|NZ]; [rewrite Z in Ev; discriminate|lia]. }
      assert (Ir : inr (length flt) i (sib (sndr / 2 ^ N.of_nat i))).
      { split; [lia|]. pose proof (inr_lvl (length flt) HD2 i sndr ltac:(lia) ltac:(rewrite <- ED; exact Hs)) as [_ B0].
        assert (E2 : 2 ^ N.of_nat (length flt - i) = 2 * 2 ^ N.of_nat (length flt - S i)).
        { replace (length flt - i)%nat with (S (length flt - S i)) by lia. rewrite Nat2N.inj_succ, N.pow_succ_r by lia. reflexivity. }
        unfold sib. destruct (even_odd_cases (sndr / 2 ^ N.of_nat i)) as [[Ev Ej]|[Ev Ej]]; rewrite Ev; lia. }
      rewrite (Val2 i _ Ir). f_equal.
      unfold pay_of. rewrite !thash_is_content. f_equal.
      apply content_agree. apply (agree_outside t2 t2 dm dm0 sndr).
      + intros n Nn Na. split; [reflexivity|]. intros _. apply Unt. intros (l & [<-|[]] & [E|A]); contradiction.
      + exact Ne.
    - lia.
    - rewrite <- ED. exact Hs.
    - rewrite Lc. fold t1'. rewrite Et, ED. reflexivity.
    - exact Hoff.
    - exact Hleaf.
    - rewrite Ew. cbn [bind fst snd].
      set (d2 := set_ph d' (2 * sndr) h) in *.
      set (dec := decorate PHF t2 dm sndr flt fk leafkey) in *.
      (* second update_hashes: nothing but the payload of the path changes *)
      destruct (cache_right_after_a_confined_edit (pay_of enc dm0) (pay_of enc d2) t2 t2 c1' [sndr] Sm2) as (c2 & E2 & C2).
      + exists (length flt). split; [exact HD2|]. split; [exact Et2|]. split; [exact Ln2|exact Val2].
      + intros n Nt. split; [reflexivity|]. intros _. unfold pay_of. rewrite (Wd n). unfold dec.
        rewrite decorate_off; [rewrite (Unt n Nt); reflexivity| |].
        * intro E. apply Nt. exists sndr. split; [left; reflexivity|left; exact E].
        * intro A. apply Nt. exists sndr. split; [left; reflexivity|right; exact A].
      + change (fun n => enc (d2 n)) with (pay_of enc d2). rewrite E2. cbn [bind].
        exists d2, c2. split; [reflexivity|].
        destruct (tree_ok_commit (ts_tree s) removes updates adds sndr id t1 added t2 (conj W3 (conj W5 Sh)) Sz B Ap) as (_ & _ & T2).
        split; [exact T2|]. split; [exact Sm2|]. cbn [ts_tree ts_deco ts_cache]. split; [|exact C2].
        apply (PHValid_pointwise PHF t2 dec d2 Wd).
        apply (ph_commit_computed PHF (ts_tree s) removes updates adds t1 added sndr id t2 flt (ts_deco s) dm fk leafkey W3 W5 Sh Sz B Ap Fl Du V).
  Qed.

  (* the same as a step of the state, and the states reachable by such steps *)
  Definition step_path_code (s s' : tstate) (removes : list N) (updates : list (N * N)) (adds : list N) (sndr id : N) : Prop :=
    exists t1 added dm c1 flt dm0 fk leafkey,
      batch_edit (ts_tree s) removes updates adds = TOk (t1, added) /\
      (forall n, ~ touched (removes ++ map fst updates ++ added) n -> get (ts_tree s) n <> None -> dm n = ts_deco s n) /\
      (forall n, (forall l, In l (map fst updates) -> n <> 2 * l) -> get (ts_tree s) n <> None -> dm n = ts_deco s n) /\
      update_hashes (pay_of enc dm) (ts_cache s) t1 (removes ++ map fst updates ++ added) = Ok c1 /\
      apply_update_path t1 sndr id = TOk (ts_tree s') /\
      filtered (set t1 (2 * sndr) (Some (Leaf id))) sndr = Ok flt /\
      (forall x, x <> 2 * sndr -> (forall i, nth_error flt i = Some false -> x <> lvl_node (N.of_nat (S i)) sndr) -> dm0 x = dm x) /\
      (forall i, nth_error flt i = Some false -> fst (dm0 (lvl_node (N.of_nat (S i)) sndr)) = fk (N.of_nat i)) /\
      fst (dm0 (2 * sndr)) = leafkey /\
      update_parent_hashes PH enc (ts_tree s') c1 dm0 sndr = Ok (ts_deco s', ts_cache s').

  Inductive creachable : tstate -> Prop :=
  | cr_init id d c : initialize_hashes (pay_of enc d) [] [Some (Leaf id)] = Ok c ->
      creachable {| ts_tree := [Some (Leaf id)]; ts_deco := d; ts_cache := c |}
  | cr_nopath s s' removes updates adds : creachable s ->
      tlen (ts_tree s) + 2 * N.of_nat (length adds) < 2 ^ 25 ->
      step_nopath enc s s' removes updates adds -> creachable s'
  | cr_path s s' removes updates adds sndr id : creachable s ->
      tlen (ts_tree s) + 2 * N.of_nat (length adds) < 2 ^ 25 ->
      step_path_code s s' removes updates adds sndr id -> creachable s'.

  Theorem tinv_creachable s : creachable s -> TInv PHF enc s.
  Proof.
    induction 1 as [id d c I|s s' removes updates adds _ IH Sz St|s s' removes updates adds sndr id _ IH Sz St].
    - apply tinv_reachable. apply tr_init. exact I.
    - eapply tinv_step_nopath; eassumption.
    - destruct St as (t1 & added & dm & c1 & flt & dm0 & fk & leafkey & B & Dt & Du & U1 & Ap & Fl & Hoff & Hkey & Hleaf & Up).
      destruct (commit_with_the_code_parent_hashes s removes updates adds t1 added dm c1 sndr id (ts_tree s') flt dm0 fk leafkey IH Sz B Dt Du U1 Ap Fl Hoff Hkey Hleaf) as (d2 & c2 & E & T).
      rewrite Up in E. injection E as <- <-. destruct s'; exact T.
  Qed.
End Code.

(* non-vacuity: the code-shaped walk on the two-member tree of TreeState's example *)
Fixpoint hsize (h : hterm) : N := match h with HDefault => 0 | HLeaf l _ => l + 1 | HPar _ a b => 1 + hsize a + hsize b end.
Definition ex_PH (k p : N) (h : hterm) : N := k + 2 * p + 3 * hsize h + 1.
Definition ex_dm0 : N -> N * N := fun n => if n =? 0 then (300, 0) else if n =? 1 then (200, 0) else ex_dm n.

Lemma code_walk_example :
  match initialize_hashes (pay_of ex_enc ex_dm) [] [Some (Leaf 1); None; Some (Leaf 7)] with
  | Ok c1 => match update_parent_hashes ex_PH ex_enc ex_t2 c1 ex_dm0 0 with
             | Ok (d2, c2) => snd (d2 0) = ex_PH 200 0 (HLeaf 1 (Some (7, ex_enc (77, 0)))) /\ snd (d2 1) = 0 /\
                              hidx c2 1 = Ok (thash (pay_of ex_enc d2) ex_t2 [] 1 0)
             | _ => False
             end
  | _ => False
  end.
Proof. vm_compute. repeat split; reflexivity. Qed.
