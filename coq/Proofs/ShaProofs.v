(* Shape of the SHA-2 reference: the digest has the advertised length for every message and
   consists of bytes.  These discharge the hypothesis of HkdfProofs for the three hashes. *)
From Coq Require Import NArith List Bool Arith Lia.
From MlsV Require Import Sha2Consts Sha2 Hkdf HkdfProofs.
Import ListNotations.

Section S.
  Variable P : sha_params.

  Lemma round_length st k wt : length (round P st k wt) = length st.
  Proof. unfold round. do 9 (destruct st as [|? st]; [reflexivity|]). reflexivity. Qed.

  Lemma rounds_length ks : forall i bw win st, length (rounds P ks i bw win st) = length st.
  Proof. induction ks as [|k ks IH]; intros; cbn [rounds]; [reflexivity|]. rewrite IH. apply round_length. Qed.

  Lemma compress_length h blk : length (compress P h blk) = length h.
  Proof. unfold compress. rewrite map_length, combine_length, rounds_length. apply Nat.min_id. Qed.

  Lemma fold_compress_length blocks : forall h, length (fold_left (compress P) blocks h) = length h.
  Proof. induction blocks as [|b r IH]; intro h; cbn [fold_left]; [reflexivity|]. rewrite IH. apply compress_length. Qed.

  Lemma word_bytes_length n x : length (word_bytes n x) = n.
  Proof. induction n as [|n IH]; cbn [word_bytes length]; congruence. Qed.

  Lemma flat_word_bytes_length n l : length (flat_map (word_bytes n) l) = (length l * n)%nat.
  Proof. induction l as [|x l IH]; cbn [flat_map length]; [reflexivity|]. rewrite app_length, word_bytes_length, IH. lia. Qed.

  Lemma word_bytes_are_bytes n x : Forall (fun b => (b < 256)%N) (word_bytes n x).
  Proof.
    induction n as [|n IH]; cbn [word_bytes]; constructor; [|exact IH].
    change 255%N with (N.ones 8). rewrite N.land_ones. apply N.mod_lt. discriminate.
  Qed.

  Lemma sha_length msg :
    (sp_out P <= length (sp_h0 P) * N.to_nat (sp_w P / 8))%nat -> length (sha P msg) = sp_out P.
  Proof.
    intro Hle. unfold sha. rewrite firstn_length, flat_word_bytes_length, fold_compress_length. apply Nat.min_l. exact Hle.
  Qed.

  Lemma In_firstn {A} n : forall (l : list A) x, In x (firstn n l) -> In x l.
  Proof. induction n as [|n IH]; intros [|y l] x; cbn [firstn In]; try tauto. intros [E|I]; [left; exact E|right; apply IH; exact I]. Qed.

  Lemma sha_bytes msg : Forall (fun b => (b < 256)%N) (sha P msg).
  Proof.
    unfold sha. set (h := fold_left _ _ _). clearbody h.
    assert (A : Forall (fun b => (b < 256)%N) (flat_map (word_bytes (N.to_nat (sp_w P / 8))) h)).
    { apply Forall_forall. intros b Hb. apply in_flat_map in Hb. destruct Hb as (x & _ & Hb).
      exact (proj1 (Forall_forall _ _) (word_bytes_are_bytes _ x) b Hb). }
    apply Forall_forall. intros b Hb. apply (proj1 (Forall_forall _ _) A). apply (In_firstn (sp_out P)). exact Hb.
  Qed.
End S.

Lemma sha256_length m : length (sha256 m) = 32%nat. Proof. apply sha_length. vm_compute. lia. Qed.
Lemma sha384_length m : length (sha384 m) = 48%nat. Proof. apply sha_length. vm_compute. lia. Qed.
Lemma sha512_length m : length (sha512 m) = 64%nat. Proof. apply sha_length. vm_compute. lia. Qed.

Definition HA256 := {| h_fun := sha256; h_block := 64; h_len := 32 |}.
Definition HA384 := {| h_fun := sha384; h_block := 128; h_len := 48 |}.
Definition HA512 := {| h_fun := sha512; h_block := 128; h_len := 64 |}.
Definition mls_hash (H : hash_alg) : Prop := H = HA256 \/ H = HA384 \/ H = HA512.

Lemma mls_hash_out H : mls_hash H -> forall m, length (h_fun H m) = h_len H.
Proof. intros [E|[E|E]] m; subst H; [apply sha256_length|apply sha384_length|apply sha512_length]. Qed.
Lemma mls_hash_nz H : mls_hash H -> h_len H <> 0%nat.
Proof. intros [E|[E|E]]; subst H; discriminate. Qed.

(* The reference KDF of every MLS cipher suite: right output sizes, and the prefix property that
   makes "expand to n bytes" independent of how a provider rounds up to blocks. *)
Theorem reference_kdf_shape H : mls_hash H ->
  (forall salt ikm, length (hkdf_extract H salt ikm) = h_len H) /\
  (forall key msg, length (hmac H key msg) = h_len H) /\
  (forall prk info len, length (hkdf_expand H prk info len) = len) /\
  (forall prk info l1 l2, (l1 <= l2)%nat -> firstn l1 (hkdf_expand H prk info l2) = hkdf_expand H prk info l1).
Proof.
  intro M. pose proof (mls_hash_out H M) as O. pose proof (mls_hash_nz H M) as Z. repeat split.
  - intros. unfold hkdf_extract. apply hmac_length. exact O.
  - intros. apply hmac_length. exact O.
  - intros. apply hkdf_expand_length; assumption.
  - intros. apply hkdf_expand_prefix; assumption.
Qed.

Lemma sha_shape P msg : Forall (fun b => (b < 256)%N) (sha P msg) /\
  ((sp_out P <= length (sp_h0 P) * N.to_nat (sp_w P / 8))%nat -> length (sha P msg) = sp_out P).
Proof. split; [apply sha_bytes|apply sha_length]. Qed.
