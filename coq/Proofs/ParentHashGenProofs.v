(* The translated parent-hash walk (Gen/ParentHashGen.v, from tree_kem/parent_hash.rs) is the model
   (Model/ParentHashCode.v) that is proved to compute the valid parent hashes. *)
From Coq Require Import NArith List Bool.
From MlsV Require Import Res TreeMathGen TreeMathProofs Tree Kem HashCache ParentHashCode ParentHashGen.
Import ListNotations.
Local Open Scope N_scope.

Lemma gen_ph_loop_is_model PH t c : forall nodes d h, gen_ph_loop PH t c nodes d h = ph_loop PH t c nodes d h.
Proof.
  induction nodes as [|nd rest IH]; intros d h; [reflexivity|]. cbn [gen_ph_loop ph_loop].
  destruct (resolution_empty t (CopathNode_copath nd)) as [e| |]; cbn [bind]; try reflexivity.
  all: destruct e; [apply IH|].
  all: destruct (get t (CopathNode_path nd)) as [[id|um]|]; try reflexivity.
  all: destruct (hidx c (CopathNode_copath nd)) as [sh| |]; cbn [bind]; try reflexivity.
  all: apply IH.
Qed.

Theorem gen_parent_hash_for_leaf_is_model PH t c d index :
  gen_parent_hash_for_leaf PH t c d index = parent_hash_for_leaf PH t c d index.
Proof.
  unfold gen_parent_hash_for_leaf, parent_hash_for_leaf.
  destruct (direct_copath (2 * index) (total_leaf_count t)) as [dp| |]; cbn [bind]; try reflexivity.
  all: apply gen_ph_loop_is_model.
Qed.

Theorem gen_update_parent_hashes_is_model PH enc t c d index :
  gen_update_parent_hashes PH enc t c d index = update_parent_hashes PH enc t c d index.
Proof.
  unfold gen_update_parent_hashes, update_parent_hashes.
  destruct (update_hashes _ c t [index]) as [c1| |]; cbn [bind]; try reflexivity.
  all: rewrite gen_parent_hash_for_leaf_is_model; reflexivity.
Qed.

Theorem gen_parent_hash_code_is_model : forall PH enc t c d index,
  gen_parent_hash_for_leaf PH t c d index = parent_hash_for_leaf PH t c d index /\
  gen_update_parent_hashes PH enc t c d index = update_parent_hashes PH enc t c d index.
Proof. intros. split; [apply gen_parent_hash_for_leaf_is_model|apply gen_update_parent_hashes_is_model]. Qed.
