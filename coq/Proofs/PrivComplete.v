(* Completeness of the private state: for every non-blank ancestor a member either holds the
   private key or is listed there as an unmerged leaf.  Together with PrivOK (the keys held are
   the right ones) this is what makes decap succeed (DecapProofs.decap_select_complete).
   Preserved by the proposals of a commit, by the path for receivers and the committer, and
   established for joiners. *)
From Coq Require Import NArith Arith List Bool Lia.
From MlsV Require Import Res TreeMathGen BitsN TreeMathProofs Tree TreeProofs TreeWF Kem Priv PrivProofs Decap DecapProofs TreeWF5.
Import ListNotations.
Local Open Scope N_scope.

Definition Complete (t : tree) (me : N) (pr : priv) : Prop :=
  forall k um, (1 <= k)%nat -> get t (lvl_node (N.of_nat k) me) = Some (Par um) ->
    (exists key, nth_error pr k = Some (Some key)) \/ In me um.

(* parents are never created and unmerged lists only grow *)
Definition ParMono (t t' : tree) : Prop :=
  forall p um', get t' p = Some (Par um') -> exists um, get t p = Some (Par um) /\ incl um um'.

Lemma ParMono_refl t : ParMono t t.
Proof. intros p um G. exists um. split; [exact G|apply incl_refl]. Qed.
Lemma ParMono_trans a b c : ParMono a b -> ParMono b c -> ParMono a c.
Proof.
  intros A B p um G. destruct (B p um G) as (u1 & G1 & I1). destruct (A p u1 G1) as (u0 & G0 & I0).
  exists u0. split; [exact G0|]. eapply incl_tran; eassumption.
Qed.

(* the level-k ancestor that is non-blank is on the computed path, at position k-1 *)
Lemma path_position t me path k n : small t -> 2 * me < tlen t -> path_nodes t me = Ok path ->
  (1 <= k)%nat -> get t (lvl_node (N.of_nat k) me) = Some n -> nth_error path (k - 1) = Some (lvl_node (N.of_nat k) me).
Proof.
  intros Sm L P Hk G.
  assert (A : ancestor (lvl_node (N.of_nat k) me) me).
  { exists (N.of_nat (k - 1)), (me / 2 ^ N.of_nat k). unfold lvl_node. replace (N.of_nat (k - 1) + 1) with (N.of_nat k) by lia. split; reflexivity. }
  pose proof (path_nodes_complete t me path _ Sm L P A (get_some_lt _ _ _ G)) as I.
  apply In_nth_error in I. destruct I as [i Hi].
  pose proof (path_nodes_levels t me path Sm ltac:(lia) P i _ Hi) as E.
  apply lvl_node_eq in E. destruct E as [E _]. assert (i = (k - 1)%nat) by lia. subst i. exact Hi.
Qed.

Theorem complete_provisional t t1 me pr pr1 :
  Complete t me pr -> ParMono t t1 -> small t1 -> 2 * me < tlen t1 ->
  provisional_priv t1 me pr None = Ok pr1 -> Complete t1 me pr1.
Proof.
  intros C M Sm L. unfold provisional_priv.
  destruct (path_nodes t1 me) as [path| |] eqn:Ep; cbn [bind ret]; try discriminate.
  intro E. unfold ret in E. apply Ok_inj' in E. subst pr1.
  intros k um1 Hk G1. destruct (M _ _ G1) as (um0 & G0 & I0).
  destruct (C k um0 Hk G0) as [[key Hkey]|Hin]; [left|right; apply I0; exact Hin].
  exists key. rewrite nth_error_mapi.
  pose proof (path_position t1 me path k _ Sm L Ep Hk G1) as Hp.
  assert (Lk : (k < length path + 1)%nat).
  { assert ((k - 1 < length path)%nat) by (apply nth_error_Some; congruence). lia. }
  rewrite nth_error_resize. destruct (Nat.ltb_spec k (length path + 1)); [|lia]. rewrite Hkey. cbn [option_map].
  destruct k as [|i]; [lia|]. replace (S i - 1)%nat with i in Hp by lia. rewrite Hp, G1. reflexivity.
Qed.

(* own update: the whole direct path is blank afterwards, nothing to hold *)
Theorem complete_blank_path t me pr :
  (forall k, (1 <= k)%nat -> get t (lvl_node (N.of_nat k) me) = None) -> Complete t me pr.
Proof. intros B k um Hk G. rewrite B in G by exact Hk. discriminate. Qed.

(* ---- ParMono for every proposal operation ---- *)
Lemma ParMono_set_nonpar t i v : (forall um, v <> Some (Par um)) -> ParMono t (set t i v).
Proof.
  intros Nv p um G. destruct (N.eq_dec p i) as [->|Ne].
  - exfalso. unfold set in G. rewrite get_set_at, Nat.eqb_refl in G. destruct (N.to_nat i <? length t)%nat; [exact (Nv um G)|discriminate].
  - rewrite get_set_other in G by congruence. exists um. split; [exact G|apply incl_refl].
Qed.

Lemma ParMono_get_eq t t' : (forall i, get t' i = get t i) -> ParMono t t'.
Proof. intros E p um G. rewrite E in G. exists um. split; [exact G|apply incl_refl]. Qed.

Lemma ParMono_insert_leaf t l id : ParMono t (insert_leaf t l (Leaf id)).
Proof.
  unfold insert_leaf. eapply ParMono_trans; [|apply ParMono_set_nonpar; intros um0 H0; discriminate].
  destruct (tlen t <? 2 * l); [apply ParMono_get_eq; intro i; apply (get_app_blank t 2)|].
  destruct (N.eqb_spec (tlen t) 0) as [E|]; [|apply ParMono_refl].
  apply ParMono_get_eq. intro i. unfold tlen in E. destruct t; [|cbn [length] in E; lia].
  unfold get. destruct (N.to_nat i) as [|[|n]]; reflexivity.
Qed.

Lemma ParMono_update_unmerged path : forall t leaf t', update_unmerged t leaf path = TOk t' -> ParMono t t'.
Proof.
  induction path as [|p r IH]; intros t leaf t'; cbn [update_unmerged]; [intro E; inversion E; subst; apply ParMono_refl|].
  destruct (get t p) as [[id|um]|] eqn:G; try apply IH.
  destruct (insert_sorted leaf um) as [um'|] eqn:Is; [|discriminate]. intro E.
  eapply ParMono_trans; [|eapply IH; exact E].
  intros q uq Gq. destruct (N.eq_dec q p) as [->|Ne].
  - rewrite get_set_same in Gq by (eapply get_some_lt; exact G). assert (uq = um') by congruence. subst uq.
    exists um. split; [exact G|]. intros y Iy. apply (in_insert_sorted _ _ _ Is). right. exact Iy.
  - rewrite get_set_other in Gq by congruence. exists uq. split; [exact Gq|apply incl_refl].
Qed.

Lemma ParMono_blank_nodes ns : forall t, ParMono t (blank_nodes t ns).
Proof.
  intros t p um G. rewrite get_blank_nodes in G. destruct (existsb (N.eqb p) ns); [discriminate|].
  exists um. split; [exact G|apply incl_refl].
Qed.

Lemma ParMono_trim t : ParMono t (trim t).
Proof. apply ParMono_get_eq. intro i. destruct (trim_prefix t) as [k E]. rewrite E at 2. symmetry. apply get_app_blank. Qed.

Lemma ParMono_add_leaf t id start t' idx : add_leaf t id start = TOk (t', idx) -> ParMono t t'.
Proof.
  unfold add_leaf. destruct (negb _); [discriminate|].
  destruct (lift (path_nodes _ _)) as [path| |]; cbn [tbind]; try discriminate.
  destruct (update_unmerged _ _ path) as [t2| |] eqn:U; cbn [tbind]; try discriminate.
  intro E. inversion E; subst. eapply ParMono_trans; [apply ParMono_insert_leaf|eapply ParMono_update_unmerged; exact U].
Qed.

Lemma ParMono_blank_direct_path t l t' : blank_direct_path t l = TOk t' -> ParMono t t'.
Proof.
  unfold blank_direct_path. destruct (lift (path_nodes t l)) as [p| |]; cbn [tbind]; try discriminate.
  intro E. inversion E; subst. apply ParMono_blank_nodes.
Qed.

Lemma ParMono_apply_removes rs : forall t t', apply_removes t rs = TOk t' -> ParMono t t'.
Proof.
  induction rs as [|r rest IH]; intros t t'; cbn [apply_removes]; [intro E; inversion E; subst; apply ParMono_refl|].
  destruct (blank_leaf t r) as [t1| |] eqn:B; cbn [tbind]; try discriminate.
  destruct (blank_direct_path t1 r) as [t2| |] eqn:D; cbn [tbind]; try discriminate. intro E.
  unfold blank_leaf in B. destruct (get t (2 * r)) as [[x|um]|]; try discriminate. assert (t1 = set t (2 * r) None) by congruence. subst t1.
  eapply ParMono_trans; [apply (ParMono_set_nonpar t (2 * r) None); intros um0 H0; discriminate|].
  eapply ParMono_trans; [eapply ParMono_blank_direct_path; exact D|eapply IH; exact E].
Qed.

Lemma ParMono_apply_updates us : forall t t', apply_updates t us = TOk t' -> ParMono t t'.
Proof.
  induction us as [|[i id] rest IH]; intros t t'; cbn [apply_updates]; [intro E; inversion E; subst; apply ParMono_refl|].
  destruct (get t (2 * i)) as [[x|um]|]; try discriminate. intro E.
  eapply ParMono_trans; [apply (ParMono_set_nonpar t (2 * i) (Some (Leaf id))); intros um0 H0; discriminate|eapply IH; exact E].
Qed.

Lemma ParMono_blank_paths ls : forall t t', blank_paths t ls = TOk t' -> ParMono t t'.
Proof.
  induction ls as [|l rest IH]; intros t t'; cbn [blank_paths]; [intro E; inversion E; subst; apply ParMono_refl|].
  destruct (blank_direct_path t l) as [t1| |] eqn:D; cbn [tbind]; try discriminate. intro E.
  eapply ParMono_trans; [eapply ParMono_blank_direct_path; exact D|eapply IH; exact E].
Qed.

Lemma ParMono_apply_adds ids : forall t start acc t' added, apply_adds t ids start acc = TOk (t', added) -> ParMono t t'.
Proof.
  induction ids as [|id rest IH]; intros t start acc t' added; cbn [apply_adds]; [intro E; inversion E; subst; apply ParMono_refl|].
  destruct (add_leaf t id start) as [[t1 idx]| |] eqn:A; cbn [tbind]; try discriminate. intro E.
  eapply ParMono_trans; [eapply ParMono_add_leaf; exact A|eapply IH; exact E].
Qed.

Theorem ParMono_batch_edit t removes updates adds t' added : batch_edit t removes updates adds = TOk (t', added) -> ParMono t t'.
Proof.
  unfold batch_edit.
  destruct (apply_removes t (rev removes)) as [t1| |] eqn:R1; cbn [tbind]; try discriminate.
  destruct (apply_updates t1 updates) as [t2| |] eqn:U; cbn [tbind]; try discriminate.
  destruct (blank_paths t2 (map fst updates)) as [t3| |] eqn:B; cbn [tbind]; try discriminate.
  destruct (apply_adds t3 adds 0 []) as [[t4 ad]| |] eqn:A; cbn [tbind]; try discriminate.
  intro E. assert (t' = trim t4) by congruence. subst t'.
  eapply ParMono_trans; [eapply ParMono_apply_removes; exact R1|].
  eapply ParMono_trans; [eapply ParMono_apply_updates; exact U|].
  eapply ParMono_trans; [eapply ParMono_blank_paths; exact B|].
  eapply ParMono_trans; [eapply ParMono_apply_adds; exact A|apply ParMono_trim].
Qed.

(* ---- what the update path does to the tree, node by node ---- *)
Lemma filtered_of_length t : forall copath flt, filtered_of t copath = Ok flt -> length flt = length copath.
Proof.
  induction copath as [|c r IH]; intros flt; cbn [filtered_of]; [intro E; unfold ret in E; inversion E; reflexivity|].
  destruct (resolution_empty t c) as [e| |]; cbn [bind]; try discriminate.
  destruct (filtered_of t r) as [rest| |] eqn:F; cbn [bind]; try discriminate.
  intro E. unfold ret in E. inversion E; subst. cbn [length]. rewrite (IH rest eq_refl). reflexivity.
Qed.

Lemma get_set_ext t p v x : get (set (t ++ repeat None (N.to_nat p + 1 - length t)) p v) x = if x =? p then v else get t x.
Proof.
  destruct (N.eqb_spec x p) as [->|Ne].
  - apply get_set_same. unfold tlen. rewrite app_length, repeat_length. lia.
  - rewrite get_set_other by congruence. apply get_app_blank.
Qed.

Lemma occ_dec (x : N) : forall (pr : list N) (rest : list bool), length pr = length rest ->
  (exists i, nth_error pr i = Some x /\ nth_error rest i = Some false) \/
  (forall i, nth_error pr i = Some x -> nth_error rest i = Some true).
Proof.
  induction pr as [|p pr IH]; intros rest Ln; destruct rest as [|b rest]; cbn [length] in Ln; try lia.
  - right. intros i H. destruct i; discriminate.
  - destruct (IH rest ltac:(lia)) as [[i [H1 H2]]|All].
    + left. exists (S i). split; assumption.
    + destruct (N.eq_dec p x) as [->|Ne].
      * destruct b.
        -- right. intros i H. destruct i as [|i]; cbn [nth_error] in *; [reflexivity|apply All; exact H].
        -- left. exists 0%nat. split; reflexivity.
      * right. intros i H. destruct i as [|i]; cbn [nth_error] in *; [congruence|apply All; exact H].
Qed.

Lemma apply_path_nodes_get orig : forall path copath t t' flt,
  length path = length copath -> filtered_of orig copath = Ok flt -> apply_path_nodes t path copath orig = Ok t' ->
  forall x,
    ((exists i, nth_error path i = Some x /\ nth_error flt i = Some false) -> get t' x = Some (Par [])) /\
    ((forall i, nth_error path i = Some x -> nth_error flt i = Some true) -> get t' x = get t x).
Proof.
  induction path as [|p pr IH]; intros copath t t' flt Ln F A x; destruct copath as [|c cr]; cbn [length] in Ln; try lia.
  - cbn [apply_path_nodes] in A. unfold ret in A. assert (t' = t) by congruence. subst. split; [intros [i [H _]]; destruct i; discriminate|reflexivity].
  - cbn [apply_path_nodes filtered_of] in *.
    destruct (resolution_empty orig c) as [e| |]; cbn [bind] in *; try discriminate.
    destruct (filtered_of orig cr) as [rest| |] eqn:Fr; cbn [bind] in F; try discriminate.
    unfold ret in F. assert (flt = e :: rest) by congruence. subst flt.
    specialize (IH cr _ t' rest ltac:(lia) Fr A x). destruct IH as [IH1 IH2]. split.
    + intros [i [Hp Hf]]. destruct i as [|i]; cbn [nth_error] in Hp, Hf.
      * assert (p = x) by congruence. assert (e = false) by congruence. subst p e.
        (* either a later non-filtered occurrence sets it again, or nothing touches it any more *)
        destruct (occ_dec x pr rest ltac:(rewrite (filtered_of_length orig cr rest Fr); lia)) as [Ex|All].
        -- apply IH1. exact Ex.
        -- rewrite (IH2 All). rewrite get_set_ext, N.eqb_refl. reflexivity.
      * apply IH1. exists i. split; assumption.
    + intro All. rewrite IH2 by (intros i Hi; apply (All (S i)); exact Hi).
      destruct e; [reflexivity|]. rewrite get_set_ext. destruct (N.eqb_spec x p) as [->|]; [|reflexivity].
      specialize (All 0%nat eq_refl). cbn [nth_error] in All. discriminate.
Qed.

(* ---- helpers about paths, filters and the private list ---- *)
Lemma path_spec_length n : forall k j, length (path_spec n k j) = n.
Proof. induction n as [|n IH]; intros; cbn [path_spec length]; [|rewrite IH]; reflexivity. Qed.

Lemma nth_copath_spec n : forall k j i, (i < n)%nat ->
  nth_error (map CopathNode_copath (path_spec n k j)) i = Some (node (k + N.of_nat i) (sib (j / 2 ^ N.of_nat i))).
Proof.
  induction n as [|n IH]; intros k j i L; [lia|]. cbn [path_spec map CopathNode_copath].
  destruct i as [|i]; cbn [nth_error].
  - cbn [N.of_nat]. rewrite N.add_0_r, N.pow_0_r, N.div_1_r. reflexivity.
  - rewrite IH by lia. f_equal. f_equal; [lia|]. f_equal.
    rewrite N.div_div by (try apply N.pow_nonzero; lia). f_equal.
    replace (N.of_nat (S i)) with (N.of_nat i + 1) by lia. rewrite N.pow_add_r, N.pow_1_r. lia.
Qed.

Lemma upd_nodes_hit fk : forall flt lvl i, nth_error flt i = Some false ->
  (i < length (upd_nodes flt lvl fk))%nat /\ nth i (upd_nodes flt lvl fk) None = Some (fk (lvl + N.of_nat i)).
Proof.
  induction flt as [|f r IH]; intros lvl i H; [destruct i; discriminate|]. cbn [upd_nodes].
  destruct i as [|i]; cbn [nth_error] in H.
  - assert (f = false) by congruence. subst f. cbn [length nth N.of_nat]. rewrite N.add_0_r. split; [lia|reflexivity].
  - destruct (IH (lvl + 1) i H) as [Ln Hn]. replace (lvl + 1 + N.of_nat i) with (lvl + N.of_nat (S i)) in Hn by lia.
    destruct f.
    + destruct (upd_nodes r (lvl + 1) fk) as [|o l] eqn:Eu; [cbn [length] in Ln; lia|].
      cbn [length]. split; [cbn [length] in Ln; lia|]. exact Hn.
    + cbn [length nth]. split; [lia|exact Hn].
Qed.

Lemma filtered_of_nth t : forall cp flt i c b, filtered_of t cp = Ok flt ->
  nth_error cp i = Some c -> nth_error flt i = Some b -> resolution_empty t c = Ok b.
Proof.
  induction cp as [|c0 r IH]; intros flt i c b; cbn [filtered_of]; [destruct i; discriminate|].
  destruct (resolution_empty t c0) as [e| |] eqn:Re; cbn [bind]; try discriminate.
  destruct (filtered_of t r) as [rest| |] eqn:F; cbn [bind]; try discriminate.
  intro E. unfold ret in E. assert (flt = e :: rest) by congruence. subst flt.
  destruct i as [|i]; cbn [nth_error]; [intros; congruence|]. intros Hc Hb. eapply IH; [reflexivity|exact Hc|exact Hb].
Qed.

Lemma sz_mono a b : (a <= b)%nat -> (sz a <= sz b)%nat.
Proof. induction 1 as [|m L IH]; [lia|]. cbn [sz]. lia. Qed.

Lemma depth_fuel t d : small t -> total_leaf_count t = 2 ^ d -> (sz (N.to_nat d) <= 2 * length t + 3)%nat.
Proof.
  intros S1 Et. destruct (total_leaf_count_spec t S1) as (d' & Et' & _ & Hn & Hlow). rewrite Et in Et'.
  assert (d' = d) by (apply N.pow_inj_r in Et'; lia). subst d'.
  pose proof (sz_pow (N.to_nat d)) as Z. rewrite Nnat.N2Nat.id in Z.
  assert (2 ^ d <= tlen t + 2).
  { destruct Hlow as [->|Hlow]; [cbn; lia|].
    replace d with ((d - 1) + 1) by (assert (d <> 0) by (intro; subst; cbn in Hlow; lia); lia).
    rewrite N.pow_add_r, N.pow_1_r.
    pose proof (N.div_mod (tlen t) 2 ltac:(lia)) as DM. pose proof (N.mod_upper_bound (tlen t) 2 ltac:(lia)) as MU.
    set (h := tlen t / 2) in *. set (r := tlen t mod 2) in *. set (PP := 2 ^ (d - 1)) in *. clearbody h r PP. lia. }
  unfold tlen in *. lia.
Qed.

Lemma nth_error_decap_priv pr n lca nodes i :
  nth_error (decap_priv pr n lca nodes) (S i) =
  if (S i <? n + 2)%nat
  then Some (if (lca <=? i)%nat && (i <? length nodes)%nat then nth i nodes None
             else match nth_error pr (S i) with Some v => v | None => None end)
  else None.
Proof.
  unfold decap_priv. rewrite nth_error_mapi, nth_error_resize.
  destruct (S i <? n + 2)%nat; reflexivity.
Qed.

(* ---- the path step, seen from a receiver ---- *)
Theorem complete_decap t1 snd id t2 me pr path_me flt fk L :
  shape_ok t1 -> wf5 t1 -> small t1 ->
  apply_update_path t1 snd id = TOk t2 ->
  filtered (set t1 (2 * snd) (Some (Leaf id))) snd = Ok flt ->
  Complete t1 me pr ->
  1 <= L -> me / 2 ^ L = snd / 2 ^ L -> (forall k, k < L -> me / 2 ^ k <> snd / 2 ^ k) ->
  path_nodes (set t1 (2 * snd) (Some (Leaf id))) me = Ok path_me -> 2 * me < tlen t1 ->
  Complete t2 me (decap_priv pr (length path_me) (N.to_nat (L - 1)) (upd_nodes flt 1 fk)).
Proof.
  intros Sh W Sm. unfold apply_update_path. destruct (get t1 (2 * snd)) as [[x0|um0]|] eqn:G; try discriminate.
  set (t1' := set t1 (2 * snd) (Some (Leaf id))).
  assert (Lt : 2 * snd < tlen t1) by (eapply get_some_lt; exact G).
  assert (W1 : wf5 t1') by (eapply wf5_mono; [exact W|exact Sh|apply R_set_leaf]).
  assert (Sh1 : shape_ok t1') by (apply shape_set; [exact Sh|cbn [kind_ok]; rewrite N.even_mul; reflexivity]).
  assert (L1 : tlen t1' = tlen t1) by apply set_length.
  assert (S1 : small t1') by (unfold small; rewrite L1; exact Sm).
  destruct (path_nodes_spec t1' snd S1 ltac:(lia)) as (d & Et & Hd & Hl & P & Cp).
  rewrite P, Cp. cbn [lift tbind].
  destruct (apply_path_nodes t1' _ _ t1') as [t2'| |] eqn:A; cbn [lift]; try discriminate.
  intro E. assert (t2 = t2') by congruence. subst t2'. clear E.
  unfold filtered. rewrite Cp. cbn [bind]. intro F.
  intros C L1' Eq Ne Pm Lm.
  set (path := map CopathNode_path (path_spec (N.to_nat d) 0 snd)) in *.
  set (copath := map CopathNode_copath (path_spec (N.to_nat d) 0 snd)) in *.
  assert (Lp : length path = N.to_nat d) by (unfold path; rewrite map_length, path_spec_length; reflexivity).
  assert (Lc : length copath = N.to_nat d) by (unfold copath; rewrite map_length, path_spec_length; reflexivity).
  assert (Lf : length flt = N.to_nat d) by (rewrite (filtered_of_length _ _ _ F); exact Lc).
  pose proof (apply_path_nodes_get t1' path copath t1' t2 flt ltac:(lia) F A) as Get.
  assert (PathAt : forall i, (i < N.to_nat d)%nat -> nth_error path i = Some (lvl_node (N.of_nat (S i)) snd)).
  { intros i Li. unfold path. rewrite nth_path_spec by exact Li. unfold lvl_node. f_equal. f_equal; lia. }
  assert (PathOnly : forall i y, nth_error path i = Some y -> y = lvl_node (N.of_nat (S i)) snd).
  { intros i y Hy. assert (i < N.to_nat d)%nat by (rewrite <- Lp; apply nth_error_Some; congruence). rewrite PathAt in Hy by assumption. congruence. }
  assert (Odd1 : forall k, (1 <= k)%nat -> get t1' (lvl_node (N.of_nat k) me) = get t1 (lvl_node (N.of_nat k) me)).
  { intros k Hk. unfold t1'. apply get_set_other. intro E. pose proof (lvl_node_odd (N.of_nat k) me ltac:(lia)) as O.
    rewrite <- E, N.even_mul in O. discriminate. }
  intros k um Hk G2.
  assert (Kpos : exists i, k = S i) by (destruct k; [lia|eexists; reflexivity]). destruct Kpos as [i ->].
  rewrite nth_error_decap_priv.
  destruct (N.ltb_spec (N.of_nat (S i)) L) as [Below|Above].
  - (* below the common ancestor: untouched by the path *)
    assert (NotOn : forall j, nth_error path j = Some (lvl_node (N.of_nat (S i)) me) -> nth_error flt j = Some true).
    { intros j Hj. exfalso. apply PathOnly in Hj. apply lvl_node_eq in Hj. destruct Hj as [Ej E2]. rewrite <- Ej in E2. exact (Ne _ Below E2). }
    destruct (Get (lvl_node (N.of_nat (S i)) me)) as [_ Same]. rewrite (Same NotOn), Odd1 in G2 by lia.
    assert (G1' : get t1' (lvl_node (N.of_nat (S i)) me) = Some (Par um)) by (rewrite Odd1 by lia; exact G2).
    pose proof (path_position t1' me path_me (S i) _ S1 ltac:(lia) Pm ltac:(lia) G1') as Pos.
    assert (Li : (S i < length path_me + 2)%nat) by (assert ((S i - 1 < length path_me)%nat) by (apply nth_error_Some; congruence); lia).
    destruct (Nat.ltb_spec (S i) (length path_me + 2)); [|lia].
    destruct (C (S i) um ltac:(lia) G2) as [[key Hkey]|Hin]; [left|right; exact Hin].
    assert ((N.to_nat (L - 1) <=? i)%nat = false) as -> by (apply Nat.leb_gt; lia). cbn [andb]. rewrite Hkey. eexists. reflexivity.
  - (* at or above the common ancestor: a node of the committer's path *)
    assert (El : lvl_node (N.of_nat (S i)) me = lvl_node (N.of_nat (S i)) snd).
    { unfold lvl_node. f_equal. apply (div_pow_mono _ _ L); [exact Eq|lia]. }
    destruct (Nat.lt_ge_cases i (N.to_nat d)) as [Li|Li].
    + pose proof (PathAt i Li) as Hp. rewrite <- El in Hp.
      destruct (nth_error flt i) as [b|] eqn:Hf; [|apply nth_error_None in Hf; lia].
      destruct b.
      * (* filtered: the node is blank *)
        exfalso. destruct (Get (lvl_node (N.of_nat (S i)) me)) as [_ Same].
        assert (All : forall j, nth_error path j = Some (lvl_node (N.of_nat (S i)) me) -> nth_error flt j = Some true).
        { intros j Hj. apply PathOnly in Hj. rewrite El in Hj. apply lvl_node_eq in Hj. destruct Hj as [Ej _].
          assert (j = i) by lia. subst j. exact Hf. }
        rewrite (Same All) in G2.
        assert (Hc : nth_error copath i = Some (node (N.of_nat i) (sib (snd / 2 ^ N.of_nat i)))).
        { unfold copath. rewrite nth_copath_spec by exact Li. f_equal. }
        pose proof (filtered_of_nth _ _ _ _ _ _ F Hc Hf) as Re.
        assert (Bl : get t1' (node (N.of_nat i + 1) (snd / 2 ^ (N.of_nat i + 1))) = None).
        { apply filtered_node_is_blank; try assumption.
          - lia.
          - pose proof (depth_fuel t1' d S1 Et) as Df. pose proof (sz_mono (S i) (N.to_nat d) ltac:(lia)) as Mo. cbn [sz] in Mo. lia.
          - unfold t1'. rewrite get_set_same by exact Lt. discriminate. }
        rewrite El in G2. unfold lvl_node in G2. replace (N.of_nat (S i)) with (N.of_nat i + 1) in G2 by lia. congruence.
      * (* fresh key from this path *)
        left. destruct (upd_nodes_hit fk flt 1 i Hf) as [Ln Hn].
        assert (Lpm : length path_me = N.to_nat d).
        { destruct (path_nodes_spec t1' me S1 ltac:(lia)) as (d' & Et' & _ & _ & P' & _). rewrite Et in Et'.
          assert (d' = d) by (apply N.pow_inj_r in Et'; lia). subst d'. rewrite P' in Pm.
          assert (path_me = map CopathNode_path (path_spec (N.to_nat d) 0 me)) by congruence. subst path_me.
          rewrite map_length, path_spec_length. reflexivity. }
        destruct (Nat.ltb_spec (S i) (length path_me + 2)); [|lia].
        assert ((N.to_nat (L - 1) <=? i)%nat = true) as -> by (apply Nat.leb_le; lia).
        assert ((i <? length (upd_nodes flt 1 fk))%nat = true) as -> by (apply Nat.ltb_lt; exact Ln).
        cbn [andb]. rewrite Hn. eexists. reflexivity.
    + (* beyond the committer's path: cannot be non-blank *)
      exfalso. destruct (Get (lvl_node (N.of_nat (S i)) me)) as [_ Same].
      assert (All : forall j, nth_error path j = Some (lvl_node (N.of_nat (S i)) me) -> nth_error flt j = Some true).
      { intros j Hj. exfalso. assert (j < N.to_nat d)%nat by (rewrite <- Lp; apply nth_error_Some; congruence).
        apply PathOnly in Hj. rewrite El in Hj. apply lvl_node_eq in Hj. lia. }
      rewrite (Same All) in G2. rewrite El in G2.
      assert (Pp := path_position t1' snd path (S i) _ S1 ltac:(lia) P ltac:(lia) G2).
      assert ((S i - 1 < length path)%nat) by (apply nth_error_Some; congruence). lia.
Qed.

(* ---- the path step, seen from the committer ---- *)
Theorem complete_encap t1 snd id t2 pr flt fk leafkey :
  shape_ok t1 -> wf5 t1 -> small t1 ->
  apply_update_path t1 snd id = TOk t2 ->
  filtered (set t1 (2 * snd) (Some (Leaf id))) snd = Ok flt ->
  Complete t2 snd (encap_priv pr (length flt) flt fk leafkey).
Proof.
  intros Sh W Sm. unfold apply_update_path. destruct (get t1 (2 * snd)) as [[x0|um0]|] eqn:G; try discriminate.
  set (t1' := set t1 (2 * snd) (Some (Leaf id))).
  assert (Lt : 2 * snd < tlen t1) by (eapply get_some_lt; exact G).
  assert (W1 : wf5 t1') by (eapply wf5_mono; [exact W|exact Sh|apply R_set_leaf]).
  assert (Sh1 : shape_ok t1') by (apply shape_set; [exact Sh|cbn [kind_ok]; rewrite N.even_mul; reflexivity]).
  assert (L1 : tlen t1' = tlen t1) by apply set_length.
  assert (S1 : small t1') by (unfold small; rewrite L1; exact Sm).
  destruct (path_nodes_spec t1' snd S1 ltac:(lia)) as (d & Et & Hd & Hl & P & Cp).
  rewrite P, Cp. cbn [lift tbind].
  destruct (apply_path_nodes t1' _ _ t1') as [t2'| |] eqn:A; cbn [lift]; try discriminate.
  intro E. assert (t2 = t2') by congruence. subst t2'. clear E.
  unfold filtered. rewrite Cp. cbn [bind]. intro F.
  set (path := map CopathNode_path (path_spec (N.to_nat d) 0 snd)) in *.
  set (copath := map CopathNode_copath (path_spec (N.to_nat d) 0 snd)) in *.
  assert (Lp : length path = N.to_nat d) by (unfold path; rewrite map_length, path_spec_length; reflexivity).
  assert (Lc : length copath = N.to_nat d) by (unfold copath; rewrite map_length, path_spec_length; reflexivity).
  assert (Lf : length flt = N.to_nat d) by (rewrite (filtered_of_length _ _ _ F); exact Lc).
  pose proof (apply_path_nodes_get t1' path copath t1' t2 flt ltac:(lia) F A) as Get.
  assert (PathAt : forall i, (i < N.to_nat d)%nat -> nth_error path i = Some (lvl_node (N.of_nat (S i)) snd)).
  { intros i Li. unfold path. rewrite nth_path_spec by exact Li. unfold lvl_node. f_equal. f_equal; lia. }
  assert (PathOnly : forall i y, nth_error path i = Some y -> y = lvl_node (N.of_nat (S i)) snd).
  { intros i y Hy. assert (i < N.to_nat d)%nat by (rewrite <- Lp; apply nth_error_Some; congruence). rewrite PathAt in Hy by assumption. congruence. }
  intros k um Hk G2. destruct k as [|i]; [lia|]. left.
  unfold encap_priv. rewrite nth_error_mapi, nth_error_resize.
  destruct (Nat.lt_ge_cases i (N.to_nat d)) as [Li|Li].
  - destruct (nth_error flt i) as [b|] eqn:Hf; [|apply nth_error_None in Hf; lia].
    destruct b.
    + exfalso. destruct (Get (lvl_node (N.of_nat (S i)) snd)) as [_ Same].
      assert (All : forall j, nth_error path j = Some (lvl_node (N.of_nat (S i)) snd) -> nth_error flt j = Some true).
      { intros j Hj. apply PathOnly in Hj. apply lvl_node_eq in Hj. destruct Hj as [Ej _]. assert (j = i) by lia. subst j. exact Hf. }
      rewrite (Same All) in G2.
      assert (Hc : nth_error copath i = Some (node (N.of_nat i) (sib (snd / 2 ^ N.of_nat i)))).
      { unfold copath. rewrite nth_copath_spec by exact Li. f_equal. }
      pose proof (filtered_of_nth _ _ _ _ _ _ F Hc Hf) as Re.
      assert (Bl : get t1' (node (N.of_nat i + 1) (snd / 2 ^ (N.of_nat i + 1))) = None).
      { apply filtered_node_is_blank; try assumption.
        - lia.
        - pose proof (depth_fuel t1' d S1 Et) as Df. pose proof (sz_mono (S i) (N.to_nat d) ltac:(lia)) as Mo. cbn [sz] in Mo. lia.
        - unfold t1'. rewrite get_set_same by exact Lt. discriminate. }
      unfold lvl_node in G2. replace (N.of_nat (S i)) with (N.of_nat i + 1) in G2 by lia. congruence.
    + destruct (Nat.ltb_spec (S i) (length flt + 1)); [|lia]. cbn [option_map]. eexists. reflexivity.
  - exfalso. destruct (Get (lvl_node (N.of_nat (S i)) snd)) as [_ Same].
    assert (All : forall j, nth_error path j = Some (lvl_node (N.of_nat (S i)) snd) -> nth_error flt j = Some true).
    { intros j Hj. exfalso. assert (j < N.to_nat d)%nat by (rewrite <- Lp; apply nth_error_Some; congruence).
      apply PathOnly in Hj. apply lvl_node_eq in Hj. lia. }
    rewrite (Same All) in G2.
    assert (Pp := path_position t1' snd path (S i) _ S1 ltac:(lia) P ltac:(lia) G2).
    assert ((S i - 1 < length path)%nat) by (apply nth_error_Some; congruence). lia.
Qed.

(* a single-member group: nothing above the leaf *)
Lemma complete_single id me pr : Complete [Some (Leaf id)] me pr.
Proof.
  intros k um Hk G. exfalso. unfold get in G. destruct (N.to_nat (lvl_node (N.of_nat k) me)) as [|[|n]] eqn:E; cbn in G; discriminate.
Qed.

(* non-vacuity: three members, leaf 2 is unmerged at the root; leaf 0 commits with a path *)
Example complete_ex :
  let t1 := [Some (Leaf 10); Some (Par []); Some (Leaf 11); Some (Par [2]); Some (Leaf 12)] in
  apply_update_path t1 0 20 = TOk [Some (Leaf 20); Some (Par []); Some (Leaf 11); Some (Par []); Some (Leaf 12)]
  /\ filtered (set t1 0 (Some (Leaf 20))) 0 = Ok [false; false]
  /\ decap_priv [Some 72; None] 2 (N.to_nat (2 - 1)) (upd_nodes [false; false] 1 (fun k => 100 + k)) = [Some 72; None; Some 102; None].
Proof. vm_compute. repeat split; reflexivity. Qed.

(* ---- a joiner ---- *)
Lemma join_levels_hit ks me : forall jflt i0 lca l,
  join_levels ks me jflt i0 lca = Some l ->
  forall n, (lca <= i0 + n)%nat -> nth_error jflt n = Some false -> exists x, nth_error l n = Some (Some x).
Proof.
  induction jflt as [|f r IH]; intros i0 lca l; cbn [join_levels]; [intros _ n _ H; destruct n; discriminate|].
  destruct (join_levels ks me r (S i0) lca) as [rest|] eqn:Er; [|discriminate].
  intros E n Ln Hf. destruct n as [|n]; cbn [nth_error] in Hf.
  - assert (f = false) by congruence. subst f. assert ((lca <=? i0)%nat = true) as C by (apply Nat.leb_le; lia).
    rewrite C in E. cbn [andb negb] in E. destruct (ks (lvl_node (N.of_nat (S i0)) me)) as [y|]; [|discriminate].
    assert (l = Some y :: rest) by congruence. subst l. exists y. reflexivity.
  - assert (exists o, l = o :: rest) as [o ->].
    { destruct ((lca <=? i0)%nat && negb f).
      - destruct (ks (lvl_node (N.of_nat (S i0)) me)) as [y|]; [|discriminate]. exists (Some y). congruence.
      - exists None. congruence. }
    cbn [nth_error]. eapply (IH (S i0) lca rest Er n); [lia|exact Hf].
Qed.

Theorem complete_join_abstract t2 me L jflt ks leafkey pr :
  join_priv ks me leafkey jflt (N.to_nat (L - 1)) = Some pr -> 1 <= L ->
  (forall i um, N.of_nat (S i) < L -> get t2 (lvl_node (N.of_nat (S i)) me) = Some (Par um) -> In me um) ->
  (forall i um, L <= N.of_nat (S i) -> get t2 (lvl_node (N.of_nat (S i)) me) = Some (Par um) -> nth_error jflt i = Some false) ->
  Complete t2 me pr.
Proof.
  unfold join_priv. destruct (join_levels ks me jflt 0 (N.to_nat (L - 1))) as [l|] eqn:E; [|discriminate].
  intros Ep HL Below Above. assert (pr = Some leafkey :: l) by congruence. subst pr.
  intros k um Hk G. destruct k as [|i]; [lia|].
  destruct (N.ltb_spec (N.of_nat (S i)) L) as [Lt|Ge]; [right; eapply Below; eassumption|left].
  cbn [nth_error]. eapply (join_levels_hit ks me jflt 0 _ l E i); [lia|eapply Above; eassumption].
Qed.

(* the leaf added by add_leaf is unmerged at every non-blank ancestor, and stays so *)
Definition UnmergedAtAll (t : tree) (me : N) : Prop :=
  forall p um, get t p = Some (Par um) -> ancestor p me -> In me um.

Lemma UnmergedAtAll_mono t t' me : ParMono t t' -> UnmergedAtAll t me -> UnmergedAtAll t' me.
Proof. intros M Q p um G A. destruct (M p um G) as (u0 & G0 & I0). apply I0. exact (Q p u0 G0 A). Qed.

Lemma update_unmerged_marks path : forall t leaf t', update_unmerged t leaf path = TOk t' ->
  forall p um, In p path -> get t' p = Some (Par um) -> In leaf um.
Proof.
  induction path as [|p0 r IH]; intros t leaf t'; cbn [update_unmerged]; [intros _ p um []|].
  destruct (get t p0) as [[id|um0]|] eqn:G0.
  - intros U p um [->|I] Gp; [|eapply IH; eassumption].
    destruct (ParMono_update_unmerged _ _ _ _ U p um Gp) as (u & Gu & _). congruence.
  - destruct (insert_sorted leaf um0) as [um0'|] eqn:Is; [|discriminate]. intros U p um [->|I] Gp; [|eapply IH; eassumption].
    destruct (ParMono_update_unmerged _ _ _ _ U p um Gp) as (u & Gu & Iu).
    rewrite get_set_same in Gu by (eapply get_some_lt; exact G0). assert (u = um0') by congruence. subst u.
    apply Iu. apply (in_insert_sorted _ _ _ Is). left. reflexivity.
  - intros U p um [->|I] Gp; [|eapply IH; eassumption].
    destruct (ParMono_update_unmerged _ _ _ _ U p um Gp) as (u & Gu & _). congruence.
Qed.

Lemma add_leaf_unmerged t id start t' idx : tlen t + 2 < 2 ^ 25 -> add_leaf t id start = TOk (t', idx) -> UnmergedAtAll t' idx.
Proof.
  intros S. unfold add_leaf. set (i := next_empty_leaf t start). set (t1 := insert_leaf t i (Leaf id)).
  destruct (N.ltb_spec (2 * i) (tlen t1)) as [L1|]; cbn [negb]; [|discriminate].
  pose proof (insert_leaf_length t i (Leaf id)) as Ln. fold t1 in Ln.
  assert (S1 : small t1) by (unfold small; lia).
  destruct (path_nodes t1 i) as [path| |] eqn:P; cbn [lift tbind]; try discriminate.
  destruct (update_unmerged t1 i path) as [t2| |] eqn:U; cbn [tbind]; try discriminate.
  intro E. assert (t' = t2 /\ idx = i) as [-> ->] by (split; congruence).
  intros p um G A. eapply update_unmerged_marks; [exact U| |exact G].
  eapply path_nodes_complete; [exact S1|exact L1|exact P|exact A|].
  rewrite <- (update_unmerged_length _ _ _ _ U). eapply get_some_lt. exact G.
Qed.

Lemma apply_adds_unmerged ids : forall t start acc t' added me,
  tlen t + 2 * N.of_nat (length ids) < 2 ^ 25 ->
  apply_adds t ids start acc = TOk (t', added) -> In me added -> In me (rev acc) \/ UnmergedAtAll t' me.
Proof.
  induction ids as [|id rest IH]; intros t start acc t' added me S; cbn [apply_adds].
  - intros E I. assert (added = rev acc) by congruence. subst. left. exact I.
  - destruct (add_leaf t id start) as [[t1 idx]| |] eqn:A; cbn [tbind]; try discriminate. intros E I.
    cbn [length] in S. pose proof (add_leaf_length _ _ _ _ _ A) as L1.
    destruct (IH t1 idx (idx :: acc) t' added me ltac:(lia) E I) as [Ir|Q]; [|right; exact Q].
    cbn [rev] in Ir. apply in_app_or in Ir. destruct Ir as [Ir|[<-|[]]]; [left; exact Ir|right].
    eapply UnmergedAtAll_mono; [eapply ParMono_apply_adds; exact E|eapply add_leaf_unmerged; [|exact A]; lia].
Qed.

Lemma apply_updates_length us : forall t t', apply_updates t us = TOk t' -> tlen t' = tlen t.
Proof.
  induction us as [|[i id] rest IH]; intros t t'; cbn [apply_updates]; [intro E; inversion E; reflexivity|].
  destruct (get t (2 * i)) as [[x|um]|]; try discriminate. intro E. rewrite (IH _ _ E). apply set_length.
Qed.
Lemma blank_paths_length ls : forall t t', blank_paths t ls = TOk t' -> tlen t' = tlen t.
Proof.
  induction ls as [|l rest IH]; intros t t'; cbn [blank_paths]; [intro E; inversion E; reflexivity|].
  destruct (blank_direct_path t l) as [tt| |] eqn:D; cbn [tbind]; try discriminate. intro E. rewrite (IH _ _ E). eapply blank_direct_path_length; exact D.
Qed.
Lemma apply_removes_length rs : forall t t', apply_removes t rs = TOk t' -> tlen t' = tlen t.
Proof.
  induction rs as [|r rest IH]; intros t t'; cbn [apply_removes]; [intro E; inversion E; reflexivity|].
  destruct (blank_leaf t r) as [t1| |] eqn:B; cbn [tbind]; try discriminate.
  destruct (blank_direct_path t1 r) as [t2| |] eqn:D; cbn [tbind]; try discriminate. intro E.
  rewrite (IH _ _ E), (blank_direct_path_length _ _ _ D), (blank_leaf_length _ _ _ B). reflexivity.
Qed.

Theorem added_member_unmerged t removes updates adds t1 added me :
  tlen t + 2 * N.of_nat (length adds) < 2 ^ 25 ->
  batch_edit t removes updates adds = TOk (t1, added) -> In me added -> UnmergedAtAll t1 me.
Proof.
  intros S. unfold batch_edit.
  destruct (apply_removes t (rev removes)) as [ta| |] eqn:R1; cbn [tbind]; try discriminate.
  destruct (apply_updates ta updates) as [tb| |] eqn:U; cbn [tbind]; try discriminate.
  destruct (blank_paths tb (map fst updates)) as [tc| |] eqn:B; cbn [tbind]; try discriminate.
  destruct (apply_adds tc adds 0 []) as [[td ad]| |] eqn:A; cbn [tbind]; try discriminate.
  intros E I. assert (t1 = trim td /\ added = ad) as [-> ->] by (split; congruence).
  assert (Lc : tlen tc = tlen t) by (rewrite (blank_paths_length _ _ _ B), (apply_updates_length _ _ _ U), (apply_removes_length _ _ _ R1); reflexivity).
  destruct (apply_adds_unmerged adds tc 0 [] td ad me ltac:(lia) A I) as [[]|Q].
  eapply UnmergedAtAll_mono; [apply ParMono_trim|exact Q].
Qed.

(* ---- the effect of the update path, once and for all ---- *)
Lemma filtered_of_exists orig : forall path copath t t', length path = length copath ->
  apply_path_nodes t path copath orig = Ok t' -> exists flt, filtered_of orig copath = Ok flt.
Proof.
  induction path as [|p pr IH]; intros copath t t' Ln; destruct copath as [|c cr]; cbn [length] in Ln; try lia.
  - intros _. exists []. reflexivity.
  - cbn [apply_path_nodes filtered_of]. destruct (resolution_empty orig c) as [e| |]; cbn [bind]; try discriminate.
    intro A. destruct (IH cr _ t' ltac:(lia) A) as [rest ->]. cbn [bind]. eexists. reflexivity.
Qed.

Lemma update_path_effect t1 snd id t2 : small t1 -> apply_update_path t1 snd id = TOk t2 ->
  let t1' := set t1 (2 * snd) (Some (Leaf id)) in
  exists d flt, total_leaf_count t1' = 2 ^ d /\ filtered t1' snd = Ok flt /\ length flt = N.to_nat d /\
    2 * snd < tlen t1 /\
    (forall x, (forall i, (i < N.to_nat d)%nat -> x <> lvl_node (N.of_nat (S i)) snd) -> get t2 x = get t1' x) /\
    (forall i, nth_error flt i = Some false -> get t2 (lvl_node (N.of_nat (S i)) snd) = Some (Par [])) /\
    (forall i, nth_error flt i = Some true -> get t2 (lvl_node (N.of_nat (S i)) snd) = get t1' (lvl_node (N.of_nat (S i)) snd)).
Proof.
  intros Sm. unfold apply_update_path. destruct (get t1 (2 * snd)) as [[x0|um0]|] eqn:G; try discriminate.
  cbn zeta. set (t1' := set t1 (2 * snd) (Some (Leaf id))).
  assert (Lt : 2 * snd < tlen t1) by (eapply get_some_lt; exact G).
  assert (L1 : tlen t1' = tlen t1) by apply set_length.
  assert (S1 : small t1') by (unfold small; rewrite L1; exact Sm).
  destruct (path_nodes_spec t1' snd S1 ltac:(lia)) as (d & Et & Hd & Hl & P & Cp).
  rewrite P, Cp. cbn [lift tbind].
  destruct (apply_path_nodes t1' _ _ t1') as [t2'| |] eqn:A; cbn [lift]; try discriminate.
  intro E. assert (t2 = t2') by congruence. subst t2'. clear E.
  set (path := map CopathNode_path (path_spec (N.to_nat d) 0 snd)) in *.
  set (copath := map CopathNode_copath (path_spec (N.to_nat d) 0 snd)) in *.
  assert (Lp : length path = N.to_nat d) by (unfold path; rewrite map_length, path_spec_length; reflexivity).
  assert (Lc : length copath = N.to_nat d) by (unfold copath; rewrite map_length, path_spec_length; reflexivity).
  destruct (filtered_of_exists t1' path copath t1' t2 ltac:(lia) A) as [flt F].
  assert (Lf : length flt = N.to_nat d) by (rewrite (filtered_of_length _ _ _ F); exact Lc).
  pose proof (apply_path_nodes_get t1' path copath t1' t2 flt ltac:(lia) F A) as Get.
  assert (PathAt : forall i, (i < N.to_nat d)%nat -> nth_error path i = Some (lvl_node (N.of_nat (S i)) snd)).
  { intros i Li. unfold path. rewrite nth_path_spec by exact Li. unfold lvl_node. f_equal. f_equal; lia. }
  assert (PathOnly : forall i y, nth_error path i = Some y -> (i < N.to_nat d)%nat /\ y = lvl_node (N.of_nat (S i)) snd).
  { intros i y Hy. assert (i < N.to_nat d)%nat by (rewrite <- Lp; apply nth_error_Some; congruence). split; [assumption|]. rewrite PathAt in Hy by assumption. congruence. }
  exists d, flt. split; [exact Et|]. split; [unfold filtered; rewrite Cp; exact F|]. split; [exact Lf|]. split; [exact Lt|]. split; [|split].
  - intros x Nx. destruct (Get x) as [_ Same]. apply Same. intros j Hj. exfalso. apply PathOnly in Hj. destruct Hj as [Lj Ej]. exact (Nx j Lj Ej).
  - intros i Hf. assert (Li : (i < N.to_nat d)%nat) by (rewrite <- Lf; apply nth_error_Some; congruence).
    destruct (Get (lvl_node (N.of_nat (S i)) snd)) as [Sv _]. apply Sv. exists i. split; [apply PathAt; exact Li|exact Hf].
  - intros i Hf. destruct (Get (lvl_node (N.of_nat (S i)) snd)) as [_ Same]. apply Same.
    intros j Hj. apply PathOnly in Hj. destruct Hj as [_ Ej]. apply lvl_node_eq in Ej. destruct Ej as [Ej _]. assert (j = i) by lia. subst j. exact Hf.
Qed.

(* joiner, below the common ancestor: unmerged at every non-blank ancestor *)
Theorem joiner_unmerged_below t removes updates adds t1 added me snd id t2 L :
  tlen t + 2 * N.of_nat (length adds) < 2 ^ 25 -> small t1 ->
  batch_edit t removes updates adds = TOk (t1, added) -> In me added ->
  apply_update_path t1 snd id = TOk t2 ->
  (forall k, k < L -> me / 2 ^ k <> snd / 2 ^ k) ->
  forall i um, N.of_nat (S i) < L -> get t2 (lvl_node (N.of_nat (S i)) me) = Some (Par um) -> In me um.
Proof.
  intros Sz S1 B I A Ne i um Lt G2.
  pose proof (added_member_unmerged _ _ _ _ _ _ me Sz B I) as Q.
  destruct (update_path_effect t1 snd id t2 S1 A) as (d & flt & _ & _ & _ & Ls & Same & _ & _).
  rewrite Same in G2.
  - rewrite get_set_other in G2.
    + eapply Q; [exact G2|]. exists (N.of_nat i), (me / 2 ^ N.of_nat (S i)). unfold lvl_node.
      replace (N.of_nat i + 1) with (N.of_nat (S i)) by lia. split; reflexivity.
    + intro E. pose proof (lvl_node_odd (N.of_nat (S i)) me ltac:(lia)) as O. rewrite <- E, N.even_mul in O. discriminate.
  - intros j _ E. apply lvl_node_eq in E. destruct E as [Ej E2]. rewrite <- Ej in E2. exact (Ne _ Lt E2).
Qed.

(* seen from any member: a non-blank ancestor is never filtered *)
Theorem nonblank_ancestor_unfiltered t me jflt :
  shape_ok t -> wf5 t -> small t -> get t (2 * me) <> None -> filtered t me = Ok jflt ->
  forall i um, get t (lvl_node (N.of_nat (S i)) me) = Some (Par um) -> nth_error jflt i = Some false.
Proof.
  intros Sh W Sm Nb F i um G.
  assert (Lm : 2 * me < tlen t) by (destruct (get t (2 * me)) as [n|] eqn:Gm; [eapply get_some_lt; exact Gm|congruence]).
  destruct (path_nodes_spec t me Sm ltac:(lia)) as (d & Et & Hd & Hl & P & Cp).
  unfold filtered in F. rewrite Cp in F. cbn [bind] in F.
  pose proof (path_position t me _ (S i) _ Sm Lm P ltac:(lia) G) as Pos.
  assert (Li : (i < N.to_nat d)%nat).
  { assert ((S i - 1 < length (map CopathNode_path (path_spec (N.to_nat d) 0 me)))%nat) by (apply nth_error_Some; congruence).
    rewrite map_length, path_spec_length in H. lia. }
  assert (Lf : length jflt = N.to_nat d) by (rewrite (filtered_of_length _ _ _ F), map_length, path_spec_length; reflexivity).
  destruct (nth_error jflt i) as [b|] eqn:Hf; [|apply nth_error_None in Hf; lia].
  destruct b; [exfalso|reflexivity].
  assert (Hc : nth_error (map CopathNode_copath (path_spec (N.to_nat d) 0 me)) i = Some (node (N.of_nat i) (sib (me / 2 ^ N.of_nat i)))).
  { rewrite nth_copath_spec by exact Li. f_equal. }
  pose proof (filtered_of_nth _ _ _ _ _ _ F Hc Hf) as Re.
  assert (Bl : get t (node (N.of_nat i + 1) (me / 2 ^ (N.of_nat i + 1))) = None).
  { apply filtered_node_is_blank; try assumption.
    - lia.
    - pose proof (depth_fuel t d Sm Et) as Df. pose proof (sz_mono (S i) (N.to_nat d) ltac:(lia)) as Mo. cbn [sz] in Mo. lia. }
  unfold lvl_node in G. replace (N.of_nat (S i)) with (N.of_nat i + 1) in G by lia. congruence.
Qed.

(* the joiner's private state is complete *)
Theorem complete_join t removes updates adds t1 added me snd id t2 L jflt ks leafkey pr :
  tlen t + 2 * N.of_nat (length adds) < 2 ^ 25 -> small t1 ->
  batch_edit t removes updates adds = TOk (t1, added) -> In me added ->
  apply_update_path t1 snd id = TOk t2 ->
  shape_ok t2 -> wf5 t2 -> small t2 -> get t2 (2 * me) <> None ->
  1 <= L -> (forall k, k < L -> me / 2 ^ k <> snd / 2 ^ k) ->
  filtered t2 me = Ok jflt ->
  join_priv ks me leafkey jflt (N.to_nat (L - 1)) = Some pr ->
  Complete t2 me pr.
Proof.
  intros Sz S1 B I A Sh2 W2 Sm2 Nb HL Ne F J.
  eapply complete_join_abstract; [exact J|exact HL| |].
  - intros i um Lt G. exact (joiner_unmerged_below t removes updates adds t1 added me snd id t2 L Sz S1 B I A Ne i um Lt G).
  - intros i um _ G. exact (nonblank_ancestor_unfiltered t2 me jflt Sh2 W2 Sm2 Nb F i um G).
Qed.

(* with a complete private state, decap always finds its ciphertext *)
Theorem complete_decap_finds_ciphertext_res t me pr k excl id leafkey :
  shape_ok t -> Complete t me pr ->
  resolution_of t (lvl_node (N.of_nat k) me) = Ok (reso_spec t k (me / 2 ^ N.of_nat k)) ->
  get t (2 * me) = Some (Leaf id) -> ~ In me excl ->
  nth_error pr O = Some (Some leafkey) ->
  exists i key, decap_select t me pr k excl = Ok (Some (i, key)).
Proof.
  intros Sh C R Gl Nx K0. eapply decap_select_complete_res; try eassumption.
  cbn zeta. destruct (Nat.eq_dec (down t me k) 0) as [Z|NZ]; [left; rewrite Z; eexists; exact K0|].
  pose proof (down_nonblank t me k NZ) as Nb.
  destruct (get t (lvl_node (N.of_nat (down t me k)) me)) as [[x|um]|] eqn:G; [|clear Nb|congruence].
  - exfalso. specialize (Sh (lvl_node (N.of_nat (down t me k)) me)). rewrite G in Sh. cbn [kind_ok] in Sh.
    rewrite lvl_node_odd in Sh by lia. discriminate.
  - destruct (C (down t me k) um ltac:(lia) G) as [H|H]; [left; exact H|right; exists um; split; [reflexivity|exact H]].
Qed.

Theorem complete_decap_finds_ciphertext t me pr k excl id leafkey :
  shape_ok t -> Complete t me pr ->
  (k <= 29)%nat -> lvl_node (N.of_nat k) me < tlen t ->
  get t (2 * me) = Some (Leaf id) -> ~ In me excl ->
  nth_error pr O = Some (Some leafkey) ->
  exists i key, decap_select t me pr k excl = Ok (Some (i, key)).
Proof.
  intros Sh C Lk B Gl Nx K0. eapply complete_decap_finds_ciphertext_res; try eassumption.
  unfold lvl_node. apply resolution_of_spec; assumption.
Qed.

(* ---- own update: after the proposals the member's whole direct path is blank ---- *)
Lemma ParMono_none t t' p : ParMono t t' -> get t p = None -> forall um, get t' p <> Some (Par um).
Proof. intros M G um G'. destruct (M p um G') as (u & Gu & _). congruence. Qed.

Lemma blank_direct_path_blanks t l t' : small t -> 2 * l < tlen t -> blank_direct_path t l = TOk t' ->
  forall p, ancestor p l -> get t' p = None.
Proof.
  intros Sm L. unfold blank_direct_path. destruct (path_nodes t l) as [path| |] eqn:P; cbn [lift tbind]; try discriminate.
  intro E. assert (t' = blank_nodes t path) by congruence. subst t'. intros p A.
  rewrite get_blank_nodes. destruct (existsb (N.eqb p) path) eqn:Ex; [reflexivity|].
  destruct (get t p) as [n|] eqn:G; [|reflexivity]. exfalso.
  assert (In p path) by (eapply path_nodes_complete; try eassumption; eapply get_some_lt; exact G).
  assert (existsb (N.eqb p) path = true) by (apply existsb_exists; exists p; split; [assumption|apply N.eqb_refl]). congruence.
Qed.

Lemma blank_paths_blanks ls : forall t t' l, small t -> Forall (fun x => 2 * x < tlen t) ls -> In l ls ->
  blank_paths t ls = TOk t' -> forall p um, ancestor p l -> get t' p <> Some (Par um).
Proof.
  induction ls as [|x rest IH]; intros t t' l Sm F I; [destruct I|]. cbn [blank_paths].
  inversion F as [|? ? Hx Fr]; subst.
  destruct (blank_direct_path t x) as [t1| |] eqn:D; cbn [tbind]; try discriminate. intros E p um A.
  pose proof (blank_direct_path_length _ _ _ D) as L1.
  destruct I as [->|I].
  - eapply ParMono_none; [eapply ParMono_blank_paths; exact E|]. eapply blank_direct_path_blanks; eassumption.
  - eapply (IH t1 t' l); try eassumption; [unfold small in *; lia|]. rewrite L1. exact Fr.
Qed.

Theorem own_update_blanks_the_path t removes updates adds t1 added me :
  tlen t + 2 * N.of_nat (length adds) < 2 ^ 25 ->
  batch_edit t removes updates adds = TOk (t1, added) -> In me (map fst updates) ->
  forall k, (1 <= k)%nat -> forall um, get t1 (lvl_node (N.of_nat k) me) <> Some (Par um).
Proof.
  intros S. unfold batch_edit.
  destruct (apply_removes t (rev removes)) as [ta| |] eqn:R1; cbn [tbind]; try discriminate.
  destruct (apply_updates ta updates) as [tb| |] eqn:U; cbn [tbind]; try discriminate.
  destruct (blank_paths tb (map fst updates)) as [tc| |] eqn:B; cbn [tbind]; try discriminate.
  destruct (apply_adds tc adds 0 []) as [[td ad]| |] eqn:A; cbn [tbind]; try discriminate.
  intros E I k Hk um. assert (t1 = trim td) by congruence. subst t1.
  assert (Lb : tlen tb = tlen t) by (rewrite (apply_updates_length _ _ _ U), (apply_removes_length _ _ _ R1); reflexivity).
  assert (Fr : Forall (fun x => 2 * x < tlen tb) (map fst updates)).
  { clear - U. revert ta tb U. induction updates as [|[i id] rest IH]; intros ta tb; cbn [apply_updates map fst]; [constructor|].
    destruct (get ta (2 * i)) as [[x|um]|] eqn:G; try discriminate. intro E. constructor.
    - rewrite (apply_updates_length _ _ _ E), set_length. eapply get_some_lt. exact G.
    - eapply IH. exact E. }
  assert (A0 : ancestor (lvl_node (N.of_nat k) me) me).
  { exists (N.of_nat (k - 1)), (me / 2 ^ N.of_nat k). unfold lvl_node. replace (N.of_nat (k - 1) + 1) with (N.of_nat k) by lia. split; reflexivity. }
  intro G. pose proof (ParMono_trans _ _ _ (ParMono_apply_adds _ _ _ _ _ _ A) (ParMono_trim td)) as M.
  destruct (M _ _ G) as (u & Gu & _).
  exact (blank_paths_blanks (map fst updates) tb tc me ltac:(unfold small; lia) Fr I B _ u A0 Gu).
Qed.

Corollary complete_own_update t removes updates adds t1 added me pr :
  tlen t + 2 * N.of_nat (length adds) < 2 ^ 25 ->
  batch_edit t removes updates adds = TOk (t1, added) -> In me (map fst updates) -> Complete t1 me pr.
Proof. intros S B I k um Hk G. exfalso. exact (own_update_blanks_the_path _ _ _ _ _ _ me S B I k Hk um G). Qed.
