(* Obligations about the GENERATED type table (Gen/CodecTypes.v): every wire/state type of
   the library is a well-formed descriptor, so that the generic theorems of CodecProofs.v
   apply to it.  Re-checked on every run against the regenerated table. *)
From Coq Require Import NArith List Bool String Lia.
From MlsV Require Import Codec CodecPrim CodecProofs CodecTypes CodecCases.
Import ListNotations.
Local Open Scope N_scope.

(* descriptors without dependent fields are checked by evaluation; the four dependent ones
   (PublicMessage, AuthenticatedContent, AuthenticatedContentTBS/TBM) by case analysis on
   the sender / content type tags *)
Ltac wf_rec :=
  lazymatch goal with
  | |- _ /\ _ => split; wf_rec
  | |- forall _, _ => intro; wf_rec
  | |- @eq bool _ _ => vm_compute; reflexivity
  | |- True => exact I
  | |- wfP ?c (if ?b then _ else _) => destruct b; wf_rec
  | |- wfP ?c ?t =>
      first [ apply wfb_wfP; vm_compute; reflexivity
            | let t' := eval hnf in t in change (wfP c t'); cbn [wfP]; wf_rec ]
  end.
Ltac wf_solve := wf_rec.

Lemma all_types_wf : Forall (fun p => wf (snd p)) all_types.
Proof. unfold all_types. repeat (apply Forall_cons; [cbn [snd]; unfold wf; wf_solve|]). apply Forall_nil. Qed.

(* Which types are canonical (a decoded value re-encodes to exactly the bytes consumed):
   every type of the table except those holding a hash map. *)
Ltac canon_rec :=
  lazymatch goal with
  | |- _ /\ _ => split; canon_rec
  | |- forall _, _ => intro; canon_rec
  | |- @eq bool _ _ => vm_compute; reflexivity
  | |- True => exact I
  | |- canonicalP (if ?b then _ else _) => destruct b; canon_rec
  | |- canonicalP ?t =>
      first [ apply canonicalb_canonicalP; vm_compute; reflexivity
            | let t' := eval hnf in t in change (canonicalP t'); cbn [canonicalP]; canon_rec ]
  end.

Lemma canonical_types :
  Forall (fun p => has_hashmap 0 (snd p) = true \/ canonicalP (snd p)) all_types.
Proof.
  unfold all_types.
  repeat (apply Forall_cons; [cbn [snd]; first [left; vm_compute; reflexivity | right; canon_rec]|]).
  apply Forall_nil.
Qed.

Definition hashmap_type_names : list string :=
  map fst (filter (fun p => has_hashmap 0 (snd p)) all_types).

Lemma public_message_canonical : canonicalP T_PublicMessage.
Proof. canon_rec. Qed.

Lemma mls_message_canonical : canonicalP T_MlsMessage.
Proof. canon_rec. Qed.

(* the stored snapshot: every field survives a write / read *)
Lemma snapshot_wf : wf T_Snapshot.
Proof. unfold wf. wf_rec. Qed.

Lemma snapshot_roundtrip v bs rest :
  vwf T_Snapshot v = true -> encode T_Snapshot v = Some bs -> decode T_Snapshot None (bs ++ rest) = DOk (v, rest).
Proof. apply roundtrip. exact snapshot_wf. Qed.
