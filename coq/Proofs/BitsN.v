(* Bit-level facts on N used by the tree-math proofs. *)
From Coq Require Import NArith Lia Bool.
From MlsV Require Import Res.
Local Open Scope N_scope.

Lemma trailing_ones_double x : trailing_ones (2 * x) = 0.
Proof. destruct x; reflexivity. Qed.

Lemma trailing_ones_succ_double x : trailing_ones (2 * x + 1) = N.succ (trailing_ones x).
Proof. destruct x as [|p]; [reflexivity|]. reflexivity. Qed.

Lemma mask32_ones : mask32 = N.ones 32.
Proof. reflexivity. Qed.

Lemma testbit_mask32 i : N.testbit mask32 i = (i <? 32).
Proof.
  rewrite mask32_ones. destruct (N.ltb_spec i 32).
  - apply N.ones_spec_low; lia.
  - apply N.ones_spec_high; lia.
Qed.

Lemma testbit_small x m i : x < 2 ^ m -> m <= i -> N.testbit x i = false.
Proof.
  intros Hx Hi. destruct (N.eq_dec x 0) as [->|Hn]; [apply N.bits_0|].
  apply N.bits_above_log2. apply N.log2_lt_pow2; [lia|].
  eapply N.lt_le_trans; [exact Hx|]. apply N.pow_le_mono_r; lia.
Qed.

Lemma u32_shl_1 s : s < 32 -> u32_shl 1 s = Ok (2 ^ s).
Proof.
  intro H. unfold u32_shl. destruct (N.ltb_spec s 32); [|lia]. f_equal.
  rewrite N.shiftl_1_l. apply N.bits_inj; intro i.
  rewrite N.land_spec, testbit_mask32, N.pow2_bits_eqb.
  destruct (N.eqb_spec s i); [|reflexivity]. subst. destruct (N.ltb_spec i 32); [reflexivity|lia].
Qed.


Lemma testbit_pow2 k i : N.testbit (2 ^ k) i = (k =? i).
Proof. apply N.pow2_bits_eqb. Qed.

Lemma testbit_ones k i : N.testbit (N.ones k) i = (i <? k).
Proof.
  destruct (N.ltb_spec i k); [apply N.ones_spec_low | apply N.ones_spec_high]; lia.
Qed.

Lemma testbit_shiftl a n i : N.testbit (N.shiftl a n) i = (n <=? i) && N.testbit a (i - n).
Proof.
  destruct (N.leb_spec n i).
  - rewrite N.shiftl_spec_high' by lia. reflexivity.
  - rewrite N.shiftl_spec_low by lia. reflexivity.
Qed.

(* a*2^n + b with b < 2^n has the bits of a above n and the bits of b below *)
Lemma add_shiftl_lor a n b : b < 2 ^ n -> N.shiftl a n + b = N.lor (N.shiftl a n) b.
Proof.
  intro Hb.
  assert (Z0 : N.land (N.shiftl a n) b = 0).
  { apply N.bits_inj; intro i. rewrite N.land_spec, testbit_shiftl, N.bits_0.
    destruct (N.leb_spec n i); [|reflexivity].
    rewrite (testbit_small b n i) by lia. apply andb_false_r. }
  rewrite N.add_nocarry_lxor by exact Z0. apply N.lxor_lor. exact Z0.
Qed.
