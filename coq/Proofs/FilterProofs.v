(* The two strategies of the proposal rules agree: what the committer's filter keeps is
   accepted unchanged by a receiver; a receiver never drops anything; by-value offenders are
   never committed. *)
From Coq Require Import NArith List Bool Arith Lia.
From MlsV Require Import Filter.
Import ListNotations.
Local Open Scope N_scope.

(* ---- sublists ---- *)
Inductive sub {A} : list A -> list A -> Prop :=
| sub_nil : sub [] []
| sub_skip x l' l : sub l' l -> sub l' (x :: l)
| sub_keep x l' l : sub l' l -> sub (x :: l') (x :: l).

Lemma sub_refl {A} (l : list A) : sub l l.
Proof. induction l; constructor; assumption. Qed.
Lemma sub_nil_l {A} (l : list A) : sub [] l.
Proof. induction l; constructor; assumption. Qed.
Lemma sub_trans {A} (a b c : list A) : sub a b -> sub b c -> sub a c.
Proof.
  intros H1 H2. revert a H1. induction H2 as [|x b c H IH|x b c H IH]; intros a H1.
  - exact H1.
  - constructor. apply IH. exact H1.
  - inversion H1; subst; [constructor; apply IH; assumption|constructor; apply IH; assumption].
Qed.
Lemma sub_filter {A} (f : A -> bool) l : sub (filter f l) l.
Proof. induction l as [|x r IH]; cbn [filter]; [constructor|]. destruct (f x); constructor; exact IH. Qed.
Lemma sub_in {A} (a b : list A) x : sub a b -> In x a -> In x b.
Proof. induction 1 as [|y a b H IH|y a b H IH]; intro I; [exact I|right; apply IH; exact I|destruct I as [<-|I]; [left; reflexivity|right; apply IH; exact I]]. Qed.
Lemma forallb_sub {A} (f : A -> bool) a b : sub a b -> forallb f b = true -> forallb f a = true.
Proof.
  induction 1 as [|y a b H IH|y a b H IH]; cbn [forallb]; intro F; [reflexivity| |].
  - apply andb_true_iff in F. apply IH. apply F.
  - apply andb_true_iff in F. destruct F as [F1 F2]. rewrite F1. apply IH. exact F2.
Qed.
Lemma sub_length {A} (a b : list A) : sub a b -> (length a <= length b)%nat.
Proof. induction 1; cbn [length]; lia. Qed.
Lemma sub_same_length {A} (a b : list A) : sub a b -> length a = length b -> a = b.
Proof.
  induction 1 as [|y a b H IH|y a b H IH]; cbn [length]; intro E; [reflexivity| |].
  - pose proof (sub_length _ _ H). lia.
  - f_equal. apply IH. lia.
Qed.
Lemma sub_map_filter {A B} (f : A -> B) (g : A -> bool) l : sub (map f (filter g l)) (map f l).
Proof. induction l as [|x r IH]; cbn [filter map]; [constructor|]. destruct (g x); cbn [map]; constructor; exact IH. Qed.

(* ---- retain ---- *)
Lemma retain_none l l' : retain IgnoreNone l = Some l' -> l' = map fst l /\ forallb snd l = true.
Proof.
  revert l'. induction l as [|[p ok] r IH]; intros l'; cbn [retain map fst forallb snd]; [intro E; split; congruence|].
  destruct (retain IgnoreNone r) as [r'|]; [|discriminate]. destruct ok; [|discriminate].
  intro E. destruct (IH r' eq_refl) as [-> F]. split; [congruence|exact F].
Qed.
Lemma retain_all_ok st l : forallb snd l = true -> retain st l = Some (map fst l).
Proof.
  induction l as [|[p ok] r IH]; cbn [retain map fst forallb snd]; [reflexivity|]. intro F.
  apply andb_true_iff in F. destruct F as [-> F]. rewrite (IH F). reflexivity.
Qed.
Lemma retain_byref l l' : retain IgnoreByRef l = Some l' ->
  l' = map fst (filter snd l) /\ forallb (fun x => snd x || p_by_ref (fst x)) l = true.
Proof.
  revert l'. induction l as [|[p ok] r IH]; intros l'; cbn [retain map fst filter forallb snd]; [intro E; split; congruence|].
  destruct (retain IgnoreByRef r) as [r'|]; [|discriminate]. destruct (IH r' eq_refl) as [-> F]. destruct ok; cbn [orb map fst].
  - intro E. split; [congruence|exact F].
  - destruct (p_by_ref p); [|discriminate]. intro E. split; [congruence|exact F].
Qed.

(* ---- stages ---- *)
Record stage := { run : strategy -> list prop -> option (list prop); pass : list prop -> bool }.

Record lawful_last (s : stage) : Prop := {
  law_sub : forall l l', run s IgnoreByRef l = Some l' -> sub l' l;
  law_pass : forall l l', run s IgnoreByRef l = Some l' -> pass s l' = true;
  law_id : forall st l, pass s l = true -> run s st l = Some l;
  law_none : forall l l', run s IgnoreNone l = Some l' -> l' = l /\ pass s l = true
}.
Record lawful (s : stage) : Prop := {
  law_last : lawful_last s;
  law_closed : forall l l', pass s l = true -> sub l' l -> pass s l' = true
}.

Fixpoint run_all (ss : list stage) (st : strategy) (l : list prop) : option (list prop) :=
  match ss with [] => Some l | s :: r => obind (run s st l) (run_all r st) end.

Lemma run_all_prefix ss : Forall lawful ss -> forall l m, run_all ss IgnoreByRef l = Some m ->
  sub m l /\ forall st m', sub m' m -> run_all ss st m' = Some m'.
Proof.
  induction 1 as [|s r Ls Lr IH]; intros l m; cbn [run_all].
  - intro E. assert (m = l) by congruence. subst. split; [apply sub_refl|]. intros; reflexivity.
  - destruct (run s IgnoreByRef l) as [l1|] eqn:E1; cbn [obind]; [|discriminate]. intro E.
    destruct (IH l1 m E) as [S1 K]. destruct Ls as [[Lsub Lpass Lid Lnone] Lclosed]. split.
    + eapply sub_trans; [exact S1|]. apply Lsub. exact E1.
    + intros st m' Sm. assert (P : pass s m' = true).
      { apply (Lclosed l1 m'); [apply (Lpass l l1 E1)|]. eapply sub_trans; eassumption. }
      rewrite (Lid st m' P). cbn [obind]. apply K. exact Sm.
Qed.

Lemma run_all_app ss t : forall st x, run_all (ss ++ [t]) st x = obind (run_all ss st x) (run t st).
Proof.
  induction ss as [|s r IHs]; intros st x; cbn [app run_all obind].
  - destruct (run t st x); reflexivity.
  - destruct (run s st x) as [y|]; cbn [obind]; [apply IHs|reflexivity].
Qed.

(* the committer's result is accepted, unchanged, by the receiver's strategy *)
Theorem strategies_agree ss t : Forall lawful ss -> lawful_last t -> forall l k,
  run_all (ss ++ [t]) IgnoreByRef l = Some k -> run_all (ss ++ [t]) IgnoreNone k = Some k /\ sub k l.
Proof.
  intros Ls Lt l k E.
  pose proof (run_all_app ss t) as Split.
  rewrite Split in E. destruct (run_all ss IgnoreByRef l) as [m|] eqn:Em; cbn [obind] in E; [|discriminate].
  destruct (run_all_prefix ss Ls l m Em) as [Sm K]. destruct Lt as [Lsub Lpass Lid Lnone].
  pose proof (Lsub m k E) as Sk. split; [|eapply sub_trans; eassumption].
  rewrite Split, (K IgnoreNone k Sk). cbn [obind]. apply Lid. eapply Lpass. exact E.
Qed.

(* a receiver never drops anything *)
Theorem receiver_keeps_all ss : Forall (fun s => lawful_last s) ss -> forall l k,
  run_all ss IgnoreNone l = Some k -> k = l.
Proof.
  induction 1 as [|s r Ls Lr IH]; intros l k; cbn [run_all]; [congruence|].
  destruct (run s IgnoreNone l) as [l1|] eqn:E1; cbn [obind]; [|discriminate].
  destruct (law_none s Ls l l1 E1) as [-> _]. apply IH.
Qed.

(* ---- the pointwise stage ---- *)
Definition st_pw (v : prop -> bool) : stage := {| run := stage_pw v; pass := pass_pw v |}.

Lemma map_fst_pair (v : prop -> bool) l : map fst (map (fun p => (p, v p)) l) = l.
Proof. induction l as [|x r IH]; cbn [map fst]; [reflexivity|rewrite IH; reflexivity]. Qed.
Lemma forallb_snd_pair (v : prop -> bool) l : forallb snd (map (fun p => (p, v p)) l) = forallb v l.
Proof. induction l as [|x r IH]; cbn [map forallb snd]; [reflexivity|rewrite IH; reflexivity]. Qed.
Lemma filter_snd_pair (v : prop -> bool) l : map fst (filter snd (map (fun p => (p, v p)) l)) = filter v l.
Proof. induction l as [|x r IH]; cbn [map filter snd]; [reflexivity|]. destruct (v x); cbn [map fst]; rewrite IH; reflexivity. Qed.
Lemma forallb_filter {A} (f : A -> bool) l : forallb f (filter f l) = true.
Proof. induction l as [|x r IH]; cbn [filter]; [reflexivity|]. destruct (f x) eqn:E; [cbn [forallb]; rewrite E; exact IH|exact IH]. Qed.

Lemma pw_lawful v : lawful (st_pw v).
Proof.
  split; [split|]; cbn [run pass st_pw]; unfold stage_pw, pass_pw.
  - intros l l' E. apply retain_byref in E. destruct E as [-> _]. rewrite filter_snd_pair. apply sub_filter.
  - intros l l' E. apply retain_byref in E. destruct E as [-> _]. rewrite filter_snd_pair. apply forallb_filter.
  - intros st l P. rewrite retain_all_ok by (rewrite forallb_snd_pair; exact P). rewrite map_fst_pair. reflexivity.
  - intros l l' E. apply retain_none in E. destruct E as [-> F]. rewrite map_fst_pair, forallb_snd_pair in *. split; [reflexivity|exact F].
  - intros l l' P S. eapply forallb_sub; eassumption.
Qed.

(* ---- the first-wins stage ---- *)
Definition st_first key base : stage := {| run := stage_first key base; pass := pass_first key base |}.

Definition keys_of (key : prop -> option N) (l : list prop) : list N :=
  concat (map (fun p => match key p with Some k => [k] | None => [] end) l).

(* all verdicts true <-> every keyed proposal is fine by itself and its key is new *)
Lemma scan_first_ok key base : forall l seen,
  forallb snd (scan_first key base seen l) = true <->
  (forall p k, In p l -> key p = Some k -> base p = true) /\
  NoDup (keys_of key l) /\ (forall k, In k (keys_of key l) -> ~ In k seen).
Proof.
  induction l as [|p r IH]; intro seen; cbn [scan_first forallb keys_of map concat].
  - split; [intros _; repeat split; [intros ? ? []|constructor|intros ? []]|reflexivity].
  - destruct (key p) as [k|] eqn:Ek; cbn [forallb snd app].
    + fold (keys_of key r). specialize (IH (k :: seen)). split.
      * intro H. apply andb_true_iff in H. destruct H as [H1 H2]. apply andb_true_iff in H1. destruct H1 as [Hb Hn].
        apply negb_true_iff in Hn. apply IH in H2. destruct H2 as (A & B & C). repeat split.
        -- intros q k' [<-|I] Eq; [exact Hb|exact (A q k' I Eq)].
        -- constructor; [|exact B]. intro I. apply (C k I). left. reflexivity.
        -- intros k' [<-|I] Is.
           ++ assert (existsb (N.eqb k) seen = true); [|congruence]. apply existsb_exists. exists k. split; [exact Is|apply N.eqb_refl].
           ++ apply (C k' I). right. exact Is.
      * intros (A & B & C). inversion B as [|? ? Nk Bd]; subst. apply andb_true_iff. split; [apply andb_true_iff; split|].
        -- apply (A p k); [left; reflexivity|exact Ek].
        -- apply negb_true_iff. destruct (existsb (N.eqb k) seen) eqn:Ex; [|reflexivity]. apply existsb_exists in Ex. destruct Ex as (x & Ix & Ex).
           apply N.eqb_eq in Ex. subst x. exfalso. apply (C k); [left; reflexivity|exact Ix].
        -- apply IH. repeat split.
           ++ intros q k' I Eq. apply (A q k'); [right; exact I|exact Eq].
           ++ exact Bd.
           ++ intros k' I [<-|Is]; [contradiction|]. apply (C k'); [right; exact I|exact Is].
    + fold (keys_of key r). specialize (IH seen). split.
      * intro H. apply IH in H. destruct H as (A & B & C). repeat split; [|exact B|exact C]. intros q k' [<-|I] Eq; [congruence|exact (A q k' I Eq)].
      * intros (A & B & C). apply IH. repeat split; [|exact B|exact C]. intros q k' I Eq. apply (A q k'); [right; exact I|exact Eq].
Qed.

Lemma keys_sub key a b : sub a b -> sub (keys_of key a) (keys_of key b).
Proof.
  induction 1 as [|x a b H IH|x a b H IH]; cbn [keys_of map concat]; [constructor| |].
  - fold (keys_of key a) (keys_of key b). destruct (key x); cbn [app]; [constructor|]; exact IH.
  - fold (keys_of key a) (keys_of key b). destruct (key x); cbn [app]; [constructor|]; exact IH.
Qed.
Lemma nodup_sub {A} (a b : list A) : sub a b -> NoDup b -> NoDup a.
Proof.
  induction 1 as [|x a b H IH|x a b H IH]; intro N; [constructor| |].
  - inversion N; subst. apply IH. assumption.
  - inversion N as [|? ? Nx Nb]; subst. constructor; [|apply IH; exact Nb]. intro I. apply Nx. eapply sub_in; eassumption.
Qed.

(* the proposals kept by the scan, scanned again (with fewer keys seen), are all fine *)
Lemma scan_first_kept key base : forall l seen seen',
  (forall k, In k seen' -> In k seen) ->
  forallb snd (scan_first key base seen' (map fst (filter snd (scan_first key base seen l)))) = true.
Proof.
  induction l as [|p r IH]; intros seen seen' Hs; cbn [scan_first filter map fst forallb]; [reflexivity|].
  destruct (key p) as [k|] eqn:Ek; cbn [filter snd].
  - destruct (base p && negb (existsb (N.eqb k) seen)) eqn:V; cbn [map fst scan_first].
    + rewrite Ek. cbn [forallb snd]. apply andb_true_iff in V. destruct V as [Vb Vn]. rewrite Vb. cbn [andb].
      assert (existsb (N.eqb k) seen' = false) as ->.
      { destruct (existsb (N.eqb k) seen') eqn:Ex; [|reflexivity]. apply existsb_exists in Ex. destruct Ex as (x & Ix & Ex).
        apply N.eqb_eq in Ex. subst x. apply negb_true_iff in Vn.
        assert (existsb (N.eqb k) seen = true); [|congruence]. apply existsb_exists. exists k. split; [apply Hs; exact Ix|apply N.eqb_refl]. }
      cbn [negb andb]. apply IH. intros k' [<-|I]; [left; reflexivity|right; apply Hs; exact I].
    + apply IH. intros k' I. right. apply Hs. exact I.
  - cbn [map fst scan_first]. rewrite Ek. cbn [forallb snd andb]. apply IH. exact Hs.
Qed.

Lemma map_fst_scan_first key base : forall l seen, map fst (scan_first key base seen l) = l.
Proof. induction l as [|p r IH]; intro seen; cbn [scan_first map fst]; [reflexivity|]. destruct (key p); cbn [map fst]; rewrite IH; reflexivity. Qed.

Lemma kept_sub key base seen l : sub (map fst (filter snd (scan_first key base seen l))) l.
Proof. pose proof (sub_map_filter fst snd (scan_first key base seen l)) as H. rewrite map_fst_scan_first in H. exact H. Qed.

Lemma first_lawful key base : lawful (st_first key base).
Proof.
  split; [split|]; cbn [run pass st_first]; unfold stage_first, pass_first.
  - intros l l' E. apply retain_byref in E. destruct E as [-> _].
    apply kept_sub.
  - intros l l' E. apply retain_byref in E. destruct E as [-> _]. apply scan_first_kept. intros k I. exact I.
  - intros st l P. rewrite retain_all_ok by exact P. rewrite map_fst_scan_first. reflexivity.
  - intros l l' E. apply retain_none in E. destruct E as [-> F]. rewrite map_fst_scan_first. split; [reflexivity|exact F].
  - intros l l' P S. apply scan_first_ok in P. destruct P as (A & B & C). apply scan_first_ok. repeat split.
    + intros p k I Ek. apply (A p k); [eapply sub_in; eassumption|exact Ek].
    + eapply nodup_sub; [apply keys_sub; exact S|exact B].
    + intros k I [].
Qed.

(* ---- re-init travels alone ---- *)
Definition st_reinit : stage := {| run := stage_reinit; pass := pass_reinit |}.

Lemma filter_sub_len {A} (f : A -> bool) a b : sub a b -> (length (filter f a) <= length (filter f b))%nat.
Proof. intro S. apply sub_length. clear -S. induction S as [|x a b H IH|x a b H IH]; cbn [filter]; [constructor| |]; destruct (f x); try constructor; exact IH. Qed.

Lemma reinit_lawful : lawful st_reinit.
Proof.
  split; [split|]; cbn [run pass st_reinit]; unfold stage_reinit, pass_reinit.
  - intros l l'. destruct (filter is_reinit l) as [|r0 rr] eqn:Er; [intro E; assert (l' = l) by congruence; subst; apply sub_refl|].
    destruct (Nat.eqb (length l) 1); [intro E; assert (l' = l) by congruence; subst; apply sub_refl|].
    destruct (existsb _ _); [discriminate|]. destruct (Nat.ltb _ _); intro E.
    + assert (l' = filter (fun p => negb (is_reinit p)) l) by congruence. subst. apply sub_filter.
    + assert (l' = firstn 1 l) by congruence. subst. destruct l as [|x r]; cbn [firstn]; [constructor|]. apply sub_keep. apply sub_nil_l.
  - intros l l'. destruct (filter is_reinit l) as [|r0 rr] eqn:Er.
    + intro E. assert (l' = l) by congruence. subst. rewrite Er. reflexivity.
    + destruct (Nat.eqb (length l) 1) eqn:E1.
      * intro E. assert (l' = l) by congruence. subst. rewrite Er. exact E1.
      * destruct (existsb _ _); [discriminate|]. destruct (Nat.ltb _ _) eqn:Lt; intro E.
        -- assert (l' = filter (fun p => negb (is_reinit p)) l) by congruence. subst.
           assert (filter is_reinit (filter (fun p => negb (is_reinit p)) l) = []) as ->; [|reflexivity].
           clear. induction l as [|x r IH]; cbn [filter]; [reflexivity|]. destruct (is_reinit x) eqn:Ex; cbn [negb filter]; [exact IH|rewrite Ex; exact IH].
        -- assert (l' = firstn 1 l) by congruence. subst. destruct l as [|x r]; cbn [firstn filter]; [reflexivity|].
           destruct (is_reinit x); reflexivity.
  - intros st l P. destruct (filter is_reinit l) as [|r0 rr]; [reflexivity|]. rewrite P. reflexivity.
  - intros l l'. destruct (filter is_reinit l) as [|r0 rr] eqn:Er; [intro E; split; [congruence|reflexivity]|].
    destruct (Nat.eqb (length l) 1) eqn:E1; [intro E; split; [congruence|reflexivity]|].
    destruct (existsb _ _); discriminate.
  - intros l l' P S. destruct (filter is_reinit l') as [|r0 rr] eqn:Er'; [reflexivity|].
    destruct (filter is_reinit l) as [|q0 qq] eqn:Er.
    + pose proof (filter_sub_len is_reinit _ _ S) as Ln. rewrite Er, Er' in Ln. cbn [length] in Ln. lia.
    + apply Nat.eqb_eq in P. apply Nat.eqb_eq. pose proof (sub_length _ _ S) as Ln.
      assert (length l' <> 0)%nat; [|lia]. intro Z. destruct l'; [discriminate|discriminate].
Qed.

(* ---- first-wins scans that start from keys fixed by the list itself (batch_edit) ---- *)
Lemma scan_first_mono key base : forall l seen seen',
  (forall k, In k seen' -> In k seen) ->
  forallb snd (scan_first key base seen l) = true -> forallb snd (scan_first key base seen' l) = true.
Proof.
  intros l seen seen' Hs P. apply scan_first_ok in P. destruct P as (A & B & C). apply scan_first_ok.
  repeat split; [exact A|exact B|]. intros k I Is. apply (C k I). apply Hs. exact Is.
Qed.

Lemma removed_leaves_sub a b : sub a b -> forall k, In k (removed_leaves a) -> In k (removed_leaves b).
Proof.
  induction 1 as [|x a b H IH|x a b H IH]; intros k; cbn [removed_leaves map concat]; [intros []| |].
  - fold (removed_leaves a) (removed_leaves b). intro I. apply in_or_app. right. apply IH. exact I.
  - fold (removed_leaves a) (removed_leaves b). intro I. apply in_app_or in I. apply in_or_app. destruct I as [I|I]; [left; exact I|right; apply IH; exact I].
Qed.

Lemma sub_rev {A} (a b : list A) : sub a b -> sub (rev a) (rev b).
Proof.
  assert (App : forall (x y u v : list A), sub x y -> sub u v -> sub (x ++ u) (y ++ v)).
  { intros x y u v S1 S2. induction S1; cbn [app]; [exact S2| |]; constructor; assumption. }
  induction 1 as [|x a b H IH|x a b H IH]; cbn [rev]; [constructor| |].
  - rewrite <- (app_nil_r (rev a)). apply App; [exact IH|apply sub_nil_l].
  - apply App; [exact IH|apply sub_refl].
Qed.

(* removes: the scan runs over the reversed list *)
Definition st_removes g : stage := {| run := stage_removes g; pass := pass_removes g |}.

Lemma removes_lawful g : lawful (st_removes g).
Proof.
  split; [split|]; cbn [run pass st_removes]; unfold stage_removes, pass_removes.
  - intros l l'. destruct (retain IgnoreByRef _) as [r|] eqn:E; [|discriminate]. intro E2. assert (l' = rev r) by congruence. subst.
    apply retain_byref in E. destruct E as [-> _]. rewrite <- (rev_involutive l) at 2. apply sub_rev. apply kept_sub.
  - intros l l'. destruct (retain IgnoreByRef _) as [r|] eqn:E; [|discriminate]. intro E2. assert (l' = rev r) by congruence. subst.
    apply retain_byref in E. destruct E as [-> _]. rewrite rev_involutive. apply scan_first_kept. intros k I; exact I.
  - intros st l P. rewrite retain_all_ok by exact P. rewrite map_fst_scan_first, rev_involutive. reflexivity.
  - intros l l'. destruct (retain IgnoreNone _) as [r|] eqn:E; [|discriminate]. intro E2. assert (l' = rev r) by congruence. subst.
    apply retain_none in E. destruct E as [-> F]. rewrite map_fst_scan_first, rev_involutive. split; [reflexivity|exact F].
  - intros l l' P S. apply scan_first_ok in P. destruct P as (A & B & C). apply scan_first_ok. repeat split.
    + intros p k I Ek. apply (A p k); [|exact Ek]. apply in_rev in I. apply -> in_rev. eapply sub_in; eassumption.
    + eapply nodup_sub; [apply keys_sub; apply sub_rev; exact S|exact B].
    + intros k I [].
Qed.

(* updates: keys already used = the leaves removed by the commit *)
Definition st_updates g : stage := {| run := stage_updates g; pass := pass_updates g |}.

Lemma updates_lawful g : lawful (st_updates g).
Proof.
  split; [split|]; cbn [run pass st_updates]; unfold stage_updates, pass_updates.
  - intros l l' E. apply retain_byref in E. destruct E as [-> _].
    apply kept_sub.
  - intros l l' E. apply retain_byref in E. destruct E as [-> _]. apply scan_first_kept.
    apply removed_leaves_sub. apply kept_sub.
  - intros st l P. rewrite retain_all_ok by exact P. rewrite map_fst_scan_first. reflexivity.
  - intros l l' E. apply retain_none in E. destruct E as [-> F]. rewrite map_fst_scan_first. split; [reflexivity|exact F].
  - intros l l' P S. apply (scan_first_mono _ _ l' (removed_leaves l)); [apply removed_leaves_sub; exact S|].
    apply scan_first_ok in P. destruct P as (A & B & C). apply scan_first_ok. repeat split.
    + intros p k I Ek. apply (A p k); [eapply sub_in; eassumption|exact Ek].
    + eapply nodup_sub; [apply keys_sub; exact S|exact B].
    + intros k I. apply C. eapply sub_in; [apply keys_sub; exact S|exact I].
Qed.

(* adds: the last pass; identities present = those of the leaves that are not removed *)
Definition st_adds g : stage := {| run := stage_adds g; pass := pass_adds g |}.

Lemma removed_leaves_kept_adds seen l :
  removed_leaves (map fst (filter snd (scan_first add_key (fun _ => true) seen l))) = removed_leaves l.
Proof.
  revert seen. induction l as [|p r IH]; intro seen; cbn [scan_first filter map fst removed_leaves concat]; [reflexivity|].
  unfold add_key at 1. destruct (p_body p) eqn:Eb; cbn [filter snd map fst removed_leaves concat];
    try (fold (removed_leaves r); rewrite Eb; f_equal; apply IH).
  (* an Add: kept or not, it removes no leaf *)
  destruct (true && negb (existsb (N.eqb who) seen)); cbn [filter snd map fst removed_leaves concat map];
    fold (removed_leaves r); [rewrite Eb|]; cbn [app]; apply IH.
Qed.

Lemma adds_lawful_last g : lawful_last (st_adds g).
Proof.
  split; cbn [run pass st_adds]; unfold stage_adds, pass_adds.
  - intros l l' E. apply retain_byref in E. destruct E as [-> _].
    apply kept_sub.
  - intros l l' E. apply retain_byref in E. destruct E as [-> _]. rewrite removed_leaves_kept_adds.
    apply scan_first_kept. intros k I; exact I.
  - intros st l P. rewrite retain_all_ok by exact P. rewrite map_fst_scan_first. reflexivity.
  - intros l l' E. apply retain_none in E. destruct E as [-> F]. rewrite map_fst_scan_first. split; [reflexivity|exact F].
Qed.

(* ---- the pipeline of the code is such a sequence of stages ---- *)
Definition stages (g : gctx) : list stage :=
  [st_pw kind_allowed; st_pw (not_update_of (committer g)); st_pw (not_remove_of (committer g));
   st_first psk_key psk_base; st_pw gce_ok; st_first gce_key (fun _ => true); st_pw reinit_ok; st_reinit;
   st_pw no_ext_init; st_pw custom_ok; st_pw node_ok; st_removes g; st_updates g].

Lemma pipeline_is_stages g st l : pipeline g st l = run_all (stages g ++ [st_adds g]) st l.
Proof.
  unfold pipeline, stages. cbn [app run_all run st_pw st_first st_reinit st_removes st_updates st_adds].
  repeat match goal with
         | |- obind ?x _ = obind ?x _ => destruct x as [?l|]; cbn [obind]; [|reflexivity]
         end.
  match goal with |- ?x = obind ?x _ => destruct x; reflexivity end.
Qed.

Lemma stages_lawful g : Forall lawful (stages g).
Proof.
  unfold stages.
  repeat (apply Forall_cons; [first [apply pw_lawful | apply first_lawful | apply reinit_lawful | apply removes_lawful | apply updates_lawful]|]).
  apply Forall_nil.
Qed.

Lemma all_stages_lawful g : Forall lawful (stages g) /\ lawful_last (st_adds g).
Proof. split; [apply stages_lawful|apply adds_lawful_last]. Qed.

(* C10: whatever the committer's filter keeps is accepted, unchanged, by every receiver *)
Theorem committer_and_receiver_agree g l k :
  pipeline g IgnoreByRef l = Some k -> pipeline g IgnoreNone k = Some k /\ sub k l.
Proof. rewrite !pipeline_is_stages. apply strategies_agree; [apply stages_lawful|apply adds_lawful_last]. Qed.

(* a receiver applies everything or nothing *)
Theorem receiver_applies_all_or_nothing g l k : pipeline g IgnoreNone l = Some k -> k = l.
Proof.
  rewrite pipeline_is_stages. apply receiver_keeps_all. apply Forall_app. split.
  - eapply Forall_impl; [|apply stages_lawful]. intros s L. apply L.
  - constructor; [apply adds_lawful_last|constructor].
Qed.

(* what the committer drops came in by reference: an offending by-value proposal makes the build fail *)
Lemma retain_drops_by_ref l l' : retain IgnoreByRef l = Some l' ->
  forall p ok, In (p, ok) l -> ~ In p l' -> p_by_ref p = true.
Proof.
  intros E p ok I N. apply retain_byref in E. destruct E as [-> F]. rewrite forallb_forall in F.
  specialize (F (p, ok) I). cbn [fst snd] in F. destruct ok.
  - exfalso. apply N. apply in_map_iff. exists (p, true). split; [reflexivity|]. apply filter_In. split; [exact I|reflexivity].
  - exact F.
Qed.
