(* The hash cache through a commit: the proposals of a commit change the tree only at the removed, updated and
   added leaves and at their ancestors, the update path only at the committer's leaf and its ancestors; these are
   the leaves batch_edit and the path code list for update_hashes, so the cache that was right before the commit
   is right after it (Proofs/HashCacheProofs.v update_hashes_keeps_the_cache). *)
From Coq Require Import NArith Arith List Bool Lia.
From MlsV Require Import Res TreeMathGen BitsN TreeMathProofs Tree TreeProofs TreeWF Kem Priv PrivProofs Decap DecapProofs TreeWF5 PrivComplete ParentHash HashCache HashCacheProofs.
Import ListNotations.
Local Open Scope N_scope.

Lemma remove_frame t l t1 t2 : small t -> blank_leaf t l = TOk t1 -> blank_direct_path t1 l = TOk t2 ->
  forall n, n <> 2 * l -> ~ ancestor n l -> get t2 n = get t n.
Proof.
  intros Sm B1 B2 n Nn Na.
  unfold blank_leaf in B1. destruct (get t (2 * l)) as [[x|um]|] eqn:G; try discriminate. assert (t1 = set t (2 * l) None) by congruence. subst t1.
  unfold blank_direct_path in B2. destruct (path_nodes (set t (2 * l) None) l) as [path| |] eqn:P; cbn [lift tbind] in B2; try discriminate.
  assert (t2 = blank_nodes (set t (2 * l) None) path) by congruence. subst t2.
  rewrite get_blank_nodes.
  destruct (existsb (N.eqb n) path) eqn:Ex.
  - exfalso. apply existsb_exists in Ex. destruct Ex as (y & Iy & Ey). apply N.eqb_eq in Ey. subst y.
    pose proof (get_some_lt _ _ _ G) as Lt.
    pose proof (path_nodes_ancestors (set t (2 * l) None) l path ltac:(unfold small; rewrite set_length; exact Sm) ltac:(rewrite set_length; lia) P) as F.
    rewrite Forall_forall in F. exact (Na (F n Iy)).
  - unfold set. rewrite get_set_at. destruct (Nat.eqb_spec (N.to_nat n) (N.to_nat (2 * l))) as [E|_]; [lia|reflexivity].
Qed.

Lemma touched_cons l ls n : touched (l :: ls) n <-> (n = 2 * l \/ ancestor n l) \/ touched ls n.
Proof.
  split.
  - intros (x & [<-|I] & H); [left; exact H|right; exists x; split; assumption].
  - intros [H|(x & I & H)]; [exists l; split; [left; reflexivity|exact H]|exists x; split; [right; exact I|exact H]].
Qed.

Lemma touched_app a b n : touched (a ++ b) n <-> touched a n \/ touched b n.
Proof.
  split.
  - intros (x & I & H). apply in_app_or in I. destruct I as [I|I]; [left|right]; exists x; split; assumption.
  - intros [(x & I & H)|(x & I & H)]; exists x; (split; [apply in_or_app; auto|exact H]).
Qed.

Lemma apply_removes_frame rs : forall t t', small t -> apply_removes t rs = TOk t' ->
  forall n, ~ touched rs n -> get t' n = get t n.
Proof.
  induction rs as [|r rest IH]; intros t t' Sm A n Nt; cbn [apply_removes] in A; [assert (t' = t) by congruence; subst; reflexivity|].
  destruct (blank_leaf t r) as [ta| |] eqn:B1; cbn [tbind] in A; try discriminate.
  destruct (blank_direct_path ta r) as [tb| |] eqn:B2; cbn [tbind] in A; try discriminate.
  rewrite touched_cons in Nt.
  rewrite (IH tb t') by (try exact A; try (unfold small; rewrite (blank_direct_path_length _ _ _ B2), (blank_leaf_length _ _ _ B1); exact Sm); tauto).
  apply (remove_frame t r ta tb Sm B1 B2); tauto.
Qed.

Lemma apply_adds_frame ids : forall t start acc t' added,
  tlen t + 2 * N.of_nat (length ids) < 2 ^ 25 -> 2 * start <= tlen t + 1 ->
  apply_adds t ids start acc = TOk (t', added) ->
  exists news, added = rev acc ++ news /\ forall n, ~ touched news n -> get t' n = get t n.
Proof.
  induction ids as [|id rest IH]; intros t start acc t' added S Hs A; cbn [apply_adds] in A.
  - exists []. split; [rewrite app_nil_r; congruence|]. intros n _. assert (t' = t) by congruence. subst. reflexivity.
  - destruct (add_leaf t id start) as [[t1 idx]| |] eqn:Ad; cbn [tbind] in A; try discriminate.
    cbn [length] in S.
    pose proof (add_leaf_length _ _ _ _ _ Ad) as L1.
    pose proof (add_leaf_index _ _ _ _ _ Ad) as Ei.
    assert (Hi : 2 * idx <= tlen t1 + 1).
    { unfold add_leaf in Ad. fold (next_empty_leaf t start) in Ad. rewrite <- Ei in Ad.
      destruct (N.ltb_spec (2 * idx) (tlen (insert_leaf t idx (Leaf id)))) as [Lt|]; cbn [negb] in Ad; [|discriminate].
      destruct (lift (path_nodes _ _)) as [path| |]; cbn [tbind] in Ad; try discriminate.
      destruct (update_unmerged _ _ path) as [t2| |] eqn:U; cbn [tbind] in Ad; try discriminate.
      assert (t1 = t2) by congruence. subst. apply update_unmerged_length in U. lia. }
    destruct (add_leaf_rel t id start t1 idx ltac:(lia) Hs Ad) as (_ & _ & _ & Fr).
    destruct (IH t1 idx (idx :: acc) t' added ltac:(lia) Hi A) as (news & En & Fn).
    exists (idx :: news). split; [rewrite En; cbn [rev]; rewrite <- app_assoc; reflexivity|].
    intros n Nt. rewrite touched_cons in Nt. rewrite Fn by tauto. apply Fr; tauto.
Qed.

(* the proposals of a commit change nothing outside the leaves batch_edit lists for update_hashes *)
Theorem batch_edit_frame t removes updates adds t' added :
  tlen t + 2 * N.of_nat (length adds) < 2 ^ 25 ->
  batch_edit t removes updates adds = TOk (t', added) ->
  forall n, ~ touched (removes ++ map fst updates ++ added) n -> get t' n = get t n.
Proof.
  intros S B n Nt. unfold batch_edit in B.
  destruct (apply_removes t (rev removes)) as [ta| |] eqn:R1; cbn [tbind] in B; try discriminate.
  destruct (apply_updates ta updates) as [tb| |] eqn:U; cbn [tbind] in B; try discriminate.
  destruct (blank_paths tb (map fst updates)) as [tc| |] eqn:Bp; cbn [tbind] in B; try discriminate.
  destruct (apply_adds tc adds 0 []) as [[td ad]| |] eqn:Ad; cbn [tbind] in B; try discriminate.
  assert (t' = trim td) by congruence. assert (ad = added) by congruence. subst t' ad.
  assert (Sm : small t) by (unfold small; lia).
  pose proof (apply_removes_length _ _ _ R1) as La.
  pose proof (apply_updates_length _ _ _ U) as Lb.
  pose proof (blank_paths_length _ _ _ Bp) as Lc.
  rewrite !touched_app in Nt.
  rewrite get_trim.
  destruct (apply_adds_frame adds tc 0 [] td added ltac:(lia) ltac:(lia) Ad) as (news & En & Fn).
  cbn [rev app] in En. subst news. rewrite Fn by tauto.
  rewrite (blank_paths_get (map fst updates) tb tc ltac:(unfold small; lia)
             ltac:(intros l Il; pose proof (apply_updates_in_tree _ _ _ U l Il); lia) Bp n)
    by (intros l Il A; apply Nt; right; left; exists l; split; [exact Il|right; exact A]).
  rewrite (apply_updates_get updates ta tb U n)
    by (intros l Il E; apply Nt; right; left; exists l; split; [exact Il|left; exact E]).
  apply (apply_removes_frame (rev removes) t ta Sm R1).
  intros (l & Il & H). apply Nt. left. exists l. split; [apply in_rev; exact Il|exact H].
Qed.

(* the update path changes nothing outside the committer's leaf and its ancestors *)
Theorem update_path_frame t sndr id t2 : small t -> apply_update_path t sndr id = TOk t2 ->
  forall n, ~ touched [sndr] n -> get t2 n = get t n.
Proof.
  intros Sm Ap n Nt.
  destruct (update_path_effect t sndr id t2 Sm Ap) as (dd & flt & Et & F0 & Lf & Ls & Off & On & Ofl).
  rewrite Off.
  - apply get_set_other. intro E. apply Nt. exists sndr. split; [left; reflexivity|left; congruence].
  - intros i _ Ei. apply Nt. exists sndr. split; [left; reflexivity|right]. rewrite Ei. apply ancestor_lvl. lia.
Qed.

Lemma touched_dirty ls nl k j : (j + 1) * 2 ^ N.of_nat (S k) <= nl ->
  touched ls (node (N.of_nat (S k)) j) -> dirty (filter (fun l => l <? nl) ls) (S k) j.
Proof.
  intros Hj (l & Il & [E|A]); [exfalso; exact (not_leaf_node _ _ _ E)|].
  apply ancestor_node in A. exists l. split; [|exact A].
  apply filter_In. split; [exact Il|]. apply N.ltb_lt.
  pose proof (pow2_pos (N.of_nat (S k))) as P.
  assert (l < (j + 1) * 2 ^ N.of_nat (S k)); [|lia].
  rewrite <- A. pose proof (N.mul_succ_div_gt l (2 ^ N.of_nat (S k)) ltac:(lia)). lia.
Qed.

Lemma touched_leaf ls l : touched ls (2 * l) -> In l ls.
Proof.
  intros (x & I & [E|(k & j & E & _)]); [assert (x = l) by lia; subst; exact I|].
  exfalso. pose proof (node_odd_S' k j) as O. rewrite <- E, N.even_mul in O. discriminate.
Qed.

(* any edit that stays within the listed leaves and their ancestors, payload included, keeps the cache right *)
Theorem cache_right_after_a_confined_edit pay pay' t t' c ls :
  small t' -> CacheOK pay t c ->
  (forall n, ~ touched ls n -> get t' n = get t n /\ (get t n <> None -> pay' n = pay n)) ->
  exists c', update_hashes pay' c t' ls = Ok c' /\ CacheOK pay' t' c'.
Proof.
  intros S' C Fr. apply (update_hashes_keeps_the_cache pay pay' t t' c ls S' C).
  - intros l _ _ Nl. unfold leaf_of. destruct (Fr (2 * l)) as [G P]; [intro T; apply Nl; apply touched_leaf; exact T|].
    rewrite G. destruct (get t (2 * l)) as [[id|um]|]; try reflexivity. rewrite P by discriminate. reflexivity.
  - intros k j Hj Nd. unfold parent_of. destruct (Fr (node (N.of_nat (S k)) j)) as [G P]; [intro T; apply Nd; apply touched_dirty; assumption|].
    rewrite G. destruct (get t (node (N.of_nat (S k)) j)) as [[id|um]|]; try reflexivity. rewrite P by discriminate. reflexivity.
Qed.

(* the cache through the proposals of a commit *)
Theorem cache_right_after_the_proposals pay pay' t removes updates adds t' added c :
  wf3 t -> tlen t + 2 * N.of_nat (length adds) < 2 ^ 25 ->
  batch_edit t removes updates adds = TOk (t', added) ->
  (forall n, ~ touched (removes ++ map fst updates ++ added) n -> get t n <> None -> pay' n = pay n) ->
  CacheOK pay t c ->
  exists c', update_hashes pay' c t' (removes ++ map fst updates ++ added) = Ok c' /\ CacheOK pay' t' c'.
Proof.
  intros W3 S B P C.
  assert (S' : small t').
  { destruct (wf3_batch_edit _ _ _ _ _ _ W3 S B) as [_ L1]. unfold small. lia. }
  apply (cache_right_after_a_confined_edit pay pay' t t' c _ S' C).
  intros n Nt. split; [apply (batch_edit_frame t removes updates adds t' added S B n Nt)|apply P; exact Nt].
Qed.

(* and through the update path *)
Theorem cache_right_after_the_update_path pay pay' t sndr id t2 c :
  small t -> small t2 -> apply_update_path t sndr id = TOk t2 ->
  (forall n, ~ touched [sndr] n -> get t n <> None -> pay' n = pay n) ->
  CacheOK pay t c ->
  exists c', update_hashes pay' c t2 [sndr] = Ok c' /\ CacheOK pay' t2 c'.
Proof.
  intros Sm S2 Ap P C.
  apply (cache_right_after_a_confined_edit pay pay' t t2 c [sndr] S2 C).
  intros n Nt. split; [apply (update_path_frame t sndr id t2 Sm Ap n Nt)|apply P; exact Nt].
Qed.
