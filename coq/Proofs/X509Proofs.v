From Coq Require Import NArith List Bool Lia.
From MlsV Require Import X509.
Import ListNotations.
Local Open Scope N_scope.

Lemma anchored_trusted roots t c : time_ok t c = true -> anchored roots t c = true -> trusted roots t c.
Proof.
  intros T A. unfold anchored in A. apply existsb_exists in A. destruct A as (x & I & E).
  apply andb_true_iff in E. destruct E as [E1 E2]. eapply tr_issued; [exact T|exact E1|]. apply tr_root; assumption.
Qed.

(* soundness: an accepted chain gives a leaf with a path of valid, correctly signed, CA-issued
   certificates up to a trust anchor *)
Theorem validate_sound roots t chain k :
  validate roots t chain = Some k ->
  exists leaf rest, chain = leaf :: rest /\ key leaf = k /\ trusted roots t leaf.
Proof.
  unfold validate. destruct chain as [|leaf rest]; [discriminate|].
  destruct (valid_from roots t (leaf :: rest)) eqn:V; [|discriminate]. intro E. exists leaf, rest.
  split; [reflexivity|]. split; [congruence|]. clear E.
  revert leaf V. induction rest as [|p r IH]; intros leaf V; cbn [valid_from] in V.
  - apply andb_true_iff in V. destruct V as [T A]. rewrite orb_false_r in A. apply anchored_trusted; assumption.
  - apply andb_true_iff in V. destruct V as [T A]. apply orb_true_iff in A. destruct A as [A|A].
    + apply anchored_trusted; assumption.
    + apply andb_true_iff in A. destruct A as [A1 A2]. eapply tr_issued; [exact T|exact A1|]. apply IH. exact A2.
Qed.

(* every rejection reason of the property, as consequences *)
Theorem expired_or_not_yet_valid_leaf_rejected roots x leaf rest :
  (x < nb leaf \/ na leaf < x) -> validate roots (Some x) (leaf :: rest) = None.
Proof.
  intro H. unfold validate. cbn [valid_from]. unfold time_ok.
  assert ((nb leaf <=? x) && (x <=? na leaf) = false) as ->; [|reflexivity].
  apply andb_false_iff. destruct H; [left; apply N.leb_gt; assumption|right; apply N.leb_gt; assumption].
Qed.

Theorem validity_period_is_inclusive (leaf : cert) x :
  nb leaf <= x <= na leaf -> time_ok (Some x) leaf = true.
Proof. intro H. unfold time_ok. apply andb_true_iff. split; apply N.leb_le; lia. Qed.

Theorem trusted_needs_signature_and_ca roots t c :
  trusted roots t c -> In c roots \/ exists p, issuer c = subject p /\ signed_with c = key p /\ ca p = true /\ trusted roots t p.
Proof.
  intro T. destruct T as [c I _|c p _ Ib Tp]; [left; exact I|right].
  unfold issued_by in Ib. apply andb_true_iff in Ib. destruct Ib as [Ib C]. apply andb_true_iff in Ib. destruct Ib as [A B].
  apply N.eqb_eq in A, B. exists p. repeat split; assumption.
Qed.

Theorem empty_chain_rejected roots t : validate roots t [] = None.
Proof. reflexivity. Qed.

Theorem no_time_means_no_expiry_check roots chain :
  forall x k, validate roots (Some x) chain = Some k -> validate roots None chain = Some k.
Proof.
  intros x k. unfold validate. destruct chain as [|leaf rest]; [discriminate|].
  assert (M : forall l, valid_from roots (Some x) l = true -> valid_from roots None l = true).
  { induction l as [|c r IH]; cbn [valid_from]; [discriminate|]. intro V. apply andb_true_iff in V. destruct V as [_ A].
    cbn [time_ok andb]. apply orb_true_iff in A. apply orb_true_iff. destruct A as [A|A].
    - left. unfold anchored in *.
      apply existsb_exists in A. destruct A as (y & I & E). apply existsb_exists. exists y. split; [exact I|].
      apply andb_true_iff in E. destruct E as [E _]. rewrite E. reflexivity.
    - right. destruct r as [|p r']; [discriminate|]. apply andb_true_iff in A. destruct A as [A1 A2]. rewrite A1. cbn [andb]. apply IH. exact A2. }
  destruct (valid_from roots (Some x) (leaf :: rest)) eqn:V; [|discriminate]. rewrite (M _ V). intro E; exact E.
Qed.

(* completeness for chains in issuer order: a leaf followed by its issuers in order, all valid at
   t, the last one issued by a valid trust anchor, is accepted *)
Inductive ordered_path (roots : list cert) (t : option N) : list cert -> Prop :=
| op_last c : time_ok t c = true -> anchored roots t c = true -> ordered_path roots t [c]
| op_cons c p r : time_ok t c = true -> issued_by c p = true -> ordered_path roots t (p :: r) -> ordered_path roots t (c :: p :: r).

Lemma valid_from_cons2 roots t c p r :
  valid_from roots t (c :: p :: r) = time_ok t c && (anchored roots t c || (issued_by c p && valid_from roots t (p :: r))).
Proof. reflexivity. Qed.

Theorem validate_complete roots t leaf rest :
  ordered_path roots t (leaf :: rest) -> validate roots t (leaf :: rest) = Some (key leaf).
Proof.
  intro O. unfold validate.
  assert (V : valid_from roots t (leaf :: rest) = true).
  { remember (leaf :: rest) as l eqn:E. clear E. induction O as [c T A|c p r T Ib O IH].
    - cbn [valid_from]. rewrite T, A. reflexivity.
    - rewrite valid_from_cons2, T, Ib, IH. cbn [andb]. apply orb_true_r. }
  rewrite V. reflexivity.
Qed.

(* certificates after the first anchored one are ignored *)
Theorem certificates_after_the_anchor_are_ignored roots t pre c extra1 extra2 :
  anchored roots t c = true ->
  valid_from roots t (pre ++ c :: extra1) = valid_from roots t (pre ++ c :: extra2).
Proof.
  intro A. induction pre as [|x pre IH]; cbn [app].
  - destruct extra1, extra2; cbn [valid_from]; rewrite A; reflexivity.
  - destruct pre as [|y pre']; cbn [app] in *; rewrite !valid_from_cons2, IH; reflexivity.
Qed.

(* a wrong signature, a wrong issuer name or a non-CA issuer anywhere before the anchor rejects *)
Theorem broken_link_rejected roots t c p rest :
  anchored roots t c = false -> issued_by c p = false -> valid_from roots t (c :: p :: rest) = false.
Proof. intros A I. rewrite valid_from_cons2, A, I. cbn [orb andb]. apply andb_false_r. Qed.

Theorem unknown_root_rejected t chain : validate [] t chain = None.
Proof.
  unfold validate. destruct chain as [|leaf rest]; [reflexivity|].
  assert (V : forall l, valid_from [] t l = false).
  { induction l as [|c r IH]; cbn [valid_from]; [reflexivity|]. unfold anchored. cbn [existsb orb].
    destruct r as [|p r']; [apply andb_false_r|]. fold (valid_from [] t (p :: r')). rewrite IH. rewrite !andb_false_r. reflexivity. }
  rewrite V. reflexivity.
Qed.

Lemma unknown_root_and_empty_chain roots t chain : validate [] t chain = None /\ validate roots t [] = None.
Proof. split; [apply unknown_root_rejected|apply empty_chain_rejected]. Qed.
