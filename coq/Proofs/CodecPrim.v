(* Primitive lemmas for the codec model: fixed-width integers, varint, length prefixes. *)
From Coq Require Import NArith List Bool Lia ZArith.
From MlsV Require Import Codec.
Import ListNotations.
Local Open Scope N_scope.
Ltac Zify.zify_post_hook ::= Z.div_mod_to_equations.
Arguments N.add : simpl never.
Arguments N.mul : simpl never.
Arguments N.div : simpl never.
Arguments N.modulo : simpl never.
Arguments N.pow : simpl never.
Arguments N.sub : simpl never.

Lemma pow256_pos w : 0 < 256 ^ w.
Proof. apply N.neq_0_lt_0, N.pow_nonzero. lia. Qed.

Lemma pow256_succ (w : nat) : 256 ^ N.of_nat (S w) = 256 * 256 ^ N.of_nat w.
Proof. rewrite Nnat.Nat2N.inj_succ, N.pow_succ_r'. reflexivity. Qed.

Lemma be_bytes_length w n : length (be_bytes w n) = w.
Proof. induction w; cbn [be_bytes length]; congruence. Qed.

Lemma be_value_acc l : forall acc, be_value l acc = acc * 256 ^ N.of_nat (length l) + be_value l 0.
Proof.
  induction l as [|b r IH]; intro acc.
  - cbn. lia.
  - cbn [be_value length]. rewrite IH, (IH (0 * 256 + b)), pow256_succ. lia.
Qed.

Lemma be_value_bound l : bytes_ok l -> be_value l 0 < 256 ^ N.of_nat (length l).
Proof.
  induction 1 as [|b r Hb Hr IH].
  - cbn. lia.
  - cbn [be_value length]. rewrite be_value_acc, pow256_succ.
    pose proof (pow256_pos (N.of_nat (length r))). nia.
Qed.

Lemma be_value_be_bytes w : forall n acc,
  be_value (be_bytes w n) acc = acc * 256 ^ N.of_nat w + n mod 256 ^ N.of_nat w.
Proof.
  induction w as [|w IH]; intros n acc.
  - cbn. rewrite N.mod_1_r. lia.
  - cbn [be_bytes be_value]. rewrite IH, pow256_succ.
    rewrite (N.mul_comm 256 (256 ^ N.of_nat w)).
    rewrite (N.mod_mul_r n (256 ^ N.of_nat w) 256) by (try apply N.pow_nonzero; lia).
    lia.
Qed.

Lemma be_bytes_ok w n : bytes_ok (be_bytes w n).
Proof.
  induction w; cbn [be_bytes]; constructor; auto.
  apply N.mod_upper_bound. lia.
Qed.

Lemma be_bytes_be_value l : forall acc,
  bytes_ok l -> be_bytes (length l) (be_value l acc) = l.
Proof.
  induction l as [|b r IH]; intros acc H; [reflexivity|].
  inversion H as [|? ? Hb Hr]; subst. cbn [length be_bytes be_value].
  rewrite IH by assumption. f_equal.
  rewrite be_value_acc. pose proof (be_value_bound r Hr).
  set (P := 256 ^ N.of_nat (length r)) in *. assert (0 < P) by apply pow256_pos.
  rewrite N.div_add_l by lia. rewrite (N.div_small (be_value r 0)) by assumption.
  rewrite N.add_0_r, N.add_comm, N.mod_add by lia. apply N.mod_small. assumption.
Qed.

Lemma take_n_app {A} (a b : list A) : take_n (length a) (a ++ b) = Some (a, b).
Proof.
  unfold take_n. rewrite app_length. replace (Nat.leb _ _) with true by (symmetry; apply Nat.leb_le; lia).
  rewrite firstn_app, Nat.sub_diag, firstn_all, skipn_app, Nat.sub_diag, skipn_all. cbn. rewrite !app_nil_r. reflexivity.
Qed.

Lemma take_n_spec {A} n (l h r : list A) : take_n n l = Some (h, r) -> l = h ++ r /\ length h = n.
Proof.
  unfold take_n. destruct (Nat.leb n (length l)) eqn:E; [|discriminate].
  intro H. inversion H; subst. split; [symmetry; apply firstn_skipn|].
  apply firstn_length_le. apply Nat.leb_le. assumption.
Qed.

Lemma bytes_ok_app a b : bytes_ok (a ++ b) <-> bytes_ok a /\ bytes_ok b.
Proof. unfold bytes_ok. apply Forall_app. Qed.

Lemma decode_uint_encode w n rest :
  n < 256 ^ N.of_nat w -> decode_uint w (be_bytes w n ++ rest) = DOk (n, rest).
Proof.
  intro H. unfold decode_uint.
  rewrite <- (be_bytes_length w n) at 1. rewrite take_n_app, be_value_be_bytes.
  rewrite N.mod_small by assumption. reflexivity.
Qed.

Lemma decode_uint_canon w bs n rest :
  bytes_ok bs -> decode_uint w bs = DOk (n, rest) ->
  bs = be_bytes w n ++ rest /\ n < 256 ^ N.of_nat w.
Proof.
  unfold decode_uint. intros Hok H. destruct (take_n w bs) as [[h r]|] eqn:E; [|discriminate].
  inversion H; subst. apply take_n_spec in E. destruct E as [-> <-].
  apply bytes_ok_app in Hok. destruct Hok as [Hh _].
  rewrite be_bytes_be_value by assumption. split; [reflexivity|apply be_value_bound; assumption].
Qed.

(* ---- arithmetic helpers ---- *)
Lemma mod_add_l a m : m <> 0 -> (m + a) mod m = a mod m.
Proof. intro. replace (m + a) with (a + 1 * m) by lia. apply N.mod_add. assumption. Qed.

Lemma div_add_small a b m : b < m -> (a * m + b) / m = a.
Proof. intro H. rewrite N.div_add_l by lia. rewrite N.div_small by assumption. lia. Qed.

Lemma mod_add_small a b m : b < m -> (a * m + b) mod m = b.
Proof. intro H. rewrite N.add_comm, N.mod_add by lia. apply N.mod_small. assumption. Qed.

Lemma v2 n : 64 <= n < 16384 -> (64 + n / 256) mod 64 * 256 + n mod 256 = n.
Proof.
  intros. rewrite mod_add_l by lia. rewrite (N.mod_small (n / 256) 64) by lia.
  pose proof (N.div_mod n 256 ltac:(lia)). lia.
Qed.

Lemma v4 n : 16384 <= n <= 1073741823 ->
  (((128 + n / 16777216) mod 64 * 256 + n / 65536 mod 256) * 256 + n / 256 mod 256) * 256 + n mod 256 = n.
Proof.
  intros. replace (128 + n / 16777216) with (64 + (64 + n / 16777216)) by lia. rewrite !mod_add_l by lia.
  change 16777216 with (256 * 256 * 256). change 65536 with (256 * 256). rewrite <- !N.div_div by lia.
  rewrite (N.mod_small (n / 256 / 256 / 256) 64) by lia.
  pose proof (N.div_mod n 256 ltac:(lia)). pose proof (N.div_mod (n / 256) 256 ltac:(lia)).
  pose proof (N.div_mod (n / 256 / 256) 256 ltac:(lia)). lia.
Qed.

(* ---- varint ---- *)
Lemma varint_roundtrip n h rest :
  encode_varint n = Some h -> decode_varint (h ++ rest) = DOk (n, rest).
Proof.
  unfold encode_varint, varint_max. destruct (N.leb_spec n (2 ^ 30 - 1)) as [Hn|]; [|discriminate].
  change (2 ^ 30 - 1) with 1073741823 in Hn.
  intro H. inversion H; subst; clear H.
  destruct (N.ltb_spec n 64) as [H1|H1].
  - cbn [app decode_varint]. replace (n / 64) with 0 by lia.
    change (0 <? 3) with true. change (N.to_nat (2 ^ 0) - 1)%nat with 0%nat.
    cbn [take_n Nat.leb firstn skipn be_value]. change (N.of_nat (N.to_nat (2 ^ 0))) with 1.
    rewrite (N.mod_small n 64) by lia.
    unfold varint_len. destruct (N.ltb_spec n 64); [|lia]. reflexivity.
  - destruct (N.ltb_spec n 16384) as [H2|H2].
    + cbn [app decode_varint]. replace ((64 + n / 256) / 64) with 1 by lia.
      change (1 <? 3) with true. change (N.to_nat (2 ^ 1) - 1)%nat with 1%nat.
      cbn [take_n length Nat.leb firstn skipn be_value]. change (N.of_nat (N.to_nat (2 ^ 1))) with 2.
      rewrite v2 by lia.
      unfold varint_len. destruct (N.ltb_spec n 64); [lia|]. destruct (N.ltb_spec n 16384); [|lia]. reflexivity.
    + cbn [app decode_varint]. replace ((128 + n / 16777216) / 64) with 2 by lia.
      change (2 <? 3) with true. change (N.to_nat (2 ^ 2) - 1)%nat with 3%nat.
      cbn [take_n length Nat.leb firstn skipn be_value]. change (N.of_nat (N.to_nat (2 ^ 2))) with 4.
      rewrite v4 by lia.
      unfold varint_len. destruct (N.ltb_spec n 64); [lia|]. destruct (N.ltb_spec n 16384); [lia|]. reflexivity.
Qed.

(* only the shortest form is accepted, and the bytes read are exactly the encoding *)
Lemma varint_canon bs n rest :
  bytes_ok bs -> decode_varint bs = DOk (n, rest) ->
  exists h, encode_varint n = Some h /\ bs = h ++ rest.
Proof.
  intros Hok. unfold decode_varint. destruct bs as [|first r]; [discriminate|].
  inversion Hok as [|? ? Hf Hr]; subst.
  destruct (N.ltb_spec (first / 64) 3) as [Hp|]; [|discriminate].
  pose proof (N.mod_upper_bound first 64 ltac:(lia)) as Hm.
  pose proof (N.div_mod first 64 ltac:(lia)) as Hdm.
  assert (Cases : first / 64 = 0 \/ first / 64 = 1 \/ first / 64 = 2) by lia.
  destruct Cases as [E|[E|E]]; rewrite E.
  - change (N.to_nat (2 ^ 0)) with 1%nat. cbn [Nat.sub take_n Nat.leb firstn skipn be_value]. change (N.of_nat 1) with 1.
    unfold varint_len. destruct (N.ltb_spec (first mod 64) 64); [|lia]. change (1 =? 1) with true. cbv iota.
    intro HH. inversion HH; subst. exists [first mod 64]. unfold encode_varint, varint_max.
    change (2 ^ 30 - 1) with 1073741823.
    destruct (N.leb_spec (first mod 64) 1073741823); [|lia].
    destruct (N.ltb_spec (first mod 64) 64); [|lia]. split; [reflexivity|]. cbn. f_equal. lia.
  - change (N.to_nat (2 ^ 1)) with 2%nat. cbn [Nat.sub].
    destruct r as [|b1 r']; [discriminate|]. inversion Hr as [|? ? Hb1 Hr']; subst.
    cbn [take_n length Nat.leb firstn skipn be_value].
    set (n0 := first mod 64 * 256 + b1).
    unfold varint_len. destruct (N.ltb_spec n0 64); [discriminate|].
    destruct (N.ltb_spec n0 16384); [|unfold n0 in *; lia]. change (N.of_nat 2) with 2. change (2 =? 2) with true. cbv iota.
    intro HH. inversion HH; subst. exists [first; b1]. unfold encode_varint, varint_max.
    change (2 ^ 30 - 1) with 1073741823.
    destruct (N.leb_spec n0 1073741823); [|lia].
    destruct (N.ltb_spec n0 64); [lia|]. destruct (N.ltb_spec n0 16384); [|lia].
    split; [|reflexivity]. unfold n0.
    rewrite div_add_small, mod_add_small by assumption.
    pose proof (N.div_mod first 64 ltac:(lia)). repeat f_equal. lia.
  - change (N.to_nat (2 ^ 2)) with 4%nat. cbn [Nat.sub].
    destruct r as [|b1 [|b2 [|b3 r']]]; try discriminate.
    inversion Hr as [|? ? Hb1 Hr1]; subst. inversion Hr1 as [|? ? Hb2 Hr2]; subst. inversion Hr2 as [|? ? Hb3 Hr3]; subst.
    cbn [take_n length Nat.leb firstn skipn be_value].
    set (n0 := ((first mod 64 * 256 + b1) * 256 + b2) * 256 + b3).
    unfold varint_len. destruct (N.ltb_spec n0 64); [discriminate|].
    destruct (N.ltb_spec n0 16384); [discriminate|]. change (N.of_nat 4) with 4. change (4 =? 4) with true. cbv iota.
    intro HH. inversion HH; subst. exists [first; b1; b2; b3]. unfold encode_varint, varint_max.
    change (2 ^ 30 - 1) with 1073741823.
    assert (n0 <= 1073741823) by (unfold n0; lia).
    destruct (N.leb_spec n0 1073741823); [|lia].
    destruct (N.ltb_spec n0 64); [lia|]. destruct (N.ltb_spec n0 16384); [lia|].
    split; [|reflexivity]. unfold n0. set (a := first mod 64).
    replace (((a * 256 + b1) * 256 + b2) * 256 + b3) with (a * 16777216 + (b1 * 65536 + b2 * 256 + b3)) at 1 by lia.
    rewrite div_add_small by lia.
    replace (((a * 256 + b1) * 256 + b2) * 256 + b3) with ((a * 256 + b1) * 65536 + (b2 * 256 + b3)) at 1 by lia.
    rewrite div_add_small by lia. rewrite mod_add_small by assumption.
    replace (((a * 256 + b1) * 256 + b2) * 256 + b3) with (((a * 256 + b1) * 256 + b2) * 256 + b3) at 1 by lia.
    rewrite div_add_small by assumption. rewrite !mod_add_small by assumption.
    pose proof (N.div_mod first 64 ltac:(lia)). unfold a. repeat f_equal. lia.
Qed.

Lemma encode_varint_len n h : encode_varint n = Some h -> N.of_nat (length h) = varint_len n.
Proof.
  unfold encode_varint, varint_len. destruct (n <=? varint_max); [|discriminate].
  intro H. inversion H; subst. destruct (n <? 64); [reflexivity|]. destruct (n <? 16384); reflexivity.
Qed.

Lemma encode_varint_nonempty n h : encode_varint n = Some h -> h <> [].
Proof.
  intros H E. apply encode_varint_len in H. subst h. unfold varint_len in H.
  destruct (n <? 64); [discriminate|]. destruct (n <? 16384); discriminate.
Qed.

Lemma encode_varint_ok n h : encode_varint n = Some h -> bytes_ok h.
Proof.
  unfold encode_varint, varint_max. destruct (N.leb_spec n (2 ^ 30 - 1)) as [Hn|]; [|discriminate].
  change (2 ^ 30 - 1) with 1073741823 in Hn. intro H. inversion H; subst.
  unfold bytes_ok.
  destruct (N.ltb_spec n 64); [|destruct (N.ltb_spec n 16384)];
    repeat (first [apply Forall_nil | apply Forall_cons]); try (apply N.mod_upper_bound; lia); lia.
Qed.

(* ---- length-prefixed collections ---- *)
Lemma split_with_len body bs rest :
  with_len body = Some bs -> split_collection (bs ++ rest) = DOk (body, rest).
Proof.
  unfold with_len, split_collection. destruct (encode_varint (N.of_nat (length body))) as [h|] eqn:E; [|discriminate].
  cbn [obind]. intro H. inversion H; subst. rewrite <- app_assoc.
  rewrite (varint_roundtrip _ _ _ E). cbn [dbind].
  destruct (N.ltb_spec (N.of_nat (length (body ++ rest))) (N.of_nat (length body))) as [L|_];
    [rewrite app_length in L; lia|].
  rewrite Nnat.Nat2N.id, take_n_app. reflexivity.
Qed.

Lemma split_canon bs data rest :
  bytes_ok bs -> split_collection bs = DOk (data, rest) ->
  exists used, with_len data = Some used /\ bs = used ++ rest.
Proof.
  intros Hok. unfold split_collection.
  destruct (decode_varint bs) as [[len r]|] eqn:E; [|discriminate]. cbn [dbind].
  destruct (N.of_nat (length r) <? len); [discriminate|].
  destruct (take_n (N.to_nat len) r) as [[d rest']|] eqn:T; [|discriminate].
  intro H. inversion H; subst. apply take_n_spec in T. destruct T as [-> L].
  destruct (varint_canon _ _ _ Hok E) as (h & Hh & ->).
  exists (h ++ data). unfold with_len. rewrite L, Nnat.N2Nat.id, Hh. cbn [obind].
  rewrite app_assoc. split; reflexivity.
Qed.

(* the length prefix never reaches beyond the input *)
Lemma split_in_bounds bs data rest :
  split_collection bs = DOk (data, rest) -> (length data + length rest < length bs)%nat.
Proof.
  unfold split_collection. destruct (decode_varint bs) as [[len r]|] eqn:E; [|discriminate]. cbn [dbind].
  destruct (N.of_nat (length r) <? len); [discriminate|].
  destruct (take_n (N.to_nat len) r) as [[d rest']|] eqn:T; [|discriminate].
  intro H. inversion H; subst. apply take_n_spec in T. destruct T as [-> L].
  unfold decode_varint in E. destruct bs as [|f r0]; [discriminate|].
  destruct (f / 64 <? 3); [|discriminate].
  destruct (take_n (N.to_nat (2 ^ (f / 64)) - 1) r0) as [[m r1]|] eqn:T2; [|discriminate].
  destruct (varint_len _ =? _); [|discriminate]. inversion E; subst.
  apply take_n_spec in T2. destruct T2 as [-> _]. cbn [length]. rewrite !app_length. lia.
Qed.
