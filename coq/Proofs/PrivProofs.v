(* PrivOK: every private key a member stores sits at a non-blank node of its direct path and is
   the key of that node.  Preserved by provisional_private_tree, decap and encap; established by
   update_secrets. *)
From Coq Require Import NArith List Bool Arith Lia.
From MlsV Require Import Res TreeMathGen TreeMathProofs Tree TreeProofs TreeWF Priv.
Import ListNotations.
Local Open Scope N_scope.

Definition PrivOK (ks : keys) (me : N) (pr : priv) : Prop :=
  forall k x, nth_error pr k = Some (Some x) -> ks (lvl_node (N.of_nat k) me) = Some x.

(* ---- list plumbing ---- *)
Lemma nth_error_mapi_from {A B} (f : nat -> A -> B) l : forall i k,
  nth_error (mapi_from f i l) k = option_map (f (i + k)%nat) (nth_error l k).
Proof.
  induction l as [|x r IH]; intros i k; cbn [mapi_from]; [destruct k; reflexivity|].
  destruct k as [|k]; cbn [nth_error option_map]; [rewrite Nat.add_0_r; reflexivity|].
  rewrite IH. replace (S i + k)%nat with (i + S k)%nat by lia. reflexivity.
Qed.

Lemma nth_error_mapi {A B} (f : nat -> A -> B) l k : nth_error (mapi f l) k = option_map (f k) (nth_error l k).
Proof. unfold mapi. rewrite nth_error_mapi_from. reflexivity. Qed.

Lemma nth_error_firstn_lt {A} (l : list A) : forall n k, (k < n)%nat -> nth_error (firstn n l) k = nth_error l k.
Proof.
  induction l as [|x r IH]; intros n k L; [rewrite firstn_nil; reflexivity|].
  destruct n as [|n]; [lia|]. cbn [firstn]. destruct k as [|k]; cbn [nth_error]; [reflexivity|]. apply IH. lia.
Qed.

Lemma nth_error_resize pr n k :
  nth_error (resize pr n) k = if (k <? n)%nat then Some (match nth_error pr k with Some v => v | None => None end) else None.
Proof.
  unfold resize. destruct (Nat.ltb_spec k n) as [L|L].
  - destruct (Nat.ltb_spec k (length pr)) as [Lp|Lp].
    + rewrite nth_error_app1 by (rewrite firstn_length; lia). rewrite nth_error_firstn_lt by lia.
      destruct (nth_error pr k) eqn:E; [reflexivity|]. apply nth_error_None in E. lia.
    + rewrite nth_error_app2 by (rewrite firstn_length; lia). rewrite firstn_length.
      rewrite (proj2 (nth_error_None pr k)) by lia.
      rewrite nth_error_repeat; [reflexivity|]. lia.
  - apply nth_error_None. rewrite app_length, firstn_length, repeat_length. lia.
Qed.

Lemma resize_some pr n k x : nth_error (resize pr n) k = Some (Some x) -> nth_error pr k = Some (Some x) /\ (k < n)%nat.
Proof.
  rewrite nth_error_resize. destruct (Nat.ltb_spec k n); [|discriminate].
  destruct (nth_error pr k) as [v|]; intro E; [|discriminate]. split; [congruence|assumption].
Qed.

(* ---- the path of a member, by level ---- *)
Lemma nth_path_spec n : forall k j i, (i < n)%nat ->
  nth_error (map CopathNode_path (path_spec n k j)) i = Some (node (k + N.of_nat i + 1) (j / 2 ^ (N.of_nat i + 1))).
Proof.
  induction n as [|n IH]; intros k j i L; [lia|]. cbn [path_spec map CopathNode_path].
  destruct i as [|i]; cbn [nth_error].
  - cbn [N.of_nat]. rewrite N.add_0_r, N.add_0_l, N.pow_1_r. reflexivity.
  - rewrite IH by lia. f_equal. f_equal; [lia|].
    rewrite N.div_div by (try apply N.pow_nonzero; lia). f_equal.
    replace (N.of_nat (S i) + 1) with ((N.of_nat i + 1) + 1) by lia. rewrite (N.pow_add_r 2 (N.of_nat i + 1) 1), N.pow_1_r. lia.
Qed.

Lemma path_nodes_levels t me path : small t -> 2 * me <= tlen t -> path_nodes t me = Ok path ->
  forall i p, nth_error path i = Some p -> p = lvl_node (N.of_nat (S i)) me.
Proof.
  intros Sm L E i p Hn. destruct (path_nodes_spec t me Sm L) as (d & _ & _ & _ & P & _). rewrite P in E.
  assert (path = map CopathNode_path (path_spec (N.to_nat d) 0 me)) by congruence. subst path.
  assert (Li : (i < N.to_nat d)%nat).
  { assert (Hn' : (i < length (map CopathNode_path (path_spec (N.to_nat d) 0 me)))%nat) by (apply nth_error_Some; congruence).
    rename Hn' into Hl. rewrite map_length in Hl. clear -Hl. rename Hl into Hn.
    assert (forall n k j, length (path_spec n k j) = n) as K by (induction n; intros; cbn [path_spec length]; [|rewrite IHn]; reflexivity).
    rewrite K in Hn. exact Hn. }
  rewrite nth_path_spec in Hn by exact Li. unfold lvl_node.
  replace (N.of_nat (S i)) with (0 + N.of_nat i + 1) by lia.
  replace (0 + N.of_nat i + 1) with (N.of_nat i + 1) in * by lia. congruence.
Qed.

(* ---- level nodes ---- *)
Lemma node_inj k j1 j2 : node k j1 = node k j2 -> j1 = j2.
Proof.
  unfold node. intro E. pose proof (pow2_pos k).
  assert ((2 * j1 + 1) * 2 ^ k = (2 * j2 + 1) * 2 ^ k) by nia.
  apply N.mul_cancel_r in H0; lia.
Qed.

Lemma lvl_node_0 me : lvl_node 0 me = 2 * me.
Proof. unfold lvl_node. rewrite node_0, N.pow_0_r, N.div_1_r. reflexivity. Qed.

Lemma lvl_node_odd k me : 0 < k -> N.even (lvl_node k me) = false.
Proof.
  intro Hk. unfold lvl_node. replace k with ((k - 1) + 1) by lia. rewrite node_succ.
  rewrite N.add_comm, N.even_add_mul_2. reflexivity.
Qed.

Lemma lvl_node_eq k1 a k2 b : lvl_node k1 a = lvl_node k2 b -> k1 = k2 /\ a / 2 ^ k1 = b / 2 ^ k2.
Proof.
  unfold lvl_node. intro E. pose proof (node_inj_level _ _ _ _ E). subst k2. split; [reflexivity|].
  apply node_inj in E. exact E.
Qed.

(* above the common ancestor level both leaves have the same ancestors *)
Lemma div_pow_mono a b L k : a / 2 ^ L = b / 2 ^ L -> L <= k -> a / 2 ^ k = b / 2 ^ k.
Proof.
  intros E Lk. replace k with (L + (k - L)) by lia. rewrite N.pow_add_r.
  rewrite <- !N.div_div by (apply N.pow_nonzero; lia). rewrite E. reflexivity.
Qed.

(* ---- characterisation of the keys written by the path ---- *)
Lemma path_keys_hit snd fk ks : forall flt lvl k,
  lvl <= k -> nth_error flt (N.to_nat (k - lvl)) = Some false ->
  path_keys snd flt lvl fk ks (lvl_node k snd) = Some (fk k).
Proof.
  induction flt as [|f r IH]; intros lvl k Lk Hn; [destruct (N.to_nat (k - lvl)); discriminate|].
  cbn [path_keys]. destruct (N.eq_dec k lvl) as [->|Ne].
  - rewrite N.sub_diag in Hn. cbn in Hn. assert (f = false) by congruence. subst f. rewrite N.eqb_refl. reflexivity.
  - assert (Hr : nth_error r (N.to_nat (k - (lvl + 1))) = Some false).
    { replace (N.to_nat (k - lvl)) with (S (N.to_nat (k - (lvl + 1)))) in Hn by lia. exact Hn. }
    specialize (IH (lvl + 1) k ltac:(lia) Hr).
    destruct f; [exact IH|].
    destruct (N.eqb_spec (lvl_node k snd) (lvl_node lvl snd)) as [E|_]; [|exact IH].
    apply lvl_node_eq in E. lia.
Qed.

Lemma path_keys_miss snd fk ks i : forall flt lvl,
  (forall k, lvl <= k -> nth_error flt (N.to_nat (k - lvl)) = Some false -> i <> lvl_node k snd) ->
  path_keys snd flt lvl fk ks i = ks i.
Proof.
  induction flt as [|f r IH]; intros lvl H; cbn [path_keys]; [reflexivity|].
  assert (Hr : path_keys snd r (lvl + 1) fk ks i = ks i).
  { apply IH. intros k Lk Hn. apply H; [lia|]. replace (N.to_nat (k - lvl)) with (S (N.to_nat (k - (lvl + 1)))) by lia. exact Hn. }
  destruct f; [exact Hr|].
  destruct (N.eqb_spec i (lvl_node lvl snd)) as [E|_]; [|exact Hr].
  exfalso. apply (H lvl ltac:(lia)); [rewrite N.sub_diag; reflexivity|exact E].
Qed.

Lemma Ok_inj' {A} (a b : A) : Ok a = Ok b -> a = b.
Proof. congruence. Qed.

(* ---- provisional_private_tree ---- *)
Theorem privok_provisional ks tprov me pr own newleaf pr' :
  PrivOK ks me pr -> small tprov -> 2 * me < tlen tprov -> get tprov (2 * me) <> None ->
  newleaf me = own ->
  provisional_priv tprov me pr own = Ok pr' ->
  PrivOK (keys_after_proposals ks tprov newleaf) me pr'.
Proof.
  intros P Sm L Nb En. unfold provisional_priv.
  destruct (path_nodes tprov me) as [path| |] eqn:Ep; cbn [bind ret]; try discriminate.
  intro E. unfold ret in E. apply Ok_inj' in E. subst pr'.
  intros k x Hk. rewrite nth_error_mapi in Hk.
  destruct (nth_error (resize pr (length path + 1)) k) as [old|] eqn:Er; cbn [option_map] in Hk; [|discriminate].
  unfold keys_after_proposals.
  destruct own as [key|].
  - destruct k as [|k]; cbn [Nat.eqb] in Hk; [|discriminate].
    cbn [N.of_nat]. rewrite lvl_node_0. destruct (get tprov (2 * me)); [|contradiction].
    rewrite N.even_mul. cbn [N.even orb]. rewrite N.mul_comm, N.div_mul by lia. rewrite En. congruence.
  - destruct k as [|i].
    + assert (old = Some x) by congruence. subst old. apply resize_some in Er. destruct Er as [Er _].
      specialize (P 0%nat x Er). cbn [N.of_nat] in *. rewrite lvl_node_0 in *.
      destruct (get tprov (2 * me)); [|contradiction].
      rewrite N.even_mul. cbn [N.even orb]. rewrite N.mul_comm, N.div_mul by lia. rewrite En. rewrite N.mul_comm. exact P.
    + destruct (nth_error path i) as [p|] eqn:Hp.
      * pose proof (path_nodes_levels tprov me path Sm ltac:(lia) Ep i p Hp) as Epn. rewrite <- Epn.
        destruct (get tprov p) eqn:G; [|discriminate].
        assert (old = Some x) by congruence. subst old. apply resize_some in Er. destruct Er as [Er _].
        rewrite Epn. rewrite lvl_node_odd by lia. rewrite <- Epn. apply P in Er. rewrite <- Epn in Er. exact Er.
      * (* beyond the path: resize cut the list there *)
        exfalso. rewrite nth_error_resize in Er. apply nth_error_None in Hp.
        destruct (Nat.ltb_spec (S i) (length path + 1)); [lia|discriminate].
Qed.

(* ---- decap: a receiver other than the committer ---- *)
Theorem privok_decap ks me snd pr pathlen L flt fk leafkey :
  PrivOK ks me pr ->
  1 <= L -> me / 2 ^ L = snd / 2 ^ L -> (forall k, k < L -> me / 2 ^ k <> snd / 2 ^ k) ->
  PrivOK (keys_after_path ks snd leafkey flt fk) me
         (decap_priv pr pathlen (N.to_nat (L - 1)) (upd_nodes flt 1 fk)).
Proof.
  intros P L1 Eq Ne k x Hk. unfold decap_priv in Hk. rewrite nth_error_mapi in Hk.
  destruct (nth_error (resize pr (pathlen + 2)) k) as [old|] eqn:Er; cbn [option_map] in Hk; [|discriminate].
  assert (Hme : me <> snd) by (intro; subst; apply (Ne 0 ltac:(lia)); reflexivity).
  (* what upd_nodes holds at index i *)
  assert (Un : forall flt0 lvl i y, nth i (upd_nodes flt0 lvl fk) None = Some y ->
                 nth_error flt0 i = Some false /\ y = fk (lvl + N.of_nat i)).
  { induction flt0 as [|f r IHf]; intros lvl i y; cbn [upd_nodes]; [destruct i; discriminate|].
    destruct f.
    - destruct (upd_nodes r (lvl + 1) fk) as [|o l] eqn:Eu; [destruct i; discriminate|].
      destruct i as [|i]; [cbn; discriminate|]. change (nth (S i) (None :: o :: l) None) with (nth i (o :: l) None).
      cbn [nth_error]. rewrite <- Eu. intro H.
      destruct (IHf (lvl + 1) i y H) as [A B]. split; [exact A|rewrite B; f_equal; lia].
    - destruct i as [|i]; cbn [nth nth_error].
      + intro H. split; [reflexivity|]. rewrite N.add_0_r. congruence.
      + intro H. destruct (IHf (lvl + 1) i y H) as [A B]. split; [exact A|rewrite B; f_equal; lia]. }
  (* nodes of me below the common ancestor, and the leaf, are untouched by the path *)
  assert (Keep : forall k0 : nat, (k0 = 0%nat \/ N.of_nat k0 < L \/ forall k', 1 <= k' -> nth_error flt (N.to_nat (k' - 1)) = Some false -> k' <> N.of_nat k0) ->
                 keys_after_path ks snd leafkey flt fk (lvl_node (N.of_nat k0) me) = ks (lvl_node (N.of_nat k0) me)).
  { intros k0 Hc. unfold keys_after_path.
    destruct (N.eqb_spec (lvl_node (N.of_nat k0) me) (2 * snd)) as [E|_].
    - rewrite <- lvl_node_0 in E. apply lvl_node_eq in E. destruct E as [E0 E1].
      rewrite E0, N.pow_0_r, !N.div_1_r in E1. contradiction.
    - apply path_keys_miss. intros k' Lk Hn E. apply lvl_node_eq in E. destruct E as [E0 E1]. subst k'.
      destruct Hc as [Hc|[Hc|Hc]]; [lia|exact (Ne _ Hc E1)|exact (Hc _ Lk Hn eq_refl)]. }
  destruct k as [|i].
  - assert (old = Some x) by congruence. subst old. apply resize_some in Er. destruct Er as [Er _].
    rewrite (Keep 0%nat) by (left; reflexivity). apply P. exact Er.
  - destruct ((N.to_nat (L - 1) <=? i)%nat && (i <? length (upd_nodes flt 1 fk))%nat) eqn:C.
    + apply andb_true_iff in C. destruct C as [C1 C2]. apply Nat.leb_le in C1.
      destruct (Un flt 1 i x ltac:(congruence)) as [Hf Hx]. subst x.
      assert (El : lvl_node (N.of_nat (S i)) me = lvl_node (N.of_nat (S i)) snd).
      { unfold lvl_node. f_equal. apply (div_pow_mono _ _ L); [exact Eq|lia]. }
      rewrite El. unfold keys_after_path.
      destruct (N.eqb_spec (lvl_node (N.of_nat (S i)) snd) (2 * snd)) as [E|_].
      * rewrite <- lvl_node_0 in E. apply lvl_node_eq in E. lia.
      * replace (1 + N.of_nat i) with (N.of_nat (S i)) by lia. apply path_keys_hit; [lia|].
        replace (N.to_nat (N.of_nat (S i) - 1)) with i by lia. exact Hf.
    + assert (old = Some x) by congruence. subst old. apply resize_some in Er. destruct Er as [Er _].
      rewrite Keep; [apply P; exact Er|].
      apply andb_false_iff in C. destruct C as [C|C].
      * apply Nat.leb_gt in C. right. left. lia.
      * apply Nat.ltb_ge in C. right. right. intros k' L1' Hn Ek.
        (* a non-filtered position is inside upd_nodes *)
        assert (Len : forall flt0 lvl j, nth_error flt0 j = Some false -> (j < length (upd_nodes flt0 lvl fk))%nat).
        { induction flt0 as [|f r IHf]; intros lvl j; [destruct j; discriminate|]. cbn [upd_nodes].
          destruct j as [|j]; cbn [nth_error].
          - intro H. assert (f = false) by congruence. subst f. cbn [length]. lia.
          - intro H. specialize (IHf (lvl + 1) j H). destruct f; [|cbn [length]; lia].
            destruct (upd_nodes r (lvl + 1) fk); cbn [length] in *; lia. }
        specialize (Len flt 1 _ Hn). subst k'. replace (N.to_nat (N.of_nat (S i) - 1)) with i in Len by lia. lia.
Qed.

(* ---- encap: the committer ---- *)
Theorem privok_encap ks snd pr pathlen flt fk leafkey :
  length flt = pathlen ->
  PrivOK (keys_after_path ks snd leafkey flt fk) snd (encap_priv pr pathlen flt fk leafkey).
Proof.
  intros Hlen k x Hk. unfold encap_priv in Hk. rewrite nth_error_mapi in Hk.
  destruct (nth_error (resize pr (pathlen + 1)) k) as [old|] eqn:Er; cbn [option_map] in Hk; [|discriminate].
  unfold keys_after_path. destruct k as [|i].
  - cbn [N.of_nat]. rewrite lvl_node_0, N.eqb_refl. congruence.
  - destruct (N.eqb_spec (lvl_node (N.of_nat (S i)) snd) (2 * snd)) as [E|_].
    + rewrite <- lvl_node_0 in E. apply lvl_node_eq in E. lia.
    + destruct (nth_error flt i) as [[|]|] eqn:Hf; try discriminate.
      * assert (x = fk (N.of_nat (S i))) by congruence. subst x. apply path_keys_hit; [lia|].
        replace (N.to_nat (N.of_nat (S i) - 1)) with i by lia. exact Hf.
      * exfalso. apply nth_error_None in Hf. rewrite nth_error_resize in Er.
        destruct (Nat.ltb_spec (S i) (pathlen + 1)); [lia|discriminate].
Qed.

(* ---- update_secrets: a joiner ---- *)
Lemma join_levels_ok ks me : forall jflt i lca l,
  join_levels ks me jflt i lca = Some l ->
  forall j x, nth_error l j = Some (Some x) -> ks (lvl_node (N.of_nat (S (i + j))) me) = Some x.
Proof.
  induction jflt as [|f r IH]; intros i lca l; cbn [join_levels].
  - intro E. assert (l = []) by congruence. subst. intros j x H. destruct j; discriminate.
  - destruct (join_levels ks me r (S i) lca) as [rest|] eqn:Er; [|discriminate].
    destruct ((lca <=? i)%nat && negb f).
    + destruct (ks (lvl_node (N.of_nat (S i)) me)) as [y|] eqn:Ky; [|discriminate].
      intro E. assert (l = Some y :: rest) by congruence. subst l. intros j x H. destruct j as [|j]; cbn [nth_error] in H.
      * rewrite Nat.add_0_r. congruence.
      * replace (S (i + S j)) with (S (S i + j)) by lia. eapply IH; eassumption.
    + intro E. assert (l = None :: rest) by congruence. subst l. intros j x H. destruct j as [|j]; cbn [nth_error] in H; [discriminate|].
      replace (S (i + S j)) with (S (S i + j)) by lia. eapply IH; eassumption.
Qed.

Theorem privok_join ks me leafkey jflt lca pr :
  ks (2 * me) = Some leafkey -> join_priv ks me leafkey jflt lca = Some pr -> PrivOK ks me pr.
Proof.
  intros Kl. unfold join_priv. destruct (join_levels ks me jflt 0 lca) as [l|] eqn:E; [|discriminate].
  intro Ep. assert (pr = Some leafkey :: l) by congruence. subst pr. intros k x Hk. destruct k as [|k]; cbn [nth_error] in Hk.
  - cbn [N.of_nat]. rewrite lvl_node_0. congruence.
  - exact (join_levels_ok ks me jflt 0 lca l E k x Hk).
Qed.

(* a stored key implies a non-blank node: nothing is kept for a blank node *)
Corollary privok_no_key_for_blank ks me pr k : PrivOK ks me pr -> ks (lvl_node (N.of_nat k) me) = None -> 
  nth_error pr k = Some None \/ nth_error pr k = None.
Proof.
  intros P B. destruct (nth_error pr k) as [[x|]|] eqn:E; [|left; reflexivity|right; reflexivity].
  rewrite (P k x E) in B. discriminate.
Qed.

(* every non-filtered node of the committer's path, and its leaf, carries the fresh key *)
Theorem path_nodes_fresh ks snd leafkey flt fk :
  keys_after_path ks snd leafkey flt fk (2 * snd) = Some leafkey
  /\ forall k, 1 <= k -> nth_error flt (N.to_nat (k - 1)) = Some false ->
       keys_after_path ks snd leafkey flt fk (lvl_node k snd) = Some (fk k).
Proof.
  split; [unfold keys_after_path; rewrite N.eqb_refl; reflexivity|].
  intros k Lk Hf. unfold keys_after_path.
  destruct (N.eqb_spec (lvl_node k snd) (2 * snd)) as [E|_].
  - rewrite <- lvl_node_0 in E. apply lvl_node_eq in E. lia.
  - apply path_keys_hit; assumption.
Qed.
