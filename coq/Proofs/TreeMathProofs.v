(* Proofs about the GENERATED tree math (Gen/TreeMathGen.v = the image of math.rs).
   The reference is the arithmetic description of the complete in-order binary tree:
   the j-th node (from the left) of level k has index  node k j = (2j+1)*2^k - 1. *)
From Coq Require Import NArith Lia Bool List.
From MlsV Require Import Res BitsN TreeMathGen.
Import ListNotations.
Local Open Scope N_scope.

Definition node (k j : N) : N := (2 * j + 1) * 2 ^ k - 1.

Lemma pow2_pos k : 0 < 2 ^ k.
Proof. apply N.neq_0_lt_0, N.pow_nonzero. lia. Qed.

Lemma node_shape k j : node k j = N.shiftl j (k + 1) + N.ones k.
Proof.
  unfold node. rewrite N.shiftl_mul_pow2, N.ones_equiv, N.pow_add_r, N.pow_1_r.
  pose proof (pow2_pos k). nia.
Qed.

Lemma node_bits k j i :
  N.testbit (node k j) i = (i <? k) || ((k <? i) && N.testbit j (i - (k + 1))).
Proof.
  rewrite node_shape, add_shiftl_lor.
  - rewrite N.lor_spec, testbit_shiftl, testbit_ones.
    destruct (N.ltb_spec i k), (N.leb_spec (k + 1) i), (N.ltb_spec k i); simpl; rewrite ?orb_false_r; try lia; reflexivity.
  - rewrite N.ones_equiv, N.pow_add_r, N.pow_1_r. pose proof (pow2_pos k). lia.
Qed.

Lemma node_0 j : node 0 j = 2 * j.
Proof. unfold node. rewrite N.pow_0_r. lia. Qed.

Lemma node_succ k j : node (k + 1) j = 2 * node k j + 1.
Proof. unfold node. rewrite N.pow_add_r, N.pow_1_r. pose proof (pow2_pos k). nia. Qed.

Lemma trailing_ones_node k j : trailing_ones (node k j) = k.
Proof.
  revert j. induction k using N.peano_ind; intro j.
  - rewrite node_0. apply trailing_ones_double.
  - rewrite <- N.add_1_r, node_succ, trailing_ones_succ_double, IHk. lia.
Qed.

(* bound: in a tree with 2^d leaves, level k has the nodes j < 2^(d-k) *)
Lemma node_bound d k j : k <= d -> j < 2 ^ (d - k) -> node k j + 2 ^ k <= 2 ^ (d + 1) - 1.
Proof.
  intros Hk Hj. unfold node.
  replace (d + 1) with ((d - k) + 1 + k) by lia.
  rewrite !N.pow_add_r, N.pow_1_r.
  pose proof (pow2_pos k). pose proof (pow2_pos (d - k)). nia.
Qed.

Lemma pow2_le_mono a b : a <= b -> 2 ^ a <= 2 ^ b.
Proof. intro. apply N.pow_le_mono_r; lia. Qed.

Lemma pow2_lt_mono a b : a < b -> 2 ^ a < 2 ^ b.
Proof. intro. apply N.pow_lt_mono_r; lia. Qed.

Lemma node_lt_two31 d k j : d <= 30 -> k <= d -> j < 2 ^ (d - k) -> node k j < 2 ^ 31.
Proof.
  intros Hd Hk Hj. pose proof (node_bound d k j Hk Hj). pose proof (pow2_pos k).
  pose proof (pow2_le_mono (d + 1) 31 ltac:(lia)). lia.
Qed.

Lemma testbit_double j m : N.testbit (2 * j) m = negb (m =? 0) && N.testbit j (m - 1).
Proof.
  destruct (N.eqb_spec m 0) as [->|Hm]; simpl.
  - apply N.testbit_even_0.
  - replace m with (N.succ (m - 1)) at 1 by lia. apply N.testbit_even_succ. lia.
Qed.

Lemma testbit_succ_double j m : N.testbit (2 * j + 1) m = (m =? 0) || N.testbit j (m - 1).
Proof.
  destruct (N.eqb_spec m 0) as [->|Hm]; simpl.
  - apply N.testbit_odd_0.
  - replace m with (N.succ (m - 1)) at 1 by lia. apply N.testbit_odd_succ. lia.
Qed.

Lemma testbit_half j m : N.testbit (j / 2) m = N.testbit j (m + 1).
Proof.
  change 2 with (2 ^ 1). rewrite <- N.shiftr_div_pow2, N.shiftr_spec by lia. reflexivity.
Qed.

Lemma testbit_1 m : N.testbit 1 m = (0 =? m).
Proof. change 1 with (2 ^ 0). apply testbit_pow2. Qed.

Ltac cmp :=
  repeat match goal with
  | |- context [N.ltb ?a ?b] => destruct (N.ltb_spec a b)
  | |- context [N.leb ?a ?b] => destruct (N.leb_spec a b)
  | |- context [N.eqb ?a ?b] => destruct (N.eqb_spec a b)
  end.

Ltac bits_spec :=
  repeat first
    [ rewrite N.lxor_spec | rewrite N.land_spec | rewrite N.lor_spec | rewrite node_bits
    | rewrite testbit_pow2 | rewrite testbit_mask32 | rewrite testbit_double
    | rewrite testbit_succ_double | rewrite testbit_half | rewrite testbit_1 ].

Ltac bitblast :=
  apply N.bits_inj; intro i; bits_spec; cmp; simpl; subst;
  try reflexivity; try lia;
  rewrite ?andb_true_r, ?andb_false_r, ?orb_false_r, ?orb_true_r, ?xorb_false_r, ?xorb_false_l, ?xorb_true_r, ?xorb_true_l; simpl;
  try reflexivity; try lia; try (f_equal; lia).

(* ---------- root ---------- *)
Lemma root_ok d : d <= 31 -> root (2 ^ d) = Ok (node d 0).
Proof.
  intro Hd. unfold root, u32_sub, bind, ret. pose proof (pow2_pos d).
  destruct (N.leb_spec 1 (2 ^ d)); [|lia]. f_equal. unfold node. lia.
Qed.

(* ---------- children ---------- *)
Lemma left_bits k j : N.lxor (node (k + 1) j) (2 ^ k) = node k (2 * j).
Proof. bitblast. Qed.

Lemma right_bits k j : N.lxor (node (k + 1) j) (3 * 2 ^ k) = node k (2 * j + 1).
Proof.
  replace (3 * 2 ^ k) with (N.lxor (2 ^ k) (2 ^ (k + 1))).
  - bitblast.
  - rewrite N.pow_add_r, N.pow_1_r.
    replace (2 ^ k * 2) with (2 ^ (k + 1)) by (rewrite N.pow_add_r, N.pow_1_r; lia).
    rewrite N.lxor_comm. rewrite <- N.add_nocarry_lxor.
    + rewrite N.pow_add_r, N.pow_1_r. lia.
    + bitblast.
Qed.

Lemma land_mask32_small x : x < 2 ^ 32 -> N.land x mask32 = x.
Proof. intro H. rewrite mask32_ones, N.land_ones. apply N.mod_small. exact H. Qed.

Lemma u32_shl_small a s : s < 32 -> a * 2 ^ s < 2 ^ 32 -> u32_shl a s = Ok (a * 2 ^ s).
Proof.
  intros Hs Ha. unfold u32_shl. destruct (N.ltb_spec s 32); [|lia].
  rewrite N.shiftl_mul_pow2, land_mask32_small by exact Ha. reflexivity.
Qed.

Lemma u32_sub_ok a b : b <= a -> u32_sub a b = Ok (a - b).
Proof. intro H. unfold u32_sub. destruct (N.leb_spec b a); [reflexivity|lia]. Qed.

Lemma u32_add_ok a b : a + b < 2 ^ 32 -> u32_add a b = Ok (a + b).
Proof. intro H. unfold u32_add. change two32 with (2 ^ 32). destruct (N.ltb_spec (a + b) (2 ^ 32)); [reflexivity|lia]. Qed.

Lemma u32_mul_ok a b : a * b < 2 ^ 32 -> u32_mul a b = Ok (a * b).
Proof. intro H. unfold u32_mul. change two32 with (2 ^ 32). destruct (N.ltb_spec (a * b) (2 ^ 32)); [reflexivity|lia]. Qed.

Lemma u32_shr_ok a s : s < 32 -> u32_shr a s = Ok (a / 2 ^ s).
Proof. intro H. unfold u32_shr. destruct (N.ltb_spec s 32); [|lia]. rewrite N.shiftr_div_pow2. reflexivity. Qed.

Lemma left_ok k j : k <= 30 -> left_unchecked (node (k + 1) j) = Ok (node k (2 * j)).
Proof.
  intro Hk. unfold left_unchecked. rewrite trailing_ones_node.
  rewrite u32_sub_ok by lia. cbn [bind]. replace (k + 1 - 1) with k by lia.
  rewrite u32_shl_1 by lia. cbn [bind ret]. rewrite left_bits. reflexivity.
Qed.

Lemma right_ok k j : k <= 29 -> right_unchecked (node (k + 1) j) = Ok (node k (2 * j + 1)).
Proof.
  intro Hk. unfold right_unchecked. rewrite trailing_ones_node.
  rewrite u32_sub_ok by lia. cbn [bind]. replace (k + 1 - 1) with k by lia.
  rewrite u32_shl_small.
  - cbn [bind ret]. rewrite right_bits. reflexivity.
  - lia.
  - pose proof (pow2_le_mono k 29 Hk). change (2 ^ 32) with (8 * 2 ^ 29). lia.
Qed.

(* a leaf has no children: the code panics (documented in math.rs) *)
Lemma left_leaf_panics j : left_unchecked (node 0 j) = Panic.
Proof. unfold left_unchecked. rewrite trailing_ones_node. reflexivity. Qed.
Lemma right_leaf_panics j : right_unchecked (node 0 j) = Panic.
Proof. unfold right_unchecked. rewrite trailing_ones_node. reflexivity. Qed.

(* ---------- parent / sibling ---------- *)
Definition sib (j : N) : N := if N.even j then j + 1 else j - 1.

Lemma even_odd_cases j : (N.even j = true /\ j = 2 * (j / 2)) \/ (N.even j = false /\ j = 2 * (j / 2) + 1).
Proof.
  pose proof (N.div_mod j 2 ltac:(lia)) as E.
  destruct (N.even j) eqn:Ev.
  - left. split; [reflexivity|]. apply N.even_spec in Ev. destruct Ev as [m ->].
    rewrite N.mul_comm, N.div_mul by lia. lia.
  - right. split; [reflexivity|]. assert (O : N.odd j = true) by (rewrite <- N.negb_even, Ev; reflexivity).
    apply N.odd_spec in O. destruct O as [m ->].
    replace ((2 * m + 1) / 2) with m; [lia|].
    apply (N.div_unique _ _ m 1); lia.
Qed.

Lemma parent_bits d k j :
  d <= 30 -> k <= d -> j < 2 ^ (d - k) ->
  N.lor (N.land (node k j) (u32_not (2 ^ (k + 1)))) (2 ^ k) = node (k + 1) (j / 2).
Proof.
  intros Hd Hk Hj. unfold u32_not.
  apply N.bits_inj; intro i. bits_spec.
  destruct (N.ltb_spec i 32) as [Hi|Hi].
  - cmp; simpl; subst; rewrite ?andb_true_r, ?andb_false_r, ?orb_false_r, ?orb_true_r; simpl;
      try reflexivity; try lia; try (f_equal; lia).
  - assert (Hb : forall m, d - k <= m -> N.testbit j m = false)
      by (intros m Hm; apply (testbit_small j (d - k)); assumption).
    cmp; simpl; subst; rewrite ?andb_true_r, ?andb_false_r, ?orb_false_r, ?orb_true_r; simpl;
      try reflexivity; try lia; symmetry; apply Hb; lia.
Qed.

Lemma node_lt_parent k j :
  (node k j <? node (k + 1) (j / 2)) = N.even j.
Proof.
  unfold node. rewrite N.pow_add_r, N.pow_1_r. pose proof (pow2_pos k).
  destruct (even_odd_cases j) as [[-> E]|[-> E]]; remember (j / 2) as q.
  - destruct (N.ltb_spec ((2 * j + 1) * 2 ^ k - 1) ((2 * q + 1) * (2 ^ k * 2) - 1)); [reflexivity|nia].
  - destruct (N.ltb_spec ((2 * j + 1) * 2 ^ k - 1) ((2 * q + 1) * (2 ^ k * 2) - 1)); [nia|reflexivity].
Qed.

Lemma node_inj_level k1 j1 k2 j2 : node k1 j1 = node k2 j2 -> k1 = k2.
Proof. intro H. rewrite <- (trailing_ones_node k1 j1), <- (trailing_ones_node k2 j2), H. reflexivity. Qed.

Lemma parent_sibling_ok d k j :
  d <= 30 -> k < d -> j < 2 ^ (d - k) ->
  parent_sibling (node k j) (2 ^ d)
  = Ok (Some (mkParentSibling (node (k + 1) (j / 2)) (node k (sib j)))).
Proof.
  intros Hd Hk Hj. unfold parent_sibling. rewrite root_ok by lia. cbn [bind].
  destruct (N.eqb_spec (node k j) (node d 0)) as [E|_]; [apply node_inj_level in E; lia|].
  rewrite trailing_ones_node, u32_add_ok by (change (2^32) with 4294967296; lia). cbn [bind].
  rewrite !u32_shl_1 by lia. cbn [bind].
  rewrite parent_bits with (d := d) by lia.
  rewrite node_lt_parent. unfold sib.
  destruct (even_odd_cases j) as [[-> E]|[-> E]].
  - rewrite right_ok by lia. cbn [bind ret]. rewrite <- E. reflexivity.
  - rewrite left_ok by lia. cbn [bind ret]. replace (j - 1) with (2 * (j / 2)) by lia. reflexivity.
Qed.

Lemma parent_sibling_root d : d <= 31 -> parent_sibling (node d 0) (2 ^ d) = Ok None.
Proof.
  intro Hd. unfold parent_sibling. rewrite root_ok by lia. cbn [bind].
  rewrite N.eqb_refl. reflexivity.
Qed.

(* ---------- in-tree test ---------- *)
Lemma is_in_tree_ok d x :
  d <= 30 -> is_in_tree x (2 ^ d - 1) = Ok (x <=? 2 ^ (d + 1) - 2).
Proof.
  intro Hd. unfold is_in_tree. pose proof (pow2_pos d).
  pose proof (pow2_le_mono d 30 Hd). change (2 ^ 30) with 1073741824 in *.
  rewrite u32_mul_ok by (change (2 ^ 32) with 4294967296; lia). cbn [bind ret].
  rewrite N.pow_add_r, N.pow_1_r. replace (2 * (2 ^ d - 1)) with (2 ^ d * 2 - 2) by lia. reflexivity.
Qed.

Lemma node_decomp x : exists k j, x = node k j.
Proof.
  induction x using N.binary_ind.
  - exists 0, 0. reflexivity.
  - exists 0, x. rewrite node_0, N.double_spec. reflexivity.
  - destruct IHx as (k & j & ->). exists (k + 1), j. rewrite node_succ, N.succ_double_spec. reflexivity.
Qed.

(* the nodes of the tree with 2^d leaves are exactly the indices 0 .. 2^(d+1)-2 *)
Lemma in_tree_iff d k j :
  node k j <= 2 ^ (d + 1) - 2 <-> (k <= d /\ j < 2 ^ (d - k)).
Proof.
  split.
  - intro H. assert (Hk : k <= d).
    { destruct (N.le_gt_cases k d) as [|G]; [assumption|exfalso].
      pose proof (pow2_le_mono (d + 1) k ltac:(lia)). unfold node in H.
      pose proof (pow2_pos k). pose proof (pow2_pos (d + 1)).
      assert (2 ^ k <= (2 * j + 1) * 2 ^ k) by nia.
      pose proof (pow2_le_mono 1 (d + 1) ltac:(lia)). change (2 ^ 1) with 2 in *. lia. }
    split; [exact Hk|]. unfold node in H.
    replace (d + 1) with ((d - k) + 1 + k) in H by lia.
    rewrite !N.pow_add_r, N.pow_1_r in H.
    pose proof (pow2_pos k). pose proof (pow2_pos (d - k)). nia.
  - intros [Hk Hj]. pose proof (node_bound d k j Hk Hj). pose proof (pow2_pos k). lia.
Qed.

(* ---------- direct path and copath ---------- *)
Fixpoint path_spec (n : nat) (k j : N) : list CopathNode :=
  match n with
  | O => []
  | S n => mkCopathNode (node (k + 1) (j / 2)) (node k (sib j)) :: path_spec n (k + 1) (j / 2)
  end.

Lemma half_lt d k j : k < d -> j < 2 ^ (d - k) -> j / 2 < 2 ^ (d - (k + 1)).
Proof.
  intros Hk Hj. replace (d - k) with (d - (k + 1) + 1) in Hj by lia.
  rewrite N.pow_add_r, N.pow_1_r in Hj. apply N.div_lt_upper_bound; lia.
Qed.

Lemma direct_copath_loop_ok d : d <= 30 ->
  forall (n : nat) k j fuel acc,
    k <= d -> j < 2 ^ (d - k) -> N.of_nat n = d - k -> (n < fuel)%nat ->
    direct_copath_loop1 fuel (2 ^ d) acc (node k j) = Ok (acc ++ path_spec n k j, node d 0).
Proof.
  intros Hd n. induction n as [|n IH]; intros k j fuel acc Hk Hj Hn Hf.
  - assert (k = d) by lia. subst k. replace (d - d) with 0 in Hj by lia.
    assert (j = 0) by (change (2 ^ 0) with 1 in Hj; lia). subst j.
    destruct fuel as [|fuel]; [lia|]. cbn [direct_copath_loop1].
    rewrite parent_sibling_root by lia. cbn [bind ret path_spec]. rewrite app_nil_r. reflexivity.
  - destruct fuel as [|fuel]; [lia|]. cbn [direct_copath_loop1].
    rewrite parent_sibling_ok with (d := d) by lia. cbn [bind ParentSibling_parent ParentSibling_sibling].
    rewrite IH; try lia.
    + cbn [path_spec]. rewrite <- app_assoc. reflexivity.
    + apply half_lt; lia.
Qed.

Lemma direct_copath_ok d k j :
  d <= 30 -> k <= d -> j < 2 ^ (d - k) ->
  direct_copath (node k j) (2 ^ d) = Ok (path_spec (N.to_nat (d - k)) k j).
Proof.
  intros Hd Hk Hj. unfold direct_copath. rewrite root_ok by lia. cbn [bind].
  replace (node d 0) with (2 ^ d - 1) by (unfold node; lia).
  rewrite is_in_tree_ok by lia. cbn [bind].
  assert (I : node k j <= 2 ^ (d + 1) - 2) by (apply in_tree_iff; split; assumption).
  destruct (N.leb_spec (node k j) (2 ^ (d + 1) - 2)); [|lia]. cbn [negb].
  rewrite direct_copath_loop_ok with (d := d) (n := N.to_nat (d - k)); try lia.
  - reflexivity.
  - unfold loop_fuel. lia.
Qed.

Lemma direct_copath_outside d x :
  d <= 30 -> 2 ^ (d + 1) - 2 < x -> direct_copath x (2 ^ d) = Ok [].
Proof.
  intros Hd Hx. unfold direct_copath. rewrite root_ok by lia. cbn [bind].
  replace (node d 0) with (2 ^ d - 1) by (unfold node; lia).
  rewrite is_in_tree_ok by lia. cbn [bind].
  destruct (N.leb_spec x (2 ^ (d + 1) - 2)); [lia|]. reflexivity.
Qed.

(* ---------- common ancestor level ---------- *)
Definition lca_level_spec (x y k : N) : Prop :=
  x / 2 ^ k = y / 2 ^ k /\ forall k', k' < k -> x / 2 ^ k' <> y / 2 ^ k'.

Lemma lca_loop_ok :
  forall (n : nat) fuel xn yn k,
    xn < 2 ^ N.of_nat n -> yn < 2 ^ N.of_nat n -> (n < fuel)%nat -> k + N.of_nat n < 2 ^ 32 ->
    exists r, leaf_lca_level_loop1 fuel xn yn k = Ok (xn / 2 ^ r, yn / 2 ^ r, k + r)
              /\ lca_level_spec xn yn r /\ r <= N.of_nat n.
Proof.
  induction n as [|n IH]; intros fuel xn yn k Hx Hy Hf Hk.
  - change (2 ^ N.of_nat 0) with 1 in *. assert (xn = 0) by lia. assert (yn = 0) by lia. subst.
    destruct fuel as [|fuel]; [lia|]. exists 0. cbn [leaf_lca_level_loop1]. rewrite N.eqb_refl. cbn [negb ret].
    split; [|split].
    + rewrite N.add_0_r. reflexivity.
    + split; [reflexivity|]. intros k' Hk'. lia.
    + lia.
  - destruct fuel as [|fuel]; [lia|]. cbn [leaf_lca_level_loop1].
    destruct (N.eqb_spec xn yn) as [E|NE]; cbn [negb].
    + exists 0. subst yn. change (2 ^ 0) with 1. rewrite !N.div_1_r, N.add_0_r.
      split; [reflexivity|]. split; [|lia]. split; [reflexivity|]. intros k' Hk'. lia.
    + rewrite !u32_shr_ok by lia. cbn [bind]. rewrite u32_add_ok by lia. cbn [bind].
      change (2 ^ 1) with 2.
      assert (H2 : 2 ^ N.of_nat (S n) = 2 * 2 ^ N.of_nat n).
      { rewrite Nnat.Nat2N.inj_succ, N.pow_succ_r'. reflexivity. }
      destruct (IH fuel (xn / 2) (yn / 2) (k + 1)) as (r & Hr & [Hs1 Hs2] & Hle).
      * apply N.div_lt_upper_bound; lia.
      * apply N.div_lt_upper_bound; lia.
      * lia.
      * rewrite Nnat.Nat2N.inj_succ in Hk. lia.
      * exists (r + 1). rewrite Hr.
        assert (D : forall z s, z / 2 / 2 ^ s = z / 2 ^ (s + 1)).
        { intros z s. rewrite N.div_div by (try apply N.pow_nonzero; lia).
          rewrite N.pow_add_r, N.pow_1_r, N.mul_comm. reflexivity. }
        rewrite !D. split; [replace (k + 1 + r) with (k + (r + 1)) by lia; reflexivity|]. split; [|rewrite Nnat.Nat2N.inj_succ; lia].
        split; [rewrite <- !D; exact Hs1|].
        intros k' Hk'. destruct (N.eq_dec k' 0) as [->|Hn0].
        -- change (2 ^ 0) with 1. rewrite !N.div_1_r. exact NE.
        -- replace k' with ((k' - 1) + 1) by lia. rewrite <- !D. apply Hs2. lia.
Qed.

Lemma lca_ok x y :
  x < 2 ^ 32 -> y < 2 ^ 32 ->
  exists k, leaf_lca_level x y = Ok k /\ lca_level_spec x y k.
Proof.
  intros Hx Hy. unfold leaf_lca_level.
  destruct (lca_loop_ok 32 loop_fuel x y 0) as (r & Hr & Hs & _).
  - exact Hx.
  - exact Hy.
  - unfold loop_fuel. lia.
  - reflexivity.
  - exists r. rewrite Hr. cbn [bind ret]. split; [reflexivity|exact Hs].
Qed.

(* ---------- leaf range of a subtree ---------- *)
Lemma subtree_ok k j :
  k <= 30 -> node k j + 2 ^ k < 2 ^ 32 ->
  subtree (node k j) = Ok (mkSubTree (j * 2 ^ k) ((j + 1) * 2 ^ k)).
Proof.
  intros Hk Hb. unfold subtree. rewrite trailing_ones_node.
  rewrite u32_shl_1 by lia. cbn [bind]. pose proof (pow2_pos k).
  assert (N1 : node k j + 1 = (2 * j + 1) * 2 ^ k) by (unfold node; nia).
  rewrite u32_add_ok by lia. cbn [bind]. rewrite N1.
  rewrite u32_sub_ok by nia. cbn [bind].
  unfold LeafIndex_from_node_index_unchecked, LeafIndex_next_unchecked.
  rewrite u32_shr_ok by lia. cbn [bind ret].
  rewrite u32_add_ok by lia. cbn [bind].
  rewrite u32_shr_ok by lia. cbn [bind ret]. change (2 ^ 1) with 2.
  assert (A : ((2 * j + 1) * 2 ^ k - 2 ^ k) / 2 = j * 2 ^ k).
  { replace ((2 * j + 1) * 2 ^ k - 2 ^ k) with (j * 2 ^ k * 2) by nia. apply N.div_mul. lia. }
  assert (B : (node k j + 2 ^ k) / 2 = (j + 1) * 2 ^ k - 1).
  { symmetry. apply (N.div_unique _ _ _ 1); [lia|]. unfold node. nia. }
  rewrite A, B. rewrite u32_add_ok by (unfold node in Hb; nia). cbn [bind ret].
  replace ((j + 1) * 2 ^ k - 1 + 1) with ((j + 1) * 2 ^ k) by nia. reflexivity.
Qed.

(* leaf a lies under node k j  <->  a / 2^k = j  <->  a is in the range reported by subtree *)
Lemma leaf_range_iff k j a : j * 2 ^ k <= a < (j + 1) * 2 ^ k <-> a / 2 ^ k = j.
Proof.
  pose proof (pow2_pos k). split.
  - intros [L U]. assert (E : (j + 1) * 2 ^ k = j * 2 ^ k + 2 ^ k) by lia.
    symmetry. apply (N.div_unique a (2 ^ k) j (a - j * 2 ^ k)); lia.
  - intros <-. pose proof (N.div_mod a (2 ^ k) ltac:(lia)).
    pose proof (N.mod_upper_bound a (2 ^ k) ltac:(lia)).
    generalize dependent (a / 2 ^ k). generalize dependent (a mod 2 ^ k). generalize dependent (2 ^ k).
    intros. nia.
Qed.

(* ---------- leaf index bound ---------- *)
Lemma max_leaf_index_val : MAX_LEAF_INDEX = 2 ^ 24 - 1.
Proof. reflexivity. Qed.

Lemma leaf_index_try_from_ok v :
  LeafIndex_try_from v = Ok (if v <=? 2 ^ 24 - 1 then Some v else None).
Proof.
  unfold LeafIndex_try_from. rewrite max_leaf_index_val.
  destruct (N.ltb_spec (2 ^ 24 - 1) v), (N.leb_spec v (2 ^ 24 - 1)); try lia; reflexivity.
Qed.
