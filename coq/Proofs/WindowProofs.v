(* The observer's epoch window (translated arithmetic + admission model). *)
From Coq Require Import NArith List Bool Lia.
From MlsV Require Import Res WindowGen Admission AdmissionProofs.
Import ListNotations.
Local Open Scope N_scope.

(* the translated code never panics and computes the saturating difference *)
Theorem window_code_total epoch jitter :
  epoch < two64 -> jitter < two64 -> min_epoch_available_code epoch jitter = Ok (min_epoch_saturating epoch jitter).
Proof. intros He Hj. unfold min_epoch_available_code, min_epoch_saturating, ret. reflexivity. Qed.

Definition observer_view (gid epoch jitter : N) : aview :=
  {| av_version_ok := true; av_gid := gid; av_epoch := epoch; av_min := Some (min_epoch_saturating epoch jitter); av_stored := [] |}.

(* the current epoch is always inside the window, whatever the jitter *)
Theorem window_contains_current (gid epoch jitter : N) : min_epoch_saturating epoch jitter <= epoch.
Proof. unfold min_epoch_saturating. lia. Qed.

(* ciphertexts of the last [jitter] epochs are let through, older ones refused *)
Theorem window_admission gid epoch jitter e (ct : ctype) :
  check_metadata (observer_view gid epoch jitter) gid e CtApplication true =
    if e <? epoch - jitter then AInvalidEpoch else AOk.
Proof. unfold check_metadata, observer_view, min_epoch_saturating. cbn. rewrite N.eqb_refl. cbn. reflexivity. Qed.

(* handshake messages: the observer admits exactly what a member of the same epoch admits *)
Theorem observer_admits_handshake_like_member v1 v2 gid e ct cipher :
  ct <> CtApplication -> av_version_ok v1 = av_version_ok v2 -> av_gid v1 = av_gid v2 -> av_epoch v1 = av_epoch v2 ->
  check_metadata v1 gid e ct cipher = check_metadata v2 gid e ct cipher.
Proof.
  intros Nc Ev Eg Ee. unfold check_metadata. rewrite Ev, Eg, Ee. destruct ct; [contradiction|reflexivity|reflexivity].
Qed.
