(* SecretKeyRatchet::get_message_key as translated from secret_tree.rs (Gen/RatchetGen.v) is the
   state machine the single-use theorems of C05 are about (Model/Ratchet.v). *)
From Coq Require Import NArith List Bool.
From MlsV Require Import Res Ratchet RatchetGen.
Local Open Scope N_scope.

Theorem gen_window_is_model : gen_window = MAX_RATCHET_BACK_HISTORY.
Proof. reflexivity. Qed.

Theorem gen_get_message_key_is_model s g : gen_get_message_key s g = get_message_key s g.
Proof. reflexivity. Qed.
