(* Parent-hash validity (RFC 9420 7.9) as an invariant of the tree operations.

   A tree is the tree model of Model/Tree.v (structure, unmerged lists) plus a decoration
   d : node index -> (public key, parent hash) for its non-blank nodes.  PHF is the parent-hash
   function, abstract: validity is an equation between a stored parent hash and PHF of (key of
   the parent, parent hash of the parent, content of the sibling subtree with the parent's unmerged
   leaves taken out), so it is preserved whenever both sides are.  Proved: removes, updates, adds
   (with their unmerged-leaf bookkeeping), trim and the update path keep every non-blank parent
   parent-hash valid. *)
From Coq Require Import NArith Arith List Bool Lia.
From MlsV Require Import Res TreeMathGen BitsN TreeMathProofs Tree TreeProofs TreeWF Kem Priv PrivProofs Decap DecapProofs TreeWF5 PrivComplete.
Import ListNotations.
Local Open Scope N_scope.

Lemma node_odd_S' k j : N.even (node (k + 1) j) = false.
Proof. rewrite node_succ. rewrite N.add_1_r, N.even_succ, N.odd_mul. reflexivity. Qed.

Lemma ancestor_node k j l : ancestor (node (N.of_nat (S k)) j) l -> l / 2 ^ N.of_nat (S k) = j.
Proof.
  intros (k0 & j0 & E & Ej). assert (Ek : N.of_nat (S k) = k0 + 1) by (eapply node_inj_level; exact E).
  rewrite Ek. rewrite Ek in E. assert (j = j0) by (unfold node in E; pose proof (pow2_pos (k0 + 1)); nia). congruence.
Qed.
Lemma not_leaf_node k j l : node (N.of_nat (S k)) j <> 2 * l.
Proof. intro E. replace (N.of_nat (S k)) with (N.of_nat k + 1) in E by lia. pose proof (node_odd_S' (N.of_nat k) j) as O. rewrite E, N.even_mul in O. discriminate. Qed.

Definition deco := N -> (N * N)%type.

(* what the tree hash of a subtree depends on, with the leaves in [strip] taken out *)
Inductive cterm := CLeaf (j : N) (nd : option (N * N * N)) | CPar (nd : option (N * N * list N)) (l r : cterm).

Fixpoint content (t : tree) (d : deco) (strip : list N) (k : nat) (j : N) : cterm :=
  let x := node (N.of_nat k) j in
  match k with
  | O => match get t x with
         | Some (Leaf id) => if mem j strip then CLeaf j None else CLeaf j (Some (id, fst (d x), snd (d x)))
         | _ => CLeaf j None
         end
  | S k' => CPar (match get t x with
                  | Some (Par um) => Some (fst (d x), snd (d x), filter (fun l => negb (mem l strip)) um)
                  | _ => None
                  end)
                 (content t d strip k' (2 * j)) (content t d strip k' (2 * j + 1))
  end.

(* the first non-blank nodes below (k, j), going down through blank nodes only *)
Fixpoint reach (t : tree) (k : nat) (j : N) (x : N) : Prop :=
  let n := node (N.of_nat k) j in
  (get t n <> None /\ x = n) \/
  (get t n = None /\ match k with O => False | S k' => reach t k' (2 * j) x \/ reach t k' (2 * j + 1) x end).

Section PH.
  Variable PHF : N -> N -> cterm -> N.

  (* the parent at level k+1, index j *)
  Definition valid_at (t : tree) (d : deco) (k : nat) (j : N) : Prop :=
    let p := node (N.of_nat (S k)) j in
    match get t p with
    | Some (Par um) =>
        (exists x, reach t k (2 * j) x /\ snd (d x) = PHF (fst (d p)) (snd (d p)) (content t d um k (2 * j + 1))) \/
        (exists x, reach t k (2 * j + 1) x /\ snd (d x) = PHF (fst (d p)) (snd (d p)) (content t d um k (2 * j)))
    | _ => True
    end.
  Definition PHValid (t : tree) (d : deco) : Prop := forall k j, valid_at t d k j.

  (* ---- frame: two decorated trees that agree on a subtree ---- *)
  Fixpoint agree (t t' : tree) (d d' : deco) (k : nat) (j : N) : Prop :=
    let n := node (N.of_nat k) j in
    get t' n = get t n /\ (get t n <> None -> d' n = d n) /\
    match k with O => True | S k' => agree t t' d d' k' (2 * j) /\ agree t t' d d' k' (2 * j + 1) end.

  Lemma content_agree t t' d d' s : forall k j, agree t t' d d' k j -> content t' d' s k j = content t d s k j.
  Proof.
    induction k as [|k IH]; intros j A; cbn [agree content] in *.
    - destruct A as (G & D & _). rewrite G. destruct (get t (node (N.of_nat 0) j)) as [[id|um]|] eqn:E; try reflexivity.
      rewrite D by congruence. reflexivity.
    - destruct A as (G & D & A1 & A2). rewrite (IH _ A1), (IH _ A2), G.
      destruct (get t (node (N.of_nat (S k)) j)) as [[id|um]|] eqn:E; try reflexivity. rewrite D by congruence. reflexivity.
  Qed.

  Lemma reach_agree t t' d d' : forall k j x, agree t t' d d' k j -> reach t k j x -> reach t' k j x /\ d' x = d x.
  Proof.
    induction k as [|k IH]; intros j x A R; cbn [agree reach] in *.
    - destruct A as (G & D & _). destruct R as [[Nb ->]|[_ []]]. split; [left; split; [rewrite G; exact Nb|reflexivity]|apply D; exact Nb].
    - destruct A as (G & D & A1 & A2). destruct R as [[Nb ->]|[Bl [R|R]]].
      + split; [left; split; [rewrite G; exact Nb|reflexivity]|apply D; exact Nb].
      + destruct (IH _ _ A1 R) as [R' E]. split; [right; split; [rewrite G; exact Bl|left; exact R']|exact E].
      + destruct (IH _ _ A2 R) as [R' E]. split; [right; split; [rewrite G; exact Bl|right; exact R']|exact E].
  Qed.

  (* a parent whose two subtrees and itself are untouched stays valid *)
  Lemma valid_frame t t' d d' k j :
    get t' (node (N.of_nat (S k)) j) = get t (node (N.of_nat (S k)) j) ->
    (get t (node (N.of_nat (S k)) j) <> None -> d' (node (N.of_nat (S k)) j) = d (node (N.of_nat (S k)) j)) ->
    agree t t' d d' k (2 * j) -> agree t t' d d' k (2 * j + 1) ->
    valid_at t d k j -> valid_at t' d' k j.
  Proof.
    intros G D A1 A2 V. unfold valid_at in *. rewrite G. destruct (get t (node (N.of_nat (S k)) j)) as [[id|um]|] eqn:E; try exact I.
    rewrite D by congruence. rewrite (content_agree _ _ _ _ um _ _ A1), (content_agree _ _ _ _ um _ _ A2).
    destruct V as [(x & R & H)|(x & R & H)].
    - destruct (reach_agree _ _ _ _ _ _ _ A1 R) as [R' Ex]. left. exists x. split; [exact R'|rewrite Ex; exact H].
    - destruct (reach_agree _ _ _ _ _ _ _ A2 R) as [R' Ex]. right. exists x. split; [exact R'|rewrite Ex; exact H].
  Qed.

  (* a subtree that does not contain leaf l: none of its nodes is the leaf or one of its ancestors *)
  Lemma agree_outside t t' d d' l :
    (forall n, n <> 2 * l -> ~ ancestor n l -> get t' n = get t n /\ (get t n <> None -> d' n = d n)) ->
    forall k j, l / 2 ^ N.of_nat k <> j -> agree t t' d d' k j.
  Proof.
    intro H. induction k as [|k IH]; intros j Ne; cbn [agree].
    - cbn [N.of_nat] in *. rewrite N.pow_0_r, N.div_1_r in Ne. rewrite node_0.
      destruct (H (2 * j)) as [G D]; [lia| |split; [exact G|split; [exact D|exact I]]].
      intros (k0 & j0 & E & _). pose proof (node_odd_S' k0 j0) as O. rewrite <- E, N.even_mul in O. discriminate.
    - assert (Nn : node (N.of_nat (S k)) j <> 2 * l).
      { intro E. replace (N.of_nat (S k)) with (N.of_nat k + 1) in E by lia. pose proof (node_odd_S' (N.of_nat k) j) as O. rewrite E, N.even_mul in O. discriminate. }
      assert (Na : ~ ancestor (node (N.of_nat (S k)) j) l).
      { intros (k0 & j0 & E & Ej). assert (Ek : N.of_nat (S k) = k0 + 1) by (eapply node_inj_level; exact E). rewrite <- Ek in *.
        assert (j = j0) by (unfold node in E; pose proof (pow2_pos (N.of_nat (S k))); nia). subst j0. congruence. }
      destruct (H _ Nn Na) as [G D]. split; [exact G|]. split; [exact D|].
      assert (Hh : l / 2 ^ N.of_nat k / 2 = l / 2 ^ N.of_nat (S k)).
      { rewrite N.div_div by (try apply N.pow_nonzero; lia). f_equal. rewrite Nat2N.inj_succ, N.pow_succ_r by lia. lia. }
      split; apply IH; intro E; apply Ne; rewrite <- Hh, E.
      + rewrite N.mul_comm, N.div_mul by lia. reflexivity.
      + replace (2 * j + 1) with (1 + j * 2) by lia. rewrite N.div_add by lia. reflexivity.
  Qed.
  (* ---- operations that touch one leaf and blank all of its ancestors: Remove and Update ---- *)
  Theorem ph_blanking t t' d d' l :
    (forall n, n <> 2 * l -> ~ ancestor n l -> get t' n = get t n /\ (get t n <> None -> d' n = d n)) ->
    (forall p, ancestor p l -> get t' p = None) ->
    PHValid t d -> PHValid t' d'.
  Proof.
    intros H B V k j. set (p := node (N.of_nat (S k)) j).
    destruct (N.eq_dec (l / 2 ^ N.of_nat (S k)) j) as [E|Ne].
    - assert (A : ancestor p l). { exists (N.of_nat k), j. split; [unfold p; f_equal; lia|rewrite <- E; f_equal; f_equal; lia]. }
      unfold valid_at. fold p. rewrite (B p A). exact I.
    - assert (Hh : l / 2 ^ N.of_nat k / 2 = l / 2 ^ N.of_nat (S k)).
      { rewrite N.div_div by (try apply N.pow_nonzero; lia). f_equal. rewrite Nat2N.inj_succ, N.pow_succ_r by lia. lia. }
      assert (Pn : p <> 2 * l).
      { intro E. unfold p in E. replace (N.of_nat (S k)) with (N.of_nat k + 1) in E by lia. pose proof (node_odd_S' (N.of_nat k) j) as O. rewrite E, N.even_mul in O. discriminate. }
      assert (Pa : ~ ancestor p l).
      { intros (k0 & j0 & E & Ej). assert (Ek : N.of_nat (S k) = k0 + 1) by (eapply node_inj_level; exact E). rewrite <- Ek in *.
        assert (j = j0) by (unfold p, node in E; pose proof (pow2_pos (N.of_nat (S k))); nia). subst j0. congruence. }
      destruct (H p Pn Pa) as [G D].
      apply (valid_frame t t' d d' k j G D); [| |exact (V k j)]; apply (agree_outside t t' d d' l H); intro E; apply Ne; rewrite <- Hh, E.
      + rewrite N.mul_comm, N.div_mul by lia. reflexivity.
      + replace (2 * j + 1) with (1 + j * 2) by lia. rewrite N.div_add by lia. reflexivity.
  Qed.

  (* Remove: blank the leaf, blank its direct path *)
  Theorem ph_remove t l t1 t2 d :
    small t -> blank_leaf t l = TOk t1 -> blank_direct_path t1 l = TOk t2 -> PHValid t d -> PHValid t2 d.
  Proof.
    intros Sm B1 B2. apply (ph_blanking t t2 d d l).
    - intros n Nn Na. split; [|reflexivity].
      unfold blank_leaf in B1. destruct (get t (2 * l)) as [[x|um]|] eqn:G; try discriminate. assert (t1 = set t (2 * l) None) by congruence. subst t1.
      unfold blank_direct_path in B2. destruct (path_nodes (set t (2 * l) None) l) as [path| |] eqn:P; cbn [lift tbind] in B2; try discriminate.
      assert (t2 = blank_nodes (set t (2 * l) None) path) by congruence. subst t2.
      rewrite get_blank_nodes.
      destruct (existsb (N.eqb n) path) eqn:Ex.
      + exfalso. apply existsb_exists in Ex. destruct Ex as (y & Iy & Ey). apply N.eqb_eq in Ey. subst y.
        pose proof (get_some_lt _ _ _ G) as Lt.
        pose proof (path_nodes_ancestors (set t (2 * l) None) l path ltac:(unfold small; rewrite set_length; exact Sm) ltac:(rewrite set_length; lia) P) as F.
        rewrite Forall_forall in F. exact (Na (F n Iy)).
      + unfold set. rewrite get_set_at. destruct (Nat.eqb_spec (N.to_nat n) (N.to_nat (2 * l))) as [E|_]; [lia|reflexivity].
    - intros p A.
      assert (Lt : 2 * l < tlen t1).
      { unfold blank_leaf in B1. destruct (get t (2 * l)) as [[x|um]|] eqn:G; try discriminate. assert (t1 = set t (2 * l) None) by congruence. subst t1. rewrite set_length. eapply get_some_lt; exact G. }
      eapply blank_direct_path_blanks; [|exact Lt|exact B2|exact A].
      unfold small. rewrite (blank_leaf_length _ _ _ B1). exact Sm.
  Qed.
  (* ---- the same for several leaves at once (the updates of a commit: all leaves are replaced first,
     then all their direct paths are blanked) ---- *)
  Definition touched (ls : list N) (n : N) : Prop := exists l, In l ls /\ (n = 2 * l \/ ancestor n l).

  Lemma agree_outside_many t t' d d' ls :
    (forall n, ~ touched ls n -> get t' n = get t n /\ (get t n <> None -> d' n = d n)) ->
    forall k j, (forall l, In l ls -> l / 2 ^ N.of_nat k <> j) -> agree t t' d d' k j.
  Proof.
    intro H. induction k as [|k IH]; intros j Ne; cbn [agree].
    - rewrite node_0. destruct (H (2 * j)) as [G D]; [|split; [exact G|split; [exact D|exact I]]].
      intros (l & Il & [E|(k0 & j0 & E & _)]).
      + apply (Ne l Il). cbn [N.of_nat]. rewrite N.pow_0_r, N.div_1_r. lia.
      + pose proof (node_odd_S' k0 j0) as O. rewrite <- E, N.even_mul in O. discriminate.
    - assert (Nt : ~ touched ls (node (N.of_nat (S k)) j)).
      { intros (l & Il & [E|A]); [exact (not_leaf_node _ _ _ E)|exact (Ne l Il (ancestor_node _ _ _ A))]. }
      destruct (H _ Nt) as [G D]. split; [exact G|]. split; [exact D|].
      split; apply IH; intros l Il E; apply (Ne l Il);
        (assert (Hh : l / 2 ^ N.of_nat k / 2 = l / 2 ^ N.of_nat (S k)) by (rewrite N.div_div by (try apply N.pow_nonzero; lia); f_equal; rewrite Nat2N.inj_succ, N.pow_succ_r by lia; lia));
        rewrite <- Hh, E.
      + rewrite N.mul_comm, N.div_mul by lia. reflexivity.
      + replace (2 * j + 1) with (1 + j * 2) by lia. rewrite N.div_add by lia. reflexivity.
  Qed.

  Theorem ph_blanking_many t t' d d' ls :
    (forall n, ~ touched ls n -> get t' n = get t n /\ (get t n <> None -> d' n = d n)) ->
    (forall l p, In l ls -> ancestor p l -> get t' p = None) ->
    PHValid t d -> PHValid t' d'.
  Proof.
    intros H B V k j. set (p := node (N.of_nat (S k)) j).
    destruct (existsb (fun l => l / 2 ^ N.of_nat (S k) =? j) ls) eqn:Ex.
    - apply existsb_exists in Ex. destruct Ex as (l & Il & E). apply N.eqb_eq in E.
      assert (A : ancestor p l). { exists (N.of_nat k), j. split; [unfold p; f_equal; lia|rewrite <- E; f_equal; f_equal; lia]. }
      unfold valid_at. fold p. rewrite (B l p Il A). exact I.
    - assert (Ne : forall l, In l ls -> l / 2 ^ N.of_nat (S k) <> j).
      { intros l Il E. assert (X : existsb (fun l => l / 2 ^ N.of_nat (S k) =? j) ls = true) by (apply existsb_exists; exists l; split; [exact Il|apply N.eqb_eq; exact E]). congruence. }
      assert (Nt : ~ touched ls p).
      { intros (l & Il & [E|A]); [exact (not_leaf_node _ _ _ E)|exact (Ne l Il (ancestor_node _ _ _ A))]. }
      destruct (H p Nt) as [G D].
      apply (valid_frame t t' d d' k j G D); [| |exact (V k j)]; apply (agree_outside_many t t' d d' ls H); intros l Il E; apply (Ne l Il);
        (assert (Hh : l / 2 ^ N.of_nat k / 2 = l / 2 ^ N.of_nat (S k)) by (rewrite N.div_div by (try apply N.pow_nonzero; lia); f_equal; rewrite Nat2N.inj_succ, N.pow_succ_r by lia; lia));
        rewrite <- Hh, E.
      + rewrite N.mul_comm, N.div_mul by lia. reflexivity.
      + replace (2 * j + 1) with (1 + j * 2) by lia. rewrite N.div_add by lia. reflexivity.
  Qed.

  (* all removes of a commit *)
  Theorem ph_apply_removes rs : forall t t' d, small t -> apply_removes t rs = TOk t' -> PHValid t d -> PHValid t' d.
  Proof.
    induction rs as [|r rest IH]; intros t t' d Sm A V; cbn [apply_removes] in A; [assert (t' = t) by congruence; subst; exact V|].
    destruct (blank_leaf t r) as [ta| |] eqn:B1; cbn [tbind] in A; try discriminate.
    destruct (blank_direct_path ta r) as [tb| |] eqn:B2; cbn [tbind] in A; try discriminate.
    apply (IH tb t' d); [|exact A|eapply ph_remove; eassumption].
    unfold small. rewrite (blank_direct_path_length _ _ _ B2), (blank_leaf_length _ _ _ B1). exact Sm.
  Qed.

  (* the updates of a commit: apply_updates replaces the leaves, blank_paths blanks their direct paths *)
  Lemma apply_updates_get us : forall t t', apply_updates t us = TOk t' ->
    forall n, (forall l, In l (map fst us) -> n <> 2 * l) -> get t' n = get t n.
  Proof.
    induction us as [|[i id] rest IH]; intros t t' A n Hn; cbn [apply_updates] in A; [assert (t' = t) by congruence; subst; reflexivity|].
    destruct (get t (2 * i)) as [[x|um]|] eqn:G; try discriminate.
    rewrite (IH _ _ A n) by (intros l Il; apply Hn; right; exact Il).
    unfold set. rewrite get_set_at. destruct (Nat.eqb_spec (N.to_nat n) (N.to_nat (2 * i))) as [E|_]; [|reflexivity].
    exfalso. apply (Hn i); [left; reflexivity|lia].
  Qed.

  Lemma blank_paths_get ls : forall t t', small t -> (forall l, In l ls -> 2 * l <= tlen t) -> blank_paths t ls = TOk t' ->
    forall n, (forall l, In l ls -> ~ ancestor n l) -> get t' n = get t n.
  Proof.
    induction ls as [|l rest IH]; intros t t' Sm Lb A n Hn; cbn [blank_paths] in A; [assert (t' = t) by congruence; subst; reflexivity|].
    destruct (blank_direct_path t l) as [ta| |] eqn:B; cbn [tbind] in A; try discriminate.
    assert (La : tlen ta = tlen t) by (eapply blank_direct_path_length; exact B).
    rewrite (IH ta t') by (try exact A; try (unfold small; rewrite La; exact Sm); try (intros l0 I0; try rewrite La; first [apply Lb; right; exact I0|apply Hn; right; exact I0])).
    unfold blank_direct_path in B. destruct (path_nodes t l) as [path| |] eqn:P; cbn [lift tbind] in B; try discriminate.
    assert (ta = blank_nodes t path) by congruence. subst ta. rewrite get_blank_nodes.
    destruct (existsb (N.eqb n) path) eqn:Ex; [|reflexivity].
    exfalso. apply existsb_exists in Ex. destruct Ex as (y & Iy & Ey). apply N.eqb_eq in Ey. subst y.
    pose proof (path_nodes_ancestors t l path Sm (Lb l (or_introl eq_refl)) P) as F. rewrite Forall_forall in F.
    exact (Hn l (or_introl eq_refl) (F n Iy)).
  Qed.

  Lemma blank_paths_blanks ls : forall t t', small t -> (forall l, In l ls -> 2 * l < tlen t) -> blank_paths t ls = TOk t' ->
    forall l p, In l ls -> ancestor p l -> get t' p = None.
  Proof.
    induction ls as [|l0 rest IH]; intros t t' Sm Lb A l p Il An; [destruct Il|]. cbn [blank_paths] in A.
    destruct (blank_direct_path t l0) as [ta| |] eqn:B; cbn [tbind] in A; try discriminate.
    assert (La : tlen ta = tlen t) by (eapply blank_direct_path_length; exact B).
    assert (Sma : small ta) by (unfold small; rewrite La; exact Sm).
    assert (Lba : forall l1, In l1 rest -> 2 * l1 < tlen ta) by (intros l1 I1; rewrite La; apply Lb; right; exact I1).
    destruct (in_dec N.eq_dec l rest) as [Ir|Nr]; [eapply IH; eassumption|].
    destruct Il as [->|Ir]; [|contradiction].
    (* blanked now; the remaining paths only blank more *)
    pose proof (blank_direct_path_blanks t l ta Sm (Lb l (or_introl eq_refl)) B p An) as Nn.
    destruct (existsb (fun l1 => match path_nodes ta l1 with Ok _ => true | _ => true end) rest); clear - A Nn Sma Lba.
    all: revert ta A Nn Sma Lba; induction rest as [|l1 r IHr]; intros ta A Nn Sma Lba; cbn [blank_paths] in A; [assert (t' = ta) by congruence; subst; exact Nn|];
      destruct (blank_direct_path ta l1) as [tb| |] eqn:B1; cbn [tbind] in A; try discriminate;
      (assert (Lb1 : tlen tb = tlen ta) by (eapply blank_direct_path_length; exact B1));
      apply (IHr tb A); [|unfold small; rewrite Lb1; exact Sma|intros l2 I2; rewrite Lb1; apply Lba; right; exact I2];
      unfold blank_direct_path in B1; destruct (path_nodes ta l1) as [path| |]; cbn [lift tbind] in B1; try discriminate;
      (assert (tb = blank_nodes ta path) by congruence); subst tb; rewrite get_blank_nodes; destruct (existsb (N.eqb p) path); [reflexivity|exact Nn].
  Qed.
  Lemma apply_updates_in_tree us : forall t t', apply_updates t us = TOk t' -> forall l, In l (map fst us) -> 2 * l < tlen t.
  Proof.
    induction us as [|[i id] rest IH]; intros t t' A l Il; [destruct Il|]. cbn [apply_updates] in A.
    destruct (get t (2 * i)) as [[x|um]|] eqn:G; try discriminate.
    destruct Il as [E|Il]; [cbn [fst] in E; subst; eapply get_some_lt; exact G|].
    pose proof (IH _ _ A l Il) as L. rewrite set_length in L. exact L.
  Qed.

  Theorem ph_updates t us ta tc d d' :
    small t -> apply_updates t us = TOk ta -> blank_paths ta (map fst us) = TOk tc ->
    (forall n, (forall l, In l (map fst us) -> n <> 2 * l) -> d' n = d n) ->
    PHValid t d -> PHValid tc d'.
  Proof.
    intros Sm A B Hd. assert (La : tlen ta = tlen t) by (eapply apply_updates_length; exact A).
    assert (Sma : small ta) by (unfold small; rewrite La; exact Sm).
    assert (Lt : forall l, In l (map fst us) -> 2 * l < tlen ta) by (intros l Il; rewrite La; eapply apply_updates_in_tree; eassumption).
    apply (ph_blanking_many t tc d d' (map fst us)).
    - intros n Nt.
      assert (N1 : forall l, In l (map fst us) -> n <> 2 * l) by (intros l Il E; apply Nt; exists l; split; [exact Il|left; exact E]).
      assert (N2 : forall l, In l (map fst us) -> ~ ancestor n l) by (intros l Il An; apply Nt; exists l; split; [exact Il|right; exact An]).
      split; [|intros _; apply Hd; exact N1].
      rewrite (blank_paths_get _ _ _ Sma ltac:(intros l Il; pose proof (Lt l Il); lia) B n N2). apply (apply_updates_get _ _ _ A n N1).
    - intros l p Il An. eapply blank_paths_blanks; eassumption.
  Qed.

  (* trim changes no node *)
  Lemma get_trim t n : get (trim t) n = get t n.
  Proof. destruct (trim_prefix t) as [k E]. rewrite E at 2. rewrite get_app_blank. reflexivity. Qed.

  Theorem ph_trim t d : PHValid t d -> PHValid (trim t) d.
  Proof.
    intros V k j.
    assert (A : forall k j, agree t (trim t) d d k j) by (induction k0 as [|k0 IH]; intro j0; cbn [agree]; (split; [apply get_trim|split; [reflexivity|try exact I; split; apply IH]])).
    apply (valid_frame t (trim t) d d k j (get_trim _ _) (fun _ => eq_refl) (A _ _) (A _ _) (V k j)).
  Qed.
  (* ---- Add: a blank leaf is filled and listed as unmerged at every non-blank ancestor ---- *)
  Lemma insert_leaf_get t l id n : n <> 2 * l -> get (insert_leaf t l (Leaf id)) n = get t n.
  Proof.
    intro Ne. unfold insert_leaf. rewrite get_set_other by congruence.
    destruct (tlen t <? 2 * l); [apply (get_app_blank t 2)|].
    destruct (tlen t =? 0) eqn:E; [|reflexivity]. apply N.eqb_eq in E. destruct t; [|cbn in E; lia].
    unfold get. destruct (N.to_nat n) as [|[|m]]; reflexivity.
  Qed.

  Lemma insert_sorted_others x l l' : insert_sorted x l = Some l' ->
    filter (fun y => negb (y =? x)) l' = filter (fun y => negb (y =? x)) l /\ mem x l' = true /\ (forall y, y <> x -> mem y l' = mem y l).
  Proof.
    revert l'. induction l as [|h r IH]; intros l'; cbn [insert_sorted].
    - intro E. inversion E; subst. cbn [filter mem existsb]. rewrite N.eqb_refl. cbn. split; [reflexivity|]. split; [reflexivity|].
      intros y Ny. destruct (N.eqb_spec y x); [contradiction|reflexivity].
    - destruct (N.eqb_spec x h) as [->|Nh]; [discriminate|]. destruct (x <? h).
      + intro E. inversion E; subst. cbn [filter]. rewrite N.eqb_refl. cbn [negb]. split; [reflexivity|]. split; [unfold mem; cbn [existsb]; rewrite N.eqb_refl; reflexivity|].
        intros y Ny. unfold mem. cbn [existsb]. destruct (N.eqb_spec y x); [contradiction|reflexivity].
      + destruct (insert_sorted x r) as [r'|] eqn:Er; [|discriminate]. intro E. inversion E; subst. destruct (IH r' eq_refl) as (F & M & O).
        cbn [filter]. rewrite F. split; [reflexivity|]. split; [unfold mem in *; cbn [existsb]; rewrite M; apply orb_true_r|].
        intros y Ny. unfold mem in *. cbn [existsb]. rewrite (O y Ny). reflexivity.
  Qed.

  Lemma update_unmerged_spec path : forall t leaf t', update_unmerged t leaf path = TOk t' -> forall n,
    (~ In n path -> get t' n = get t n) /\
    (forall um, get t n = Some (Par um) -> exists um', get t' n = Some (Par um') /\
        filter (fun y => negb (y =? leaf)) um' = filter (fun y => negb (y =? leaf)) um /\
        (forall y, y <> leaf -> mem y um' = mem y um) /\ (In n path -> mem leaf um' = true)) /\
    (forall x, get t n = Some (Leaf x) -> get t' n = Some (Leaf x)) /\
    (get t n = None -> get t' n = None).
  Proof.
    induction path as [|p r IH]; intros t leaf t' U n; cbn [update_unmerged] in U.
    - assert (t' = t) by congruence. subst. split; [reflexivity|]. split; [intros um G; exists um; split; [exact G|split; [reflexivity|split; [reflexivity|intros []]]]|]. split; auto.
    - destruct (get t p) as [[x|um0]|] eqn:Gp.
      + destruct (IH _ _ _ U n) as (A & B & C & D). split; [intro Ni; apply A; intro; apply Ni; right; assumption|]. split; [|split; [exact C|exact D]].
        intros um G. destruct (B um G) as (um' & G' & F & O & M). exists um'. split; [exact G'|]. split; [exact F|]. split; [exact O|].
        intros [E|I]; [subst; congruence|exact (M I)].
      + destruct (insert_sorted leaf um0) as [um0'|] eqn:Is; [|discriminate].
        destruct (insert_sorted_others _ _ _ Is) as (F0 & M0 & O0).
        pose proof (get_some_lt _ _ _ Gp) as Lp.
        destruct (IH _ _ _ U n) as (A & B & C & D).
        destruct (N.eq_dec n p) as [->|Ne].
        * rewrite get_set_same in B, C, D by exact Lp.
          split; [intro Ni; exfalso; apply Ni; left; reflexivity|]. split.
          -- intros um G. assert (um = um0) by congruence. subst um0. destruct (B um0' eq_refl) as (um' & G' & F & O & M).
             exists um'. split; [exact G'|]. split; [rewrite F; exact F0|]. split; [intros y Ny; rewrite (O y Ny); apply O0; exact Ny|].
             intros _. destruct (in_dec N.eq_dec p r) as [I|NI]; [exact (M I)|].
             (* p not later in the path: the list set now is final, and it contains the leaf *)
             rewrite (A NI), get_set_same in G' by exact Lp. assert (um' = um0') by congruence. subst. exact M0.
          -- split; [intros x G; congruence|intro G; congruence].
        * rewrite get_set_other in B, C, D by congruence.
          split; [intro Ni; rewrite A by (intro; apply Ni; right; assumption); apply get_set_other; congruence|]. split; [|split; [exact C|exact D]].
          intros um G. destruct (B um G) as (um' & G' & F & O & M). exists um'. split; [exact G'|]. split; [exact F|]. split; [exact O|].
          intros [E|I]; [congruence|exact (M I)].
      + destruct (IH _ _ _ U n) as (A & B & C & D). split; [intro Ni; apply A; intro; apply Ni; right; assumption|]. split; [|split; [exact C|exact D]].
        intros um G. destruct (B um G) as (um' & G' & F & O & M). exists um'. split; [exact G'|]. split; [exact F|]. split; [exact O|].
        intros [E|I]; [subst; congruence|exact (M I)].
  Qed.
  (* what an Add does to the tree, abstractly *)
  Definition AddRel (t t2 : tree) (idx : N) : Prop :=
    get t (2 * idx) = None /\ (exists id, get t2 (2 * idx) = Some (Leaf id)) /\
    (forall n, n <> 2 * idx ->
       (forall um, get t n = Some (Par um) -> exists um', get t2 n = Some (Par um') /\
           filter (fun y => negb (y =? idx)) um' = filter (fun y => negb (y =? idx)) um /\
           (forall y, y <> idx -> mem y um' = mem y um) /\ (ancestor n idx -> mem idx um' = true)) /\
       (forall x, get t n = Some (Leaf x) -> get t2 n = Some (Leaf x)) /\
       (get t n = None -> get t2 n = None)) /\
    (forall n, ~ ancestor n idx -> n <> 2 * idx -> get t2 n = get t n).

  Lemma mem_in x l : mem x l = true <-> In x l.
  Proof. unfold mem. rewrite existsb_exists. split; [intros (y & I & E); apply N.eqb_eq in E; subst; exact I|intro I; exists x; split; [exact I|apply N.eqb_refl]]. Qed.

  Lemma filter_drop_first (f : N -> bool) x l : f x = false -> filter f (filter (fun y => negb (y =? x)) l) = filter f l.
  Proof.
    intro Fx. induction l as [|h r IH]; [reflexivity|]. cbn [filter]. destruct (N.eqb_spec h x) as [->|Ne]; cbn [negb filter].
    - rewrite Fx. exact IH.
    - rewrite IH. reflexivity.
  Qed.

  Lemma filter_id_notin x l : ~ In x l -> filter (fun y => negb (y =? x)) l = l.
  Proof.
    induction l as [|h r IH]; intro Ni; [reflexivity|]. cbn [filter]. destruct (N.eqb_spec h x) as [->|Ne]; [exfalso; apply Ni; left; reflexivity|].
    cbn [negb]. rewrite IH by (intro; apply Ni; right; assumption). reflexivity.
  Qed.

  Section Add.
    Variables (t t2 : tree) (idx : N) (d d2 : deco).
    Hypothesis W : wf3 t.
    Hypothesis R : AddRel t t2 idx.
    Hypothesis Dd : forall n, get t n <> None -> d2 n = d n.

    Lemma idx_not_unmerged n um : get t n = Some (Par um) -> ~ In idx um.
    Proof. intros G I. destruct (W n um G idx I) as [[x Hx] _]. destruct R as (B & _). congruence. Qed.

    Lemma content_add : forall k j s s', (forall y, y <> idx -> mem y s' = mem y s) ->
      (mem idx s' = true \/ idx / 2 ^ N.of_nat k <> j) -> content t2 d2 s' k j = content t d s k j.
    Proof.
      destruct R as (Bl & (id & Lf) & Rn & Ro).
      induction k as [|k IH]; intros j s s' Hs Hc; cbn [content].
      - rewrite node_0. destruct (N.eq_dec j idx) as [->|Nj].
        + destruct Hc as [M|Ne]; [|exfalso; apply Ne; cbn [N.of_nat]; rewrite N.pow_0_r, N.div_1_r; reflexivity].
          rewrite Lf, Bl, M. reflexivity.
        + assert (Nn : 2 * j <> 2 * idx) by lia. destruct (Rn _ Nn) as (Rp & Rl & Rb).
          destruct (get t (2 * j)) as [[x|um]|] eqn:G.
          * rewrite (Rl x eq_refl), (Hs j Nj), (Dd (2 * j)) by congruence. reflexivity.
          * destruct (Rp um eq_refl) as (um' & G' & _). rewrite G'. reflexivity.
          * rewrite (Rb eq_refl). reflexivity.
      - assert (Nn : node (N.of_nat (S k)) j <> 2 * idx) by apply not_leaf_node.
        destruct (Rn _ Nn) as (Rp & Rl & Rb).
        assert (Hh : idx / 2 ^ N.of_nat k / 2 = idx / 2 ^ N.of_nat (S k)).
        { rewrite N.div_div by (try apply N.pow_nonzero; lia). f_equal. rewrite Nat2N.inj_succ, N.pow_succ_r by lia. lia. }
        assert (Hc1 : mem idx s' = true \/ idx / 2 ^ N.of_nat k <> 2 * j).
        { destruct Hc as [M|Ne]; [left; exact M|right; intro E; apply Ne; rewrite <- Hh, E, N.mul_comm, N.div_mul by lia; reflexivity]. }
        assert (Hc2 : mem idx s' = true \/ idx / 2 ^ N.of_nat k <> 2 * j + 1).
        { destruct Hc as [M|Ne]; [left; exact M|right; intro E; apply Ne; rewrite <- Hh, E; replace (2 * j + 1) with (1 + j * 2) by lia; rewrite N.div_add by lia; reflexivity]. }
        rewrite (IH (2 * j) s s' Hs Hc1), (IH (2 * j + 1) s s' Hs Hc2). f_equal.
        destruct (get t (node (N.of_nat (S k)) j)) as [[x|um]|] eqn:G.
        + rewrite (Rl x eq_refl). reflexivity.
        + pose proof (idx_not_unmerged _ _ G) as Ni.
          destruct Hc as [M|Ne].
          * destruct (Rp um eq_refl) as (um' & G' & F & O & _). rewrite G', (Dd (node (N.of_nat (S k)) j)) by congruence. do 2 f_equal.
            rewrite (filter_id_notin idx um Ni) in F.
            rewrite <- (filter_drop_first (fun l => negb (mem l s')) idx um') by (rewrite M; reflexivity). rewrite F.
            apply filter_ext_in. intros y Iy. rewrite (Hs y) by (intro; subst; exact (Ni Iy)). reflexivity.
          * assert (Na : ~ ancestor (node (N.of_nat (S k)) j) idx) by (intro A; exact (Ne (ancestor_node _ _ _ A))).
            rewrite (Ro _ Na Nn), G, (Dd (node (N.of_nat (S k)) j)) by congruence. do 2 f_equal.
            apply filter_ext_in. intros y Iy. rewrite (Hs y) by (intro; subst; exact (Ni Iy)). reflexivity.
        + rewrite (Rb eq_refl). reflexivity.
    Qed.

    Lemma reach_add : forall k j x, reach t k j x -> reach t2 k j x /\ get t x <> None.
    Proof.
      destruct R as (Bl & (id & Lf) & Rn & Ro).
      assert (NB : forall n, get t n <> None -> n <> 2 * idx /\ get t2 n <> None).
      { intros n Nb. assert (Nn : n <> 2 * idx) by (intro; subst; congruence). split; [exact Nn|].
        destruct (Rn _ Nn) as (Rp & Rl & _). destruct (get t n) as [[x|um]|] eqn:G; [rewrite (Rl x eq_refl); discriminate| |congruence].
        destruct (Rp um eq_refl) as (um' & G' & _). rewrite G'. discriminate. }
      induction k as [|k IH]; intros j x Rc; cbn [reach] in *.
      - destruct Rc as [[Nb ->]|[_ []]]. destruct (NB _ Nb) as [Nn Nb2]. split; [left; split; [exact Nb2|reflexivity]|exact Nb].
      - destruct Rc as [[Nb ->]|[Bk Rc]].
        + destruct (NB _ Nb) as [Nn Nb2]. split; [left; split; [exact Nb2|reflexivity]|exact Nb].
        + assert (Nn : node (N.of_nat (S k)) j <> 2 * idx) by apply not_leaf_node.
          destruct (Rn _ Nn) as (_ & _ & Rb).
          destruct Rc as [Rc|Rc]; destruct (IH _ _ Rc) as [R2 Nx]; (split; [right; split; [exact (Rb Bk)|]|exact Nx]); [left|right]; exact R2.
    Qed.

    Theorem ph_add_rel : PHValid t d -> PHValid t2 d2.
    Proof.
      intros V k j. unfold valid_at. set (p := node (N.of_nat (S k)) j).
      assert (Nn : p <> 2 * idx) by apply not_leaf_node.
      destruct R as (Bl & (id & Lf) & Rn & Ro). destruct (Rn _ Nn) as (Rp & Rl & Rb).
      destruct (get t p) as [[x|um]|] eqn:G; [rewrite (Rl x eq_refl); exact I| |rewrite (Rb eq_refl); exact I].
      destruct (Rp um eq_refl) as (um' & G' & F & O & Ma). rewrite G', (Dd p) by congruence.
      pose proof (V k j) as Vk. unfold valid_at in Vk. fold p in Vk. rewrite G in Vk.
      assert (Hh : idx / 2 ^ N.of_nat k / 2 = idx / 2 ^ N.of_nat (S k)).
      { rewrite N.div_div by (try apply N.pow_nonzero; lia). f_equal. rewrite Nat2N.inj_succ, N.pow_succ_r by lia. lia. }
      assert (Cond : forall c, (c = 2 * j \/ c = 2 * j + 1) -> mem idx um' = true \/ idx / 2 ^ N.of_nat k <> c).
      { intros c Hc. destruct (N.eq_dec (idx / 2 ^ N.of_nat (S k)) j) as [E|Ne].
        - left. apply Ma. exists (N.of_nat k), j. split; [unfold p; f_equal; lia|rewrite <- E; f_equal; f_equal; lia].
        - right. intro E. apply Ne. rewrite <- Hh, E. destruct Hc as [->| ->]; [rewrite N.mul_comm, N.div_mul by lia; reflexivity|replace (2 * j + 1) with (1 + j * 2) by lia; rewrite N.div_add by lia; reflexivity]. }
      destruct Vk as [(x & Rc & H)|(x & Rc & H)]; destruct (reach_add _ _ _ Rc) as [R2 Nx]; [left|right]; exists x; (split; [exact R2|]); rewrite (Dd _ Nx), H; f_equal; symmetry; apply content_add; try exact O; apply Cond; [right|left]; reflexivity.
    Qed.
  End Add.
  Lemma add_leaf_rel t id start t2 idx :
    tlen t + 2 < 2 ^ 25 -> 2 * start <= tlen t + 1 -> add_leaf t id start = TOk (t2, idx) -> AddRel t t2 idx.
  Proof.
    intros Sz Ls A. unfold add_leaf in A. set (ix := next_empty_leaf t start) in *.
    set (t1 := insert_leaf t ix (Leaf id)) in *.
    destruct (2 * ix <? tlen t1) eqn:Lt; cbn [negb] in A; [|discriminate]. apply N.ltb_lt in Lt.
    destruct (path_nodes t1 ix) as [path| |] eqn:P; cbn [lift tbind] in A; try discriminate.
    destruct (update_unmerged t1 ix path) as [tu| |] eqn:U; cbn [tbind] in A; try discriminate.
    assert (tu = t2 /\ ix = idx) as [-> <-] by (split; congruence). clear A.
    pose proof (insert_leaf_length t ix (Leaf id)) as Ll. fold t1 in Ll.
    assert (Sm1 : small t1) by (unfold small; lia).
    pose proof (path_nodes_ancestors t1 ix path Sm1 ltac:(lia) P) as Anc. rewrite Forall_forall in Anc.
    assert (Bl : get t (2 * ix) = None).
    { unfold ix, next_empty_leaf.
      destruct (next_empty_from_spec (S (length t)) t (2 * start) ltac:(rewrite N.even_mul; reflexivity) Ls ltac:(lia)) as (_ & _ & [[_ B]|[E _]]); [exact B|].
      cbv zeta in E. unfold get.
      assert (X : 2 * ((tlen t + 1) / 2) >= tlen t).
      { generalize (tlen t). intro z. pose proof (N.div_mod (z + 1) 2 ltac:(lia)) as DM. pose proof (N.mod_upper_bound (z + 1) 2 ltac:(lia)) as MU.
        set (q := (z + 1) / 2) in *. set (r := (z + 1) mod 2) in *. clearbody q r. lia. }
      assert (Q : nth_error t (N.to_nat (2 * next_empty_from (S (length t)) t (2 * start))) = None) by (apply nth_error_None; rewrite E; unfold tlen in *; set (q := (N.of_nat (length t) + 1) / 2) in *; clearbody q; lia).
      rewrite Q. reflexivity. }
    assert (G1 : forall n, n <> 2 * ix -> get t1 n = get t n) by (intros n Nn; apply insert_leaf_get; exact Nn).
    assert (L1 : get t1 (2 * ix) = Some (Leaf id)).
    { unfold t1, insert_leaf. apply get_set_same. fold (insert_leaf t ix (Leaf id)). fold t1.
      unfold t1, insert_leaf in Lt. rewrite set_length in Lt. exact Lt. }
    assert (NotInPath : ~ In (2 * ix) path).
    { intro I. destruct (Anc _ I) as (k0 & j0 & E & _). pose proof (node_odd_S' k0 j0) as O. rewrite <- E, N.even_mul in O. discriminate. }
    split; [exact Bl|]. split.
    - exists id. destruct (update_unmerged_spec path t1 ix t2 U (2 * ix)) as (A & _). rewrite (A NotInPath). exact L1.
    - split.
      + intros n Nn. destruct (update_unmerged_spec path t1 ix t2 U n) as (A & B & C & D). rewrite (G1 n Nn) in B, C, D.
        split; [|split; [exact C|exact D]].
        intros um G. destruct (B um G) as (um' & G' & F & O & M). exists um'. split; [exact G'|]. split; [exact F|]. split; [exact O|].
        intro An. apply M. eapply path_nodes_complete; [exact Sm1|exact Lt|exact P|exact An|]. pose proof (get_some_lt _ _ _ G). lia.
      + intros n Na Nn. destruct (update_unmerged_spec path t1 ix t2 U n) as (A & _).
        rewrite A by (intro I; exact (Na (Anc _ I))). apply G1. exact Nn.
  Qed.
  Lemma apply_removes_none rs : forall t t' n, apply_removes t rs = TOk t' -> get t n = None -> get t' n = None.
  Proof.
    induction rs as [|r rest IH]; intros t t' n A G; cbn [apply_removes] in A; [assert (t' = t) by congruence; subst; exact G|].
    destruct (blank_leaf t r) as [ta| |] eqn:B1; cbn [tbind] in A; try discriminate.
    destruct (blank_direct_path ta r) as [tb| |] eqn:B2; cbn [tbind] in A; try discriminate.
    apply (IH tb t' n A).
    unfold blank_leaf in B1. destruct (get t (2 * r)) as [[x|um]|]; try discriminate. assert (ta = set t (2 * r) None) by congruence. subst ta.
    unfold blank_direct_path in B2. destruct (path_nodes _ r) as [path| |]; cbn [lift tbind] in B2; try discriminate.
    assert (tb = blank_nodes (set t (2 * r) None) path) by congruence. subst tb.
    rewrite get_blank_nodes. destruct (existsb (N.eqb n) path); [reflexivity|]. rewrite get_set_none. destruct (n =? 2 * r); [reflexivity|exact G].
  Qed.

  Lemma blank_paths_none ls : forall t t' n, blank_paths t ls = TOk t' -> get t n = None -> get t' n = None.
  Proof.
    induction ls as [|l rest IH]; intros t t' n A G; cbn [blank_paths] in A; [assert (t' = t) by congruence; subst; exact G|].
    destruct (blank_direct_path t l) as [ta| |] eqn:B; cbn [tbind] in A; try discriminate.
    apply (IH ta t' n A). unfold blank_direct_path in B. destruct (path_nodes t l) as [path| |]; cbn [lift tbind] in B; try discriminate.
    assert (ta = blank_nodes t path) by congruence. subst ta. rewrite get_blank_nodes. destruct (existsb (N.eqb n) path); [reflexivity|exact G].
  Qed.

  (* all adds of a commit; the decoration of the new epoch may give the new leaves anything, it agrees with
     the old one on every node that was not blank *)
  Theorem ph_apply_adds ids : forall t start acc t' added d d',
    wf3 t -> tlen t + 2 * N.of_nat (length ids) < 2 ^ 25 -> 2 * start <= tlen t + 1 ->
    apply_adds t ids start acc = TOk (t', added) ->
    (forall n, get t n <> None -> d' n = d n) ->
    PHValid t d -> PHValid t' d'.
  Proof.
    induction ids as [|id rest IH]; intros t start acc t' added d d' W S Hs A Hd V; cbn [apply_adds] in A.
    - assert (t' = t) by congruence. subst.
      intros k j. apply (valid_frame t t d d' k j eq_refl (Hd _)); [| |exact (V k j)];
        (assert (Ag : forall k j, agree t t d d' k j) by (induction k0 as [|k0 IHk]; intro j0; cbn [agree]; (split; [reflexivity|split; [apply Hd|try exact I; split; apply IHk]]))); apply Ag.
    - destruct (add_leaf t id start) as [[t1 idx]| |] eqn:Ad; cbn [tbind] in A; try discriminate.
      cbn [length] in S.
      pose proof (add_leaf_length _ _ _ _ _ Ad) as L1.
      assert (W1 : wf3 t1) by (eapply wf3_add_leaf; [exact W| |exact Hs|exact Ad]; lia).
      pose proof (add_leaf_index _ _ _ _ _ Ad) as Ei.
      assert (Hi : 2 * idx <= tlen t1 + 1).
      { unfold add_leaf in Ad. fold (next_empty_leaf t start) in Ad. rewrite <- Ei in Ad.
        destruct (N.ltb_spec (2 * idx) (tlen (insert_leaf t idx (Leaf id)))) as [Lt|]; cbn [negb] in Ad; [|discriminate].
        destruct (lift (path_nodes _ _)) as [path| |]; cbn [tbind] in Ad; try discriminate.
        destruct (update_unmerged _ _ path) as [t2| |] eqn:U; cbn [tbind] in Ad; try discriminate.
        assert (t1 = t2) by congruence. subst. apply update_unmerged_length in U. lia. }
      pose proof (add_leaf_rel t id start t1 idx ltac:(lia) Hs Ad) as Rl.
      apply (IH t1 idx (idx :: acc) t' added d' d' W1 ltac:(lia) Hi A (fun _ _ => eq_refl)).
      apply (ph_add_rel t t1 idx d d' W Rl Hd V).
  Qed.

  (* ---- the proposals of a commit: removes, updates, adds, trim ---- *)
  Theorem ph_batch_edit t removes updates adds t' added d d' :
    wf3 t -> tlen t + 2 * N.of_nat (length adds) < 2 ^ 25 ->
    batch_edit t removes updates adds = TOk (t', added) ->
    (* the new decoration: unchanged wherever the node survives; updated and added leaves are free *)
    (forall n, (forall l, In l (map fst updates) -> n <> 2 * l) -> get t n <> None -> d' n = d n) ->
    PHValid t d -> PHValid t' d'.
  Proof.
    intros W S B Hd V. unfold batch_edit in B.
    destruct (apply_removes t (rev removes)) as [ta| |] eqn:R1; cbn [tbind] in B; try discriminate.
    destruct (apply_updates ta updates) as [tb| |] eqn:U; cbn [tbind] in B; try discriminate.
    destruct (blank_paths tb (map fst updates)) as [tc| |] eqn:Bp; cbn [tbind] in B; try discriminate.
    destruct (apply_adds tc adds 0 []) as [[td ad]| |] eqn:Ad; cbn [tbind] in B; try discriminate.
    assert (t' = trim td) by congruence. subst t'.
    assert (Sm : small t) by (unfold small; lia).
    destruct (wf3_apply_removes _ _ _ W Sm R1) as [Wa La].
    destruct (wf3_apply_updates _ _ _ Wa U) as [Wb Lb].
    assert (Smb : small tb) by (unfold small; lia).
    assert (Fl : Forall (fun l => 2 * l <= tlen tb) (map fst updates)).
    { rewrite Forall_forall. intros l Il. pose proof (apply_updates_in_tree _ _ _ U l Il). lia. }
    destruct (wf3_blank_paths _ _ _ Wb Smb Fl Bp) as [Wc Lc].
    (* an intermediate decoration: d on what survives the removes and updates, d' on the updated leaves *)
    set (dm := fun n => if existsb (fun l => n =? 2 * l) (map fst updates) then d' n else d n).
    assert (Va : PHValid ta d) by (eapply ph_apply_removes; [exact Sm|exact R1|exact V]).
    assert (Vc : PHValid tc dm).
    { apply (ph_updates ta updates tb tc d dm ltac:(unfold small; lia) U Bp); [|exact Va].
      intros n Hn. unfold dm. destruct (existsb (fun l => n =? 2 * l) (map fst updates)) eqn:Ex; [|reflexivity].
      apply existsb_exists in Ex. destruct Ex as (l & Il & E). apply N.eqb_eq in E. exfalso. exact (Hn l Il E). }
    apply ph_trim.
    apply (ph_apply_adds adds tc 0 [] td ad dm d' Wc ltac:(lia) ltac:(lia) Ad); [|exact Vc].
    intros n Nb. unfold dm. destruct (existsb (fun l => n =? 2 * l) (map fst updates)) eqn:Ex; [reflexivity|].
    apply Hd.
    - intros l Il E. assert (X : existsb (fun l => n =? 2 * l) (map fst updates) = true) by (apply existsb_exists; exists l; split; [exact Il|apply N.eqb_eq; exact E]). congruence.
    - (* a node that is not blank after the removes / updates / blanking was not blank before *)
      intro G. apply Nb. clear - G R1 U Bp Ex Sm La Lb Smb Fl.
      assert (Ga : get ta n = None) by (eapply apply_removes_none; eassumption).
      assert (Gb : get tb n = None).
      { rewrite (apply_updates_get _ _ _ U n); [exact Ga|]. intros l Il E.
        assert (X : existsb (fun l => n =? 2 * l) (map fst updates) = true) by (apply existsb_exists; exists l; split; [exact Il|apply N.eqb_eq; exact E]). congruence. }
      eapply blank_paths_none; eassumption.
  Qed.
  Lemma ph_blanking_frame t t' d d' l :
    (forall n, n <> 2 * l -> ~ ancestor n l -> get t' n = get t n /\ (get t n <> None -> d' n = d n)) ->
    forall k j, l / 2 ^ N.of_nat (S k) <> j -> valid_at t d k j -> valid_at t' d' k j.
  Proof.
    intros H k j Ne Vk. set (p := node (N.of_nat (S k)) j).
    assert (Hh : l / 2 ^ N.of_nat k / 2 = l / 2 ^ N.of_nat (S k)).
    { rewrite N.div_div by (try apply N.pow_nonzero; lia). f_equal. rewrite Nat2N.inj_succ, N.pow_succ_r by lia. lia. }
    destruct (H p (not_leaf_node _ _ _) (fun A => Ne (ancestor_node _ _ _ A))) as [G D].
    apply (valid_frame t t' d d' k j G D); [| |exact Vk]; apply (agree_outside t t' d d' l H); intro E; apply Ne; rewrite <- Hh, E.
    - rewrite N.mul_comm, N.div_mul by lia. reflexivity.
    - replace (2 * j + 1) with (1 + j * 2) by lia. rewrite N.div_add by lia. reflexivity.
  Qed.

  Lemma ancestor_lvl i l : (1 <= i)%nat -> ancestor (lvl_node (N.of_nat i) l) l.
  Proof. intro Hi. exists (N.of_nat (i - 1)), (l / 2 ^ N.of_nat i). unfold lvl_node. replace (N.of_nat (i - 1) + 1) with (N.of_nat i) by lia. split; reflexivity. Qed.

  Lemma lvl_node_inj_level a b l : lvl_node (N.of_nat a) l = lvl_node (N.of_nat b) l -> a = b.
  Proof. unfold lvl_node. intro E. apply node_inj_level in E. lia. Qed.

  (* ---- the update path ---- *)
  (* the highest unfiltered position of the committer's path strictly below position i, if any *)
  Fixpoint next_below (flt : list bool) (i : nat) : option nat :=
    match i with
    | O => None
    | S i' => match nth_error flt i' with Some false => Some i' | _ => next_below flt i' end
    end.
  Definition dnode (sndr : N) (o : option nat) : N :=
    match o with Some i => lvl_node (N.of_nat (S i)) sndr | None => 2 * sndr end.

  Section Path.
    Variables (t1 t2 : tree) (sndr id : N) (flt : list bool) (d d2 : deco).
    Let t1' := set t1 (2 * sndr) (Some (Leaf id)).
    Hypothesis Sh : shape_ok t1.
    Hypothesis W5 : wf5 t1.
    Hypothesis Sm : small t1.
    Hypothesis Ap : apply_update_path t1 sndr id = TOk t2.
    Hypothesis Fl : filtered t1' sndr = Ok flt.
    (* the decoration of the new epoch: unchanged off the committer's path ... *)
    Hypothesis Doff : forall n, n <> 2 * sndr -> ~ ancestor n sndr -> get t1 n <> None -> d2 n = d n.
    (* ... and on it the parent hashes are computed top-down as RFC 9420 7.9 says: the node below an
       unfiltered path node P (the next unfiltered one, or the leaf) stores PHF of P's key, P's parent
       hash and the content of P's other child, nobody being unmerged at P any more *)
    Hypothesis Dpath : forall i, nth_error flt i = Some false ->
      snd (d2 (dnode sndr (next_below flt i))) =
      PHF (fst (d2 (lvl_node (N.of_nat (S i)) sndr))) (snd (d2 (lvl_node (N.of_nat (S i)) sndr)))
          (content t2 d2 [] i (sib (sndr / 2 ^ N.of_nat i))).

    Lemma lvl_node_unfold k : lvl_node (N.of_nat k) sndr = node (N.of_nat k) (sndr / 2 ^ N.of_nat k).
    Proof. reflexivity. Qed.

    Theorem ph_update_path : PHValid t1 d -> PHValid t2 d2.
    Proof.
      intro V.
      destruct (update_path_effect t1 sndr id t2 Sm Ap) as (dd & flt0 & Et & F0 & Lf & Ls & Off & On & Ofl).
      fold t1' in F0, Off, On, Ofl, Et. assert (flt0 = flt) by congruence. subst flt0.
      assert (Sh' : shape_ok t1') by (apply shape_set; [exact Sh|cbn [kind_ok]; rewrite N.even_mul; reflexivity]).
      assert (Sm' : small t1') by (unfold small, t1'; rewrite set_length; exact Sm).
      assert (W5' : wf5 t1') by (eapply wf5_mono; [exact W5|exact Sh|apply R_set_leaf]).
      assert (Gl' : get t1' (2 * sndr) = Some (Leaf id)) by (unfold t1'; apply get_set_same; exact Ls).
      (* filtered path nodes are blank, before and after *)
      assert (FB : forall i, nth_error flt i = Some true -> get t2 (lvl_node (N.of_nat (S i)) sndr) = None).
      { intros i Hi. rewrite (Ofl i Hi).
        destruct (get t1' (lvl_node (N.of_nat (S i)) sndr)) as [[x|um]|] eqn:G; [|pose proof (nonblank_ancestor_unfiltered t1' sndr flt Sh' W5' Sm' ltac:(congruence) Fl i um G); congruence|reflexivity].
        specialize (Sh' (lvl_node (N.of_nat (S i)) sndr)). rewrite G in Sh'. cbn [kind_ok] in Sh'.
        rewrite lvl_node_odd in Sh' by lia. discriminate. }
      (* the sender's leaf in t2 *)
      assert (L2 : get t2 (2 * sndr) = Some (Leaf id)).
      { rewrite Off; [exact Gl'|]. intros i _ E. pose proof (lvl_node_odd (N.of_nat (S i)) sndr ltac:(lia)) as O. rewrite <- E, N.even_mul in O. discriminate. }
      (* reach from the path-side child of position i down to the next unfiltered node or the leaf *)
      assert (RP : forall i, (i <= length flt)%nat -> reach t2 i (sndr / 2 ^ N.of_nat i) (dnode sndr (next_below flt i))).
      { induction i as [|i IHi]; intro Li; cbn [reach next_below dnode].
        - left. cbn [N.of_nat]. rewrite N.pow_0_r, N.div_1_r, node_0. split; [congruence|reflexivity].
        - rewrite <- lvl_node_unfold.
          destruct (nth_error flt i) as [[|]|] eqn:Hf; [| |apply nth_error_None in Hf; lia].
          + right. split; [apply FB; exact Hf|].
            destruct (lvl_child i sndr) as [E|E]; cbv zeta in E; replace (N.of_nat i + 1) with (N.of_nat (S i)) in E by lia; [left|right]; rewrite <- E; apply IHi; lia.
          + left. split; [rewrite (On i Hf); discriminate|reflexivity]. }
      intros k j. set (p := node (N.of_nat (S k)) j).
      destruct (N.eq_dec (sndr / 2 ^ N.of_nat (S k)) j) as [E|Ne].
      - (* an ancestor of the committer *)
        assert (Ep : p = lvl_node (N.of_nat (S k)) sndr) by (unfold p, lvl_node; rewrite E; reflexivity).
        unfold valid_at. fold p. rewrite Ep.
        destruct (nth_error flt k) as [[|]|] eqn:Hf.
        + rewrite (FB k Hf). exact I.
        + rewrite (On k Hf).
          assert (Lk : (k <= length flt)%nat) by (assert (k < length flt)%nat by (apply nth_error_Some; congruence); lia).
          pose proof (RP k Lk) as Rk. pose proof (Dpath k Hf) as Dk.
          destruct (lvl_child k sndr) as [Ec|Ec]; cbv zeta in Ec; replace (N.of_nat k + 1) with (N.of_nat (S k)) in Ec by lia; rewrite E in Ec.
          * left. exists (dnode sndr (next_below flt k)). split; [rewrite <- Ec; exact Rk|].
            rewrite Dk. do 2 f_equal. unfold sib. rewrite Ec, N.even_mul. cbn [orb]. reflexivity.
          * right. exists (dnode sndr (next_below flt k)). split; [rewrite <- Ec; exact Rk|].
            rewrite Dk. do 2 f_equal. unfold sib. rewrite Ec. replace (N.even (2 * j + 1)) with false by (rewrite N.even_add, N.even_mul; reflexivity). lia.
        + (* above the root of the committer's tree: nothing there *)
          apply nth_error_None in Hf.
          assert (G2 : get t2 (lvl_node (N.of_nat (S k)) sndr) = get t1' (lvl_node (N.of_nat (S k)) sndr)).
          { apply Off. intros i Li Ei. apply lvl_node_inj_level in Ei. lia. }
          rewrite G2.
          destruct (get t1' (lvl_node (N.of_nat (S k)) sndr)) as [[x|um]|] eqn:G; [exact I| |exact I].
          pose proof (nonblank_ancestor_unfiltered t1' sndr flt Sh' W5' Sm' ltac:(congruence) Fl k um G) as X.
          apply nth_error_None in Hf. congruence.
      - (* not an ancestor: nothing below it has changed *)
        assert (Nt : forall n, n <> 2 * sndr -> ~ ancestor n sndr -> get t2 n = get t1 n /\ (get t1 n <> None -> d2 n = d n)).
        { intros n Nn Na. split; [|apply Doff; assumption].
          rewrite Off by (intros i _ Ei; apply Na; rewrite Ei; apply ancestor_lvl; lia).
          unfold t1'. apply get_set_other. congruence. }
        apply (ph_blanking_frame t1 t2 d d2 sndr Nt k j Ne (V k j)).
    Qed.
  End Path.
End PH.

(* the group a member creates has no parent node *)
Theorem ph_initial PHF id d : PHValid PHF [Some (Leaf id)] d.
Proof.
  intros k j. unfold valid_at.
  assert (G : get [Some (Leaf id)] (node (N.of_nat (S k)) j) = None).
  { unfold get. destruct (N.to_nat (node (N.of_nat (S k)) j)) as [|m] eqn:E.
    - exfalso. replace (N.of_nat (S k)) with (N.of_nat k + 1) in E by lia. rewrite node_succ in E. lia.
    - destruct m; reflexivity. }
  rewrite G. exact I.
Qed.

(* one whole commit: the proposals, then the update path *)
Theorem ph_commit PHF t removes updates adds t1 added sndr id t2 flt d dm d2 :
  wf3 t -> wf5 t -> shape_ok t -> tlen t + 2 * N.of_nat (length adds) < 2 ^ 25 ->
  batch_edit t removes updates adds = TOk (t1, added) ->
  apply_update_path t1 sndr id = TOk t2 ->
  filtered (set t1 (2 * sndr) (Some (Leaf id))) sndr = Ok flt ->
  (forall n, (forall l, In l (map fst updates) -> n <> 2 * l) -> get t n <> None -> dm n = d n) ->
  (forall n, n <> 2 * sndr -> ~ ancestor n sndr -> get t1 n <> None -> d2 n = dm n) ->
  (forall i, nth_error flt i = Some false ->
     snd (d2 (dnode sndr (next_below flt i))) =
     PHF (fst (d2 (lvl_node (N.of_nat (S i)) sndr))) (snd (d2 (lvl_node (N.of_nat (S i)) sndr)))
         (content t2 d2 [] i (sib (sndr / 2 ^ N.of_nat i)))) ->
  PHValid PHF t d -> PHValid PHF t2 d2.
Proof.
  intros W3 W5 Sh S B A F Hm H2 Hp V.
  destruct (wf3_batch_edit _ _ _ _ _ _ W3 S B) as [_ L1].
  pose proof (wf5_batch_edit _ _ _ _ _ _ W5 Sh S B) as W51.
  destruct (shape_batch_edit _ _ _ _ _ _ Sh B) as [Sh1 _].
  apply (ph_update_path PHF t1 t2 sndr id flt dm d2 Sh1 W51 ltac:(unfold small; lia) A F H2 Hp).
  apply (ph_batch_edit PHF t removes updates adds t1 added d dm W3 S B Hm V).
Qed.

(* ---- the committer's computation of the parent hashes on its path (RFC 9420 7.9, parent_hash.rs
   update_parent_hashes), as a function: top-down, each unfiltered path node and finally the leaf store the
   hash of the next unfiltered node above them.  With it the hypothesis of ph_update_path is discharged. ---- *)
Section Compute.
  Variable PHF : N -> N -> cterm -> N.
  Variables (t2 : tree) (d : deco) (sndr : N) (flt : list bool) (fk : N -> N) (leafkey : N).

  (* the lowest unfiltered position at or above i *)
  Fixpoint next_at_or_above (fuel i : nat) : option nat :=
    match fuel with
    | O => None
    | S f => match nth_error flt i with
             | Some false => Some i
             | Some true => next_at_or_above f (S i)
             | None => None
             end
    end.

  (* the parent hash stored in whatever sits just below position i (fuel = positions left above) *)
  Fixpoint ph_below (fuel i : nat) : N :=
    match fuel with
    | O => 0
    | S f => match nth_error flt i with
             | Some false => PHF (fk (N.of_nat i)) (ph_below f (S i)) (content t2 d [] i (sib (sndr / 2 ^ N.of_nat i)))
             | Some true => ph_below f (S i)
             | None => 0
             end
    end.

  Definition on_path (n : N) : option nat :=
    find (fun i => n =? lvl_node (N.of_nat (S i)) sndr) (seq 0 (length flt)).

  Definition decorate : deco := fun n =>
    if n =? 2 * sndr then (leafkey, ph_below (length flt) 0)
    else match on_path n with
         | Some i => match nth_error flt i with
                     | Some false => (fk (N.of_nat i), ph_below (length flt - S i) (S i))
                     | _ => d n
                     end
         | None => d n
         end.

  Lemma on_path_some n i : on_path n = Some i -> n = lvl_node (N.of_nat (S i)) sndr /\ (i < length flt)%nat.
  Proof.
    unfold on_path. intro F. apply find_some in F. destruct F as [I E]. apply in_seq in I.
    apply N.eqb_eq in E. split; [exact E|lia].
  Qed.

  Lemma find_first_seq (f : nat -> bool) i : forall n s, (s <= i < s + n)%nat -> f i = true ->
    (forall j, (s <= j < i)%nat -> f j = false) -> find f (seq s n) = Some i.
  Proof.
    induction n as [|n IH]; intros s R Fi Fj; [lia|]. cbn [seq find].
    destruct (Nat.eq_dec s i) as [->|Ne]; [rewrite Fi; reflexivity|].
    rewrite (Fj s) by lia. apply IH; [lia|exact Fi|intros j Hj; apply Fj; lia].
  Qed.

  Lemma on_path_lvl i : (i < length flt)%nat -> on_path (lvl_node (N.of_nat (S i)) sndr) = Some i.
  Proof.
    intro L. unfold on_path. apply find_first_seq; [lia|apply N.eqb_refl|].
    intros j Hj. apply N.eqb_neq. intro E. apply lvl_node_inj_level in E. lia.
  Qed.

  Lemma decorate_off n : n <> 2 * sndr -> ~ ancestor n sndr -> decorate n = d n.
  Proof.
    intros Nn Na. unfold decorate. destruct (N.eqb_spec n (2 * sndr)) as [E|_]; [contradiction|].
    destruct (on_path n) as [i|] eqn:O; [|reflexivity].
    apply on_path_some in O. destruct O as [E _]. exfalso. apply Na. rewrite E. apply ancestor_lvl. lia.
  Qed.

  Lemma decorate_path_node i : nth_error flt i = Some false ->
    decorate (lvl_node (N.of_nat (S i)) sndr) = (fk (N.of_nat i), ph_below (length flt - S i) (S i)).
  Proof.
    intro Hf. assert (L : (i < length flt)%nat) by (apply nth_error_Some; congruence).
    unfold decorate. destruct (N.eqb_spec (lvl_node (N.of_nat (S i)) sndr) (2 * sndr)) as [E|_].
    - pose proof (lvl_node_odd (N.of_nat (S i)) sndr ltac:(lia)) as O. rewrite E, N.even_mul in O. discriminate.
    - rewrite (on_path_lvl i L), Hf. reflexivity.
  Qed.

  Definition pos (o : option nat) : nat := match o with Some b => S b | None => O end.

  Lemma decorate_dnode o : (forall b, o = Some b -> nth_error flt b = Some false) ->
    snd (decorate (dnode sndr o)) = ph_below (length flt - pos o) (pos o).
  Proof.
    intro H. destruct o as [b|]; cbn [dnode pos].
    - rewrite (decorate_path_node b (H b eq_refl)). reflexivity.
    - unfold decorate. rewrite N.eqb_refl. cbn [snd]. rewrite Nat.sub_0_r. reflexivity.
  Qed.

  Lemma next_below_spec i : (forall b, next_below flt i = Some b -> nth_error flt b = Some false) /\
    (pos (next_below flt i) <= i)%nat /\
    (forall j, (pos (next_below flt i) <= j < i)%nat -> (j < length flt)%nat -> nth_error flt j = Some true).
  Proof.
    induction i as [|i (IH1 & IH2 & IH3)]; cbn [next_below].
    - split; [discriminate|]. split; [cbn; lia|]. intros; lia.
    - destruct (nth_error flt i) as [[|]|] eqn:Hf.
      + split; [exact IH1|]. split; [lia|]. intros j Hj Lj. destruct (Nat.eq_dec j i) as [->|Ne]; [exact Hf|apply IH3; [lia|exact Lj]].
      + split; [intros b E; inversion E; subst; exact Hf|]. split; [cbn [pos]; lia|]. cbn [pos]. intros; lia.
      + split; [exact IH1|]. split; [lia|]. intros j Hj Lj. destruct (Nat.eq_dec j i) as [->|Ne]; [apply nth_error_None in Hf; lia|apply IH3; [lia|exact Lj]].
  Qed.

  Lemma ph_below_skip : forall n a, (a + n <= length flt)%nat ->
    (forall j, (a <= j < a + n)%nat -> nth_error flt j = Some true) ->
    ph_below (length flt - a) a = ph_below (length flt - (a + n)) (a + n).
  Proof.
    induction n as [|n IH]; intros a L T; [rewrite Nat.add_0_r; reflexivity|].
    replace (length flt - a)%nat with (S (length flt - S a)) by lia. cbn [ph_below].
    rewrite (T a) by lia. replace (a + S n)%nat with (S a + n)%nat by lia. apply IH; [lia|intros j Hj; apply T; lia].
  Qed.

  Lemma decorate_recurrence i : nth_error flt i = Some false ->
    snd (decorate (dnode sndr (next_below flt i))) =
    PHF (fst (decorate (lvl_node (N.of_nat (S i)) sndr))) (snd (decorate (lvl_node (N.of_nat (S i)) sndr)))
        (content t2 decorate [] i (sib (sndr / 2 ^ N.of_nat i))).
  Proof.
    intro Hf. assert (L : (i < length flt)%nat) by (apply nth_error_Some; congruence).
    destruct (next_below_spec i) as (B1 & B2 & B3).
    rewrite (decorate_dnode _ B1), (decorate_path_node i Hf). cbn [fst snd].
    set (a := pos (next_below flt i)) in *.
    rewrite (ph_below_skip (i - a) a) by (try lia; intros j Hj; apply B3; lia).
    replace (a + (i - a))%nat with i by lia.
    replace (length flt - i)%nat with (S (length flt - S i)) by lia. cbn [ph_below]. rewrite Hf.
    f_equal. symmetry. apply content_agree. apply (agree_outside t2 t2 d decorate sndr).
    - intros n Nn Na. split; [reflexivity|intros _; apply decorate_off; assumption].
    - unfold sib. destruct (N.even (sndr / 2 ^ N.of_nat i)) eqn:Ev; [lia|].
      destruct (N.eq_dec (sndr / 2 ^ N.of_nat i) 0) as [Z|NZ]; [rewrite Z in Ev; discriminate|lia].
  Qed.
End Compute.

(* one whole commit with the committer's parent hashes computed by [decorate]: no hypothesis about them is left *)
Theorem ph_commit_computed PHF t removes updates adds t1 added sndr id t2 flt d dm fk leafkey :
  wf3 t -> wf5 t -> shape_ok t -> tlen t + 2 * N.of_nat (length adds) < 2 ^ 25 ->
  batch_edit t removes updates adds = TOk (t1, added) ->
  apply_update_path t1 sndr id = TOk t2 ->
  filtered (set t1 (2 * sndr) (Some (Leaf id))) sndr = Ok flt ->
  (forall n, (forall l, In l (map fst updates) -> n <> 2 * l) -> get t n <> None -> dm n = d n) ->
  PHValid PHF t d -> PHValid PHF t2 (decorate PHF t2 dm sndr flt fk leafkey).
Proof.
  intros W3 W5 Sh S B A F Hm V.
  apply (ph_commit PHF t removes updates adds t1 added sndr id t2 flt d dm _ W3 W5 Sh S B A F Hm); [| |exact V].
  - intros n Nn Na _. apply decorate_off; assumption.
  - intros i Hf. apply decorate_recurrence. exact Hf.
Qed.
