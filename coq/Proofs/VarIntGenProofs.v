(* The variable-length integer codec as translated from mls-rs-codec/src/varint.rs
   (Gen/VarIntGen.v: bit-length thresholds, marker bits OR-ed into the big-endian bytes, slices,
   prefix shift, mask, fold by shift-and-or, minimal-length comparison) is the arithmetic model
   Model/Codec.v's theorems are about (thresholds 64 / 16384, div / mod by powers of 256). *)
From Coq Require Import NArith PeanoNat List Bool Lia.
From MlsV Require Import Codec CodecPrim BitsN VarIntGen.
Import ListNotations.
Local Open Scope N_scope.

Lemma gen_varint_max_is_model : gen_varint_max = varint_max.
Proof. reflexivity. Qed.

(* bit length against a power of two *)
Lemma size_le_iff n k : N.size n <= k <-> n < 2 ^ k.
Proof.
  split; intro Hk.
  - eapply N.lt_le_trans; [apply N.size_gt|]. apply N.pow_le_mono_r; [lia|exact Hk].
  - destruct (N.le_gt_cases (N.size n) k) as [|Hgt]; [assumption|exfalso].
    pose proof (N.size_le n) as Hs. rewrite N.succ_double_spec in Hs.
    assert (2 ^ (k + 1) <= 2 ^ N.size n) by (apply N.pow_le_mono_r; lia).
    rewrite N.pow_add_r in *. change (2 ^ 1) with 2 in *. lia.
Qed.

Theorem gen_count_bytes_is_model n : n <= varint_max -> gen_count_bytes n = Some (varint_len n).
Proof.
  intro Hn. unfold varint_max in Hn. change (2 ^ 30 - 1) with 1073741823 in Hn.
  unfold gen_count_bytes, varint_len. cbv zeta.
  pose proof (size_le_iff n 6) as S6. pose proof (size_le_iff n 14) as S14. pose proof (size_le_iff n 30) as S30.
  change (2 ^ 6) with 64 in S6. change (2 ^ 14) with 16384 in S14. change (2 ^ 30) with 1073741824 in S30.
  destruct (N.ltb_spec n 64) as [H1|H1].
  - destruct (N.leb_spec (N.size n) 6) as [|Hc]; [|lia].
    replace (0 <=? N.size n) with true by (symmetry; apply N.leb_le; lia). reflexivity.
  - destruct (N.leb_spec (N.size n) 6) as [Hc|Hc]; [lia|]. rewrite andb_false_r.
    destruct (N.ltb_spec n 16384) as [H2|H2].
    + destruct (N.leb_spec (N.size n) 14) as [|Hd]; [|lia].
      replace (7 <=? N.size n) with true by (symmetry; apply N.leb_le; lia). reflexivity.
    + destruct (N.leb_spec (N.size n) 14) as [Hd|Hd]; [lia|]. rewrite andb_false_r.
      destruct (N.leb_spec (N.size n) 30) as [|He]; [|lia].
      replace (15 <=? N.size n) with true by (symmetry; apply N.leb_le; lia). reflexivity.
Qed.

(* the panic of count_bytes_to_encode_int is exactly "needs more than 30 bits" *)
Theorem gen_count_bytes_panics_iff n : gen_count_bytes n = None <-> varint_max < n.
Proof.
  unfold varint_max. change (2 ^ 30 - 1) with 1073741823. split.
  - intro Hc. destruct (N.le_gt_cases n 1073741823) as [Hle|]; [|assumption].
    rewrite gen_count_bytes_is_model in Hc by (unfold varint_max; change (2 ^ 30 - 1) with 1073741823; exact Hle). discriminate.
  - intro Hn. unfold gen_count_bytes. cbv zeta.
    pose proof (size_le_iff n 30) as S30. change (2 ^ 30) with 1073741824 in S30.
    destruct (N.leb_spec (N.size n) 6); [lia|]. destruct (N.leb_spec (N.size n) 14); [lia|].
    destruct (N.leb_spec (N.size n) 30); [lia|]. rewrite !andb_false_r. reflexivity.
Qed.

Theorem gen_try_from_is_model n : gen_try_from n = if n <=? varint_max then Some n else None.
Proof. reflexivity. Qed.

(* marker bits: OR into a byte whose marked bits are clear is addition *)
Lemma lor_marker a k : a < 2 ^ k -> N.lor a (2 ^ k) = 2 ^ k + a.
Proof.
  intro Ha. rewrite N.lor_comm. rewrite <- (N.shiftl_1_l k). rewrite <- add_shiftl_lor by exact Ha. reflexivity.
Qed.

Theorem gen_encode_varint_is_model n : gen_encode_varint n = encode_varint n.
Proof.
  unfold gen_encode_varint, encode_varint. cbv zeta.
  destruct (N.leb_spec n varint_max) as [Hn|Hn].
  - rewrite gen_count_bytes_is_model by exact Hn.
    unfold varint_max in Hn. change (2 ^ 30 - 1) with 1073741823 in Hn.
    unfold varint_len. destruct (N.ltb_spec n 64) as [H1|H1].
    + cbn [be_bytes skipn]. change (256 ^ N.of_nat 0) with 1. rewrite N.div_1_r, N.mod_small by lia. reflexivity.
    + destruct (N.ltb_spec n 16384) as [H2|H2].
      * cbn [be_bytes skipn or_at]. change (256 ^ N.of_nat 1) with 256. change (256 ^ N.of_nat 0) with 1.
        rewrite N.div_1_r. rewrite (N.mod_small (n / 256) 256) by (apply N.div_lt_upper_bound; lia).
        change 64 with (2 ^ 6) at 1. rewrite lor_marker by (change (2 ^ 6) with 64; apply N.div_lt_upper_bound; lia).
        reflexivity.
      * cbn [be_bytes skipn or_at]. change (256 ^ N.of_nat 3) with 16777216. change (256 ^ N.of_nat 2) with 65536.
        change (256 ^ N.of_nat 1) with 256. change (256 ^ N.of_nat 0) with 1.
        rewrite N.div_1_r. rewrite (N.mod_small (n / 16777216) 256) by (apply N.div_lt_upper_bound; lia).
        change 128 with (2 ^ 7) at 1. rewrite lor_marker by (change (2 ^ 7) with 128; apply N.div_lt_upper_bound; lia).
        reflexivity.
  - assert (Hp : gen_count_bytes n = None) by (apply gen_count_bytes_panics_iff; exact Hn).
    rewrite Hp. reflexivity.
Qed.

Lemma gen_fold_is_be_value more : bytes_ok more -> forall acc, gen_fold more acc = be_value more acc.
Proof.
  induction 1 as [|b r Hb Hr IH]; intro acc; cbn [gen_fold be_value]; [reflexivity|].
  rewrite IH. f_equal. rewrite <- add_shiftl_lor by (change (2 ^ 8) with 256; exact Hb).
  rewrite N.shiftl_mul_pow2. reflexivity.
Qed.

Lemma firstn_ok {A} (P : A -> Prop) n (l : list A) : Forall P l -> Forall P (firstn n l).
Proof. intro F. revert n. induction F as [|x r Hx Hr IH]; intros [|n]; cbn [firstn]; constructor; auto. Qed.

Theorem gen_decode_varint_is_model bs : bytes_ok bs -> gen_decode_varint bs = decode_varint bs.
Proof.
  intro Hok. unfold gen_decode_varint, decode_varint. destruct bs as [|first r]; [reflexivity|].
  inversion Hok as [|? ? Hf Hr]; subst. cbv zeta.
  rewrite N.shiftr_div_pow2. change (2 ^ 6) with 64.
  destruct (N.ltb_spec (first / 64) 3) as [Hp|Hp]; [|reflexivity].
  rewrite N.shiftl_1_l.
  change 63 with (N.ones 6). rewrite N.land_ones. change (2 ^ 6) with 64.
  destruct (take_n (N.to_nat (2 ^ (first / 64)) - 1) r) as [[more rest]|] eqn:T; [|reflexivity].
  assert (Hm : bytes_ok more /\ length more = (N.to_nat (2 ^ (first / 64)) - 1)%nat).
  { unfold take_n in T. destruct (Nat.leb _ _) eqn:L; [|discriminate]. inversion T; subst. split.
    - apply firstn_ok. exact Hr.
    - apply firstn_length_le. apply Nat.leb_le. exact L. }
  destruct Hm as [Hmo Hl]. rewrite gen_fold_is_be_value by exact Hmo.
  set (n := be_value more (first mod 64)).
  assert (Hn : n <= varint_max).
  { unfold n, varint_max. rewrite be_value_acc. pose proof (be_value_bound more Hmo) as Hb.
    assert (first mod 64 < 64) by (apply N.mod_lt; lia).
    assert (Hlen : (length more <= 3)%nat).
    { rewrite Hl. assert (first / 64 = 0 \/ first / 64 = 1 \/ first / 64 = 2) as [E|[E|E]] by lia; rewrite E; cbn; lia. }
    assert (256 ^ N.of_nat (length more) <= 256 ^ 3) by (apply N.pow_le_mono_r; lia).
    change (256 ^ 3) with 16777216 in *. change (2 ^ 30 - 1) with 1073741823. nia. }
  rewrite gen_count_bytes_is_model by exact Hn.
  assert (Hc : N.of_nat (N.to_nat (2 ^ (first / 64))) = 2 ^ (first / 64)) by apply N2Nat.id.
  rewrite Hc. reflexivity.
Qed.
