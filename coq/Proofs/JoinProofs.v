From Coq Require Import NArith List Bool Lia.
From MlsV Require Import TreeMathProofs Priv PrivProofs Join.
Import ListNotations.
Local Open Scope N_scope.

Lemma has_in r l : has r l = true <-> In r l.
Proof.
  unfold has. rewrite existsb_exists. split.
  - intros (x & I & E). apply N.eqb_eq in E. subst. exact I.
  - intro I. exists r. split; [exact I|apply N.eqb_refl].
Qed.
Lemma del_spec r l x : In x (del r l) <-> In x l /\ x <> r.
Proof. unfold del. rewrite filter_In, negb_true_iff, N.eqb_neq. reflexivity. Qed.

(* once the joiner has persisted its group, the package it used is gone - unless it was last-resort *)
Theorem used_package_is_deleted s r s1 :
  k_join s r false = Some s1 -> ~ In r (kps (k_write s1)) /\ forall x, x <> r -> (In x (kps (k_write s1)) <-> In x (kps s)).
Proof.
  unfold k_join. destruct (has r (kps s)) eqn:H; [|discriminate]. intro E. assert (s1 = {| kps := kps s; pending_rm := Some r |}) by congruence. subst.
  cbn [k_write pending_rm kps]. split.
  - intro I. apply del_spec in I. destruct I as [_ N]. apply N. reflexivity.
  - intros x Nx. rewrite del_spec. tauto.
Qed.

Theorem last_resort_package_is_kept s r s1 : k_join s r true = Some s1 -> kps (k_write s1) = kps s.
Proof.
  unfold k_join. destruct (has r (kps s)); [|discriminate]. intro E. assert (s1 = {| kps := kps s; pending_rm := None |}) by congruence. subst. reflexivity.
Qed.

(* a Welcome for a package that is not (any more) in the store produces no group *)
Theorem unknown_package_cannot_join s r lr : ~ In r (kps s) -> k_join s r lr = None.
Proof. intro N. unfold k_join. destruct (has r (kps s)) eqn:H; [|reflexivity]. apply has_in in H. contradiction. Qed.

Corollary package_is_single_use s r s1 : NoDup (kps s) ->
  k_join s r false = Some s1 -> k_join (k_write s1) r false = None.
Proof. intros _ E. apply unknown_package_cannot_join. apply (used_package_is_deleted s r s1 E). Qed.

(* until the write, nothing is deleted (a crash before the first write leaves the package usable) *)
Theorem nothing_deleted_before_write s r lr s1 : k_join s r lr = Some s1 -> kps s1 = kps s.
Proof. unfold k_join. destruct (has r (kps s)); [|discriminate]. intro E. inversion E; reflexivity. Qed.

(* the position handed to the joiner is the common ancestor: both leaves have the same ancestor
   there, and different ones below *)
Theorem joiner_secret_at_common_ancestor committer joiner L :
  1 <= L -> committer / 2 ^ L = joiner / 2 ^ L -> (forall k, k < L -> committer / 2 ^ k <> joiner / 2 ^ k) ->
  lvl_node L committer = lvl_node L joiner /\ forall k, k < L -> lvl_node k committer <> lvl_node k joiner.
Proof.
  intros L1 E N. split.
  - unfold lvl_node. rewrite E. reflexivity.
  - intros k Lk Ek. apply lvl_node_eq in Ek. destruct Ek as [_ Ek]. exact (N k Lk Ek).
Qed.
