(* The code-shaped key schedule / PSK chain / secret tree / ratchet (Model/KeyScheduleCode.v)
   computes the RFC 9420 values (Model/KeyScheduleRFC.v), for every hash / KDF. *)
From Coq Require Import NArith List Bool Lia.
From MlsV Require Import Res Codec Hkdf KeyScheduleRFC KeyScheduleCode TreeMathGen BitsN TreeMathProofs.
Import ListNotations.
Local Open Scope N_scope.

Section Proofs.
  Variable H : hash_alg.
  Hypothesis Hsmall : N.of_nat (h_len H) < 65536.

  Lemma label_ok len label ctx : N.of_nat len < 65536 -> label_bytes len label ctx = kdf_label len label ctx.
  Proof. intro L. unfold label_bytes, kdf_label. rewrite N.mod_small by assumption. reflexivity. Qed.

  Lemma ewl_some secret label ctx len : N.of_nat len < 65536 ->
    kdf_expand_with_label H secret label ctx (Some len) = expand_with_label H secret label ctx len.
  Proof. intro L. unfold kdf_expand_with_label, expand_with_label. rewrite label_ok by assumption. reflexivity. Qed.

  Lemma ewl_none secret label ctx :
    kdf_expand_with_label H secret label ctx None = expand_with_label H secret label ctx (h_len H).
  Proof. unfold kdf_expand_with_label, expand_with_label. rewrite label_ok by assumption. reflexivity. Qed.

  Lemma derive_ok secret label : kdf_derive_secret H secret label = derive_secret H secret label.
  Proof. unfold kdf_derive_secret, derive_secret. apply ewl_none. Qed.

  (* ---- key schedule ---- *)
  Definition rfc_epoch (init commit ctx psk : list N) : list N :=
    epoch_secret H (joiner_secret H init commit ctx) psk ctx.

  Theorem key_schedule_ok init commit ctx psk :
    let r := from_key_schedule H init commit ctx psk in
    let e := rfc_epoch init commit ctx psk in
    d_joiner r = joiner_secret H init commit ctx
    /\ es_resumption (d_epoch r) = derive_secret H e L_resumption
    /\ es_sender_data (d_epoch r) = derive_secret H e L_sender_data
    /\ es_encryption (d_epoch r) = derive_secret H e L_encryption
    /\ ks_exporter (d_ks r) = derive_secret H e L_exporter
    /\ ks_authentication (d_ks r) = derive_secret H e L_authentication
    /\ ks_external (d_ks r) = derive_secret H e L_external
    /\ ks_membership (d_ks r) = derive_secret H e L_membership
    /\ ks_init (d_ks r) = derive_secret H e L_init
    /\ d_confirm r = derive_secret H e L_confirm.
  Proof.
    cbn zeta. unfold from_key_schedule, from_joiner, from_epoch_secret, rfc_epoch, epoch_secret,
      joiner_secret, member_secret, get_pre_epoch_secret. cbn [d_joiner d_epoch d_ks d_confirm
      es_resumption es_sender_data es_encryption ks_exporter ks_authentication ks_external ks_membership ks_init].
    rewrite !derive_ok, !ewl_none. repeat split; reflexivity.
  Qed.

  Theorem welcome_secret_ok joiner psk :
    get_welcome_secret H joiner psk = welcome_secret H joiner psk.
  Proof. unfold get_welcome_secret, welcome_secret, member_secret, get_pre_epoch_secret. apply derive_ok. Qed.

  Theorem exporter_ok exporter label context len : N.of_nat len < 65536 ->
    export_secret H exporter label context len = mls_exporter H exporter label context len.
  Proof. intro L. unfold export_secret, mls_exporter. rewrite derive_ok, ewl_some by assumption. reflexivity. Qed.

  (* ---- PSK chain ---- *)
  Lemma psk_loop_ok input : forall index len acc,
    psk_loop H input index len acc = psk_chain H input index len acc.
  Proof.
    induction input as [|[id psk] r IH]; intros; cbn [psk_loop psk_chain]; [reflexivity|].
    rewrite ewl_none. unfold psk_label. apply IH.
  Qed.

  Theorem psk_secret_ok input : psk_calculate H input = psk_secret H input.
  Proof. unfold psk_calculate, psk_secret. apply psk_loop_ok. Qed.

  (* ---- secret tree ---- *)
  Section Tree.
    Variables (d : N) (enc : list N).
    Hypothesis Hd : d <= 30.

    (* RFC secret of the j-th node of level k *)
    Definition rfc_node_secret (k j : N) : list N := tree_secret_down H (N.to_nat (d - k)) j enc.

    Definition good (m : tree_state) : Prop :=
      forall x s, In (x, TSecret s) m ->
        exists k j, x = node k j /\ k <= d /\ j < 2 ^ (d - k) /\ s = rfc_node_secret k j.

    Lemma take_node_sub m y : forall x n, In (x, n) (snd (take_node m y)) -> In (x, n) m.
    Proof.
      induction m as [|[z t] r IH]; intros x n; cbn [take_node]; [cbn; intros F; destruct F|].
      destruct (z =? y); cbn [snd].
      - intro. right. assumption.
      - destruct (take_node r y) as [o r'] eqn:E. cbn [snd] in *. intros [E1|I]; [left; exact E1|right; apply IH; exact I].
    Qed.

    Lemma take_node_in m y n : fst (take_node m y) = Some n -> In (y, n) m.
    Proof.
      induction m as [|[z t] r IH]; cbn [take_node]; [discriminate|].
      destruct (N.eqb_spec z y).
      - cbn [fst]. intro E. inversion E; subst. left. reflexivity.
      - destruct (take_node r y) as [o r'] eqn:E. cbn [fst] in *. intro. right. apply IH. assumption.
    Qed.

    Lemma good_take m y : good m -> good (snd (take_node m y)).
    Proof. intros G x s I. apply G. eapply take_node_sub. exact I. Qed.

    Lemma good_set m x k j : good m -> k <= d -> j < 2 ^ (d - k) -> x = node k j ->
      good (set_node m x (TSecret (rfc_node_secret k j))).
    Proof.
      intros G Hk Hj -> y s [E|I].
      - inversion E; subst. exists k, j. repeat split; assumption.
      - apply G. eapply take_node_sub. exact I.
    Qed.

    Lemma down_child s : forall j (b : bool) sec,
      tree_secret_down H (S s) (2 * j + (if b then 1 else 0)) sec
      = expand_with_label H (tree_secret_down H s j sec) L_tree (if b then C_right else C_left) (h_len H).
    Proof.
      induction s as [|s IH]; intros j b sec.
      - cbn [tree_secret_down]. change (N.of_nat 0) with 0.
        replace (N.testbit (2 * j + (if b then 1 else 0)) 0) with b; [reflexivity|].
        destruct b; [rewrite N.testbit_odd_0|rewrite N.add_0_r, N.testbit_even_0]; reflexivity.
      - change (tree_secret_down H (S (S s)) (2 * j + (if b then 1 else 0)) sec)
          with (tree_secret_down H (S s) (2 * j + (if b then 1 else 0))
                  (expand_with_label H sec L_tree
                     (if N.testbit (2 * j + (if b then 1 else 0)) (N.of_nat (S s)) then C_right else C_left) (h_len H))).
        rewrite IH. cbn [tree_secret_down].
        replace (N.testbit (2 * j + (if b then 1 else 0)) (N.of_nat (S s))) with (N.testbit j (N.of_nat s)); [reflexivity|].
        rewrite Nnat.Nat2N.inj_succ. destruct b.
        + rewrite N.testbit_odd_succ by lia. reflexivity.
        + rewrite N.add_0_r, N.testbit_even_succ by lia. reflexivity.
    Qed.

    Lemma child_secret k j (b : bool) : k < d ->
      rfc_node_secret k (2 * j + (if b then 1 else 0))
      = expand_with_label H (rfc_node_secret (k + 1) j) L_tree (if b then C_right else C_left) (h_len H).
    Proof.
      intro Hk. unfold rfc_node_secret.
      replace (N.to_nat (d - k)) with (S (N.to_nat (d - (k + 1)))) by lia. apply down_child.
    Qed.

    Lemma good_consume m x k j m' :
      good m -> x = node (k + 1) j -> k + 1 <= d -> j < 2 ^ (d - (k + 1)) ->
      consume_node H m x = Ok m' -> good m'.
    Proof.
      intros G -> Hk Hj. unfold consume_node.
      destruct (take_node m (node (k + 1) j)) as [[[s|]|] m0] eqn:E;
        try (intro Hc; inversion Hc; subst; replace m' with (snd (take_node m (node (k + 1) j))) by (rewrite E; reflexivity); apply good_take; assumption).
      rewrite left_ok, right_ok by lia. cbn [bind ret]. intro Hc. inversion Hc; subst; clear Hc.
      assert (I : In (node (k + 1) j, TSecret s) m) by (apply take_node_in; rewrite E; reflexivity).
      destruct (G _ _ I) as (k' & j' & En & _ & _ & ->).
      assert (k' = k + 1) by (symmetry; eapply node_inj_level; exact En). subst k'.
      assert (j' = j).
      { unfold node in En. pose proof (pow2_pos (k + 1)). nia. }
      subst j'.
      assert (G0 : good m0) by (replace m0 with (snd (take_node m (node (k + 1) j))) by (rewrite E; reflexivity); apply good_take; assumption).
      rewrite !ewl_none.
      assert (Hj2 : 2 * j + 1 < 2 ^ (d - k)).
      { replace (d - k) with (d - (k + 1) + 1) by lia. rewrite N.pow_add_r, N.pow_1_r. lia. }
      pose proof (child_secret k j false ltac:(lia)) as CL. pose proof (child_secret k j true ltac:(lia)) as CR.
      cbn [negb] in CL, CR. rewrite N.add_0_r in CL. rewrite <- CL, <- CR.
      apply good_set with (k := k) (j := 2 * j + 1); try lia; [|reflexivity].
      apply good_set with (k := k) (j := 2 * j); try lia; [assumption|reflexivity].
    Qed.

    (* the path handed to consume_path for leaf l: node i (l / 2^i) for i = d down to 1 *)
    Lemma good_consume_path path : forall m m',
      good m -> Forall (fun x => exists k j, x = node (k + 1) j /\ k + 1 <= d /\ j < 2 ^ (d - (k + 1))) path ->
      consume_path H m path = Ok m' -> good m'.
    Proof.
      induction path as [|x r IH]; intros m m' G F; cbn [consume_path].
      - intro E. inversion E; subst. assumption.
      - inversion F as [|? ? (k & j & Ex & Hk & Hj) Fr]; subst.
        destruct (consume_node H m (node (k + 1) j)) as [m1| |] eqn:E; cbn [bind]; try discriminate.
        apply IH; [eapply good_consume; eauto|assumption].
    Qed.

    Lemma path_spec_in_tree n : forall k j, k <= d -> j < 2 ^ (d - k) -> N.of_nat n = d - k ->
      Forall (fun x => exists k' j', x = node (k' + 1) j' /\ k' + 1 <= d /\ j' < 2 ^ (d - (k' + 1)))
             (map CopathNode_path (path_spec n k j)).
    Proof.
      induction n as [|n IH]; intros k j Hk Hj Hn; cbn [path_spec map]; [constructor|].
      constructor.
      - exists k, (j / 2). split; [reflexivity|]. split; [lia|]. apply half_lt; lia.
      - apply IH; [lia|apply half_lt; lia|lia].
    Qed.

    Lemma good_new m : tree_new (2 ^ d) enc = Ok m -> good m.
    Proof.
      unfold tree_new. rewrite root_ok by lia. cbn [bind ret]. intro E. inversion E; subst.
      intros x s [I|[]]. inversion I; subst. exists d, 0.
      split; [reflexivity|]. split; [lia|]. split; [apply pow2_pos|].
      unfold rfc_node_secret. replace (d - d) with 0 by lia. reflexivity.
    Qed.

    (* every leaf secret handed out is the RFC leaf secret, whatever was consumed before *)
    Theorem take_leaf_ok m l o m' :
      good m -> l < 2 ^ d -> take_leaf H m (node 0 l) (2 ^ d) = Ok (o, m') ->
      good m' /\ (forall s, o = Some (TSecret s) -> s = leaf_secret H (N.to_nat d) l enc).
    Proof.
      intros G Hl. unfold take_leaf.
      assert (Leaf : forall mm s, good mm -> fst (take_node mm (node 0 l)) = Some (TSecret s) -> s = leaf_secret H (N.to_nat d) l enc).
      { intros mm s Gm E. apply take_node_in in E. destruct (Gm _ _ E) as (k & j & En & _ & _ & ->).
        assert (k = 0) by (symmetry; eapply node_inj_level; exact En). subst k.
        rewrite !node_0 in En. assert (j = l) by lia. subst j.
        unfold rfc_node_secret, leaf_secret. rewrite N.sub_0_r. reflexivity. }
      destruct (take_node m (node 0 l)) as [[n|] m0] eqn:E.
      - intro R. inversion R; subst. split.
        + replace m' with (snd (take_node m (node 0 l))) by (rewrite E; reflexivity). apply good_take. assumption.
        + intros s Es. inversion Es; subst. apply (Leaf m); [assumption|rewrite E; reflexivity].
      - rewrite direct_copath_ok by (try lia; rewrite N.sub_0_r; assumption). cbn [bind].
        destruct (consume_path H m _) as [m1| |] eqn:C; cbn [bind]; try discriminate.
        intro R. inversion R; subst.
        assert (G1 : good m1).
        { eapply good_consume_path; [exact G| |exact C]. apply Forall_rev.
          apply path_spec_in_tree; [lia|rewrite N.sub_0_r; assumption|lia]. }
        match goal with Hq : take_node m1 (node 0 l) = (o, m') |- _ => rename Hq into Hq1 end.
        split.
        + replace m' with (snd (take_node m1 (node 0 l))) by (rewrite Hq1; reflexivity). apply good_take. assumption.
        + intros s Es. apply (Leaf m1); [assumption|rewrite Hq1; exact Es].
    Qed.
  End Tree.

  (* ---- ratchet ---- *)
  Fixpoint iter_next (nk nn : nat) (n : nat) (r : ratchet) : res ratchet :=
    match n with
    | O => ret r
    | S n' => bind (next_message_key H nk nn r) (fun '(_, r') => iter_next nk nn n' r')
    end.

  Lemma ratchet_advance nk nn n : forall r r',
    r_gen r + N.of_nat n < 2 ^ 32 ->
    iter_next nk nn n r = Ok r' ->
    r_secret r' = ratchet_secret_at H n (r_gen r) (r_secret r) /\ r_gen r' = r_gen r + N.of_nat n.
  Proof.
    induction n as [|n IH]; intros r r' Hb; cbn [iter_next ratchet_secret_at].
    - intro E. inversion E; subst. split; [reflexivity|lia].
    - unfold next_message_key at 1. rewrite u32_add_ok by lia. cbn [bind ret].
      intro E. apply IH in E; cbn [r_gen r_secret] in *; [|lia].
      destruct E as [E1 E2]. rewrite ewl_some in E1 by exact Hsmall. split; [exact E1|lia].
  Qed.

  (* the key handed out for generation g is the RFC key of generation g *)
  Theorem ratchet_key_ok nk nn leaf_sec hs g r k r' :
    N.of_nat nk < 65536 -> N.of_nat nn < 65536 -> N.of_nat g + 1 < 2 ^ 32 ->
    iter_next nk nn g (ratchet_new H leaf_sec hs) = Ok r ->
    next_message_key H nk nn r = Ok (k, r') ->
    let s := ratchet_secret_at H g 0 (ratchet_init H leaf_sec hs) in
    k = (N.of_nat g, (ratchet_nonce H s (N.of_nat g) nn, ratchet_key H s (N.of_nat g) nk)).
  Proof.
    intros Lk Ln Hg It Nx. apply ratchet_advance in It; cbn [ratchet_new r_gen r_secret] in *; [|lia].
    destruct It as [Es Eg]. unfold next_message_key in Nx. rewrite u32_add_ok in Nx by lia.
    cbn [bind ret] in Nx. inversion Nx; subst. rewrite !ewl_some by assumption.
    rewrite Es, Eg. unfold ratchet_init. rewrite ewl_none. reflexivity.
  Qed.
End Proofs.
