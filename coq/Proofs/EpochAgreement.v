(* The epoch layer of the group model: from the commit secret to the secrets of the new epoch.

   Proofs/CommitStep.v ends where every member of a reachable state has derived the committer's
   commit secret.  Here the key schedule AS TRANSLATED FROM THE CODE (Gen/KeySchedGen.v:
   KeySchedule::from_key_schedule for members and the committer, from_joiner for members added
   through a Welcome, get_welcome_secret, export_secret) is put on top: a state is the list of
   what every member holds for the current epoch (a `derivation`: key schedule with the next
   init secret, confirmation key, epoch secrets), a step is one accepted commit - with an update
   path (every member enters the committer's chain of path secrets at its own non-filtered
   level), without one (commit secret = zeros), or an external commit (init secret replaced by
   the HPKE export keyed by the external secret of the old epoch).  In every state reachable
   from a new group all members hold the same epoch state, whatever the hash, the derivation of
   path secrets, the contexts, PSK secrets, filter lists and levels.  *)
From Coq Require Import NArith List Bool Lia.
From MlsV Require Import Res Codec Hkdf KeyScheduleRFC KeyScheduleCode KeySchedGen KemSecrets KemSecretsProofs TreeMathGen TreeMathProofs KeyScheduleProofs.
Import ListNotations.
Local Open Scope N_scope.

Section EpochLayer.
  Variable H : hash_alg.
  Variable derive : list N -> list N.        (* DeriveSecret(path_secret, "path") *)
  (* HPKE export of the external init secret: a function of the external key pair - itself a
     function of the old epoch's external secret - and of the kem_output in the commit *)
  Variable ext_init : list N -> list N -> list N.

  Definition same_epoch (a b : derivation) : Prop :=
    d_ks a = d_ks b /\ d_confirm a = d_confirm b /\ d_epoch a = d_epoch b.

  Lemma same_epoch_refl a : same_epoch a a.
  Proof. repeat split. Qed.
  Lemma same_epoch_sym a b : same_epoch a b -> same_epoch b a.
  Proof. intros (A & B & C). repeat split; congruence. Qed.
  Lemma same_epoch_trans a b c : same_epoch a b -> same_epoch b c -> same_epoch a c.
  Proof. intros (A & B & C) (A' & B' & C'). repeat split; congruence. Qed.

  (* a member added by the commit runs from_joiner on the joiner secret the committer's
     from_key_schedule produced, with the same context and PSK secret: same epoch *)
  Theorem joiner_reaches_the_members_epoch init cs ctx psk :
    let d := gen_from_key_schedule H init cs ctx psk in
    same_epoch (gen_from_joiner H (d_joiner d) ctx psk) d.
  Proof. cbv zeta. unfold same_epoch, gen_from_key_schedule. cbn [d_ks d_confirm d_epoch d_joiner]. repeat split. Qed.

  (* ... and opens the Welcome with the secret the committer sealed it with *)
  Theorem joiner_derives_the_welcome_secret init cs ctx psk :
    let d := gen_from_key_schedule H init cs ctx psk in
    gen_get_welcome_secret H (d_joiner d) psk =
    kdf_derive_secret H (gen_get_pre_epoch_secret H psk (d_joiner d)) [119;101;108;99;111;109;101].
  Proof. reflexivity. Qed.

  (* members with the same old epoch, the same commit secret, context and PSK secret *)
  Lemma member_step_same a b cs ctx psk :
    same_epoch a b ->
    same_epoch (gen_from_key_schedule H (ks_init (d_ks a)) cs ctx psk) (gen_from_key_schedule H (ks_init (d_ks b)) cs ctx psk).
  Proof. intros (A & _ & _). rewrite A. apply same_epoch_refl. Qed.

  Definition epoch_agree (ms : list derivation) : Prop := forall a b, In a ms -> In b ms -> same_epoch a b.

  Definition zeros : list N := repeat 0 (h_len H).

  (* the init secret a member enters the key schedule with *)
  Definition init_of (ext : option (list N)) (d : derivation) : list N :=
    match ext with
    | None => ks_init (d_ks d)
    | Some kem_output => ext_init (ks_external (d_ks d)) kem_output
    end.

  (* what one member of the new epoch holds, given the members of the old one.  [path] = the
     committer's filter list and first path secret when the commit has an update path;
     [ext] = the kem_output when the commit is an external commit. *)
  Definition epoch_evolves (ms : list derivation) (path : option (list bool * list N)) (ext : option (list N))
             (ctx psk : list N) (d' : derivation) : Prop :=
    let committers_secret := match path with
                             | Some (flt, r) => snd (committer_chain (list N) derive flt r)
                             | None => zeros end in
    (* a member of the old epoch that received the commit *)
    (exists d, In d ms /\
       match path with
       | Some (flt, r) => exists k s, nth k flt true = false /\
            secret_at (list N) (fst (committer_chain (list N) derive flt r)) k = Some s /\
            d' = gen_from_key_schedule H (init_of ext d) (snd (receiver_chain (list N) derive (skipn k flt) s)) ctx psk
       | None => d' = gen_from_key_schedule H (init_of ext d) zeros ctx psk
       end)
    \/ (* the committer: a member, or - external commit - a newcomer that computed the init
          secret from the external public key of some member's GroupInfo *)
    (exists d, In d ms /\ d' = gen_from_key_schedule H (init_of ext d) committers_secret ctx psk)
    \/ (* a member added by the commit: from_joiner on the committer's joiner secret *)
    (exists d, In d ms /\
       d' = gen_from_joiner H (d_joiner (gen_from_key_schedule H (init_of ext d) committers_secret ctx psk)) ctx psk).

  Inductive estep (ms ms' : list derivation) : Prop :=
  | ECommit path ext ctx psk : Forall (epoch_evolves ms path ext ctx psk) ms' -> estep ms ms'.

  Lemma init_of_same ext a b : same_epoch a b -> init_of ext a = init_of ext b.
  Proof. intros (A & _ & _). unfold init_of. rewrite A. reflexivity. Qed.

  (* every kind of member ends where the committer ends *)
  Lemma evolves_canonical ms path ext ctx psk d0 d' :
    epoch_agree ms -> In d0 ms -> epoch_evolves ms path ext ctx psk d' ->
    same_epoch d' (gen_from_key_schedule H (init_of ext d0)
                     (match path with Some (flt, r) => snd (committer_chain (list N) derive flt r) | None => zeros end) ctx psk).
  Proof.
    intros Ag I0 [(d & Id & R)|[(d & Id & R)|(d & Id & R)]].
    - rewrite (init_of_same ext d0 d (Ag _ _ I0 Id)). destruct path as [[flt r]|].
      + destruct R as (k & s & Hf & Hs & ->).
        rewrite (receiver_reaches_commit_secret (list N) derive flt r k s Hf Hs). cbn [snd]. apply same_epoch_refl.
      + subst d'. apply same_epoch_refl.
    - subst d'. rewrite (init_of_same ext d0 d (Ag _ _ I0 Id)). apply same_epoch_refl.
    - subst d'. rewrite (init_of_same ext d0 d (Ag _ _ I0 Id)). apply joiner_reaches_the_members_epoch.
  Qed.

  Theorem agree_step ms ms' : epoch_agree ms -> estep ms ms' -> epoch_agree ms'.
  Proof.
    intros Ag [path ext ctx psk F] a b Ia Ib. rewrite Forall_forall in F.
    pose proof (F _ Ia) as Ea. pose proof (F _ Ib) as Eb.
    assert (exists d0, In d0 ms) as [d0 I0].
    { destruct Ea as [(d & Id & _)|[(d & Id & _)|(d & Id & _)]]; exists d; exact Id. }
    eapply same_epoch_trans; [eapply evolves_canonical; eassumption|].
    apply same_epoch_sym. eapply evolves_canonical; eassumption.
  Qed.

  Inductive ereachable (ms0 : list derivation) : list derivation -> Prop :=
  | ER0 : ereachable ms0 ms0
  | ERS ms ms' : ereachable ms0 ms -> estep ms ms' -> ereachable ms0 ms'.

  Theorem agree_reachable ms0 ms : epoch_agree ms0 -> ereachable ms0 ms -> epoch_agree ms.
  Proof. intros A R. induction R as [|ms ms' R IH S]; [exact A|]. eapply agree_step; eassumption. Qed.

  (* a new group: one member *)
  Lemma agree_initial d : epoch_agree [d].
  Proof. intros a b [<-|[]] [<-|[]]. apply same_epoch_refl. Qed.

  Theorem every_reachable_epoch_is_shared d0 ms a b :
    ereachable [d0] ms -> In a ms -> In b ms -> same_epoch a b.
  Proof. intros R. exact (agree_reachable _ _ (agree_initial d0) R a b). Qed.

  (* what the property lists: epoch authenticator, exported secrets for any label / context /
     length, membership key, confirmation key, the root of the secret tree, resumption PSK *)
  Theorem shared_epoch_gives_shared_outputs a b : same_epoch a b ->
    ks_authentication (d_ks a) = ks_authentication (d_ks b) /\
    (forall label context len,
        gen_export_secret H (ks_exporter (d_ks a)) label context len = gen_export_secret H (ks_exporter (d_ks b)) label context len) /\
    ks_membership (d_ks a) = ks_membership (d_ks b) /\
    d_confirm a = d_confirm b /\
    es_encryption (d_epoch a) = es_encryption (d_epoch b) /\
    es_sender_data (d_epoch a) = es_sender_data (d_epoch b) /\
    es_resumption (d_epoch a) = es_resumption (d_epoch b) /\
    ks_init (d_ks a) = ks_init (d_ks b) /\ ks_external (d_ks a) = ks_external (d_ks b).
  Proof. intros (A & B & C). rewrite A, B, C. repeat split. Qed.

  (* the secret tree: two members with the same encryption secret and tree size get the same
     secret for every leaf (both compute the RFC's leaf secret, C13), so the message keys a
     sender derives are the keys every receiver derives for that sender and generation *)
  Theorem shared_epoch_gives_shared_leaf_secrets a b :
    N.of_nat (h_len H) < 65536 -> same_epoch a b ->
    forall d l ma oa ma' mb ob mb' sa sb, d <= 30 -> l < 2 ^ d ->
      good H d (es_encryption (d_epoch a)) ma -> good H d (es_encryption (d_epoch b)) mb ->
      take_leaf H ma (node 0 l) (2 ^ d) = Ok (oa, ma') ->
      take_leaf H mb (node 0 l) (2 ^ d) = Ok (ob, mb') ->
      oa = Some (TSecret sa) -> ob = Some (TSecret sb) -> sa = sb.
  Proof.
    intros Hl (_ & _ & C) d l ma oa ma' mb ob mb' sa sb Hd Hlt Ga Gb Ta Tb Oa Ob.
    destruct (take_leaf_ok H Hl d _ Hd _ _ _ _ Ga Hlt Ta) as [_ Sa].
    destruct (take_leaf_ok H Hl d _ Hd _ _ _ _ Gb Hlt Tb) as [_ Sb].
    rewrite (Sa _ Oa), (Sb _ Ob), C. reflexivity.
  Qed.
End EpochLayer.

(* non-vacuity: a group of one, then a commit with a path that adds a member, then a path-less
   commit, then an external commit: three reachable states, the last with three members *)
Section Example.
  Let Hx : hash_alg := {| h_fun := fun l => firstn 4 (l ++ [1;2;3;4]); h_len := 4; h_block := 8 |}.
  Let dv (s : list N) : list N := 9 :: firstn 3 s.
  Let ei (e k : list N) : list N := firstn 4 (k ++ e).
  Let d0 := gen_from_epoch_secret Hx [7;7;7;7].
  Let flt := [true; false].
  Let cs1 := snd (committer_chain (list N) dv flt [1;1;1;1]).
  Let c1 := gen_from_key_schedule Hx (ks_init (d_ks d0)) cs1 [5] [0;0;0;0].
  Let j1 := gen_from_joiner Hx (d_joiner c1) [5] [0;0;0;0].
  Let s1 := [c1; j1].
  Let r2 := gen_from_key_schedule Hx (ks_init (d_ks j1)) (zeros Hx) [6] [0;0;0;0].
  Let s2 := [gen_from_key_schedule Hx (ks_init (d_ks c1)) (zeros Hx) [6] [0;0;0;0]; r2].

  Example a_reachable_epoch_state : ereachable Hx dv ei [d0] s2 /\ length s2 = 2%nat.
  Proof.
    split; [|reflexivity].
    eapply ERS; [eapply ERS; [apply ER0|]|].
    - apply (ECommit Hx dv ei [d0] s1 (Some (flt, [1;1;1;1])) None [5] [0;0;0;0]).
      constructor; [|constructor; [|constructor]].
      + right; left. exists d0. split; [left; reflexivity|reflexivity].
      + right; right. exists d0. split; [left; reflexivity|reflexivity].
    - apply (ECommit Hx dv ei s1 s2 None None [6] [0;0;0;0]).
      constructor; [|constructor; [|constructor]].
      + right; left. exists c1. split; [left; reflexivity|reflexivity].
      + left. exists j1. split; [right; left; reflexivity|reflexivity].
  Qed.
End Example.

(* The chain of path secrets as the code produces it: PathSecretGenerator::next_secret as
   translated from tree_kem/path_secret.rs, called once per non-filtered node of the path and once
   more for the commit secret - by the committer from a fresh generator (encap), by a receiver from
   `starting_with(the secret it decrypted)` (decap, and a joiner's update_secrets).  It computes the
   chains of Model/KemSecrets.v with derive := DeriveSecret(., "path"), so the agreement theorems
   above hold of the translated generator; the commit secret of a path-less commit is the
   translated PathSecret::empty. *)
Section PathSecrets.
  Variable H : hash_alg.

  Definition path_derive (s : list N) : list N := kdf_derive_secret H s [112;97;116;104].

  Fixpoint chain_gen (flt : list bool) (g : psgen) (random : list N) : list (option (list N)) * list N :=
    match flt with
    | [] => ([], fst (gen_next_secret H g random))
    | true :: r => let '(ns, cs) := chain_gen r g random in (None :: ns, cs)
    | false :: r => let '(s, g') := gen_next_secret H g random in
                    let '(ns, cs) := chain_gen r g' random in (Some s :: ns, cs)
    end.

  Lemma chain_gen_running flt : forall x random,
    chain_gen flt {| pg_last := Some x; pg_start := None |} random = committer_chain (list N) path_derive flt (path_derive x).
  Proof.
    induction flt as [|f r IH]; intros x random; [reflexivity|].
    destruct f; cbn [chain_gen committer_chain].
    - rewrite IH. reflexivity.
    - cbn [gen_next_secret pg_start pg_last]. rewrite IH. reflexivity.
  Qed.

  (* the committer: a fresh generator, the first secret is random *)
  Theorem generator_chain_of_the_committer flt random :
    chain_gen flt psgen_new random = committer_chain (list N) path_derive flt random.
  Proof.
    induction flt as [|f r IH]; [reflexivity|].
    destruct f; cbn [chain_gen committer_chain].
    - rewrite IH. reflexivity.
    - unfold psgen_new. cbn [gen_next_secret pg_start pg_last]. rewrite chain_gen_running. reflexivity.
  Qed.

  (* a receiver or joiner: starts with the secret it was sent, never draws a random one *)
  Theorem generator_chain_of_a_receiver flt s random :
    chain_gen flt (psgen_starting_with s) random = receiver_chain (list N) path_derive flt s.
  Proof.
    unfold receiver_chain. induction flt as [|f r IH]; [reflexivity|].
    destruct f; cbn [chain_gen committer_chain].
    - rewrite IH. reflexivity.
    - unfold psgen_starting_with. cbn [gen_next_secret pg_start pg_last]. rewrite chain_gen_running. reflexivity.
  Qed.

  (* so: whoever starts the translated generator at a non-filtered level k with the committer's
     secret of that level ends in the commit secret the committer's generator ends in *)
  Theorem generator_receiver_reaches_the_committers_commit_secret flt r k s random' :
    nth k flt true = false ->
    secret_at (list N) (fst (chain_gen flt psgen_new r)) k = Some s ->
    snd (chain_gen (skipn k flt) (psgen_starting_with s) random') = snd (chain_gen flt psgen_new r).
  Proof.
    intros Hf Hs. rewrite generator_chain_of_a_receiver. rewrite generator_chain_of_the_committer in *.
    rewrite (receiver_reaches_commit_secret (list N) path_derive flt r k s Hf Hs). reflexivity.
  Qed.

  Theorem translated_generator_chains flt s random :
    chain_gen flt psgen_new random = committer_chain (list N) path_derive flt random /\
    chain_gen flt (psgen_starting_with s) random = receiver_chain (list N) path_derive flt s.
  Proof. split; [apply generator_chain_of_the_committer|apply generator_chain_of_a_receiver]. Qed.

  Theorem empty_path_secret_is_zeros : gen_path_secret_empty H = zeros H.
  Proof. reflexivity. Qed.
End PathSecrets.
