(* TreeKEM agreement, end to end over the models: the committer seals the path secret of every
   non-filtered level to the resolution of the copath node; a receiver whose private state is
   sound (PrivOK) and complete (Complete) selects a ciphertext that was sealed to a key it holds,
   opens the committer's path secret of its level, and from there derives the committer's commit
   secret.  Ciphertexts are symbolic: a pair (recipient key token, secret) opens under that key. *)
From Coq Require Import NArith Arith List Bool Lia.
From MlsV Require Import Res TreeMathGen BitsN TreeMathProofs Tree TreeProofs TreeWF Kem Priv PrivProofs Decap DecapProofs TreeWF5 PrivComplete KemSecrets KemSecretsProofs.
Import ListNotations.
Local Open Scope N_scope.

Section Agree.
  Variable sec : Type.
  Variable derive : sec -> sec.

  Definition ctxt := (option N * sec)%type.
  Definition seal_to (ks : keys) (recips : list N) (s : sec) : list ctxt := map (fun x => (ks x, s)) recips.
  Definition open_with (key : N) (c : ctxt) : option sec :=
    match fst c with Some k => if k =? key then Some (snd c) else None | None => None end.

  (* the receiver's level below the common ancestor is never filtered in the committer's list *)
  Lemma receiver_level_unfiltered t sndr me k flt :
    shape_ok t -> small t -> 2 * sndr < tlen t -> get t (2 * me) <> None ->
    filtered t sndr = Ok flt -> me / 2 ^ N.of_nat k = sib (sndr / 2 ^ N.of_nat k) ->
    (k < length flt)%nat -> nth k flt true = false.
  Proof.
    intros Sh Sm Ls Nb F Eq Lk.
    destruct (path_nodes_spec t sndr Sm ltac:(lia)) as (d & Et & Hd & Hl & P & Cp).
    unfold filtered in F. rewrite Cp in F. cbn [bind] in F.
    assert (Lf : length flt = N.to_nat d) by (rewrite (filtered_of_length _ _ _ F), map_length, path_spec_length; reflexivity).
    destruct (nth_error flt k) as [b|] eqn:Hf; [|apply nth_error_None in Hf; lia].
    assert (Hc : nth_error (map CopathNode_copath (path_spec (N.to_nat d) 0 sndr)) k = Some (node (N.of_nat k) (sib (sndr / 2 ^ N.of_nat k)))).
    { rewrite nth_copath_spec by lia. f_equal. }
    pose proof (filtered_of_nth _ _ _ _ _ _ F Hc Hf) as Re.
    rewrite (nth_error_nth flt k true Hf). destruct b; [exfalso|reflexivity].
    unfold resolution_empty in Re. rewrite resolution_of_spec_fuel in Re.
    - cbn [bind ret] in Re. destruct (member_in_reso t Sh k (sib (sndr / 2 ^ N.of_nat k)) me Eq Nb) as [x I].
      destruct (reso_spec t k (sib (sndr / 2 ^ N.of_nat k))); [destruct I|unfold ret in Re; congruence].
    - lia.
    - pose proof (depth_fuel t d Sm Et) as Df. pose proof (sz_mono (S k) (N.to_nat d) ltac:(lia)) as Mo. cbn [sz] in Mo. lia.
  Qed.

  (* the capstone *)
  Theorem receiver_derives_the_commit_secret ks t me pr k excl flt r i key s :
    PrivOK ks me pr ->
    decap_select t me pr k excl = Ok (Some (i, key)) ->
    nth k flt true = false ->
    secret_at sec (fst (committer_chain sec derive flt r)) k = Some s ->
    exists recips ct,
      sealed_to t (lvl_node (N.of_nat k) me) excl = Ok recips /\
      nth_error (seal_to ks recips s) i = Some ct /\
      open_with key ct = Some s /\
      receiver_chain sec derive (skipn k flt) s =
        (skipn k (fst (committer_chain sec derive flt r)), snd (committer_chain sec derive flt r)).
  Proof.
    intros P D Hf Hs. destruct (decap_select_sound ks t me pr k excl i key P D) as (recips & x & Sl & Hn & Hk).
    exists recips, (ks x, s). split; [exact Sl|]. split; [|split].
    - unfold seal_to. rewrite nth_error_map, Hn. reflexivity.
    - unfold open_with. cbn [fst snd]. rewrite Hk, N.eqb_refl. reflexivity.
    - apply receiver_reaches_commit_secret; assumption.
  Qed.
End Agree.
