From Coq Require Import NArith List Bool Lia ZifyNat ZifyN.
From MlsV Require Import KeyScheduleRFC Hkdf PskIdeal.
Import ListNotations.
Local Open Scope N_scope.

(* u16 big-endian is injective below 2^16 *)
Lemma u16be_inj a b : a < 65536 -> b < 65536 -> u16be a = u16be b -> a = b.
Proof.
  unfold u16be. intros Ha Hb E. inversion E as [[E1 E2]].
  rewrite (N.mod_small (a / 256) 256) in E1 by (apply N.div_lt_upper_bound; lia).
  rewrite (N.mod_small (b / 256) 256) in E1 by (apply N.div_lt_upper_bound; lia).
  pose proof (N.div_mod a 256 ltac:(lia)). pose proof (N.div_mod b 256 ltac:(lia)). lia.
Qed.

Lemma app_same_len {A} : forall (a b x y : list A), length a = length b -> a ++ x = b ++ y -> a = b /\ x = y.
Proof.
  induction a as [|h t IH]; intros [|h' t'] x y L E; cbn [length app] in *; try discriminate.
  - split; [reflexivity|exact E].
  - inversion E; subst. destruct (IH t' x y ltac:(lia) H1) as [-> ->]. split; reflexivity.
Qed.

Lemma app_tail_len {A} (a b x y : list A) : length x = length y -> a ++ x = b ++ y -> a = b /\ x = y.
Proof.
  intros L E. assert (La : length a = length b).
  { apply (f_equal (@length A)) in E. rewrite !app_length in E. lia. }
  apply app_same_len; assumption.
Qed.

(* the PSK label determines id, index and count *)
Lemma psk_label_inj id1 id2 i1 i2 c1 c2 :
  i1 < 65536 -> i2 < 65536 -> c1 < 65536 -> c2 < 65536 ->
  psk_label id1 i1 c1 = psk_label id2 i2 c2 -> id1 = id2 /\ i1 = i2 /\ c1 = c2.
Proof.
  intros H1 H2 H3 H4 E. unfold psk_label in E.
  destruct (app_tail_len id1 id2 (u16be i1 ++ u16be c1) (u16be i2 ++ u16be c2) eq_refl E) as [-> E2].
  destruct (app_same_len (u16be i1) (u16be i2) _ _ eq_refl E2) as [Ei Ec].
  split; [reflexivity|]. split; [apply u16be_inj; assumption|apply u16be_inj; assumption].
Qed.

Section Ideal.
  Variable ext : list N -> list N -> list N.
  Variable xpl : list N -> list N -> list N.
  Variable xpe : list N -> list N -> list N.
  Variable zero : list N.
  (* idealised KDF: collision-free, and never producing the all-zero start value *)
  Hypothesis ext_inj : forall a b c d, ext a b = ext c d -> a = c /\ b = d.
  Hypothesis xpl_inj : forall a b c d, xpl a b = xpl c d -> a = c /\ b = d.
  Hypothesis xpe_inj : forall a b c d, xpe a b = xpe c d -> a = c /\ b = d.
  Hypothesis ext_nonzero : forall a b, ext a b <> zero.

  (* two chains with the same count that meet have run over the same remaining PSKs from the same start *)
  Lemma chain_inj count : forall l1 l2 i acc1 acc2,
    length l1 = length l2 -> i + N.of_nat (length l1) <= 65536 -> count < 65536 ->
    chain ext xpl zero l1 i count acc1 = chain ext xpl zero l2 i count acc2 -> l1 = l2 /\ acc1 = acc2.
  Proof.
    induction l1 as [|[id1 v1] r1 IH]; intros [|[id2 v2] r2] i acc1 acc2 L B Hc E; cbn [length chain] in *; try discriminate.
    - split; [reflexivity|exact E].
    - destruct (IH r2 (i + 1) _ _ ltac:(lia) ltac:(lia) Hc E) as [-> E2].
      apply ext_inj in E2. destruct E2 as [E3 ->]. apply xpl_inj in E3. destruct E3 as [E4 E5].
      apply ext_inj in E4. destruct E4 as [_ ->].
      apply psk_label_inj in E5; try lia. destruct E5 as [-> _]. split; reflexivity.
  Qed.

  (* the last step of a non-empty chain reveals the count: chains of different length cannot meet *)
  Lemma chain_last l : forall i count acc, l <> [] ->
    exists id v acc', chain ext xpl zero l i count acc =
      ext (xpl (ext zero v) (psk_label id (i + N.of_nat (length l) - 1) count)) acc'.
  Proof.
    induction l as [|[id v] r IH]; intros i count acc Ne; [contradiction|]. cbn [chain].
    destruct r as [|p r'].
    - cbn [chain]. exists id, v, acc. replace (i + N.of_nat (length [(id, v)]) - 1) with i by (cbn [length]; lia). reflexivity.
    - destruct (IH (i + 1) count (ext (xpl (ext zero v) (psk_label id i count)) acc) ltac:(discriminate)) as (id' & v' & acc' & E).
      exists id', v', acc'. rewrite E.
      replace (i + 1 + N.of_nat (length (p :: r')) - 1) with (i + N.of_nat (length ((id, v) :: p :: r')) - 1) by (cbn [length]; lia). reflexivity.
  Qed.

  Theorem psk_secret_determines_the_list l1 l2 :
    N.of_nat (length l1) < 65536 -> N.of_nat (length l2) < 65536 ->
    psk_secret_ideal ext xpl zero l1 = psk_secret_ideal ext xpl zero l2 -> l1 = l2.
  Proof.
    intros B1 B2 E. unfold psk_secret_ideal in E.
    assert (Len : length l1 = length l2).
    { destruct l1 as [|p1 r1], l2 as [|p2 r2]; [reflexivity| | |].
      - exfalso. destruct (chain_last (p2 :: r2) 0 (N.of_nat (length (p2 :: r2))) zero ltac:(discriminate)) as (id & v & acc' & E2).
        rewrite E2 in E. cbn [chain length] in E. symmetry in E. exact (ext_nonzero _ _ E).
      - exfalso. destruct (chain_last (p1 :: r1) 0 (N.of_nat (length (p1 :: r1))) zero ltac:(discriminate)) as (id & v & acc' & E1).
        rewrite E1 in E. cbn [chain length] in E. exact (ext_nonzero _ _ E).
      - destruct (chain_last (p1 :: r1) 0 (N.of_nat (length (p1 :: r1))) zero ltac:(discriminate)) as (id1 & v1 & a1 & E1).
        destruct (chain_last (p2 :: r2) 0 (N.of_nat (length (p2 :: r2))) zero ltac:(discriminate)) as (id2 & v2 & a2 & E2).
        rewrite E1, E2 in E. apply ext_inj in E. destruct E as [E _]. apply xpl_inj in E. destruct E as [_ E].
        apply psk_label_inj in E; lia. }
    rewrite Len in E. apply (chain_inj (N.of_nat (length l2)) l1 l2 0 zero zero Len) in E; [apply E|lia|lia].
  Qed.

  (* hence every secret of the new epoch depends on every PSK value, id (with nonce) and on their order *)
  Corollary epoch_secret_binds_the_psks joiner1 joiner2 l1 l2 ctx1 ctx2 :
    N.of_nat (length l1) < 65536 -> N.of_nat (length l2) < 65536 ->
    epoch_secret_ideal ext xpl zero xpe joiner1 l1 ctx1 = epoch_secret_ideal ext xpl zero xpe joiner2 l2 ctx2 ->
    l1 = l2 /\ joiner1 = joiner2 /\ ctx1 = ctx2.
  Proof.
    intros B1 B2 E. unfold epoch_secret_ideal in E. apply xpe_inj in E. destruct E as [E ->].
    apply ext_inj in E. destruct E as [-> E]. split; [|split; reflexivity].
    apply psk_secret_determines_the_list; assumption.
  Qed.
End Ideal.

(* the RFC chain of KeyScheduleRFC.v IS this chain over the concrete HKDF *)
Lemma rfc_chain_is_chain H psks : forall i c acc,
  psk_chain H psks i c acc =
  chain (hkdf_extract H) (fun s lc => expand_with_label H s (ascii [100;101;114;105;118;101;100;32;112;115;107]) lc (h_len H))
        (repeat 0 (h_len H)) psks i c acc.
Proof. induction psks as [|[id v] r IH]; intros i c acc; cbn [psk_chain chain]; [reflexivity|]. apply IH. Qed.

(* ---- resolution ---- *)
(* two holders that resolve a list to the same values: ... and one that lacks a PSK resolves nothing *)
Theorem resolve_all_none h l p : In p l -> resolve h p = None -> resolve_all h l = None.
Proof.
  induction l as [|q r IH]; intros I E; [destruct I|]. cbn [resolve_all]. destruct I as [->|I].
  - rewrite E. reflexivity.
  - rewrite (IH I E). destruct (resolve h q); reflexivity.
Qed.

(* a resumption PSK of ANOTHER group is never taken from this group's unwritten epochs *)
Theorem foreign_resumption_from_storage_only h gid epoch :
  gid <> h_gid h ->
  resolve h (PResumption gid epoch) =
    match find (fun x => (fst (fst x) =? gid) && (snd (fst x) =? epoch)) (h_stored h) with Some x => Some (snd x) | None => None end.
Proof. intro Ne. cbn [resolve]. destruct (N.eqb_spec gid (h_gid h)); [contradiction|]. reflexivity. Qed.
