From Coq Require Import NArith List Bool Lia.
From MlsV Require Import KemSecrets.
Import ListNotations.

Section P.
  Variable sec : Type.
  Variable derive : sec -> sec.

  (* whoever starts at a non-filtered position with the committer's secret of that position
     reproduces the rest of the committer's chain and ends in the same commit secret *)
  Theorem receiver_reaches_commit_secret : forall flt r i s,
    nth i flt true = false ->
    secret_at sec (fst (committer_chain sec derive flt r)) i = Some s ->
    receiver_chain sec derive (skipn i flt) s =
      (skipn i (fst (committer_chain sec derive flt r)), snd (committer_chain sec derive flt r)).
  Proof.
    induction flt as [|f rest IH]; intros r i s Hf Hs.
    - destruct i; discriminate.
    - destruct i as [|i].
      + cbn [nth] in Hf. subst f. cbn [committer_chain skipn receiver_chain] in *.
        destruct (committer_chain sec derive rest (derive r)) as [ns cs] eqn:E. cbn [fst snd secret_at nth] in *.
        assert (s = r) by congruence. subst s. rewrite E. reflexivity.
      + cbn [nth] in Hf. cbn [skipn]. destruct f; cbn [committer_chain] in *.
        * destruct (committer_chain sec derive rest r) as [ns cs] eqn:E. cbn [fst snd secret_at nth skipn] in *.
          specialize (IH r i s Hf). rewrite E in IH. cbn [fst snd] in IH. apply IH. exact Hs.
        * destruct (committer_chain sec derive rest (derive r)) as [ns cs] eqn:E. cbn [fst snd secret_at nth skipn] in *.
          specialize (IH (derive r) i s Hf). rewrite E in IH. cbn [fst snd] in IH. apply IH. exact Hs.
  Qed.

  (* every non-filtered position of the committer's path carries a secret, every filtered one none *)
  Theorem committer_chain_shape : forall flt r i,
    (i < length flt)%nat ->
    (nth i flt true = false <-> exists s, secret_at sec (fst (committer_chain sec derive flt r)) i = Some s).
  Proof.
    induction flt as [|f rest IH]; intros r i L; [cbn in L; lia|].
    destruct f; cbn [committer_chain].
    - destruct (committer_chain sec derive rest r) as [ns cs] eqn:E. cbn [fst]. destruct i as [|i]; cbn [nth secret_at].
      + split; [discriminate|intros [s H]; discriminate].
      + specialize (IH r i ltac:(cbn in L; lia)). rewrite E in IH. exact IH.
    - destruct (committer_chain sec derive rest (derive r)) as [ns cs] eqn:E. cbn [fst]. destruct i as [|i]; cbn [nth secret_at].
      + split; [intros _; exists r; reflexivity|reflexivity].
      + specialize (IH (derive r) i ltac:(cbn in L; lia)). rewrite E in IH. exact IH.
  Qed.

  (* two receivers below different positions agree with each other *)
  Corollary receivers_agree flt r i j si sj :
    nth i flt true = false -> nth j flt true = false ->
    secret_at sec (fst (committer_chain sec derive flt r)) i = Some si ->
    secret_at sec (fst (committer_chain sec derive flt r)) j = Some sj ->
    snd (receiver_chain sec derive (skipn i flt) si) = snd (receiver_chain sec derive (skipn j flt) sj).
  Proof.
    intros Fi Fj Si Sj. rewrite (receiver_reaches_commit_secret flt r i si Fi Si), (receiver_reaches_commit_secret flt r j sj Fj Sj). reflexivity.
  Qed.
End P.
