From Coq Require Import NArith List Bool Lia.
From MlsV Require Import Pending.
Import ListNotations.
Local Open Scope N_scope.

Lemma list_eqb_eq a : forall b, list_eqb a b = true <-> a = b.
Proof.
  induction a as [|x a IH]; intros [|y b]; cbn [list_eqb]; split; intro H; try reflexivity; try discriminate.
  - apply andb_true_iff in H. destruct H as [H1 H2]. apply N.eqb_eq in H1. apply IH in H2. congruence.
  - inversion H; subst. rewrite N.eqb_refl. cbn. apply IH. reflexivity.
Qed.

(* building a commit never changes the applied history; it only records the pending commit *)
Theorem build_keeps_history s c d r : hist (snd (step s (OBuild c d r))) = hist s.
Proof. cbn [step]. destruct (pend s); [reflexivity|]. destruct (frozen s); [reflexivity|]. destruct d; reflexivity. Qed.

(* never two pending commits: with one pending, building is refused and nothing changes *)
Theorem single_pending s c d r p : pend s = Some p -> step s (OBuild c d r) = (RExistingPending, s).
Proof. intro E. cbn [step]. rewrite E. reflexivity. Qed.

Theorem clear_restores s c r : frozen s = false ->
  fst (step (snd (step s OClear)) (OBuild c false r)) = ROk /\ hist (snd (step s OClear)) = hist s.
Proof. intro F. cbn [step snd pend frozen hist]. rewrite F. split; reflexivity. Qed.

(* every operation leaves the history alone or appends exactly one commit *)
Theorem step_extends s o : hist (snd (step s o)) = hist s \/ exists c, hist (snd (step s o)) = hist s ++ [c].
Proof.
  destruct o as [c d r| | |c b r|c b r]; cbn [step].
  - left. exact (build_keeps_history s c d r).
  - left. reflexivity.
  - destruct (pend s) as [[c b]|]; [|left; reflexivity]. destruct (_ =? _); [right; exists c|left]; reflexivity.
  - destruct (_ =? _); [right; exists c|left]; reflexivity.
  - destruct (pend s) as [[pc pb]|].
    + destruct (pc =? c).
      * destruct (_ =? _); [right; exists c|left]; reflexivity.
      * destruct (negb _); [left; reflexivity|]. destruct (negb _); [left; reflexivity|]. destruct (frozen s); [left|right; exists c]; reflexivity.
    + destruct (negb _); [left; reflexivity|]. destruct (negb _); [left; reflexivity|]. destruct (frozen s); [left|right; exists c]; reflexivity.
Qed.

Corollary epoch_step s o : epoch_of (snd (step s o)) = epoch_of s \/ epoch_of (snd (step s o)) = epoch_of s + 1.
Proof.
  unfold epoch_of. destruct (step_extends s o) as [E|[c E]]; rewrite E; [left; reflexivity|right].
  rewrite app_length. cbn [length]. lia.
Qed.

(* an error leaves the member exactly as it was *)
Theorem error_keeps_state s o : fst (step s o) <> ROk -> snd (step s o) = s.
Proof.
  destruct o as [c d r| | |c b r|c b r]; cbn [step].
  - destruct (pend s); [reflexivity|]. destruct (frozen s); [reflexivity|]. intro H; contradiction H; reflexivity.
  - intro H; contradiction H; reflexivity.
  - destruct (pend s) as [[c b]|]; [|reflexivity]. destruct (_ =? _); [intro H; contradiction H|]; reflexivity.
  - destruct (_ =? _); [intro H; contradiction H|]; reflexivity.
  - destruct (pend s) as [[pc pb]|].
    + destruct (pc =? c).
      * destruct (_ =? _); [intro H; contradiction H|]; reflexivity.
      * destruct (negb _); [reflexivity|]. destruct (negb _); [reflexivity|]. destruct (frozen s); [reflexivity|intro H; contradiction H; reflexivity].
    + destruct (negb _); [reflexivity|]. destruct (negb _); [reflexivity|]. destruct (frozen s); [reflexivity|intro H; contradiction H; reflexivity].
Qed.

(* the pending commit is always one built on the current history *)
Theorem pendinv_step s o : PendInv s -> PendInv (snd (step s o)).
Proof.
  intro I. destruct o as [c d r| | |c b r|c b r]; cbn [step].
  - destruct (pend s) eqn:P; [exact I|]. destruct (frozen s); [exact I|]. destruct d; [exact I|].
    intros c0 b0 H. cbn [snd pend hist] in *. congruence.
  - intros c0 b0 H. discriminate.
  - destruct (pend s) as [[c b]|] eqn:P; [|exact I]. destruct (_ =? _); [|exact I]. intros c0 b0 H. discriminate.
  - destruct (_ =? _); [|exact I]. intros c0 b0 H. discriminate.
  - destruct (pend s) as [[pc pb]|] eqn:P.
    + destruct (pc =? c).
      * destruct (_ =? _); [|exact I]. intros c0 b0 H. discriminate.
      * destruct (negb _); [exact I|]. destruct (negb _); [exact I|]. destruct (frozen s); [exact I|]. intros c0 b0 H. discriminate.
    + destruct (negb _); [exact I|]. destruct (negb _); [exact I|]. destruct (frozen s); [exact I|]. intros c0 b0 H. discriminate.
Qed.

Theorem pendinv_reachable ops : forall s, PendInv s -> PendInv (run s ops).
Proof. induction ops as [|o r IH]; intros s I; cbn [run fold_left]; [exact I|]. apply IH. apply pendinv_step. exact I. Qed.

Lemma pendinv_init : PendInv init_state.
Proof. intros c b H. discriminate. Qed.

(* applying the pending commit gives exactly what a member on the same history gets by receiving it *)
Theorem apply_equals_receive s1 s2 c b :
  PendInv s1 -> pend s1 = Some (c, b) -> hist s2 = hist s1 -> pend s2 = None -> frozen s2 = false ->
  hist (snd (step s1 OApplyPending)) = hist (snd (step s2 (OReceive c b false)))
  /\ fst (step s1 OApplyPending) = ROk /\ fst (step s2 (OReceive c b false)) = ROk
  /\ hist (snd (step s1 (OReceive c b false))) = hist (snd (step s1 OApplyPending)).
Proof.
  intros I P H2 P2 F2. pose proof (I c b P) as Eb. subst b. cbn [step]. rewrite P, P2, F2.
  unfold epoch_of. rewrite H2, !N.eqb_refl. cbn [negb].
  assert (list_eqb (hist s1) (hist s1) = true) as -> by (apply list_eqb_eq; reflexivity).
  cbn [negb fst snd advance hist]. rewrite H2. repeat split; reflexivity.
Qed.

(* somebody else's commit for the current epoch discards the pending one *)
Theorem foreign_commit_discards_pending s c pc pb r :
  pend s = Some (pc, pb) -> pc <> c -> fst (step s (OReceive c (hist s) r)) = ROk ->
  pend (snd (step s (OReceive c (hist s) r))) = None.
Proof.
  intros P Ne. cbn [step]. rewrite P. destruct (N.eqb_spec pc c); [contradiction|].
  destruct (negb _); [intro H; discriminate|]. destruct (negb _); [intro H; discriminate|].
  destruct (frozen s); [intro H; discriminate|]. reflexivity.
Qed.

(* a commit is only accepted in the epoch it was made for *)
Theorem commit_only_for_current_epoch s c b r :
  fst (step s (OReceive c b r)) = ROk -> N.of_nat (length b) = epoch_of s \/ exists pb, pend s = Some (c, pb).
Proof.
  cbn [step]. destruct (pend s) as [[pc pb]|].
  - destruct (N.eqb_spec pc c) as [->|Ne]; [intros _; right; exists pb; reflexivity|].
    destruct (N.eqb_spec (N.of_nat (length b)) (epoch_of s)); cbn [negb]; [intros _; left; assumption|discriminate].
  - destruct (N.eqb_spec (N.of_nat (length b)) (epoch_of s)); cbn [negb]; [intros _; left; assumption|discriminate].
Qed.

(* a stale detached commit (made in an earlier epoch) cannot be applied *)
Theorem stale_detached_rejected s c b r :
  N.of_nat (length b) < epoch_of s -> step s (OApplyDetached c b r) = (RInvalidEpoch, s).
Proof. intro L. cbn [step]. destruct (N.eqb_spec (N.of_nat (length b)) (epoch_of s)); [lia|reflexivity]. Qed.

(* ... and a detached commit made on a prefix of the member's history is applied only on that very history *)
Theorem detached_no_fork s c b r rest :
  hist s = b ++ rest -> fst (step s (OApplyDetached c b r)) = ROk -> b = hist s.
Proof.
  intros H. cbn [step]. unfold epoch_of. rewrite H, app_length.
  destruct (N.eqb_spec (N.of_nat (length b)) (N.of_nat (length b + length rest))) as [E|]; [|discriminate].
  intros _. destruct rest as [|x rest]; [rewrite app_nil_r; reflexivity|]. cbn [length] in E. lia.
Qed.

(* once a re-init has been committed the group refuses further commits *)
Theorem frozen_refuses s c d r b :
  frozen s = true -> pend s = None ->
  fst (step s (OBuild c d r)) = RUsedAfterReInit /\ fst (step s (OReceive c b r)) <> ROk.
Proof.
  intros F P. cbn [step]. rewrite P, F. split; [reflexivity|].
  destruct (negb _); [discriminate|]. destruct (negb _); discriminate.
Qed.
