(* The joiner-side bookkeeping of a Welcome as translated from the source (Gen/WelcomeGen.v) is the
   key package store model and the secret position that the theorems of C07 are about (Model/Join.v). *)
From Coq Require Import NArith List Bool Lia.
From MlsV Require Import Join WelcomeGen.
Import ListNotations.
Local Open Scope N_scope.

Theorem gen_joiner_secret_position_is_model l : gen_joiner_secret_position l = joiner_secret_position l.
Proof. reflexivity. Qed.

(* a Welcome addressed to one key package *)
Theorem gen_k_join_is_model s r last_resort : gen_k_join s [r] last_resort = k_join s r last_resort.
Proof. unfold gen_k_join, k_join. cbn [find]. destruct (has r (kps s)); [destruct last_resort; reflexivity|reflexivity]. Qed.

(* a Welcome addressed to several: the FIRST reference that is in the store decides, as for the model
   applied to that reference *)
Theorem gen_k_join_first s refs last_resort r :
  find (fun x => has x (kps s)) refs = Some r -> gen_k_join s refs last_resort = k_join s r last_resort.
Proof.
  intro F. unfold gen_k_join, k_join. rewrite F. apply find_some in F. destruct F as [_ H]. rewrite H.
  destruct last_resort; reflexivity.
Qed.
Theorem gen_k_join_none s refs last_resort :
  (forall r, In r refs -> has r (kps s) = false) -> gen_k_join s refs last_resort = None.
Proof.
  intro H. unfold gen_k_join. destruct (find (fun x => has x (kps s)) refs) as [r|] eqn:F; [|reflexivity].
  apply find_some in F. destruct F as [I Hr]. rewrite (H r I) in Hr. discriminate.
Qed.

(* the write: the same store as the model's, and writing again changes nothing *)
Lemma del_del r l : del r (del r l) = del r l.
Proof.
  unfold del. induction l as [|x l IH]; [reflexivity|]. cbn [filter]. destruct (negb (x =? r)) eqn:E; cbn [filter]; [rewrite E, IH; reflexivity|exact IH].
Qed.
Theorem gen_k_write_is_model s : kps (gen_k_write s) = kps (k_write s).
Proof. unfold gen_k_write, k_write. destruct (pending_rm s); reflexivity. Qed.
Theorem gen_k_write_again s : kps (gen_k_write (gen_k_write s)) = kps (gen_k_write s).
Proof. unfold gen_k_write. destruct (pending_rm s) as [r|] eqn:E; cbn [pending_rm kps]; [apply del_del|rewrite E; reflexivity]. Qed.

Lemma translated_welcome s r lr l :
  gen_joiner_secret_position l = joiner_secret_position l /\ gen_k_join s [r] lr = k_join s r lr /\
  kps (gen_k_write s) = kps (k_write s) /\ kps (gen_k_write (gen_k_write s)) = kps (gen_k_write s).
Proof. split; [reflexivity|]. split; [apply gen_k_join_is_model|]. split; [apply gen_k_write_is_model|apply gen_k_write_again]. Qed.
