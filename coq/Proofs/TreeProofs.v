(* Structural facts about the ratchet-tree operations of Model/Tree.v, for every tree. *)
From Coq Require Import NArith Arith List Bool Lia.
From MlsV Require Import Res TreeMathGen BitsN TreeMathProofs Tree.
Import ListNotations.
Local Open Scope N_scope.

(* ---------- the tree never ends in a blank node ---------- *)
Definition no_trailing_blank (t : tree) : Prop :=
  match rev t with [] => True | x :: _ => x <> None end.

Lemma trim_rev_head l : match trim_rev l with [] => True | x :: _ => x <> None end.
Proof. induction l as [|[n|] r IH]; cbn [trim_rev]; [exact I|discriminate|exact IH]. Qed.

Theorem trim_no_trailing_blank t : no_trailing_blank (trim t).
Proof. unfold no_trailing_blank, trim. rewrite rev_involutive. apply trim_rev_head. Qed.

Lemma trim_rev_suffix l : exists k, l = repeat None k ++ trim_rev l.
Proof.
  induction l as [|[n|] r IH]; cbn [trim_rev].
  - exists 0%nat. reflexivity.
  - exists 0%nat. reflexivity.
  - destruct IH as [k E]. exists (S k). cbn [repeat app]. f_equal. exact E.
Qed.

(* trim only removes blanks at the end: every non-blank node keeps its index *)
Theorem trim_prefix t : exists k, t = trim t ++ repeat None k.
Proof.
  unfold trim. destruct (trim_rev_suffix (rev t)) as [k E]. exists k.
  rewrite <- (rev_involutive t) at 1. rewrite E at 1. rewrite rev_app_distr.
  f_equal. clear. induction k; cbn [repeat rev]; [reflexivity|]. rewrite IHk.
  clear. induction k; cbn [repeat app]; [reflexivity|]. f_equal. exact IHk.
Qed.

(* ---------- node kinds follow the parity of the index ---------- *)
Definition kind_ok (i : N) (n : option tnode) : Prop :=
  match n with
  | None => True
  | Some (Leaf _) => N.even i = true
  | Some (Par _) => N.even i = false
  end.

Definition shape_ok (t : tree) : Prop := forall i, kind_ok i (get t i).

Lemma get_set_at t : forall i j v, get (set_at t i v) j =
  if (N.to_nat j =? i)%nat then (if (i <? length t)%nat then v else None) else get t j.
Proof.
  unfold get. induction t as [|h r IH]; intros i j v.
  - cbn [set_at length]. destruct (N.to_nat j =? i)%nat eqn:E; [|reflexivity].
    destruct (N.to_nat j); reflexivity.
  - destruct i as [|i]; cbn [set_at length].
    + destruct (N.to_nat j) as [|k] eqn:Ej; cbn [nth_error Nat.eqb]; reflexivity.
    + destruct (N.to_nat j) as [|k] eqn:Ej; cbn [nth_error Nat.eqb]; [reflexivity|].
      specialize (IH i (N.of_nat k) v). rewrite Nnat.Nat2N.id in IH. rewrite IH.
      destruct (k =? i)%nat; [|reflexivity]. destruct (Nat.ltb_spec i (length r)), (Nat.ltb_spec (S i) (S (length r))); try lia; reflexivity.
Qed.

Lemma shape_set t i v : shape_ok t -> kind_ok i v -> shape_ok (set t i v).
Proof.
  intros S K j. unfold set. rewrite get_set_at.
  destruct (Nat.eqb_spec (N.to_nat j) (N.to_nat i)) as [E|_]; [|apply S].
  assert (j = i) by lia. subst j. destruct (N.to_nat i <? length t)%nat; [exact K|exact I].
Qed.

Lemma get_app_blank t k i : get (t ++ repeat None k) i = get t i.
Proof.
  unfold get. destruct (Nat.lt_ge_cases (N.to_nat i) (length t)) as [L|G].
  - rewrite nth_error_app1 by exact L. reflexivity.
  - rewrite nth_error_app2 by exact G. rewrite (proj2 (nth_error_None t (N.to_nat i)) G).
    destruct (nth_error (repeat None k) (N.to_nat i - length t)) as [o|] eqn:E; [|reflexivity].
    apply nth_error_In in E. apply repeat_spec in E. subst o. reflexivity.
Qed.

Lemma shape_app_blank t k : shape_ok t -> shape_ok (t ++ repeat None k).
Proof. intros S i. rewrite get_app_blank. apply S. Qed.

Lemma shape_insert_leaf t l id : shape_ok t -> shape_ok (insert_leaf t l (Leaf id)).
Proof.
  intro S. unfold insert_leaf. apply shape_set.
  - destruct (tlen t <? 2 * l); [apply (shape_app_blank t 2 S)|].
    destruct (tlen t =? 0); [|exact S]. intro i. unfold get. destruct (N.to_nat i) as [|[|k]]; exact I.
  - cbn [kind_ok]. rewrite N.even_mul. reflexivity.
Qed.

Lemma shape_blank_nodes ns : forall t, shape_ok t -> shape_ok (blank_nodes t ns).
Proof. induction ns as [|n r IH]; intros t S; cbn [blank_nodes]; [exact S|]. apply IH. apply shape_set; [exact S|exact I]. Qed.

Lemma shape_trim t : shape_ok t -> shape_ok (trim t).
Proof.
  intros S i. destruct (trim_prefix t) as [k E]. specialize (S i). rewrite E in S. rewrite get_app_blank in S. exact S.
Qed.

(* ---------- next_power_of_two and the path of a leaf, via the C20 theorems ---------- *)
Lemma npow2_from_spec fuel : forall i n, n <= 2 ^ (i + N.of_nat fuel) -> (i = 0 \/ 2 ^ (i - 1) < n) ->
  exists e, npow2_from fuel (2 ^ i) n = 2 ^ e /\ n <= 2 ^ e /\ (e = 0 \/ 2 ^ (e - 1) < n) /\ e <= i + N.of_nat fuel.
Proof.
  induction fuel as [|f IH]; intros i n B L; cbn [npow2_from].
  - exists i. rewrite N.add_0_r in B. repeat split; try assumption. lia.
  - destruct (N.leb_spec n (2 ^ i)) as [Le|Gt].
    + exists i. repeat split; try assumption. lia.
    + replace (2 * 2 ^ i) with (2 ^ (i + 1)) by (rewrite N.pow_add_r, N.pow_1_r; lia).
      destruct (IH (i + 1) n) as (e & E1 & E2 & E3 & E4).
      * replace (i + 1 + N.of_nat f) with (i + N.of_nat (S f)) by lia. exact B.
      * right. replace (i + 1 - 1) with i by lia. exact Gt.
      * exists e. repeat split; try assumption. lia.
Qed.

Lemma next_power_of_two_spec n : n <= 2 ^ 64 ->
  exists e, next_power_of_two n = 2 ^ e /\ n <= 2 ^ e /\ (e = 0 \/ 2 ^ (e - 1) < n).
Proof.
  intro B. unfold next_power_of_two. change 1 with (2 ^ 0).
  destruct (npow2_from_spec 64 0 n) as (e & E1 & E2 & E3 & _); [exact B|left; reflexivity|].
  exists e. repeat split; assumption.
Qed.

Definition small (t : tree) : Prop := tlen t < 2 ^ 25.

Lemma total_leaf_count_spec t : small t ->
  exists d, total_leaf_count t = 2 ^ d /\ d <= 25 /\ tlen t / 2 + 1 <= 2 ^ d /\ (d = 0 \/ 2 ^ (d - 1) < tlen t / 2 + 1).
Proof.
  intro S. unfold small in S. unfold total_leaf_count.
  assert (Hn : tlen t / 2 + 1 <= 2 ^ 25) by (change (2 ^ 25) with 33554432 in *; assert (tlen t / 2 <= tlen t) by (apply N.div_le_upper_bound; lia); lia).
  destruct (next_power_of_two_spec (tlen t / 2 + 1)) as (e & E1 & E2 & E3).
  - change (2 ^ 64) with 18446744073709551616. change (2 ^ 25) with 33554432 in Hn. lia.
  - exists e. repeat split; try assumption.
    destruct E3 as [->|E3]; [lia|]. destruct (N.le_gt_cases e 25) as [|G]; [assumption|exfalso].
    assert (2 ^ 25 <= 2 ^ (e - 1)) by (apply N.pow_le_mono_r; lia). lia.
Qed.

(* the direct path of an in-tree leaf: the structural path of C20, all parent (odd) indices *)
Lemma path_nodes_spec t leaf : small t -> 2 * leaf <= tlen t ->
  exists d, total_leaf_count t = 2 ^ d /\ d <= 25 /\ leaf < 2 ^ d
    /\ path_nodes t leaf = Ok (map CopathNode_path (path_spec (N.to_nat d) 0 leaf))
    /\ copath_nodes t leaf = Ok (map CopathNode_copath (path_spec (N.to_nat d) 0 leaf)).
Proof.
  intros S L. destruct (total_leaf_count_spec t S) as (d & E & Hd & Hn & _).
  assert (Hl : leaf < 2 ^ d).
  { assert (leaf <= tlen t / 2) by (apply N.div_le_lower_bound; lia). lia. }
  exists d. split; [exact E|]. split; [exact Hd|]. split; [exact Hl|].
  unfold path_nodes, copath_nodes. rewrite E. rewrite <- node_0.
  rewrite direct_copath_ok by (try lia; rewrite N.sub_0_r; exact Hl). cbn [bind ret]. rewrite N.sub_0_r. split; reflexivity.
Qed.

Lemma path_spec_odd n : forall k j, Forall (fun c => N.even (CopathNode_path c) = false) (path_spec n k j).
Proof.
  induction n as [|n IH]; intros k j; cbn [path_spec]; constructor; [|apply IH].
  cbn [CopathNode_path]. rewrite node_succ. rewrite N.add_comm, N.even_add_mul_2. reflexivity.
Qed.

Lemma path_nodes_odd t leaf path : small t -> 2 * leaf <= tlen t -> path_nodes t leaf = Ok path ->
  Forall (fun p => N.even p = false) path.
Proof.
  intros S L E. destruct (path_nodes_spec t leaf S L) as (d & _ & _ & _ & P & _). rewrite P in E. inversion E; subst.
  apply Forall_map. apply path_spec_odd.
Qed.

(* ---------- lengths ---------- *)
Lemma set_at_length t : forall i v, length (set_at t i v) = length t.
Proof. induction t as [|h r IH]; intros [|i] v; cbn [set_at length]; try reflexivity. rewrite IH. reflexivity. Qed.

Lemma set_length t i v : tlen (set t i v) = tlen t.
Proof. unfold tlen, set. rewrite set_at_length. reflexivity. Qed.

Lemma blank_nodes_length ns : forall t, tlen (blank_nodes t ns) = tlen t.
Proof. induction ns as [|n r IH]; intro t; cbn [blank_nodes]; [reflexivity|]. rewrite IH. apply set_length. Qed.

Lemma insert_leaf_length t l n : tlen t <= tlen (insert_leaf t l n) <= tlen t + 2.
Proof.
  unfold insert_leaf. rewrite set_length. destruct (tlen t <? 2 * l).
  - unfold tlen. rewrite app_length. cbn [length]. lia.
  - destruct (N.eqb_spec (tlen t) 0) as [E|]; [rewrite E; cbn; lia|lia].
Qed.

Lemma update_unmerged_length path : forall t leaf t', update_unmerged t leaf path = TOk t' -> tlen t' = tlen t.
Proof.
  induction path as [|p r IH]; intros t leaf t'; cbn [update_unmerged]; [intro E; inversion E; reflexivity|].
  destruct (get t p) as [[id|um]|]; try (apply IH).
  destruct (insert_sorted leaf um); [|discriminate]. intro E. apply IH in E. rewrite E. apply set_length.
Qed.

Lemma trim_length t : tlen (trim t) <= tlen t.
Proof.
  destruct (trim_prefix t) as [k E]. unfold tlen. rewrite E at 2. rewrite app_length. lia.
Qed.

(* ---------- every operation keeps node kinds on the right parity ---------- *)
Lemma shape_update_unmerged path : forall t leaf t',
  shape_ok t -> update_unmerged t leaf path = TOk t' -> shape_ok t'.
Proof.
  induction path as [|p r IH]; intros t leaf t' S; cbn [update_unmerged]; [intro E; inversion E; subst; exact S|].
  destruct (get t p) as [[id|um]|] eqn:G; try (apply IH; exact S).
  destruct (insert_sorted leaf um) as [um'|]; [|discriminate]. apply IH. apply shape_set; [exact S|].
  specialize (S p). rewrite G in S. exact S.
Qed.

Theorem shape_add_leaf t id start t' idx : shape_ok t -> add_leaf t id start = TOk (t', idx) -> shape_ok t'.
Proof.
  intros S. unfold add_leaf. destruct (negb _); [discriminate|]. destruct (lift (path_nodes _ _)) as [path| |]; cbn [tbind]; try discriminate.
  destruct (update_unmerged _ _ path) as [t2| |] eqn:U; cbn [tbind]; try discriminate.
  intro E. inversion E; subst. eapply shape_update_unmerged; [|exact U]. apply shape_insert_leaf. exact S.
Qed.

Lemma shape_blank_leaf t l t' : shape_ok t -> blank_leaf t l = TOk t' -> shape_ok t'.
Proof.
  intro S. unfold blank_leaf. destruct (get t (2 * l)) as [[id|um]|]; try discriminate.
  intro E. inversion E; subst. apply shape_set; [exact S|exact I].
Qed.

Lemma shape_blank_direct_path t l t' : shape_ok t -> blank_direct_path t l = TOk t' -> shape_ok t'.
Proof.
  intro S. unfold blank_direct_path. destruct (lift (path_nodes t l)) as [path| |]; cbn [tbind]; try discriminate.
  intro E. inversion E; subst. apply shape_blank_nodes. exact S.
Qed.

Lemma shape_apply_removes rs : forall t t', shape_ok t -> apply_removes t rs = TOk t' -> shape_ok t'.
Proof.
  induction rs as [|r rest IH]; intros t t' S; cbn [apply_removes]; [intro E; inversion E; subst; exact S|].
  destruct (blank_leaf t r) as [t1| |] eqn:B; cbn [tbind]; try discriminate.
  destruct (blank_direct_path t1 r) as [t2| |] eqn:P; cbn [tbind]; try discriminate.
  apply IH. eapply shape_blank_direct_path; [|exact P]. eapply shape_blank_leaf; [exact S|exact B].
Qed.

Lemma shape_apply_updates us : forall t t', shape_ok t -> apply_updates t us = TOk t' -> shape_ok t'.
Proof.
  induction us as [|[i id] rest IH]; intros t t' S; cbn [apply_updates]; [intro E; inversion E; subst; exact S|].
  destruct (get t (2 * i)) as [[x|um]|]; try discriminate. apply IH. apply shape_set; [exact S|].
  cbn [kind_ok]. rewrite N.even_mul. reflexivity.
Qed.

Lemma shape_blank_paths ls : forall t t', shape_ok t -> blank_paths t ls = TOk t' -> shape_ok t'.
Proof.
  induction ls as [|l rest IH]; intros t t' S; cbn [blank_paths]; [intro E; inversion E; subst; exact S|].
  destruct (blank_direct_path t l) as [t1| |] eqn:P; cbn [tbind]; try discriminate.
  apply IH. eapply shape_blank_direct_path; [exact S|exact P].
Qed.

Lemma shape_apply_adds ids : forall t start acc t' added,
  shape_ok t -> apply_adds t ids start acc = TOk (t', added) -> shape_ok t'.
Proof.
  induction ids as [|id rest IH]; intros t start acc t' added S; cbn [apply_adds]; [intro E; inversion E; subst; exact S|].
  destruct (add_leaf t id start) as [[t1 idx]| |] eqn:A; cbn [tbind]; try discriminate.
  apply IH. eapply shape_add_leaf; [exact S|exact A].
Qed.

Theorem shape_batch_edit t removes updates adds t' added :
  shape_ok t -> batch_edit t removes updates adds = TOk (t', added) -> shape_ok t' /\ no_trailing_blank t'.
Proof.
  intro S. unfold batch_edit.
  destruct (apply_removes t (rev removes)) as [t1| |] eqn:E1; cbn [tbind]; try discriminate.
  destruct (apply_updates t1 updates) as [t2| |] eqn:E2; cbn [tbind]; try discriminate.
  destruct (blank_paths t2 (map fst updates)) as [t3| |] eqn:E3; cbn [tbind]; try discriminate.
  destruct (apply_adds t3 adds 0 []) as [[t4 ad]| |] eqn:E4; cbn [tbind]; try discriminate.
  intro E. inversion E; subst. split; [|apply trim_no_trailing_blank].
  apply shape_trim. eapply shape_apply_adds; [|exact E4]. eapply shape_blank_paths; [|exact E3].
  eapply shape_apply_updates; [|exact E2]. eapply shape_apply_removes; [exact S|exact E1].
Qed.

(* the path update: parents on odd indices only (needs the tree to be of supported size) *)
Lemma shape_apply_path_nodes orig path : forall copath t t',
  shape_ok t -> Forall (fun p => N.even p = false) path ->
  apply_path_nodes t path copath orig = Ok t' -> shape_ok t'.
Proof.
  induction path as [|p pr IH]; intros copath t t' S F; destruct copath as [|c cr]; cbn [apply_path_nodes];
    try (intro E; inversion E; subst; exact S).
  inversion F as [|? ? Hp Fr]; subst.
  destruct (resolution_empty orig c) as [e| |]; cbn [bind]; try discriminate.
  apply IH; [|exact Fr]. destruct e; [exact S|]. apply shape_set; [apply shape_app_blank; exact S|exact Hp].
Qed.

Theorem shape_apply_update_path t sender id t' :
  shape_ok t -> small t -> 2 * sender <= tlen t -> apply_update_path t sender id = TOk t' -> shape_ok t'.
Proof.
  intros S Sm L. unfold apply_update_path. destruct (get t (2 * sender)) as [[x|um]|]; try discriminate.
  set (t1 := set t (2 * sender) (Some (Leaf id))).
  assert (S1 : shape_ok t1) by (apply shape_set; [exact S|cbn [kind_ok]; rewrite N.even_mul; reflexivity]).
  assert (Sm1 : small t1) by (unfold small, t1; rewrite set_length; exact Sm).
  assert (L1 : 2 * sender <= tlen t1) by (unfold t1; rewrite set_length; exact L).
  destruct (path_nodes t1 sender) as [path| |] eqn:P; cbn [lift tbind]; try discriminate.
  destruct (copath_nodes t1 sender) as [cp| |]; cbn [lift tbind]; try discriminate.
  destruct (apply_path_nodes t1 path cp t1) as [t2| |] eqn:A; cbn [lift]; try discriminate.
  intro E. inversion E; subst. eapply shape_apply_path_nodes; [exact S1| |exact A].
  eapply path_nodes_odd; eassumption.
Qed.

(* ---------- new leaves go to the leftmost blank slot ---------- *)
Lemma next_empty_from_spec fuel : forall t n,
  N.even n = true -> n <= tlen t + 1 -> (length t <= N.to_nat n + 2 * fuel)%nat ->
  let r := next_empty_from fuel t n in
  n / 2 <= r
  /\ (forall l, n / 2 <= l < r -> get t (2 * l) <> None)
  /\ ((2 * r < tlen t /\ get t (2 * r) = None) \/ (r = (tlen t + 1) / 2 /\ forall l, n / 2 <= l -> 2 * l < tlen t -> get t (2 * l) <> None)).
Proof.
  induction fuel as [|f IH]; intros t n Ev Hn Hf; cbn [next_empty_from].
  - assert (Ht : tlen t <= n) by (unfold tlen; lia).
    apply N.even_spec in Ev. destruct Ev as [m ->]. rewrite (N.mul_comm 2 m), N.div_mul by lia.
    assert (E : (tlen t + 1) / 2 = m) by (symmetry; apply (N.div_unique _ _ _ (tlen t + 1 - 2 * m)); lia).
    rewrite E. split; [lia|]. split; [intros l Hl; lia|].
    right. split; [reflexivity|]. intros l Hl Hl2. lia.
  - destruct (N.ltb_spec n (tlen t)) as [Lt|Ge].
    + apply N.even_spec in Ev. destruct Ev as [m ->]. rewrite (N.mul_comm 2 m), N.div_mul by lia. rewrite (N.mul_comm m 2).
      destruct (get t (2 * m)) as [x|] eqn:G.
      * destruct (IH t (2 * m + 2)) as (A & B & C).
        { rewrite N.even_add, N.even_mul. reflexivity. }
        { lia. }
        { lia. }
        replace ((2 * m + 2) / 2) with (m + 1) in * by (apply (N.div_unique _ _ _ 0); lia).
        split; [lia|]. split.
        -- intros l Hl. destruct (N.eq_dec l m) as [->|Ne]; [rewrite G; discriminate|apply B; lia].
        -- destruct C as [C|[C1 C2]]; [left; exact C|right; split; [exact C1|]].
           intros l Hl Hl2. destruct (N.eq_dec l m) as [->|Ne]; [rewrite G; discriminate|apply C2; lia].
      * split; [lia|]. split; [intros l Hl; lia|left; split; [lia|exact G]].
    + apply N.even_spec in Ev. destruct Ev as [m ->]. rewrite (N.mul_comm 2 m), N.div_mul by lia.
      assert (E : (tlen t + 1) / 2 = m) by (symmetry; apply (N.div_unique _ _ _ (tlen t + 1 - 2 * m)); lia).
      rewrite E. split; [lia|]. split; [intros l Hl; lia|].
      right. split; [reflexivity|]. intros l Hl Hl2. lia.
Qed.

(* add_leaf puts the leaf at the least blank leaf index >= start, or right after the last
   leaf when there is none (start is a leaf index of the tree or the one right after it) *)
Theorem next_empty_leaf_leftmost t start : 2 * start <= tlen t + 1 ->
  let r := next_empty_leaf t start in
  start <= r
  /\ (forall l, start <= l < r -> get t (2 * l) <> None)
  /\ ((2 * r < tlen t /\ get t (2 * r) = None) \/ (r = (tlen t + 1) / 2 /\ forall l, start <= l -> 2 * l < tlen t -> get t (2 * l) <> None)).
Proof.
  intro Hs. unfold next_empty_leaf.
  pose proof (next_empty_from_spec (S (length t)) t (2 * start)) as H.
  rewrite (N.mul_comm 2 start), N.div_mul in H by lia. rewrite (N.mul_comm start 2) in H.
  apply H; [rewrite N.even_mul; reflexivity|exact Hs|lia].
Qed.

Theorem add_leaf_index t id start t' idx :
  add_leaf t id start = TOk (t', idx) -> idx = next_empty_leaf t start.
Proof.
  unfold add_leaf. destruct (negb _); [discriminate|]. destruct (lift (path_nodes _ _)) as [path| |]; cbn [tbind]; try discriminate.
  destruct (update_unmerged _ _ path) as [t2| |]; cbn [tbind]; try discriminate.
  intro E. inversion E; subst. reflexivity.
Qed.
