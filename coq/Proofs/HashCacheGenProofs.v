(* The translated tree-hash cache code (Gen/HashCacheGen.v, from tree_kem/tree_hash.rs) is the model the cache
   theorems are about (Model/HashCache.v), and the leaves batch_edit lists are those the theorems need. *)
From Coq Require Import NArith List Bool String.
From MlsV Require Import Res TreeMathGen Tree Kem HashCache HashCacheGen.
Import ListNotations.
Local Open Scope N_scope.

Lemma gen_hash_for_leaf_is_model l leaf : gen_hash_for_leaf l leaf = hash_for_leaf l leaf.
Proof. reflexivity. Qed.

Lemma gen_hash_for_parent_is_model p flt lh rh : gen_hash_for_parent p flt lh rh = hash_for_parent p flt lh rh.
Proof. reflexivity. Qed.

Lemma gen_leaf_pass_is_model pay t flt nl : forall ls c q, gen_leaf_pass pay t flt nl ls c q = leaf_pass pay t flt nl ls c q.
Proof.
  induction ls as [|l ls IH]; intros c q; cbn [gen_leaf_pass leaf_pass]; [reflexivity|].
  destruct (l <? nl); [|apply IH].
  unfold gen_hash_for_leaf. destruct (hset c (2 * l) _) as [c'| |]; cbn [bind]; try reflexivity.
  unfold push_parent. destruct (parent_sibling (2 * l) nl) as [ps| |]; cbn [bind ret]; try reflexivity. apply IH.
Qed.

Lemma gen_queue_pass_is_model pay t flt nl : forall fuel q c, gen_queue_pass pay fuel t flt nl q c = queue_pass pay fuel t flt nl q c.
Proof.
  induction fuel as [|f IH]; intros q c; destruct q as [|n q]; cbn [gen_queue_pass queue_pass]; try reflexivity.
  destruct (left_unchecked n) as [ln| |]; cbn [bind]; try reflexivity.
  destruct (hidx c ln) as [lh| |]; cbn [bind]; try reflexivity.
  destruct (right_unchecked n) as [rn| |]; cbn [bind]; try reflexivity.
  destruct (hidx c rn) as [rh| |]; cbn [bind]; try reflexivity.
  unfold gen_hash_for_parent, hash_for_parent.
  destruct (hset c n _) as [c'| |]; cbn [bind]; try reflexivity.
  unfold push_parent. destruct (parent_sibling n nl) as [ps| |]; cbn [bind ret]; try reflexivity. apply IH.
Qed.

Theorem gen_tree_hash_is_model pay c t ls flt nl : gen_tree_hash pay c t ls flt nl = tree_hash pay c t ls flt nl.
Proof.
  unfold gen_tree_hash, tree_hash.
  destruct (u64_mul nl 2) as [x| |]; cbn [bind]; try reflexivity.
  destruct (u64_sub x 1) as [len| |]; cbn [bind]; try reflexivity.
  rewrite gen_leaf_pass_is_model.
  destruct (leaf_pass pay t flt nl _ _ _) as [cq| |]; cbn [bind]; try reflexivity.
  apply gen_queue_pass_is_model.
Qed.

Theorem gen_update_hashes_is_model pay c t ls : gen_update_hashes pay c t ls = update_hashes pay c t ls.
Proof. unfold gen_update_hashes, update_hashes. apply gen_tree_hash_is_model. Qed.

Theorem gen_initialize_hashes_is_model pay c t : gen_initialize_hashes pay c t = initialize_hashes pay c t.
Proof. unfold gen_initialize_hashes, initialize_hashes. destruct c; [apply gen_tree_hash_is_model|reflexivity]. Qed.

Theorem gen_hash_cache_is_model : forall pay c t ls flt nl upd,
  gen_tree_hash pay c t ls flt nl = tree_hash pay c t ls flt nl /\
  gen_update_hashes pay c t upd = update_hashes pay c t upd /\
  gen_initialize_hashes pay c t = initialize_hashes pay c t.
Proof.
  intros. split; [apply gen_tree_hash_is_model|split; [apply gen_update_hashes_is_model|apply gen_initialize_hashes_is_model]].
Qed.

(* the callers: batch_edit lists the removed, the updated and the added leaves; every other caller lists the one
   leaf whose direct path it has just rewritten *)
Theorem gen_batch_edit_hash_leaves_is_model removes updated added :
  gen_batch_edit_hash_leaves removes updated added = removes ++ updated ++ added.
Proof. reflexivity. Qed.

Local Open Scope string_scope.
Theorem gen_hash_sites_are_the_known_ones : gen_hash_sites =
  [("update_parent_hashes", ["[index]"; "[index]"]);
   ("encap", ["[self_index]"]);
   ("process_commit", ["[sender]"]);
   ("commit_internal", ["[provisional_private_tree.self_index]"]);
   ("add_leaves", ["added"])].
Proof. reflexivity. Qed.
