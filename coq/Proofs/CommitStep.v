(* One commit, end to end, for a member that stays in the group: the tree invariants, the soundness
   (PrivOK) and the completeness (Complete) of its private state are carried from the old epoch to
   the new one, and it derives the committer's commit secret.  This composes the separate models
   (tree operations, private-key bookkeeping, decap selection, path-secret chains) into one
   statement about one commit; by induction it holds after every history of commits. *)
From Coq Require Import NArith Arith List Bool Lia.
From MlsV Require Import Res TreeMathGen BitsN TreeMathProofs Tree TreeProofs TreeWF Kem KemProofs Priv PrivProofs Decap DecapProofs TreeWF5 PrivComplete KemSecrets KemSecretsProofs Agreement.
Import ListNotations.
Local Open Scope N_scope.

(* the invariants of the tree alone *)
Definition TreeOK (t : tree) : Prop := wf3 t /\ wf5 t /\ shape_ok t.

Theorem tree_ok_commit t removes updates adds snd id t1 added t2 :
  TreeOK t -> tlen t + 2 * N.of_nat (length adds) < 2 ^ 25 ->
  batch_edit t removes updates adds = TOk (t1, added) ->
  apply_update_path t1 snd id = TOk t2 ->
  TreeOK t1 /\ small t1 /\ TreeOK t2.
Proof.
  intros (W3 & W5 & Sh) S B A.
  destruct (wf3_batch_edit _ _ _ _ _ _ W3 S B) as [W31 L1].
  pose proof (wf5_batch_edit _ _ _ _ _ _ W5 Sh S B) as W51.
  destruct (shape_batch_edit _ _ _ _ _ _ Sh B) as [Sh1 _].
  assert (Sm1 : small t1) by (unfold small; lia).
  assert (Ls : 2 * snd < tlen t1).
  { unfold apply_update_path in A. destruct (get t1 (2 * snd)) as [[x|um]|] eqn:G; try discriminate. eapply get_some_lt; exact G. }
  split; [split; [exact W31|split; [exact W51|exact Sh1]]|]. split; [exact Sm1|].
  split; [eapply wf3_apply_update_path; eassumption|]. split; [eapply wf5_apply_update_path; eassumption|].
  eapply shape_apply_update_path; [exact Sh1|exact Sm1| |exact A]. lia.
Qed.

(* a member that stays, is not the committer and has no update of its own in the commit *)
Theorem receiver_step ks t removes updates adds t1 added snd id t2 me pr pr1 flt fk leafkey newleaf L path_me :
  TreeOK t -> tlen t + 2 * N.of_nat (length adds) < 2 ^ 25 ->
  batch_edit t removes updates adds = TOk (t1, added) ->
  apply_update_path t1 snd id = TOk t2 ->
  filtered (set t1 (2 * snd) (Some (Leaf id))) snd = Ok flt ->
  PrivOK ks me pr -> Complete t me pr ->
  2 * me < tlen t1 -> get t1 (2 * me) <> None -> newleaf me = None ->
  provisional_priv t1 me pr None = Ok pr1 ->
  1 <= L -> me / 2 ^ L = snd / 2 ^ L -> (forall k, k < L -> me / 2 ^ k <> snd / 2 ^ k) ->
  path_nodes (set t1 (2 * snd) (Some (Leaf id))) me = Ok path_me ->
  let ks1 := keys_after_proposals ks t1 newleaf in
  let ks2 := keys_after_path ks1 snd leafkey flt fk in
  let pr2 := decap_priv pr1 (length path_me) (N.to_nat (L - 1)) (upd_nodes flt 1 fk) in
  TreeOK t2 /\ PrivOK ks1 me pr1 /\ Complete t1 me pr1 /\ PrivOK ks2 me pr2 /\ Complete t2 me pr2.
Proof.
  intros T S B A F P C Lm Nb En Pv L1 Eq Ne Pm. cbv zeta.
  destruct (tree_ok_commit _ _ _ _ _ _ _ _ _ T S B A) as ((W31 & W51 & Sh1) & Sm1 & T2).
  assert (P1 : PrivOK (keys_after_proposals ks t1 newleaf) me pr1) by (eapply privok_provisional; eassumption).
  assert (C1 : Complete t1 me pr1) by (eapply complete_provisional; [exact C|eapply ParMono_batch_edit; exact B|exact Sm1|exact Lm|exact Pv]).
  split; [exact T2|]. split; [exact P1|]. split; [exact C1|]. split.
  - apply privok_decap; assumption.
  - eapply complete_decap; eassumption.
Qed.

(* ---- the receiver finds its ciphertext and derives the committer's commit secret ---- *)
Lemma get_set_other t i v j : j <> i -> get (set t i v) j = get t j.
Proof.
  intro Ne. unfold set. rewrite get_set_at. destruct (Nat.eqb_spec (N.to_nat j) (N.to_nat i)) as [E|_]; [lia|reflexivity].
Qed.

Lemma lvl_node_odd' k me : (1 <= k)%nat -> N.even (lvl_node (N.of_nat k) me) = false.
Proof. intro H. apply lvl_node_odd. lia. Qed.

Lemma complete_set_leaf t me pr l v : Complete t me pr -> Complete (set t (2 * l) v) me pr.
Proof.
  intros C k um Hk G. apply (C k um Hk). rewrite get_set_other in G; [exact G|].
  intro E. pose proof (lvl_node_odd' k me Hk) as O. rewrite E, N.even_mul in O. discriminate.
Qed.

Lemma provisional_keeps_leaf_key t me pr pr1 key :
  provisional_priv t me pr None = Ok pr1 -> nth_error pr 0 = Some (Some key) -> nth_error pr1 0 = Some (Some key).
Proof.
  unfold provisional_priv. destruct (path_nodes t me) as [path| |]; cbn [bind ret]; try discriminate.
  intros E K. unfold ret in E. apply Ok_inj' in E. subst pr1. unfold mapi. rewrite nth_error_mapi_from. cbn [Nat.add].
  unfold resize. destruct pr as [|x pr]; [discriminate|]. cbn [nth_error] in K. injection K as ->.
  replace (length path + 1)%nat with (S (length path)) by lia. reflexivity.
Qed.

(* the two leaves part at level L: one level below they are siblings *)
Lemma siblings_below_the_ancestor me snd L :
  1 <= L -> me / 2 ^ L = snd / 2 ^ L -> (forall k, k < L -> me / 2 ^ k <> snd / 2 ^ k) ->
  me / 2 ^ (L - 1) = sib (snd / 2 ^ (L - 1)).
Proof.
  intros L1 Eq Ne. set (a := me / 2 ^ (L - 1)). set (b := snd / 2 ^ (L - 1)).
  assert (Hab : a <> b) by (apply Ne; lia).
  assert (Hh : a / 2 = b / 2).
  { unfold a, b. rewrite !N.div_div by (try apply N.pow_nonzero; lia).
    replace (2 ^ (L - 1) * 2) with (2 ^ L) by (rewrite N.mul_comm, <- N.pow_succ_r by lia; f_equal; lia). exact Eq. }
  unfold sib. destruct (even_odd_cases a) as [[Ea Ha]|[Ea Ha]], (even_odd_cases b) as [[Eb Hb]|[Eb Hb]]; rewrite Eb; lia.
Qed.

Section Agree.
  Variable sec : Type.
  Variable derive : sec -> sec.

  Theorem receiver_agreement ks t1 sndr id me pr1 flt L r s idm lk excl :
    shape_ok t1 -> small t1 -> 2 * sndr < tlen t1 -> me <> sndr ->
    PrivOK ks me pr1 -> Complete t1 me pr1 ->
    get t1 (2 * me) = Some (Leaf idm) -> ~ In me excl -> nth_error pr1 0 = Some (Some lk) ->
    1 <= L -> me / 2 ^ L = sndr / 2 ^ L -> (forall k, k < L -> me / 2 ^ k <> sndr / 2 ^ k) ->
    let t1' := set t1 (2 * sndr) (Some (Leaf id)) in
    let k := N.to_nat (L - 1) in
    filtered t1' sndr = Ok flt -> (k < length flt)%nat ->
    secret_at sec (fst (committer_chain sec derive flt r)) k = Some s ->
    exists i key recips ct,
      decap_select t1' me pr1 k excl = Ok (Some (i, key)) /\
      sealed_to t1' (lvl_node (N.of_nat k) me) excl = Ok recips /\
      nth_error (seal_to sec ks recips s) i = Some ct /\
      open_with sec key ct = Some s /\
      receiver_chain sec derive (skipn k flt) s =
        (skipn k (fst (committer_chain sec derive flt r)), snd (committer_chain sec derive flt r)).
  Proof.
    intros Sh Sm Ls Nms P C Gl Nx K0 L1 Eq Ne. cbv zeta. intros F Lk Hs.
    set (t1' := set t1 (2 * sndr) (Some (Leaf id))) in *.
    set (k := N.to_nat (L - 1)) in *.
    assert (Sh' : shape_ok t1') by (apply shape_set; [exact Sh|cbn [kind_ok]; rewrite N.even_mul; reflexivity]).
    assert (Len' : tlen t1' = tlen t1) by apply set_length.
    assert (Sm' : small t1') by (unfold small; rewrite Len'; exact Sm).
    assert (C' : Complete t1' me pr1) by (apply complete_set_leaf; exact C).
    assert (Gl' : get t1' (2 * me) = Some (Leaf idm)) by (unfold t1'; rewrite get_set_other by lia; exact Gl).
    assert (Sib : me / 2 ^ N.of_nat k = sib (sndr / 2 ^ N.of_nat k)).
    { unfold k. rewrite N2Nat.id. apply siblings_below_the_ancestor; assumption. }
    pose proof (receiver_level_unfiltered t1' sndr me k flt Sh' Sm' ltac:(lia) ltac:(congruence) F Sib Lk) as Unf.
    (* the resolution of the receiver's node below the common ancestor, by the structural specification *)
    assert (Rs : resolution_of t1' (lvl_node (N.of_nat k) me) = Ok (reso_spec t1' k (me / 2 ^ N.of_nat k))).
    { destruct (path_nodes_spec t1' sndr Sm' ltac:(lia)) as (d & Et & Hd & Hl & Pn & Cp).
      unfold filtered in F. rewrite Cp in F. cbn [bind] in F.
      assert (Lf : length flt = N.to_nat d) by (rewrite (filtered_of_length _ _ _ F), map_length, path_spec_length; reflexivity).
      unfold lvl_node. apply resolution_of_spec_fuel; [lia|].
      pose proof (depth_fuel t1' d Sm' Et) as Df. pose proof (sz_mono (S k) (N.to_nat d) ltac:(lia)) as Mo. cbn [sz] in Mo. lia. }
    destruct (complete_decap_finds_ciphertext_res t1' me pr1 k excl idm lk Sh' C' Rs Gl' Nx K0) as (i & key & D).
    destruct (receiver_derives_the_commit_secret sec derive ks t1' me pr1 k excl flt r i key s P D Unf Hs) as (recips & ct & S1 & S2 & S3 & S4).
    exists i, key, recips, ct. repeat split; assumption.
  Qed.
End Agree.

(* ---- the other roles in the same commit ---- *)

(* a member whose own Update proposal is in the commit (committed by somebody else): every key but the
   new leaf key is dropped by the proposals, then it is an ordinary receiver of the path *)
Theorem updated_receiver_step ks t removes updates adds t1 added snd id t2 me pr pr1 flt fk leafkey newleaf key L path_me :
  TreeOK t -> tlen t + 2 * N.of_nat (length adds) < 2 ^ 25 ->
  batch_edit t removes updates adds = TOk (t1, added) ->
  apply_update_path t1 snd id = TOk t2 ->
  filtered (set t1 (2 * snd) (Some (Leaf id))) snd = Ok flt ->
  PrivOK ks me pr -> In me (map fst updates) ->
  2 * me < tlen t1 -> get t1 (2 * me) <> None -> newleaf me = Some key ->
  provisional_priv t1 me pr (Some key) = Ok pr1 ->
  1 <= L -> me / 2 ^ L = snd / 2 ^ L -> (forall k, k < L -> me / 2 ^ k <> snd / 2 ^ k) ->
  path_nodes (set t1 (2 * snd) (Some (Leaf id))) me = Ok path_me ->
  let ks1 := keys_after_proposals ks t1 newleaf in
  let ks2 := keys_after_path ks1 snd leafkey flt fk in
  let pr2 := decap_priv pr1 (length path_me) (N.to_nat (L - 1)) (upd_nodes flt 1 fk) in
  TreeOK t2 /\ PrivOK ks1 me pr1 /\ Complete t1 me pr1 /\ PrivOK ks2 me pr2 /\ Complete t2 me pr2.
Proof.
  intros T S B A F P U Lm Nb En Pv L1 Eq Ne Pm. cbv zeta.
  destruct (tree_ok_commit _ _ _ _ _ _ _ _ _ T S B A) as ((W31 & W51 & Sh1) & Sm1 & T2).
  assert (P1 : PrivOK (keys_after_proposals ks t1 newleaf) me pr1) by (eapply privok_provisional; eassumption).
  assert (C1 : Complete t1 me pr1) by (eapply complete_own_update; eassumption).
  split; [exact T2|]. split; [exact P1|]. split; [exact C1|]. split.
  - apply privok_decap; assumption.
  - eapply complete_decap; eassumption.
Qed.

(* the committer *)
Theorem committer_step ks t removes updates adds t1 added snd id t2 pr flt fk leafkey newleaf :
  TreeOK t -> tlen t + 2 * N.of_nat (length adds) < 2 ^ 25 ->
  batch_edit t removes updates adds = TOk (t1, added) ->
  apply_update_path t1 snd id = TOk t2 ->
  filtered (set t1 (2 * snd) (Some (Leaf id))) snd = Ok flt ->
  let ks1 := keys_after_proposals ks t1 newleaf in
  let ks2 := keys_after_path ks1 snd leafkey flt fk in
  let pr2 := encap_priv pr (length flt) flt fk leafkey in
  TreeOK t2 /\ PrivOK ks2 snd pr2 /\ Complete t2 snd pr2 /\ nth_error pr2 0 = Some (Some leafkey).
Proof.
  intros T Sz B A F. cbv zeta.
  destruct (tree_ok_commit _ _ _ _ _ _ _ _ _ T Sz B A) as ((W31 & W51 & Sh1) & Sm1 & T2).
  split; [exact T2|]. split; [apply privok_encap; reflexivity|]. split; [eapply complete_encap; eassumption|].
  unfold encap_priv, mapi. rewrite nth_error_mapi_from. cbn [Nat.add]. unfold resize.
  replace (length flt + 1)%nat with (S (length flt)) by lia.
  destruct pr as [|x pr]; reflexivity.
Qed.

(* a member added by the commit *)
Theorem joiner_step ks2 t removes updates adds t1 added snd id t2 me leafkey jflt L pr :
  TreeOK t -> tlen t + 2 * N.of_nat (length adds) < 2 ^ 25 ->
  batch_edit t removes updates adds = TOk (t1, added) -> In me added ->
  apply_update_path t1 snd id = TOk t2 -> small t2 ->
  get t2 (2 * me) <> None -> ks2 (2 * me) = Some leafkey ->
  1 <= L -> (forall k, k < L -> me / 2 ^ k <> snd / 2 ^ k) ->
  filtered t2 me = Ok jflt ->
  join_priv ks2 me leafkey jflt (N.to_nat (L - 1)) = Some pr ->
  TreeOK t2 /\ PrivOK ks2 me pr /\ Complete t2 me pr.
Proof.
  intros T S B I A Sm2 Nb K L1 Ne F J.
  destruct (tree_ok_commit _ _ _ _ _ _ _ _ _ T S B A) as ((W31 & W51 & Sh1) & Sm1 & (W32 & W52 & Sh2)).
  split; [split; [exact W32|split; [exact W52|exact Sh2]]|]. split; [eapply privok_join; eassumption|].
  eapply complete_join; try eassumption.
Qed.

(* ---- the leaves of the other members are not touched by the path ---- *)
Lemma apply_path_nodes_even orig : forall path copath t t',
  Forall (fun p => N.even p = false) path -> apply_path_nodes t path copath orig = Ok t' ->
  forall i, N.even i = true -> get t' i = get t i.
Proof.
  induction path as [|p path IH]; intros copath t t' Od A i Ev; cbn [apply_path_nodes] in A.
  - unfold ret in A. apply Ok_inj' in A. subst. reflexivity.
  - destruct copath as [|c cr]; [unfold ret in A; apply Ok_inj' in A; subst; reflexivity|].
    inversion Od as [|? ? Op Or]; subst.
    destruct (resolution_empty orig c) as [e| |]; cbn [bind] in A; try discriminate.
    destruct e.
    + eapply IH; eassumption.
    + rewrite (IH _ _ _ Or A i Ev). rewrite get_set_ext.
      destruct (N.eqb_spec i p) as [->|_]; [congruence|reflexivity].
Qed.

Lemma apply_update_path_other_leaves t sndr id t' :
  small t -> apply_update_path t sndr id = TOk t' ->
  forall l, l <> sndr -> get t' (2 * l) = get t (2 * l).
Proof.
  intros Sm A l Ne. unfold apply_update_path in A.
  destruct (get t (2 * sndr)) as [[x|um]|] eqn:G; try discriminate.
  assert (Ls : 2 * sndr < tlen t) by (eapply get_some_lt; exact G).
  set (t1 := set t (2 * sndr) (Some (Leaf id))) in *.
  assert (Sm1 : small t1) by (unfold small, t1; rewrite set_length; exact Sm).
  assert (L1 : 2 * sndr <= tlen t1) by (unfold t1; rewrite set_length; lia).
  destruct (path_nodes t1 sndr) as [path| |] eqn:P; cbn [lift tbind] in A; try discriminate.
  destruct (copath_nodes t1 sndr) as [copath| |] eqn:Cp; cbn [lift tbind] in A; try discriminate.
  destruct (apply_path_nodes t1 path copath t1) as [t2| |] eqn:Ap; cbn [lift] in A; try discriminate.
  assert (t' = t2) by congruence. subst t'.
  rewrite (apply_path_nodes_even t1 path copath t1 t2 (path_nodes_odd _ _ _ Sm1 L1 P) Ap) by (rewrite N.even_mul; reflexivity).
  unfold t1. apply get_set_other. lia.
Qed.

Lemma apply_update_path_sender_leaf t sndr id t' :
  small t -> apply_update_path t sndr id = TOk t' -> get t' (2 * sndr) = Some (Leaf id).
Proof.
  intros Sm A. unfold apply_update_path in A.
  destruct (get t (2 * sndr)) as [[x|um]|] eqn:G; try discriminate.
  assert (Ls : 2 * sndr < tlen t) by (eapply get_some_lt; exact G).
  set (t1 := set t (2 * sndr) (Some (Leaf id))) in *.
  assert (Sm1 : small t1) by (unfold small, t1; rewrite set_length; exact Sm).
  assert (L1 : 2 * sndr <= tlen t1) by (unfold t1; rewrite set_length; lia).
  destruct (path_nodes t1 sndr) as [path| |] eqn:P; cbn [lift tbind] in A; try discriminate.
  destruct (copath_nodes t1 sndr) as [copath| |] eqn:Cp; cbn [lift tbind] in A; try discriminate.
  destruct (apply_path_nodes t1 path copath t1) as [t2| |] eqn:Ap; cbn [lift] in A; try discriminate.
  assert (t' = t2) by congruence. subst t'.
  rewrite (apply_path_nodes_even t1 path copath t1 t2 (path_nodes_odd _ _ _ Sm1 L1 P) Ap) by (rewrite N.even_mul; reflexivity).
  unfold t1, set. rewrite get_set_at. rewrite Nat.eqb_refl.
  replace (N.to_nat (2 * sndr) <? length t)%nat with true; [reflexivity|]. symmetry. apply Nat.ltb_lt. unfold tlen in Ls. lia.
Qed.

(* a receiver keeps the key of its own leaf *)
Lemma decap_keeps_leaf_key pr n lca nodes key : nth_error pr 0 = Some (Some key) -> nth_error (decap_priv pr n lca nodes) 0 = Some (Some key).
Proof.
  intro K. unfold decap_priv, mapi. rewrite nth_error_mapi_from. cbn [Nat.add]. unfold resize.
  destruct pr as [|x pr]; [discriminate|]. cbn [nth_error] in K. injection K as ->.
  replace (n + 2)%nat with (S (n + 1)) by lia. reflexivity.
Qed.

(* ---- the group: every member of every reachable state ---- *)
Definition MemberOK (t : tree) (ks : keys) (m : N * priv) : Prop :=
  (exists id, get t (2 * fst m) = Some (Leaf id)) /\
  PrivOK ks (fst m) (snd m) /\ Complete t (fst m) (snd m) /\
  (exists lk, nth_error (snd m) 0 = Some (Some lk)).

Record gstate := { g_tree : tree; g_keys : keys; g_members : list (N * priv) }.

Definition GInv (g : gstate) : Prop :=
  TreeOK (g_tree g) /\ Forall (MemberOK (g_tree g) (g_keys g)) (g_members g).

(* how the private state of one member of the new epoch came about *)
Definition evolves (g : gstate) (updates : list (N * N)) (t1 : tree) (added : list N) (sndr id : N) (flt : list bool)
           (fk : N -> N) (leafkey : N) (newleaf : N -> option N) (t2 : tree) (ks2 : keys) (m' : N * priv) : Prop :=
  let me := fst m' in
  let t1' := set t1 (2 * sndr) (Some (Leaf id)) in
  (* a receiver that was a member before *)
  (exists pr pr1 own L path_me,
     In (me, pr) (g_members g) /\ 2 * me < tlen t1 /\ get t1 (2 * me) <> None /\ newleaf me = own /\
     (match own with None => True | Some _ => In me (map fst updates) end) /\
     provisional_priv t1 me pr own = Ok pr1 /\
     1 <= L /\ me / 2 ^ L = sndr / 2 ^ L /\ (forall k, k < L -> me / 2 ^ k <> sndr / 2 ^ k) /\
     path_nodes t1' me = Ok path_me /\
     snd m' = decap_priv pr1 (length path_me) (N.to_nat (L - 1)) (upd_nodes flt 1 fk))
  \/ (* the committer *)
  (me = sndr /\ exists pr, snd m' = encap_priv pr (length flt) flt fk leafkey)
  \/ (* a member added by this commit *)
  (exists lk L jflt,
     In me added /\ get t2 (2 * me) <> None /\ ks2 (2 * me) = Some lk /\
     1 <= L /\ (forall k, k < L -> me / 2 ^ k <> sndr / 2 ^ k) /\
     filtered t2 me = Ok jflt /\ join_priv ks2 me lk jflt (N.to_nat (L - 1)) = Some (snd m')).

Inductive gstep (g g' : gstate) : Prop :=
| GCommit removes updates adds t1 added sndr id flt fk leafkey newleaf :
    tlen (g_tree g) + 2 * N.of_nat (length adds) < 2 ^ 25 ->
    batch_edit (g_tree g) removes updates adds = TOk (t1, added) ->
    apply_update_path t1 sndr id = TOk (g_tree g') -> small (g_tree g') ->
    filtered (set t1 (2 * sndr) (Some (Leaf id))) sndr = Ok flt ->
    g_keys g' = keys_after_path (keys_after_proposals (g_keys g) t1 newleaf) sndr leafkey flt fk ->
    Forall (evolves g updates t1 added sndr id flt fk leafkey newleaf (g_tree g') (g_keys g')) (g_members g') ->
    gstep g g'.

Lemma leaf_of_shape t l : shape_ok t -> get t (2 * l) <> None -> exists id, get t (2 * l) = Some (Leaf id).
Proof.
  intros Sh Nb. specialize (Sh (2 * l)). destruct (get t (2 * l)) as [[id|um]|]; [eexists; reflexivity| |congruence].
  cbn [kind_ok] in Sh. rewrite N.even_mul in Sh. discriminate.
Qed.

Lemma provisional_own_leaf_key t me pr key pr1 : provisional_priv t me pr (Some key) = Ok pr1 -> nth_error pr1 0 = Some (Some key).
Proof.
  unfold provisional_priv. destruct (path_nodes t me) as [path| |]; cbn [bind ret]; try discriminate.
  intro E. unfold ret in E. apply Ok_inj' in E. subst pr1. unfold mapi. rewrite nth_error_mapi_from. cbn [Nat.add].
  unfold resize. replace (length path + 1)%nat with (S (length path)) by lia.
  destruct pr as [|x pr]; reflexivity.
Qed.

Lemma join_priv_leaf_key ks me lk jflt lca pr : join_priv ks me lk jflt lca = Some pr -> nth_error pr 0 = Some (Some lk).
Proof. unfold join_priv. destruct (join_levels ks me jflt 0 lca); [|discriminate]. intro E. injection E as <-. reflexivity. Qed.

Theorem ginv_step g g' : GInv g -> gstep g g' -> GInv g'.
Proof.
  intros [T M] [removes updates adds t1 added sndr id flt fk leafkey newleaf Sz B A Sm2 F Ek Ev].
  destruct (tree_ok_commit _ _ _ _ _ _ _ _ _ T Sz B A) as ((W31 & W51 & Sh1) & Sm1 & T2).
  split; [exact T2|]. destruct T2 as (W32 & W52 & Sh2).
  rewrite Forall_forall in *. intros [me pr'] Im. specialize (Ev _ Im). unfold evolves in Ev. cbn [fst snd] in Ev.
  destruct Ev as [(pr & pr1 & own & L & path_me & Iold & Lm & Nb & En & Up & Pv & L1 & Eq & Ne & Pm & E)|[(E & pr & Ep)|(lk & L & jflt & Ia & Nb & K & L1 & Ne & Fj & J)]].
  - (* receiver *)
    destruct (M _ Iold) as ((idm & Gm) & P & C & (lk0 & K0)). cbn [fst snd] in *. subst pr'.
    assert (Nes : me <> sndr) by (intro; subst; apply (Ne 0 ltac:(lia)); reflexivity).
    assert (Leaf2 : exists id2, get (g_tree g') (2 * me) = Some (Leaf id2)).
    { apply leaf_of_shape; [exact Sh2|]. rewrite (apply_update_path_other_leaves _ _ _ _ Sm1 A me Nes). exact Nb. }
    destruct own as [key|].
    + destruct (updated_receiver_step (g_keys g) (g_tree g) removes updates adds t1 added sndr id (g_tree g') me pr pr1 flt fk leafkey newleaf key L path_me T Sz B A F P Up Lm Nb En Pv L1 Eq Ne Pm) as (_ & _ & _ & P2 & C2).
      split; [exact Leaf2|]. cbn [fst snd]. rewrite Ek. split; [exact P2|]. split; [exact C2|].
      exists key. apply decap_keeps_leaf_key. eapply provisional_own_leaf_key. exact Pv.
    + destruct (receiver_step (g_keys g) (g_tree g) removes updates adds t1 added sndr id (g_tree g') me pr pr1 flt fk leafkey newleaf L path_me T Sz B A F P C Lm Nb En Pv L1 Eq Ne Pm) as (_ & _ & _ & P2 & C2).
      split; [exact Leaf2|]. cbn [fst snd]. rewrite Ek. split; [exact P2|]. split; [exact C2|].
      exists lk0. apply decap_keeps_leaf_key. eapply provisional_keeps_leaf_key; eassumption.
  - (* committer *)
    subst me. cbn [fst snd] in *. subst pr'.
    destruct (committer_step (g_keys g) (g_tree g) removes updates adds t1 added sndr id (g_tree g') pr flt fk leafkey newleaf T Sz B A F) as (_ & P2 & C2 & K2).
    split; [exists id; apply (apply_update_path_sender_leaf _ _ _ _ Sm1 A)|]. cbn [fst snd]. rewrite Ek.
    split; [exact P2|]. split; [exact C2|]. exists leafkey. exact K2.
  - (* joiner *)
    cbn [fst snd] in *.
    destruct (joiner_step (g_keys g') (g_tree g) removes updates adds t1 added sndr id (g_tree g') me lk jflt L pr' T Sz B Ia A Sm2 Nb K L1 Ne Fj J) as (_ & P2 & C2).
    split; [apply leaf_of_shape; assumption|]. cbn [fst snd]. split; [exact P2|]. split; [exact C2|].
    exists lk. eapply join_priv_leaf_key. exact J.
Qed.

(* every state reachable by commits from a state that satisfies the invariant satisfies it *)
Inductive reachable (g0 : gstate) : gstate -> Prop :=
| reach_refl : reachable g0 g0
| reach_step g g' : reachable g0 g -> gstep g g' -> reachable g0 g'.

Theorem ginv_reachable g0 g : GInv g0 -> reachable g0 g -> GInv g.
Proof. intros I R. induction R as [|g g' R IH St]; [exact I|]. eapply ginv_step; [exact IH|exact St]. Qed.

(* the group a member creates: one leaf, its key *)
Theorem ginv_initial id lk : GInv {| g_tree := [Some (Leaf id)]; g_keys := (fun i => if i =? 0 then Some lk else None); g_members := [(0, [Some lk])] |}.
Proof.
  split.
  - split; [|split].
    + intros p um G. destruct p as [|p]; [discriminate|]. unfold get in G. destruct (N.to_nat (N.pos p)) as [|n] eqn:E; [lia|]. cbn [nth_error] in G. destruct n; discriminate.
    + apply wf5_single.
    + intro i. unfold get. destruct (N.to_nat i) as [|n] eqn:E; cbn [nth_error kind_ok]; [assert (i = 0) by lia; subst; reflexivity|destruct n; exact I].
  - constructor; [|constructor]. unfold MemberOK. cbn [fst snd g_tree g_keys]. split; [exists id; reflexivity|]. split; [|split].
    + intros k x H. destruct k as [|k]; cbn [nth_error] in H; [|destruct k; discriminate]. injection H as <-.
      unfold lvl_node. cbn [N.of_nat]. rewrite N.pow_0_r, N.div_1_r, node_0. reflexivity.
    + intros k um Hk G. exfalso. unfold get in G. destruct (N.to_nat (lvl_node (N.of_nat k) 0)) as [|n] eqn:E.
      * pose proof (lvl_node_odd' k 0 Hk) as O. assert (Z : lvl_node (N.of_nat k) 0 = 0) by lia. rewrite Z in O. discriminate.
      * cbn [nth_error] in G. destruct n; discriminate.
    + exists lk. reflexivity.
Qed.

(* ---- agreement, for every member of every reachable state ---- *)
Section GroupAgreement.
  Variable sec : Type.
  Variable derive : sec -> sec.

  (* In a state that satisfies the invariant, take any commit with a path.  Every member that stays
     (and has no update of its own in the commit) finds a ciphertext in the committer's update path,
     sealed to a key it holds, opens the committer's path secret of its level and from there
     derives the committer's commit secret. *)
  Theorem every_receiver_derives_the_commit_secret g removes updates adds t1 added sndr id flt newleaf me pr pr1 L r idm :
    GInv g -> In (me, pr) (g_members g) ->
    tlen (g_tree g) + 2 * N.of_nat (length adds) < 2 ^ 25 ->
    batch_edit (g_tree g) removes updates adds = TOk (t1, added) ->
    let t1' := set t1 (2 * sndr) (Some (Leaf id)) in
    2 * sndr < tlen t1 -> filtered t1' sndr = Ok flt ->
    2 * me < tlen t1 -> get t1 (2 * me) = Some (Leaf idm) -> ~ In me added -> newleaf me = None ->
    provisional_priv t1 me pr None = Ok pr1 ->
    1 <= L -> me / 2 ^ L = sndr / 2 ^ L -> (forall k, k < L -> me / 2 ^ k <> sndr / 2 ^ k) ->
    (N.to_nat (L - 1) < length flt)%nat ->
    let k := N.to_nat (L - 1) in
    let ks1 := keys_after_proposals (g_keys g) t1 newleaf in
    exists s i key recips ct,
      secret_at sec (fst (committer_chain sec derive flt r)) k = Some s /\
      decap_select t1' me pr1 k added = Ok (Some (i, key)) /\
      sealed_to t1' (lvl_node (N.of_nat k) me) added = Ok recips /\
      nth_error (seal_to sec ks1 recips s) i = Some ct /\
      open_with sec key ct = Some s /\
      receiver_chain sec derive (skipn k flt) s =
        (skipn k (fst (committer_chain sec derive flt r)), snd (committer_chain sec derive flt r)).
  Proof.
    intros [T M] Im Sz B. cbv zeta. intros Ls F Lm Gl Nx En Pv L1 Eq Ne Lk.
    rewrite Forall_forall in M. destruct (M _ Im) as (_ & P & C & (lk0 & K0)). cbn [fst snd] in *.
    destruct T as (W3 & W5 & Sh).
    destruct (wf3_batch_edit _ _ _ _ _ _ W3 Sz B) as [W31 L1'].
    destruct (shape_batch_edit _ _ _ _ _ _ Sh B) as [Sh1 _].
    assert (Sm1 : small t1) by (unfold small; lia).
    assert (P1 : PrivOK (keys_after_proposals (g_keys g) t1 newleaf) me pr1) by (eapply privok_provisional; try eassumption; congruence).
    assert (C1 : Complete t1 me pr1) by (eapply complete_provisional; [exact C|eapply ParMono_batch_edit; exact B|exact Sm1|exact Lm|exact Pv]).
    assert (K1 : nth_error pr1 0 = Some (Some lk0)) by (eapply provisional_keeps_leaf_key; eassumption).
    assert (Nes : me <> sndr) by (intro; subst; apply (Ne 0 ltac:(lia)); reflexivity).
    (* the receiver's level is not filtered, so the committer has a path secret there *)
    set (t1' := set t1 (2 * sndr) (Some (Leaf id))) in *.
    assert (Sh' : shape_ok t1') by (apply shape_set; [exact Sh1|cbn [kind_ok]; rewrite N.even_mul; reflexivity]).
    assert (Sm' : small t1') by (unfold small, t1'; rewrite set_length; exact Sm1).
    assert (Gl' : get t1' (2 * me) <> None) by (unfold t1'; rewrite get_set_other by lia; congruence).
    assert (Sib : me / 2 ^ N.of_nat (N.to_nat (L - 1)) = sib (sndr / 2 ^ N.of_nat (N.to_nat (L - 1)))) by (rewrite N2Nat.id; apply siblings_below_the_ancestor; assumption).
    pose proof (receiver_level_unfiltered t1' sndr me (N.to_nat (L - 1)) flt Sh' Sm' ltac:(unfold t1'; rewrite set_length; lia) Gl' F Sib Lk) as Unf.
    destruct (proj1 (committer_chain_shape sec derive flt r (N.to_nat (L - 1)) Lk) Unf) as [s Hs].
    destruct (receiver_agreement sec derive (keys_after_proposals (g_keys g) t1 newleaf) t1 sndr id me pr1 flt L r s idm lk0 added Sh1 Sm1 Ls Nes P1 C1 Gl Nx K1 L1 Eq Ne F Lk Hs) as (i & key & recips & ct & D & S1 & S2 & S3 & S4).
    exists s, i, key, recips, ct. repeat split; assumption.
  Qed.
End GroupAgreement.

(* ---- commits WITHOUT an update path (add-only, PSK-only ...): the proposals alone ---- *)
Lemma ancestor_lvl_node k me : (1 <= k)%nat -> ancestor (lvl_node (N.of_nat k) me) me.
Proof.
  intro Hk. exists (N.of_nat (k - 1)), (me / 2 ^ N.of_nat k). unfold lvl_node.
  replace (N.of_nat (k - 1) + 1) with (N.of_nat k) by lia. split; reflexivity.
Qed.

Lemma complete_of_unmerged t me pr : UnmergedAtAll t me -> Complete t me pr.
Proof. intros U k um Hk G. right. apply (U _ _ G). apply ancestor_lvl_node. exact Hk. Qed.

Definition evolves_nopath (g : gstate) (updates : list (N * N)) (t1 : tree) (added : list N)
           (newleaf : N -> option N) (ks1 : keys) (m' : N * priv) : Prop :=
  let me := fst m' in
  (exists pr own,
     In (me, pr) (g_members g) /\ 2 * me < tlen t1 /\ get t1 (2 * me) <> None /\ newleaf me = own /\
     (match own with None => True | Some _ => In me (map fst updates) end) /\
     provisional_priv t1 me pr own = Ok (snd m'))
  \/
  (exists lk, In me added /\ get t1 (2 * me) <> None /\ ks1 (2 * me) = Some lk /\ snd m' = [Some lk]).

Inductive gstep_nopath (g g' : gstate) : Prop :=
| GCommitNoPath removes updates adds added newleaf :
    tlen (g_tree g) + 2 * N.of_nat (length adds) < 2 ^ 25 ->
    batch_edit (g_tree g) removes updates adds = TOk (g_tree g', added) ->
    g_keys g' = keys_after_proposals (g_keys g) (g_tree g') newleaf ->
    Forall (evolves_nopath g updates (g_tree g') added newleaf (g_keys g')) (g_members g') ->
    gstep_nopath g g'.

Theorem ginv_step_nopath g g' : GInv g -> gstep_nopath g g' -> GInv g'.
Proof.
  intros [T M] [removes updates adds added newleaf Sz B Ek Ev].
  destruct T as (W3 & W5 & Sh).
  destruct (wf3_batch_edit _ _ _ _ _ _ W3 Sz B) as [W31 L1].
  pose proof (wf5_batch_edit _ _ _ _ _ _ W5 Sh Sz B) as W51.
  destruct (shape_batch_edit _ _ _ _ _ _ Sh B) as [Sh1 _].
  assert (Sm1 : small (g_tree g')) by (unfold small; lia).
  split; [split; [exact W31|split; [exact W51|exact Sh1]]|].
  rewrite Forall_forall in *. intros [me pr'] Im. specialize (Ev _ Im). unfold evolves_nopath in Ev. cbn [fst snd] in Ev.
  destruct Ev as [(pr & own & Iold & Lm & Nb & En & Up & Pv)|(lk & Ia & Nb & K & E)].
  - destruct (M _ Iold) as (_ & P & C & (lk0 & K0)). cbn [fst snd] in *.
    split; [apply leaf_of_shape; assumption|]. cbn [fst snd]. rewrite Ek.
    split; [eapply privok_provisional; eassumption|]. destruct own as [key|].
    + split; [eapply complete_own_update; eassumption|]. exists key. eapply provisional_own_leaf_key. exact Pv.
    + split; [eapply complete_provisional; [exact C|eapply ParMono_batch_edit; exact B|exact Sm1|exact Lm|exact Pv]|].
      exists lk0. eapply provisional_keeps_leaf_key; eassumption.
  - cbn [fst snd] in *. subst pr'. split; [apply leaf_of_shape; assumption|]. cbn [fst snd]. split; [|split].
    + intros k x H. destruct k as [|k]; cbn [nth_error] in H; [|destruct k; discriminate]. injection H as <-.
      unfold lvl_node. cbn [N.of_nat]. rewrite N.pow_0_r, N.div_1_r, node_0. exact K.
    + apply complete_of_unmerged. eapply added_member_unmerged; eassumption.
    + exists lk. reflexivity.
Qed.

(* histories of both kinds of commit *)
Inductive reachable2 (g0 : gstate) : gstate -> Prop :=
| reach2_refl : reachable2 g0 g0
| reach2_path g g' : reachable2 g0 g -> gstep g g' -> reachable2 g0 g'
| reach2_nopath g g' : reachable2 g0 g -> gstep_nopath g g' -> reachable2 g0 g'.

Theorem ginv_reachable2 g0 g : GInv g0 -> reachable2 g0 g -> GInv g.
Proof.
  intros I R. induction R as [|g g' R IH St|g g' R IH St]; [exact I| |].
  - eapply ginv_step; [exact IH|exact St].
  - eapply ginv_step_nopath; [exact IH|exact St].
Qed.

(* ---- a member added by the commit: the path secret in its Welcome leads to the same commit secret ---- *)
Section JoinerAgreement.
  Variable sec : Type.
  Variable derive : sec -> sec.

  (* the committer hands the joiner the path secret at position joiner_secret_position(L) = L - 1 of its
     list (Model/Join.v, translated by rs2v welcome); that position is never filtered - the joiner's own
     leaf is in the copath subtree - and following the chain from there ends in the commit secret *)
  Theorem every_joiner_derives_the_commit_secret t1 sndr id me flt L r :
    shape_ok t1 -> small t1 -> 2 * sndr < tlen t1 -> me <> sndr -> get t1 (2 * me) <> None ->
    1 <= L -> me / 2 ^ L = sndr / 2 ^ L -> (forall k, k < L -> me / 2 ^ k <> sndr / 2 ^ k) ->
    let t1' := set t1 (2 * sndr) (Some (Leaf id)) in
    let k := N.to_nat (L - 1) in
    filtered t1' sndr = Ok flt -> (k < length flt)%nat ->
    exists s,
      secret_at sec (fst (committer_chain sec derive flt r)) k = Some s /\
      receiver_chain sec derive (skipn k flt) s =
        (skipn k (fst (committer_chain sec derive flt r)), snd (committer_chain sec derive flt r)).
  Proof.
    intros Sh Sm Ls Nes Nb L1 Eq Ne. cbv zeta. intros F Lk.
    set (t1' := set t1 (2 * sndr) (Some (Leaf id))) in *.
    assert (Sh' : shape_ok t1') by (apply shape_set; [exact Sh|cbn [kind_ok]; rewrite N.even_mul; reflexivity]).
    assert (Sm' : small t1') by (unfold small, t1'; rewrite set_length; exact Sm).
    assert (Gl' : get t1' (2 * me) <> None) by (unfold t1'; rewrite get_set_other by lia; exact Nb).
    assert (Sib : me / 2 ^ N.of_nat (N.to_nat (L - 1)) = sib (sndr / 2 ^ N.of_nat (N.to_nat (L - 1)))) by (rewrite N2Nat.id; apply siblings_below_the_ancestor; assumption).
    pose proof (receiver_level_unfiltered t1' sndr me (N.to_nat (L - 1)) flt Sh' Sm' ltac:(unfold t1'; rewrite set_length; lia) Gl' F Sib Lk) as Unf.
    destruct (proj1 (committer_chain_shape sec derive flt r (N.to_nat (L - 1)) Lk) Unf) as [s Hs].
    exists s. split; [exact Hs|]. apply receiver_reaches_commit_secret; assumption.
  Qed.
End JoinerAgreement.

(* ---- a removed member holds no key of any node the new path secrets are sealed to ---- *)
Lemma ancestor_odd p l : ancestor p l -> N.even p = false.
Proof. intros (k & j & -> & _). apply node_odd_S. Qed.

Lemma not_par_mono t t' p : ParMono t t' -> (forall um, get t p <> Some (Par um)) -> forall um, get t' p <> Some (Par um).
Proof. intros M H um G. destruct (M p um G) as (u & Gu & _). exact (H u Gu). Qed.

Lemma apply_removes_blanks l : forall rs t t', small t -> apply_removes t rs = TOk t' -> In l rs ->
  forall p, ancestor p l -> forall um, get t' p <> Some (Par um).
Proof.
  induction rs as [|r rest IH]; intros t t' Sm A I p An; [destruct I|].
  cbn [apply_removes] in A.
  destruct (blank_leaf t r) as [ta| |] eqn:B; cbn [tbind] in A; try discriminate.
  destruct (blank_direct_path ta r) as [tb| |] eqn:D; cbn [tbind] in A; try discriminate.
  assert (La : tlen ta = tlen t) by (eapply blank_leaf_length; exact B).
  assert (Lb : tlen tb = tlen ta) by (eapply blank_direct_path_length; exact D).
  assert (Smb : small tb) by (unfold small in *; lia).
  destruct (N.eq_dec r l) as [->|Ne].
  - assert (Ll : 2 * l < tlen ta).
    { unfold blank_leaf in B. destruct (get t (2 * l)) as [[x|um0]|] eqn:G; try discriminate. pose proof (get_some_lt _ _ _ G). lia. }
    pose proof (blank_direct_path_blanks ta l tb ltac:(unfold small in *; lia) Ll D p An) as Nn.
    apply (not_par_mono tb t' p (ParMono_apply_removes _ _ _ A)). intros um G. congruence.
  - destruct I as [E|I]; [congruence|]. eapply IH; eassumption.
Qed.

Theorem removed_member_holds_no_key_of_a_recipient_node t removes updates adds t1 added l sndr id rs :
  shape_ok t -> tlen t + 2 * N.of_nat (length adds) < 2 ^ 25 ->
  batch_edit t removes updates adds = TOk (t1, added) -> In l removes ->
  let t1' := set t1 (2 * sndr) (Some (Leaf id)) in
  wf3 t1' -> encap_recipients t1' sndr added = Ok rs ->
  forall p xs x, In (p, xs) rs -> In x xs ->
    (forall k, (1 <= k)%nat -> x <> lvl_node (N.of_nat k) l) /\ (get t1' (2 * l) = None \/ In l added -> x <> 2 * l).
Proof.
  intros Sh Sz B Il. cbv zeta. intros W E p xs x I1 I2.
  destruct (seal_recipients_ok _ _ _ _ W E p xs x I1 I2) as (Nb & Nx & _).
  destruct (shape_batch_edit _ _ _ _ _ _ Sh B) as [Sh1 _].
  split.
  - intros k Hk Ex. subst x.
    pose proof (ancestor_lvl_node k l Hk) as An. pose proof (ancestor_odd _ _ An) as Od.
    (* the node is not a parent in t1 (blanked by the removal, never re-created) and cannot be a leaf *)
    assert (NP : forall um, get t1 (lvl_node (N.of_nat k) l) <> Some (Par um)).
    { unfold batch_edit in B.
      destruct (apply_removes t (rev removes)) as [ta| |] eqn:R1; cbn [tbind] in B; try discriminate.
      destruct (apply_updates ta updates) as [tb| |] eqn:U; cbn [tbind] in B; try discriminate.
      destruct (blank_paths tb (map fst updates)) as [tc| |] eqn:Bp; cbn [tbind] in B; try discriminate.
      destruct (apply_adds tc adds 0 []) as [[td ad]| |] eqn:Ad; cbn [tbind] in B; try discriminate.
      assert (t1 = trim td) by congruence. subst t1.
      apply (not_par_mono td _ _ (ParMono_trim td)).
      apply (not_par_mono tc _ _ (ParMono_apply_adds _ _ _ _ _ _ Ad)).
      apply (not_par_mono tb _ _ (ParMono_blank_paths _ _ _ Bp)).
      apply (not_par_mono ta _ _ (ParMono_apply_updates _ _ _ U)).
      eapply apply_removes_blanks; [|exact R1| |exact An]; [unfold small; lia|apply in_rev; rewrite rev_involutive; exact Il]. }
    apply Nb. rewrite get_set_other by (intro Q; rewrite Q, N.even_mul in Od; discriminate).
    specialize (Sh1 (lvl_node (N.of_nat k) l)). destruct (get t1 (lvl_node (N.of_nat k) l)) as [[y|um]|]; [|exfalso; exact (NP um eq_refl)|reflexivity].
    cbn [kind_ok] in Sh1. congruence.
  - intros [G|Ia] Ex; subst x; [exact (Nb G)|exact (Nx l Ia eq_refl)].
Qed.
