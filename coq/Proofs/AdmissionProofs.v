From Coq Require Import NArith List Bool Lia.
From MlsV Require Import Admission.
Import ListNotations.
Local Open Scope N_scope.

(* a party whose newest epoch is e (current e, stored epochs all below e) accepts nothing of a later epoch *)
Theorem later_epoch_rejected v gid epoch ct cipher :
  Forall (fun s => s < av_epoch v) (av_stored v) -> av_epoch v < epoch ->
  admission v gid epoch ct cipher <> AOk.
Proof.
  intros F L. unfold admission, check_metadata.
  destruct (av_version_ok v); cbn [negb]; [|discriminate].
  destruct (gid =? av_gid v); cbn [negb]; [|discriminate].
  assert (He : has_epoch v epoch = false).
  { unfold has_epoch. apply orb_false_iff. split; [apply N.eqb_neq; lia|].
    destruct (existsb (N.eqb epoch) (av_stored v)) eqn:Ex; [|reflexivity].
    apply existsb_exists in Ex. destruct Ex as (s & Is & Es). apply N.eqb_eq in Es. subst s.
    rewrite Forall_forall in F. specialize (F _ Is). lia. }
  destruct ct.
  - destruct (av_min v) as [m|]; [destruct (epoch <? m); [discriminate|]|]; (destruct cipher; [rewrite He|]; discriminate).
  - destruct (N.eqb_spec (av_epoch v) epoch); [lia|discriminate].
  - destruct (N.eqb_spec (av_epoch v) epoch); [lia|discriminate].
Qed.

Theorem other_group_rejected v gid epoch ct cipher : gid <> av_gid v -> admission v gid epoch ct cipher <> AOk.
Proof.
  intro Ne. unfold admission, check_metadata. destruct (av_version_ok v); cbn [negb]; [|discriminate].
  destruct (N.eqb_spec gid (av_gid v)); [contradiction|cbn [negb]; discriminate].
Qed.

(* handshake messages are admitted in exactly one epoch: the current one *)
Theorem handshake_only_current v gid epoch ct cipher :
  ct <> CtApplication -> admission v gid epoch ct cipher = AOk -> epoch = av_epoch v /\ gid = av_gid v.
Proof.
  intros Nc. unfold admission, check_metadata. destruct (av_version_ok v); cbn [negb]; [|discriminate].
  destruct (N.eqb_spec gid (av_gid v)); cbn [negb]; [|discriminate].
  destruct ct; [contradiction| |]; (destruct (N.eqb_spec (av_epoch v) epoch); [intros _; split; congruence|discriminate]).
Qed.

(* application data: accepted exactly for the encrypted messages of an epoch whose secrets are held and inside the window *)
Theorem application_admitted_iff v gid epoch cipher :
  admission v gid epoch CtApplication cipher = AOk <->
  av_version_ok v = true /\ gid = av_gid v /\ cipher = true /\ has_epoch v epoch = true
  /\ match av_min v with Some m => m <= epoch | None => True end.
Proof.
  unfold admission, check_metadata.
  destruct (av_version_ok v); cbn [negb]; [|split; [discriminate|intros (Hv & _); discriminate]].
  destruct (N.eqb_spec gid (av_gid v)) as [Eg|Ng]; cbn [negb]; [|split; [discriminate|intros (_ & Hg & _); contradiction]].
  assert (K : forall b : bool, (if cipher then (if b then AOk else AEpochNotFound) else AUnencryptedApplication) = AOk <-> cipher = true /\ b = true).
  { intro b. destruct cipher, b; split; try discriminate; try (intros [? ?]; discriminate); auto. }
  destruct (av_min v) as [m|].
  - destruct (N.ltb_spec epoch m) as [Lt|Ge].
    + split; [discriminate|intros (_ & _ & _ & _ & Hm); lia].
    + destruct cipher.
      * destruct (has_epoch v epoch); split; try discriminate; intros; repeat split; auto.
        destruct H as (_ & _ & _ & Hh & _). discriminate.
      * split; [discriminate|intros (_ & _ & Hc & _); discriminate].
  - destruct cipher.
    + destruct (has_epoch v epoch); split; try discriminate; intros; repeat split; auto.
      destruct H as (_ & _ & _ & Hh & _). discriminate.
    + split; [discriminate|intros (_ & _ & Hc & _); discriminate].
Qed.

(* the observer's window: the subtraction as written overflows exactly when jitter > epoch;
   the saturating form never does and agrees with it everywhere else *)
Theorem min_epoch_overflow epoch jitter : min_epoch_checked epoch jitter = None <-> epoch < jitter.
Proof. unfold min_epoch_checked. destruct (N.ltb_spec epoch jitter); split; intro; try discriminate; try lia; reflexivity. Qed.

Theorem min_epoch_saturating_ok epoch jitter :
  (jitter <= epoch -> min_epoch_checked epoch jitter = Some (min_epoch_saturating epoch jitter))
  /\ (epoch < jitter -> min_epoch_saturating epoch jitter = 0).
Proof.
  unfold min_epoch_checked, min_epoch_saturating. split; intro H.
  - destruct (N.ltb_spec epoch jitter); [lia|reflexivity].
  - lia.
Qed.
