(* Shape facts about the Gallina HMAC / HKDF that serves as the common reference of the three
   crypto providers (C13 compares it with RFC vectors and the library; C14 with every provider). *)
From Coq Require Import NArith List Bool Arith Lia.
From MlsV Require Import Hkdf.
Import ListNotations.

Section H.
  Variable H : hash_alg.
  Hypothesis out_len : forall m, length (h_fun H m) = h_len H.

  Lemma hmac_length key msg : length (hmac H key msg) = h_len H.
  Proof. unfold hmac. apply out_len. Qed.

  Lemma expand_blocks_length n : forall prk info i prev, length (expand_blocks H n prk info i prev) = (n * h_len H)%nat.
  Proof. induction n as [|n IH]; intros; cbn [expand_blocks]; [reflexivity|]. rewrite app_length, hmac_length, IH. lia. Qed.

  (* more blocks only extend the output *)
  Lemma expand_blocks_prefix n k : forall prk info i prev,
    exists more, expand_blocks H (n + k) prk info i prev = expand_blocks H n prk info i prev ++ more.
  Proof.
    induction n as [|n IH]; intros prk info i prev; cbn [expand_blocks plus].
    - eexists. reflexivity.
    - destruct (IH prk info (i + 1)%N (hmac H prk (prev ++ info ++ [i]))) as [more E]. exists more. rewrite E, app_assoc. reflexivity.
  Qed.

  Theorem hkdf_expand_length prk info len : h_len H <> 0%nat -> length (hkdf_expand H prk info len) = len.
  Proof.
    intro Hn. unfold hkdf_expand. rewrite firstn_length, expand_blocks_length. apply Nat.min_l.
    pose proof (Nat.div_mod (len + h_len H - 1) (h_len H) Hn). pose proof (Nat.mod_upper_bound (len + h_len H - 1) (h_len H) Hn). nia.
  Qed.

  (* asking for fewer bytes gives a prefix of asking for more *)
  Theorem hkdf_expand_prefix prk info l1 l2 : h_len H <> 0%nat -> (l1 <= l2)%nat ->
    firstn l1 (hkdf_expand H prk info l2) = hkdf_expand H prk info l1.
  Proof.
    intros Hn L. unfold hkdf_expand. rewrite firstn_firstn, Nat.min_l by exact L.
    set (n1 := ((l1 + h_len H - 1) / h_len H)%nat). set (n2 := ((l2 + h_len H - 1) / h_len H)%nat).
    assert (Hle : (n1 <= n2)%nat) by (apply Nat.div_le_mono; lia).
    replace n2 with (n1 + (n2 - n1))%nat by lia.
    destruct (expand_blocks_prefix n1 (n2 - n1) prk info 1%N []) as [more E]. rewrite E.
    rewrite firstn_app. replace (l1 - length (expand_blocks H n1 prk info 1%N []))%nat with 0%nat.
    - cbn [firstn]. rewrite app_nil_r. reflexivity.
    - rewrite expand_blocks_length. unfold n1.
      pose proof (Nat.div_mod (l1 + h_len H - 1) (h_len H) Hn). pose proof (Nat.mod_upper_bound (l1 + h_len H - 1) (h_len H) Hn). nia.
  Qed.
End H.
