From Coq Require Import NArith List Bool Arith Lia.
From MlsV Require Import Tree Subgroup.
Import ListNotations.
Local Open Scope N_scope.

Lemma mem_id_in x l : mem_id x l = true <-> In x l.
Proof.
  unfold mem_id. rewrite existsb_exists. split.
  - intros (y & I & E). apply N.eqb_eq in E. subst. exact I.
  - intro I. exists x. split; [exact I|apply N.eqb_refl].
Qed.
Lemma subset_incl a b : subset_ids a b = true <-> incl a b.
Proof.
  unfold subset_ids. rewrite forallb_forall. split.
  - intros H x I. apply mem_id_in. apply H. exact I.
  - intros H x I. apply mem_id_in. apply H. exact I.
Qed.

(* a duplicate-free list included in another one of the same length has the same elements *)
Lemma incl_same_length (n o : list N) : NoDup n -> incl n o -> length o = length n -> incl o n.
Proof.
  intros Nn I L. apply NoDup_length_incl; [exact Nn|lia|exact I].
Qed.

(* re-init: accepted exactly when old and new group have the same members, whatever the trees look like *)
Theorem reinit_iff_same_members old_tree new_tree :
  NoDup (members_of old_tree) -> NoDup (members_of new_tree) ->
  (subgroup_ok Reinit old_tree new_tree = true <->
   (forall id, In id (members_of new_tree) <-> In id (members_of old_tree))).
Proof.
  intros No Nn. unfold subgroup_ok. rewrite andb_true_iff, Nat.eqb_eq, subset_incl. split.
  - intros [L I] id. split; [apply I|]. apply (incl_same_length _ _ Nn I L).
  - intro H. split.
    + apply Nat.le_antisymm; apply NoDup_incl_length; try assumption; intros x Ix; apply H; exact Ix.
    + intros x Ix. apply H. exact Ix.
Qed.

(* branch: accepted exactly when the new members are among the old ones *)
Theorem branch_iff_subset old_tree new_tree :
  subgroup_ok Branch old_tree new_tree = true <-> incl (members_of new_tree) (members_of old_tree).
Proof. unfold subgroup_ok. apply subset_incl. Qed.

(* blank leaves do not matter: only the identities of the occupied leaves enter the rule *)
Lemma members_from_blank_app t k : forall b, members_from (t ++ repeat None k) b = members_from t b.
Proof.
  induction t as [|x r IH]; intro b; cbn [app members_from].
  - revert b. induction k as [|k IHk]; intro b; cbn [repeat members_from]; [reflexivity|]. rewrite IHk. destruct b; reflexivity.
  - rewrite IH. reflexivity.
Qed.

(* the rule as it was: the same two members, old tree with a blank leaf in the middle -> refused *)
Example old_rule_refuted :
  let old_tree := [Some (Leaf 1); None; None; None; Some (Leaf 3)] in
  let new_tree := [Some (Leaf 1); None; Some (Leaf 3)] in
  members_of old_tree = members_of new_tree /\ subgroup_ok_old Reinit old_tree new_tree = false /\ subgroup_ok Reinit old_tree new_tree = true.
Proof. vm_compute. repeat split; reflexivity. Qed.

Theorem join_params_iff typ e g :
  join_params_ok typ e g = true <->
  pr_version g = pr_version e /\ pr_suite g = pr_suite e /\ (typ = Reinit -> pr_gid g = pr_gid e) /\ pr_ext g = pr_ext e /\ pr_epoch g = 1.
Proof.
  unfold join_params_ok. rewrite !andb_true_iff, !N.eqb_eq. destruct typ; split.
  - intros ((((A & B) & C) & D) & E). apply N.eqb_eq in C. repeat split; try assumption. intros _. exact C.
  - intros (A & B & C & D & E). repeat split; try assumption. apply N.eqb_eq. apply C. reflexivity.
  - intros ((((A & B) & _) & D) & E). repeat split; try assumption. discriminate.
  - intros (A & B & _ & D & E). repeat split; try assumption.
Qed.
