(* Unmerged-leaf consistency of the ratchet tree (WF3) and soundness of resolutions:
   for every tree reachable by the commit operations, every unmerged leaf listed at a parent
   is a NON-BLANK leaf lying BELOW that parent; hence a resolution only ever contains
   non-blank nodes - in particular never a removed (blank) leaf. *)
From Coq Require Import NArith Arith List Bool Lia.
From MlsV Require Import Res TreeMathGen BitsN TreeMathProofs Tree TreeProofs.
Import ListNotations.
Local Open Scope N_scope.

(* p = node (k+1) j is an ancestor of leaf l *)
Definition ancestor (p l : N) : Prop := exists k j, p = node (k + 1) j /\ l / 2 ^ (k + 1) = j.

Definition wf3 (t : tree) : Prop :=
  forall p um, get t p = Some (Par um) ->
    forall l, In l um -> (exists id, get t (2 * l) = Some (Leaf id)) /\ ancestor p l.

(* ---- the path of a leaf consists of its ancestors, and contains every in-tree ancestor ---- *)
Lemma path_spec_ancestors n : forall k j l, l / 2 ^ k = j ->
  Forall (fun c => ancestor (CopathNode_path c) l) (path_spec n k j).
Proof.
  induction n as [|n IH]; intros k j l E; cbn [path_spec]; constructor.
  - cbn [CopathNode_path]. exists k, (j / 2). split; [reflexivity|].
    rewrite N.pow_add_r, N.pow_1_r. rewrite <- N.div_div by (try apply N.pow_nonzero; lia). rewrite E. reflexivity.
  - apply IH. rewrite N.pow_add_r, N.pow_1_r. rewrite <- N.div_div by (try apply N.pow_nonzero; lia). rewrite E. reflexivity.
Qed.

Lemma path_spec_complete n : forall k j l k', l / 2 ^ k = j -> k <= k' -> k' < k + N.of_nat n ->
  In (node (k' + 1) (l / 2 ^ (k' + 1))) (map CopathNode_path (path_spec n k j)).
Proof.
  induction n as [|n IH]; intros k j l k' E L1 L2; [lia|]. cbn [path_spec map CopathNode_path].
  assert (Ej : j / 2 = l / 2 ^ (k + 1)).
  { rewrite N.pow_add_r, N.pow_1_r. rewrite <- N.div_div by (try apply N.pow_nonzero; lia). rewrite E. reflexivity. }
  destruct (N.eq_dec k' k) as [->|Ne].
  - left. rewrite Ej. reflexivity.
  - right. apply IH; [symmetry; exact Ej|lia|lia].
Qed.

Lemma path_nodes_ancestors t leaf path : small t -> 2 * leaf <= tlen t -> path_nodes t leaf = Ok path ->
  Forall (fun p => ancestor p leaf) path.
Proof.
  intros S L E. destruct (path_nodes_spec t leaf S L) as (d & _ & _ & _ & P & _). rewrite P in E. inversion E; subst.
  apply Forall_map. apply path_spec_ancestors. rewrite N.pow_0_r, N.div_1_r. reflexivity.
Qed.

(* every ancestor of the leaf that lies inside the array is on the computed path *)
Lemma path_nodes_complete t leaf path p : small t -> 2 * leaf < tlen t -> path_nodes t leaf = Ok path ->
  ancestor p leaf -> p < tlen t -> In p path.
Proof.
  intros S L E (k & j & -> & Ej) Hp.
  destruct (path_nodes_spec t leaf S ltac:(lia)) as (d & Et & Hd & Hl & P & _). rewrite P in E. inversion E; subst path.
  destruct (total_leaf_count_spec t S) as (d' & Et' & _ & Hn & Hlow). rewrite Et in Et'.
  assert (d' = d) by (apply N.pow_inj_r in Et'; lia). subst d'.
  (* node (k+1) j < tlen t <= 2^(d+1) - 1, so k + 1 <= d *)
  assert (Hk : k + 1 <= d).
  { assert (Hlen : tlen t <= 2 * 2 ^ d - 1).
    { pose proof (N.div_mod (tlen t) 2 ltac:(lia)). pose proof (N.mod_upper_bound (tlen t) 2 ltac:(lia)). lia. }
    assert (node (k + 1) j <= 2 ^ (d + 1) - 2) by (rewrite N.pow_add_r, N.pow_1_r; lia).
    apply in_tree_iff in H. lia. }
  rewrite <- Ej. replace (N.to_nat d) with (N.to_nat d) by reflexivity.
  apply (path_spec_complete (N.to_nat d) 0 leaf leaf k); [rewrite N.pow_0_r, N.div_1_r; reflexivity|lia|lia].
Qed.

(* ---- get / set facts ---- *)
Lemma get_set_same t i v : i < tlen t -> get (set t i v) i = v.
Proof.
  intro L. unfold set. rewrite get_set_at. rewrite Nat.eqb_refl.
  destruct (Nat.ltb_spec (N.to_nat i) (length t)); [reflexivity|unfold tlen in L; lia].
Qed.

Lemma get_set_other t i j v : i <> j -> get (set t i v) j = get t j.
Proof.
  intro Ne. unfold set. rewrite get_set_at. destruct (Nat.eqb_spec (N.to_nat j) (N.to_nat i)); [lia|reflexivity].
Qed.

Lemma get_some_lt t i n : get t i = Some n -> i < tlen t.
Proof.
  unfold get, tlen. intro E. destruct (nth_error t (N.to_nat i)) eqn:Ne; [|discriminate].
  assert ((N.to_nat i < length t)%nat) by (apply nth_error_Some; congruence). lia.
Qed.

Lemma get_set_none t n i : get (set t n None) i = if i =? n then None else get t i.
Proof.
  destruct (N.eqb_spec i n) as [->|Ne]; [|apply get_set_other; congruence].
  unfold set. rewrite get_set_at, Nat.eqb_refl. destruct (N.to_nat n <? length t)%nat; reflexivity.
Qed.

Lemma get_blank_nodes ns : forall t i, get (blank_nodes t ns) i = if existsb (N.eqb i) ns then None else get t i.
Proof.
  induction ns as [|n r IH]; intros t i; cbn [blank_nodes existsb]; [reflexivity|].
  rewrite IH, get_set_none. destruct (i =? n), (existsb (N.eqb i) r); reflexivity.
Qed.

(* ---- wf3 is preserved ---- *)
Lemma wf3_set_leaf t i id : wf3 t -> get t (2 * i) = None \/ (exists x, get t (2 * i) = Some (Leaf x)) -> wf3 (set t (2 * i) (Some (Leaf id))).
Proof.
  intros W Hc p um G l I.
  assert (Np : p <> 2 * i).
  { intro E. subst p. destruct (N.ltb_spec (2 * i) (tlen t)).
    - rewrite get_set_same in G by assumption. discriminate.
    - unfold set in G. rewrite get_set_at, Nat.eqb_refl in G. destruct (Nat.ltb_spec (N.to_nat (2 * i)) (length t)); [unfold tlen in *; lia|discriminate]. }
  rewrite get_set_other in G by congruence. destruct (W p um G l I) as [[x Hx] A]. split; [|exact A].
  destruct (N.eq_dec (2 * l) (2 * i)) as [E|Ne].
  - exists id. rewrite E. apply get_set_same. rewrite <- E. eapply get_some_lt. exact Hx.
  - exists x. rewrite get_set_other by congruence. exact Hx.
Qed.

Lemma wf3_app_blank t k : wf3 t -> wf3 (t ++ repeat None k).
Proof.
  intros W p um G l I. rewrite get_app_blank in G. destruct (W p um G l I) as [[x Hx] A]. split; [|exact A].
  exists x. rewrite get_app_blank. exact Hx.
Qed.

Lemma wf3_insert_leaf t l id : wf3 t -> get t (2 * l) = None -> wf3 (insert_leaf t l (Leaf id)).
Proof.
  intros W B. unfold insert_leaf.
  assert (forall t0, wf3 t0 -> get t0 (2 * l) = None -> wf3 (set t0 (2 * l) (Some (Leaf id)))) as K.
  { intros t0 W0 B0. apply wf3_set_leaf; [exact W0|left; exact B0]. }
  destruct (tlen t <? 2 * l).
  - apply K; [apply (wf3_app_blank t 2 W)|]. rewrite (get_app_blank t 2). exact B.
  - destruct (tlen t =? 0) eqn:E0; [|apply K; assumption].
    apply K; [|unfold get; destruct (N.to_nat (2 * l)) as [|[|n]]; reflexivity].
    intros p um G. unfold get in G. destruct (N.to_nat p) as [|[|n]]; discriminate.
Qed.

Lemma in_insert_sorted x l l' : insert_sorted x l = Some l' -> forall y, In y l' <-> y = x \/ In y l.
Proof.
  revert l'. induction l as [|h r IH]; intros l'; cbn [insert_sorted].
  - intro E. inversion E; subst. intro y. cbn. intuition congruence.
  - destruct (N.eqb_spec x h); [discriminate|]. destruct (x <? h).
    + intro E. inversion E; subst. intro y. cbn. intuition congruence.
    + destruct (insert_sorted x r) as [r'|]; [|discriminate]. intro E. inversion E; subst. intro y. cbn [In]. rewrite (IH r' eq_refl). intuition congruence.
Qed.

Lemma wf3_update_unmerged path : forall t leaf t',
  wf3 t -> (exists id, get t (2 * leaf) = Some (Leaf id)) -> Forall (fun p => ancestor p leaf /\ N.even p = false) path ->
  update_unmerged t leaf path = TOk t' -> wf3 t' /\ (exists id, get t' (2 * leaf) = Some (Leaf id)).
Proof.
  induction path as [|p r IH]; intros t leaf t' W L F; cbn [update_unmerged]; [intro E; inversion E; subst; split; assumption|].
  inversion F as [|? ? [Ap Op] Fr]; subst.
  destruct (get t p) as [[id|um]|] eqn:G; try (apply IH; assumption).
  destruct (insert_sorted leaf um) as [um'|] eqn:Is; [|discriminate].
  assert (Np : p <> 2 * leaf) by (intro E; subst p; rewrite N.even_mul in Op; discriminate).
  apply IH; [| |exact Fr].
  - intros q uq Gq l I. destruct (N.eq_dec q p) as [->|Nq].
    + rewrite get_set_same in Gq by (eapply get_some_lt; exact G). inversion Gq; subst uq.
      apply (in_insert_sorted _ _ _ Is) in I. destruct I as [->|I].
      * split; [|exact Ap]. destruct L as [x Hx]. exists x. rewrite get_set_other by congruence. exact Hx.
      * destruct (W p um G l I) as [[x Hx] A]. split; [|exact A]. exists x.
        rewrite get_set_other; [exact Hx|]. intro E. rewrite E in G. rewrite G in Hx. discriminate.
    + rewrite get_set_other in Gq by congruence. destruct (W q uq Gq l I) as [[x Hx] A]. split; [|exact A]. exists x.
      rewrite get_set_other; [exact Hx|]. intro E. rewrite E in G. rewrite G in Hx. discriminate.
  - destruct L as [x Hx]. exists x. rewrite get_set_other by congruence. exact Hx.
Qed.

(* blanking a leaf together with every ancestor inside the array keeps wf3 *)
Lemma wf3_blank_leaf_and_path t l path :
  wf3 t -> small t -> 2 * l < tlen t -> path_nodes t l = Ok path ->
  wf3 (blank_nodes (set t (2 * l) None) path).
Proof.
  intros W S L P q uq Gq m I.
  pose proof (path_nodes_odd t l path S ltac:(lia) P) as Fo. rewrite Forall_forall in Fo.
  rewrite get_blank_nodes in Gq.
  destruct (existsb (N.eqb q) path) eqn:Ex; [discriminate|].
  rewrite get_set_none in Gq. destruct (N.eqb_spec q (2 * l)) as [|Nq]; [discriminate|].
  destruct (W q uq Gq m I) as [[x Hx] A].
  assert (Nm : m <> l).
  { intro E. subst m. assert (In q path) by (eapply path_nodes_complete; try eassumption; eapply get_some_lt; exact Gq).
    assert (existsb (N.eqb q) path = true) by (apply existsb_exists; exists q; split; [assumption|apply N.eqb_refl]). congruence. }
  split; [|exact A]. exists x. rewrite get_blank_nodes.
  destruct (existsb (N.eqb (2 * m)) path) eqn:Ex2.
  - exfalso. apply existsb_exists in Ex2. destruct Ex2 as (y & Iy & Ey). apply N.eqb_eq in Ey. subst y.
    specialize (Fo _ Iy). rewrite N.even_mul in Fo. discriminate.
  - rewrite get_set_none. destruct (N.eqb_spec (2 * m) (2 * l)); [lia|exact Hx].
Qed.

Lemma wf3_blank_parents ns : forall t, wf3 t -> Forall (fun p => N.even p = false) ns -> wf3 (blank_nodes t ns).
Proof.
  intros t W F q uq Gq m I. rewrite Forall_forall in F.
  rewrite get_blank_nodes in Gq. destruct (existsb (N.eqb q) ns); [discriminate|].
  destruct (W q uq Gq m I) as [[x Hx] A]. split; [|exact A]. exists x. rewrite get_blank_nodes.
  destruct (existsb (N.eqb (2 * m)) ns) eqn:Ex; [|exact Hx].
  exfalso. apply existsb_exists in Ex. destruct Ex as (y & Iy & Ey). apply N.eqb_eq in Ey. subst y.
  specialize (F _ Iy). rewrite N.even_mul in F. discriminate.
Qed.

Lemma wf3_trim t : wf3 t -> wf3 (trim t).
Proof.
  intros W q uq Gq m I. destruct (trim_prefix t) as [k E].
  assert (G : forall i, get t i = get (trim t) i) by (intro i; rewrite E at 1; apply get_app_blank).
  rewrite <- G in Gq. destruct (W q uq Gq m I) as [[x Hx] A]. split; [|exact A]. exists x. rewrite <- G. exact Hx.
Qed.

Theorem wf3_add_leaf t id start t' idx :
  wf3 t -> tlen t + 2 < 2 ^ 25 -> 2 * start <= tlen t + 1 -> add_leaf t id start = TOk (t', idx) -> wf3 t'.
Proof.
  intros W S Hs. unfold add_leaf. set (i := next_empty_leaf t start). set (t1 := insert_leaf t i (Leaf id)).
  destruct (N.ltb_spec (2 * i) (tlen t1)) as [L1|]; cbn [negb]; [|discriminate].
  destruct (next_empty_leaf_leftmost t start Hs) as (_ & _ & Hb). fold i in Hb.
  assert (Bi : get t (2 * i) = None).
  { destruct Hb as [[_ B]|[E _]]; [exact B|]. unfold get. rewrite (proj2 (nth_error_None t (N.to_nat (2 * i)))); [reflexivity|].
    rewrite E. pose proof (N.div_mod (tlen t + 1) 2 ltac:(lia)). pose proof (N.mod_upper_bound (tlen t + 1) 2 ltac:(lia)). unfold tlen in *. lia. }
  assert (W1 : wf3 t1) by (apply wf3_insert_leaf; assumption).
  pose proof (insert_leaf_length t i (Leaf id)) as Ln. fold t1 in Ln.
  assert (S1 : small t1) by (unfold small; lia).
  assert (G1 : get t1 (2 * i) = Some (Leaf id)).
  { unfold t1, insert_leaf. apply get_set_same. rewrite <- (set_length _ (2 * i) (Some (Leaf id))). exact L1. }
  destruct (path_nodes t1 i) as [path| |] eqn:P; cbn [lift tbind]; try discriminate.
  destruct (update_unmerged t1 i path) as [t2| |] eqn:U; cbn [tbind]; try discriminate.
  intro E. inversion E; subst.
  eapply (proj1 (wf3_update_unmerged path t1 i t' W1 (ex_intro _ id G1) _ U)).
  Unshelve. apply Forall_forall. intros p Ip.
  pose proof (path_nodes_ancestors t1 i path S1 ltac:(lia) P) as Fa. pose proof (path_nodes_odd t1 i path S1 ltac:(lia) P) as Fo.
  rewrite Forall_forall in Fa, Fo. split; [apply Fa|apply Fo]; exact Ip.
Qed.

Theorem wf3_remove t l t1 t2 :
  wf3 t -> small t -> blank_leaf t l = TOk t1 -> blank_direct_path t1 l = TOk t2 -> wf3 t2.
Proof.
  intros W S. unfold blank_leaf. destruct (get t (2 * l)) as [[x|um]|] eqn:G; try discriminate.
  intro E. assert (E' : t1 = set t (2 * l) None) by congruence. subst t1. clear E. unfold blank_direct_path.
  assert (L : 2 * l < tlen t) by (eapply get_some_lt; exact G).
  assert (Pe : path_nodes (set t (2 * l) None) l = path_nodes t l).
  { unfold path_nodes, total_leaf_count. rewrite set_length. reflexivity. }
  rewrite Pe. destruct (path_nodes t l) as [path| |] eqn:P; cbn [lift tbind]; try discriminate.
  intro E. inversion E; subst. eapply wf3_blank_leaf_and_path; eassumption.
Qed.

(* ---- resolutions contain only non-blank nodes ---- *)
Lemma resolution_sound fuel : forall t stack r,
  wf3 t -> resolution fuel t stack = Ok r -> forall x, In x r -> get t x <> None.
Proof.
  induction fuel as [|f IH]; intros t stack r W; cbn [resolution]; [discriminate|].
  destruct stack as [|y rest]; [intro E; inversion E; subst; intros x []|].
  destruct (get t y) as [[id|um]|] eqn:G.
  - destruct (resolution f t rest) as [r0| |] eqn:R; cbn [bind ret]; try discriminate.
    intro E. inversion E; subst. intros x [<-|I]; [congruence|eapply IH; eassumption].
  - destruct (resolution f t rest) as [r0| |] eqn:R; cbn [bind ret]; try discriminate.
    intro E. inversion E; subst. intros x [<-|I]; [congruence|].
    apply in_app_iff in I. destruct I as [I|I]; [|eapply IH; eassumption].
    apply in_map_iff in I. destruct I as (l & <- & Il). destruct (W y um G l Il) as [[z Hz] _]. change (get t (2 * l) <> None). congruence.
  - destruct (N.even y); [apply IH; exact W|].
    destruct (left_unchecked y) as [l| |]; cbn [bind]; try discriminate.
    destruct (right_unchecked y) as [rr| |]; cbn [bind]; try discriminate. apply IH. exact W.
Qed.

Theorem resolution_nonblank t c r : wf3 t -> resolution_of t c = Ok r -> forall x, In x r -> get t x <> None.
Proof. intros W E. eapply resolution_sound; eassumption. Qed.

(* ---- the whole commit preserves the invariant ---- *)
Lemma blank_direct_path_length t l t' : blank_direct_path t l = TOk t' -> tlen t' = tlen t.
Proof.
  unfold blank_direct_path. destruct (path_nodes t l) as [p| |]; cbn [lift tbind]; try discriminate.
  intro E. assert (t' = blank_nodes t p) by congruence. subst. apply blank_nodes_length.
Qed.

Lemma blank_leaf_length t l t' : blank_leaf t l = TOk t' -> tlen t' = tlen t.
Proof.
  unfold blank_leaf. destruct (get t (2 * l)) as [[x|um]|]; try discriminate.
  intro E. assert (t' = set t (2 * l) None) by congruence. subst. apply set_length.
Qed.

Lemma wf3_apply_removes rs : forall t t', wf3 t -> small t -> apply_removes t rs = TOk t' -> wf3 t' /\ tlen t' = tlen t.
Proof.
  induction rs as [|r rest IH]; intros t t' W S; cbn [apply_removes].
  - intro E. assert (t' = t) by congruence. subst. split; [exact W|reflexivity].
  - destruct (blank_leaf t r) as [t1| |] eqn:B; cbn [tbind]; try discriminate.
    destruct (blank_direct_path t1 r) as [t2| |] eqn:D; cbn [tbind]; try discriminate.
    intro E. pose proof (blank_leaf_length _ _ _ B) as L1. pose proof (blank_direct_path_length _ _ _ D) as L2.
    destruct (IH t2 t' (wf3_remove t r t1 t2 W S B D) ltac:(unfold small in *; lia) E) as [W' L']. split; [exact W'|lia].
Qed.

Lemma wf3_apply_updates us : forall t t', wf3 t -> apply_updates t us = TOk t' -> wf3 t' /\ tlen t' = tlen t.
Proof.
  induction us as [|[i id] rest IH]; intros t t' W; cbn [apply_updates].
  - intro E. assert (t' = t) by congruence. subst. split; [exact W|reflexivity].
  - destruct (get t (2 * i)) as [[x|um]|] eqn:G; try discriminate. intro E.
    destruct (IH _ t' (wf3_set_leaf t i id W (or_intror (ex_intro _ x G))) E) as [W' L']. split; [exact W'|rewrite L'; apply set_length].
Qed.

Lemma apply_updates_in_range us : forall t t', apply_updates t us = TOk t' -> Forall (fun l => 2 * l <= tlen t) (map fst us).
Proof.
  induction us as [|[i id] rest IH]; intros t t'; cbn [apply_updates map fst]; [constructor|].
  destruct (get t (2 * i)) as [[x|um]|] eqn:G; try discriminate. intro E. constructor.
  - apply get_some_lt in G. lia.
  - specialize (IH _ _ E). rewrite set_length in IH. exact IH.
Qed.

Lemma wf3_blank_paths ls : forall t t', wf3 t -> small t -> Forall (fun l => 2 * l <= tlen t) ls ->
  blank_paths t ls = TOk t' -> wf3 t' /\ tlen t' = tlen t.
Proof.
  induction ls as [|l rest IH]; intros t t' W S F; cbn [blank_paths].
  - intro E. assert (t' = t) by congruence. subst. split; [exact W|reflexivity].
  - inversion F as [|? ? Hl Fr]; subst.
    destruct (blank_direct_path t l) as [t1| |] eqn:D; cbn [tbind]; try discriminate. intro E.
    pose proof (blank_direct_path_length _ _ _ D) as L1.
    assert (W1 : wf3 t1).
    { unfold blank_direct_path in D. destruct (path_nodes t l) as [p| |] eqn:P; cbn [lift tbind] in D; try discriminate.
      assert (t1 = blank_nodes t p) by congruence. subst t1. apply wf3_blank_parents; [exact W|].
      eapply path_nodes_odd; eassumption. }
    destruct (IH t1 t' W1 ltac:(unfold small in *; lia) ltac:(rewrite L1; exact Fr) E) as [W' L']. split; [exact W'|lia].
Qed.

Lemma add_leaf_length t id start t' idx : add_leaf t id start = TOk (t', idx) -> tlen t <= tlen t' <= tlen t + 2.
Proof.
  unfold add_leaf. destruct (negb _); [discriminate|].
  destruct (lift (path_nodes _ _)) as [path| |]; cbn [tbind]; try discriminate.
  destruct (update_unmerged _ _ path) as [t2| |] eqn:U; cbn [tbind]; try discriminate.
  intro E. assert (t' = t2) by congruence. subst. apply update_unmerged_length in U. rewrite U. apply insert_leaf_length.
Qed.

Lemma wf3_apply_adds ids : forall t start acc t' added,
  wf3 t -> tlen t + 2 * N.of_nat (length ids) < 2 ^ 25 -> 2 * start <= tlen t + 1 ->
  apply_adds t ids start acc = TOk (t', added) -> wf3 t' /\ tlen t' <= tlen t + 2 * N.of_nat (length ids).
Proof.
  induction ids as [|id rest IH]; intros t start acc t' added W S Hs; cbn [apply_adds].
  - intro E. assert (t' = t) by congruence. subst. split; [exact W|lia].
  - destruct (add_leaf t id start) as [[t1 idx]| |] eqn:A; cbn [tbind]; try discriminate. intro E.
    cbn [length] in S.
    pose proof (add_leaf_length _ _ _ _ _ A) as L1.
    assert (W1 : wf3 t1) by (eapply wf3_add_leaf; [exact W| |exact Hs|exact A]; lia).
    pose proof (add_leaf_index _ _ _ _ _ A) as Ei.
    assert (Hi : 2 * idx <= tlen t1 + 1).
    { unfold add_leaf in A. fold (next_empty_leaf t start) in A. rewrite <- Ei in A.
      destruct (N.ltb_spec (2 * idx) (tlen (insert_leaf t idx (Leaf id)))) as [Lt|]; cbn [negb] in A; [|discriminate].
      destruct (lift (path_nodes _ _)) as [path| |]; cbn [tbind] in A; try discriminate.
      destruct (update_unmerged _ _ path) as [t2| |] eqn:U; cbn [tbind] in A; try discriminate.
      assert (t1 = t2) by congruence. subst. apply update_unmerged_length in U. lia. }
    destruct (IH t1 idx (idx :: acc) t' added W1 ltac:(lia) Hi E) as [W' L']. split; [exact W'|cbn [length]; lia].
Qed.

Theorem wf3_batch_edit t removes updates adds t' added :
  wf3 t -> tlen t + 2 * N.of_nat (length adds) < 2 ^ 25 ->
  batch_edit t removes updates adds = TOk (t', added) -> wf3 t' /\ tlen t' <= tlen t + 2 * N.of_nat (length adds).
Proof.
  intros W S. unfold batch_edit.
  destruct (apply_removes t (rev removes)) as [t1| |] eqn:R; cbn [tbind]; try discriminate.
  destruct (apply_updates t1 updates) as [t2| |] eqn:U; cbn [tbind]; try discriminate.
  destruct (blank_paths t2 (map fst updates)) as [t3| |] eqn:B; cbn [tbind]; try discriminate.
  destruct (apply_adds t3 adds 0 []) as [[t4 ad]| |] eqn:A; cbn [tbind]; try discriminate.
  intro E. assert (t' = trim t4) by congruence. subst t'.
  destruct (wf3_apply_removes _ _ _ W ltac:(unfold small; lia) R) as [W1 L1].
  destruct (wf3_apply_updates _ _ _ W1 U) as [W2 L2].
  pose proof (apply_updates_in_range _ _ _ U) as Fr.
  destruct (wf3_blank_paths _ _ _ W2 ltac:(unfold small; lia) ltac:(rewrite L2; exact Fr) B) as [W3 L3].
  destruct (wf3_apply_adds adds t3 0 [] t4 ad W3 ltac:(lia) ltac:(lia) A) as [W4 L4].
  split; [apply wf3_trim; exact W4|]. pose proof (trim_length t4). lia.
Qed.

Lemma wf3_set_par_empty t p : wf3 t -> N.even p = false -> wf3 (set t p (Some (Par []))).
Proof.
  intros W Op q uq Gq m I.
  destruct (N.eq_dec q p) as [->|Nq].
  - unfold set in Gq. rewrite get_set_at, Nat.eqb_refl in Gq. destruct (N.to_nat p <? length t)%nat; [|discriminate].
    assert (uq = []) by congruence. subst. destruct I.
  - rewrite get_set_other in Gq by congruence. destruct (W q uq Gq m I) as [[x Hx] A]. split; [|exact A].
    exists x. rewrite get_set_other; [exact Hx|]. intro E. subst p. rewrite N.even_mul in Op. discriminate.
Qed.

Lemma wf3_apply_path_nodes orig path : forall copath t t',
  wf3 t -> Forall (fun p => N.even p = false) path -> apply_path_nodes t path copath orig = Ok t' -> wf3 t'.
Proof.
  induction path as [|p pr IH]; intros copath t t' W F; destruct copath as [|c cr]; cbn [apply_path_nodes];
    try (intro E; assert (t' = t) by (unfold ret in E; congruence); subst; exact W).
  inversion F as [|? ? Op Fr]; subst.
  destruct (resolution_empty orig c) as [e| |]; cbn [bind]; try discriminate.
  apply IH; [|exact Fr]. destruct e; [exact W|]. apply wf3_set_par_empty; [apply wf3_app_blank; exact W|exact Op].
Qed.

Theorem wf3_apply_update_path t sender id t' :
  wf3 t -> small t -> apply_update_path t sender id = TOk t' -> wf3 t'.
Proof.
  intros W S. unfold apply_update_path. destruct (get t (2 * sender)) as [[x|um]|] eqn:G; try discriminate.
  set (t1 := set t (2 * sender) (Some (Leaf id))).
  assert (W1 : wf3 t1) by (apply wf3_set_leaf; [exact W|right; exists x; exact G]).
  assert (L1 : tlen t1 = tlen t) by apply set_length.
  destruct (path_nodes t1 sender) as [path| |] eqn:P; cbn [lift tbind]; try discriminate.
  destruct (copath_nodes t1 sender) as [copath| |]; cbn [lift tbind]; try discriminate.
  destruct (apply_path_nodes t1 path copath t1) as [t2| |] eqn:A; cbn [lift]; try discriminate.
  intro E. assert (t' = t2) by congruence. subst.
  eapply wf3_apply_path_nodes; [exact W1| |exact A].
  apply get_some_lt in G. eapply path_nodes_odd; [| |exact P]; unfold small in *; lia.
Qed.

Theorem wf3_apply_commit t removes updates adds path t' added :
  wf3 t -> tlen t + 2 * N.of_nat (length adds) < 2 ^ 25 ->
  apply_commit t removes updates adds path = TOk (t', added) -> wf3 t'.
Proof.
  intros W S. unfold apply_commit.
  destruct (batch_edit t removes updates adds) as [[t1 ad]| |] eqn:B; cbn [tbind]; try discriminate.
  destruct (wf3_batch_edit _ _ _ _ _ _ W S B) as [W1 L1].
  destruct path as [[sender id]|].
  - destruct (apply_update_path t1 sender id) as [t2| |] eqn:A; cbn [tbind]; try discriminate.
    intro E. assert (t' = t2) by congruence. subst. eapply wf3_apply_update_path; [exact W1| |exact A]. unfold small. lia.
  - intro E. assert (t' = t1) by congruence. subst. exact W1.
Qed.

(* every tree reachable from the one-member tree by commits satisfies the invariant *)
Lemma wf3_single id : wf3 [Some (Leaf id)].
Proof.
  intros p um G. exfalso. unfold get in G. destruct (N.to_nat p) as [|[|n]]; cbn in G; discriminate.
Qed.

(* the slot of a removed leaf is blank afterwards *)
Theorem removed_leaf_blank t l t1 t2 :
  blank_leaf t l = TOk t1 -> blank_direct_path t1 l = TOk t2 -> get t2 (2 * l) = None.
Proof.
  unfold blank_leaf. destruct (get t (2 * l)) as [[x|um]|] eqn:G; try discriminate.
  intro E. assert (E' : t1 = set t (2 * l) None) by congruence. subst t1. clear E.
  unfold blank_direct_path. destruct (path_nodes _ l) as [p| |]; cbn [lift tbind]; try discriminate.
  intro E. assert (t2 = blank_nodes (set t (2 * l) None) p) by congruence. subst.
  rewrite get_blank_nodes. destruct (existsb _ p); [reflexivity|]. rewrite get_set_none, N.eqb_refl. reflexivity.
Qed.

(* executable form of wf3 for the examples and the correspondence run *)
Definition anc_b (p l : N) : bool :=     (* p is an ancestor of leaf l: p = node (k+1) (l / 2^(k+1)) for k < 40 *)
  existsb (fun k => p =? (2 * (l / 2 ^ (k + 1)) + 1) * 2 ^ (k + 1) - 1) (map N.of_nat (seq 0 40)).
Definition wf3_check (t : tree) : bool :=
  forallb (fun p => match get t p with
                    | Some (Par um) => forallb (fun l => match get t (2 * l) with Some (Leaf _) => anc_b p l | _ => false end) um
                    | _ => true end) (map N.of_nat (seq 0 (length t))).
