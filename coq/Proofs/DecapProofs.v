From Coq Require Import NArith List Bool Arith Lia.
From MlsV Require Import Res TreeMathGen BitsN TreeMathProofs Tree TreeProofs TreeWF Kem Priv PrivProofs Decap.
Import ListNotations.
Local Open Scope N_scope.

(* ---- index_of ---- *)
Lemma index_of_some x l : forall i, index_of x l = Some i -> nth_error l i = Some x.
Proof.
  induction l as [|y r IH]; intros i; cbn [index_of]; [discriminate|].
  destruct (N.eqb_spec x y) as [->|Ne]; [intro E; inversion E; reflexivity|].
  destruct (index_of x r) as [j|]; cbn [option_map]; [|discriminate]. intro E. inversion E. cbn [nth_error]. apply IH. reflexivity.
Qed.

Lemma index_of_in x l : In x l -> exists i, index_of x l = Some i.
Proof.
  induction l as [|y r IH]; [intros []|]. intro I. cbn [index_of].
  destruct (N.eqb_spec x y) as [->|Ne]; [exists O; reflexivity|].
  destruct I as [E|I]; [congruence|]. destruct (IH I) as [i ->]. exists (S i). reflexivity.
Qed.

(* ---- the two filters agree ---- *)
Lemma mem_true x l : mem x l = true <-> In x l.
Proof.
  unfold mem. rewrite existsb_exists. split.
  - intros (y & I & E). apply N.eqb_eq in E. subst. exact I.
  - intro I. exists x. split; [exact I|apply N.eqb_refl].
Qed.

Lemma keep_not_excluded excl x : keep excl x = not_excluded excl x.
Proof.
  unfold keep, not_excluded. destruct (mem x (map (fun l => 2 * l) excl)) eqn:M.
  - apply mem_true in M. apply in_map_iff in M. destruct M as (l & <- & I).
    replace (N.odd (2 * l)) with false by (symmetry; rewrite <- N.negb_even, N.even_mul; reflexivity).
    replace (2 * l / 2) with l by (rewrite N.mul_comm, N.div_mul; lia).
    apply mem_true in I. rewrite I. reflexivity.
  - cbn [negb]. destruct (N.odd x) eqn:O; [reflexivity|]. cbn [orb].
    destruct (mem (x / 2) excl) eqn:M2; [|reflexivity]. exfalso.
    apply mem_true in M2. assert (In x (map (fun l => 2 * l) excl)) as I.
    { apply in_map_iff. exists (x / 2). split; [|exact M2].
      destruct (even_odd_cases x) as [[_ E]|[Ev _]]; [lia|]. rewrite <- N.negb_even, Ev in O. discriminate. }
    apply mem_true in I. congruence.
Qed.

Lemma filter_keep excl r : filter (keep excl) r = filter (not_excluded excl) r.
Proof. apply filter_ext. intro a. apply keep_not_excluded. Qed.

(* ---- soundness: whatever decap selects was sealed to a key the receiver holds ---- *)
Theorem decap_select_sound ks t me pr k excl i key :
  PrivOK ks me pr ->
  decap_select t me pr k excl = Ok (Some (i, key)) ->
  exists recips x, sealed_to t (lvl_node (N.of_nat k) me) excl = Ok recips /\
                   nth_error recips i = Some x /\ ks x = Some key.
Proof.
  intros P. unfold decap_select, sealed_to.
  destruct (resolution_of t (lvl_node (N.of_nat k) me)) as [r| |]; cbn [bind ret]; try discriminate.
  set (rp := resolved_pos t me pr k).
  destruct (index_of (lvl_node (N.of_nat rp) me) (filter (keep excl) r)) as [i0|] eqn:I; [|discriminate].
  destruct (nth_error pr rp) as [[key0|]|] eqn:K; try discriminate.
  intro E. unfold ret in E. assert (i0 = i /\ key0 = key) as [-> ->] by (split; congruence).
  exists (filter (not_excluded excl) r), (lvl_node (N.of_nat rp) me). split; [reflexivity|]. split.
  - rewrite <- filter_keep. apply index_of_some. exact I.
  - apply (P rp key K).
Qed.

(* ---- the stack algorithm computes the structural resolution ---- *)
Lemma resolution_fuel_mono f : forall t s r m, resolution f t s = Ok r -> resolution (f + m) t s = Ok r.
Proof.
  induction f as [|f IH]; intros t s r m; cbn [resolution]; [discriminate|]. cbn [plus resolution].
  destruct s as [|x rest]; [intro E; exact E|].
  destruct (get t x) as [[id|um]|].
  - destruct (resolution f t rest) as [r0| |] eqn:R; cbn [bind ret]; try discriminate. rewrite (IH _ _ _ m R). cbn [bind ret]. intro E; exact E.
  - destruct (resolution f t rest) as [r0| |] eqn:R; cbn [bind ret]; try discriminate. rewrite (IH _ _ _ m R). cbn [bind ret]. intro E; exact E.
  - destruct (N.even x); [apply IH|].
    destruct (left_unchecked x) as [l| |]; cbn [bind]; try discriminate.
    destruct (right_unchecked x) as [rr| |]; cbn [bind]; try discriminate. apply IH.
Qed.

Lemma node_even_0 j : N.even (node 0 j) = true.
Proof. rewrite node_0, N.even_mul. reflexivity. Qed.
Lemma node_odd_S k j : N.even (node (k + 1) j) = false.
Proof. rewrite node_succ. rewrite N.add_1_r, N.even_succ, N.odd_mul. reflexivity. Qed.

Lemma resolution_spec t k : forall j f rest r, (k <= 29)%nat ->
  resolution f t rest = Ok r ->
  resolution (sz k + f) t (node (N.of_nat k) j :: rest) = Ok (reso_spec t k j ++ r).
Proof.
  induction k as [|k IH]; intros j f rest r L R.
  - cbn [sz plus resolution reso_spec N.of_nat].
    destruct (get t (node 0 j)) as [[id|um]|].
    + rewrite R. reflexivity.
    + rewrite R. cbn [bind ret]. rewrite <- app_comm_cons. reflexivity.
    + rewrite node_even_0. exact R.
  - cbn [sz reso_spec]. replace (2 * sz k + 1 + f)%nat with (S (sz k + (sz k + f)))%nat by lia. cbn [resolution].
    destruct (get t (node (N.of_nat (S k)) j)) as [[id|um]|].
    + replace (sz k + (sz k + f))%nat with (f + (sz k + sz k))%nat by lia. rewrite (resolution_fuel_mono f t rest r _ R).
      reflexivity.
    + replace (sz k + (sz k + f))%nat with (f + (sz k + sz k))%nat by lia. rewrite (resolution_fuel_mono f t rest r _ R).
      cbn [bind ret]. rewrite <- app_comm_cons. reflexivity.
    + replace (N.of_nat (S k)) with (N.of_nat k + 1) by lia. rewrite node_odd_S.
      rewrite left_ok, right_ok by lia. cbn [bind].
      rewrite (IH (2 * j) (sz k + f)%nat (node (N.of_nat k) (2 * j + 1) :: rest) (reso_spec t k (2 * j + 1) ++ r)); [rewrite app_assoc; reflexivity|lia|].
      apply IH; [lia|exact R].
Qed.

Lemma sz_pow k : N.of_nat (sz k) = 2 * 2 ^ N.of_nat k - 1.
Proof.
  induction k as [|k IH]; [reflexivity|]. cbn [sz].
  replace (N.of_nat (S k)) with (N.of_nat k + 1) by lia. rewrite N.pow_add_r, N.pow_1_r.
  pose proof (pow2_pos (N.of_nat k)). lia.
Qed.

Theorem resolution_of_spec t k j : (k <= 29)%nat -> node (N.of_nat k) j < tlen t ->
  resolution_of t (node (N.of_nat k) j) = Ok (reso_spec t k j).
Proof.
  intros L B. unfold resolution_of.
  assert (F : (sz k + 1 <= 2 * length t + 4)%nat).
  { pose proof (sz_pow k) as S. pose proof (pow2_pos (N.of_nat k)) as P. unfold node, tlen in B.
    assert (2 ^ N.of_nat k <= (2 * j + 1) * 2 ^ N.of_nat k) by nia. lia. }
  replace (2 * length t + 4)%nat with ((sz k + 1) + (2 * length t + 4 - (sz k + 1)))%nat by lia.
  apply resolution_fuel_mono. rewrite <- (app_nil_r (reso_spec t k j)). apply resolution_spec; [exact L|reflexivity].
Qed.

(* ---- the receiver's first non-blank node below the common ancestor is in the resolution ---- *)
Lemma lvl_child k me : let J := me / 2 ^ (N.of_nat k + 1) in me / 2 ^ N.of_nat k = 2 * J \/ me / 2 ^ N.of_nat k = 2 * J + 1.
Proof.
  cbn zeta. rewrite N.pow_add_r, N.pow_1_r, <- N.div_div by (try apply N.pow_nonzero; lia).
  destruct (even_odd_cases (me / 2 ^ N.of_nat k)) as [[_ E]|[_ E]]; [left|right]; exact E.
Qed.

Lemma down_le t me k : (down t me k <= k)%nat.
Proof. induction k as [|k IH]; cbn [down]; [lia|]. destruct (get t _); lia. Qed.

Lemma down_nonblank t me k : down t me k <> O -> get t (lvl_node (N.of_nat (down t me k)) me) <> None.
Proof.
  induction k as [|k IH]; cbn [down]; [congruence|].
  destruct (get t (lvl_node (N.of_nat (S k)) me)) eqn:G; [intros _; rewrite G; discriminate|exact IH].
Qed.

Lemma reso_spec_down t me k x :
  In x (reso_spec t (down t me k) (me / 2 ^ N.of_nat (down t me k))) -> In x (reso_spec t k (me / 2 ^ N.of_nat k)).
Proof.
  induction k as [|k IH]; cbn [down]; [intro I; exact I|].
  destruct (get t (lvl_node (N.of_nat (S k)) me)) eqn:G; [intro I; exact I|].
  intro I. apply IH in I. cbn [reso_spec]. unfold lvl_node in G. rewrite G.
  replace (N.of_nat (S k)) with (N.of_nat k + 1) by lia.
  apply in_or_app. destruct (lvl_child k me) as [E|E]; rewrite E in I; [left|right]; exact I.
Qed.

Lemma reso_spec_head t k j n : get t (node (N.of_nat k) j) = Some n -> In (node (N.of_nat k) j) (reso_spec t k j).
Proof. intro G. destruct k; cbn [reso_spec]; rewrite G; destruct n; left; reflexivity. Qed.

Lemma reso_spec_unmerged t k j um l : get t (node (N.of_nat k) j) = Some (Par um) -> In l um -> In (2 * l) (reso_spec t k j).
Proof. intros G I. destruct k; cbn [reso_spec]; rewrite G; right; apply in_map_iff; exists l; split; auto. Qed.

(* ---- completeness: a member of the tree always finds its ciphertext ---- *)
Theorem decap_select_complete_res t me pr k excl id leafkey :
  resolution_of t (lvl_node (N.of_nat k) me) = Ok (reso_spec t k (me / 2 ^ N.of_nat k)) ->
  get t (2 * me) = Some (Leaf id) -> ~ In me excl ->
  nth_error pr O = Some (Some leafkey) ->
  (* the receiver holds the key of its first non-blank node below the common ancestor, or is
     listed there as an unmerged leaf *)
  (let k' := down t me k in
   (exists key, nth_error pr k' = Some (Some key)) \/
   (exists um, get t (lvl_node (N.of_nat k') me) = Some (Par um) /\ In me um)) ->
  exists i key, decap_select t me pr k excl = Ok (Some (i, key)).
Proof.
  intros R Gl Nx K0 H. cbn zeta in H. unfold decap_select.
  rewrite R. cbn [bind ret].
  assert (Leaf0 : lvl_node 0 me = 2 * me) by (unfold lvl_node; rewrite N.pow_0_r, N.div_1_r, node_0; reflexivity).
  assert (KeepLeaf : keep excl (2 * me) = true).
  { unfold keep. replace (2 * me / 2) with me by (rewrite N.mul_comm, N.div_mul; lia).
    destruct (mem me excl) eqn:M; [apply mem_true in M; contradiction|]. apply orb_true_r. }
  set (k' := down t me k) in *. unfold resolved_pos. fold k'.
  destruct H as [[key Hk]|[um [Gp Iu]]].
  - rewrite Hk. cbn beta iota. assert (In (lvl_node (N.of_nat k') me) (filter (keep excl) (reso_spec t k (me / 2 ^ N.of_nat k)))) as I.
    { apply filter_In. split.
      - apply reso_spec_down. fold k'. destruct (Nat.eq_dec k' 0) as [Z|NZ].
        + rewrite Z. cbn [N.of_nat]. change (node 0 (me / 2 ^ 0)) with (lvl_node 0 me). rewrite Leaf0.
          cbn [reso_spec N.of_nat]. rewrite N.pow_0_r, N.div_1_r, node_0, Gl. left. reflexivity.
        + pose proof (down_nonblank t me k NZ) as Nb. fold k' in Nb.
          destruct (get t (lvl_node (N.of_nat k') me)) as [n|] eqn:G; [|congruence]. eapply reso_spec_head. exact G.
      - destruct (Nat.eq_dec k' 0) as [Z|NZ]; [rewrite Z; cbn [N.of_nat]; rewrite Leaf0; exact KeepLeaf|].
        unfold keep. replace (N.of_nat k') with (N.of_nat (k' - 1) + 1) by lia. unfold lvl_node.
        rewrite <- N.negb_even, node_odd_S. reflexivity. }
    destruct (index_of_in _ _ I) as [i Ei]. rewrite Ei, Hk. exists i, key. reflexivity.
  - destruct (nth_error pr k') as [[key|]|] eqn:Hk.
    + (* it holds the key after all *)
      cbn beta iota. assert (In (lvl_node (N.of_nat k') me) (filter (keep excl) (reso_spec t k (me / 2 ^ N.of_nat k)))) as I.
      { apply filter_In. split.
        - apply reso_spec_down. fold k'. eapply reso_spec_head. exact Gp.
        - destruct (Nat.eq_dec k' 0) as [Z|NZ].
          + exfalso. rewrite Z in Gp. cbn [N.of_nat] in Gp. rewrite Leaf0 in Gp. congruence.
          + unfold keep. replace (N.of_nat k') with (N.of_nat (k' - 1) + 1) by lia. unfold lvl_node.
            rewrite <- N.negb_even, node_odd_S. reflexivity. }
      destruct (index_of_in _ _ I) as [i Ei]. rewrite Ei, Hk. exists i, key. reflexivity.
    + cbn beta iota. assert (In (lvl_node (N.of_nat 0) me) (filter (keep excl) (reso_spec t k (me / 2 ^ N.of_nat k)))) as I.
      { cbn [N.of_nat]. rewrite Leaf0. apply filter_In. split; [|exact KeepLeaf].
        apply reso_spec_down. fold k'. eapply reso_spec_unmerged; eassumption. }
      destruct (index_of_in _ _ I) as [i Ei]. rewrite Ei, K0. exists i, leafkey. reflexivity.
    + cbn beta iota. assert (In (lvl_node (N.of_nat 0) me) (filter (keep excl) (reso_spec t k (me / 2 ^ N.of_nat k)))) as I.
      { cbn [N.of_nat]. rewrite Leaf0. apply filter_In. split; [|exact KeepLeaf].
        apply reso_spec_down. fold k'. eapply reso_spec_unmerged; eassumption. }
      destruct (index_of_in _ _ I) as [i Ei]. rewrite Ei, K0. exists i, leafkey. reflexivity.
Qed.

Theorem decap_select_complete t me pr k excl id leafkey :
  (k <= 29)%nat -> lvl_node (N.of_nat k) me < tlen t ->
  get t (2 * me) = Some (Leaf id) -> ~ In me excl ->
  nth_error pr O = Some (Some leafkey) ->
  (let k' := down t me k in
   (exists key, nth_error pr k' = Some (Some key)) \/
   (exists um, get t (lvl_node (N.of_nat k') me) = Some (Par um) /\ In me um)) ->
  exists i key, decap_select t me pr k excl = Ok (Some (i, key)).
Proof.
  intros L B Gl Nx K0 H. eapply decap_select_complete_res; try eassumption.
  unfold lvl_node. apply resolution_of_spec; assumption.
Qed.

(* ---- the receiver's position in the committer's path is never filtered ---- *)
Theorem receiver_position_not_filtered t me k id :
  (k <= 29)%nat -> lvl_node (N.of_nat k) me < tlen t -> get t (2 * me) = Some (Leaf id) ->
  resolution_empty t (lvl_node (N.of_nat k) me) = Ok false.
Proof.
  intros L B Gl. unfold resolution_empty, lvl_node. rewrite resolution_of_spec by assumption. cbn [bind ret].
  assert (exists x, In x (reso_spec t k (me / 2 ^ N.of_nat k))) as [x I].
  { set (k' := down t me k). destruct (Nat.eq_dec k' 0) as [Z|NZ].
    - exists (2 * me). apply reso_spec_down. fold k'. rewrite Z. cbn [reso_spec N.of_nat].
      rewrite N.pow_0_r, N.div_1_r, node_0, Gl. left. reflexivity.
    - pose proof (down_nonblank t me k NZ) as Nb. fold k' in Nb.
      destruct (get t (lvl_node (N.of_nat k') me)) as [n|] eqn:G; [|congruence].
      exists (lvl_node (N.of_nat k') me). apply reso_spec_down. fold k'. eapply reso_spec_head. exact G. }
  destruct (reso_spec t k (me / 2 ^ N.of_nat k)); [destruct I|reflexivity].
Qed.

(* non-vacuity: 4 leaves, leaf 1 blank... leaf 2's side: parent 5 non-blank with unmerged leaf 3;
   receiver 3 (no key at level 1) opens position 1 with its leaf key; receiver 2 position 0 with
   the parent key *)
Example decap_ex :
  let t := [Some (Leaf 10); Some (Par []); None; Some (Par []); Some (Leaf 12); Some (Par [3]); Some (Leaf 13)] in
  decap_select t 3 [Some 73; None; None] 1 [] = Ok (Some (1%nat, 73)) /\
  decap_select t 2 [Some 72; Some 75; None] 1 [] = Ok (Some (0%nat, 75)).
Proof. vm_compute. split; reflexivity. Qed.
