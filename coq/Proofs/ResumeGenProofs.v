(* The re-init / branch rules, the joiner's handling of the old group's resumption PSK, the PSK
   resolver and the repository lookup behind it, as translated from resumption.rs, group/mod.rs,
   psk/resolver.rs and state_repo.rs (Gen/ResumeGen.v), are the models the theorems of C17 and
   C18 are about (Model/Subgroup.v, Model/PskIdeal.v). *)
From Coq Require Import NArith Arith List Bool Lia.
From MlsV Require Import Tree Subgroup PskIdeal ResumeGen.
Import ListNotations.
Local Open Scope N_scope.

(* ---- C17: membership rule, parameters, the joiner's PSK ---- *)
Theorem gen_subgroup_ok_is_model typ old_tree new_tree :
  gen_subgroup_ok typ (members_of old_tree) (members_of new_tree) = subgroup_ok typ old_tree new_tree.
Proof.
  unfold gen_subgroup_ok, subgroup_ok. destruct typ; cbn [is_reinit andb].
  - destruct (Nat.eqb _ _); reflexivity.
  - reflexivity.
Qed.

Theorem gen_join_params_is_model typ e g :
  gen_join_params (gen_verify_gid typ) e g = join_params_ok typ e g.
Proof.
  unfold gen_join_params, join_params_ok, gen_verify_gid.
  destruct (pr_version g =? pr_version e); cbn [negb andb]; [|reflexivity].
  destruct (pr_suite g =? pr_suite e); cbn [negb andb]; [|reflexivity].
  destruct (pr_epoch g =? 1); cbn [negb andb].
  - destruct typ; cbn [andb].
    + destruct (pr_gid g =? pr_gid e); cbn [negb andb]; [|reflexivity].
      destruct (pr_ext g =? pr_ext e); reflexivity.
    + destruct (pr_ext g =? pr_ext e); reflexivity.
  - destruct typ; [destruct (pr_gid g =? pr_gid e)|]; cbn [andb]; rewrite ?andb_false_r; reflexivity.
Qed.

Theorem gen_expected_id_is_model typ gid epoch : gen_expected_id typ gid epoch = expected_id typ gid epoch.
Proof. reflexivity. Qed.

Theorem gen_joiner_psk_is_model psks additional : gen_joiner_psk psks additional = joiner_psk psks additional.
Proof.
  unfold gen_joiner_psk, joiner_psk. destruct additional as [mine|]; [|reflexivity].
  destruct psks as [|first rest]; [reflexivity|].
  destruct (w_id first) as [x|u gid epoch]; [reflexivity|]. destruct u; reflexivity.
Qed.

Lemma translated_joiner_psk typ gid epoch psks additional :
  gen_expected_id typ gid epoch = expected_id typ gid epoch /\ gen_joiner_psk psks additional = joiner_psk psks additional.
Proof. split; [reflexivity|apply gen_joiner_psk_is_model]. Qed.

(* what the joiner feeds into the PSK chain: its own id for the old group, and of the Welcome only
   the nonce - of a first PSK id that is a resumption id of usage re-init or branch *)
Theorem joiner_psk_inject psks mine id nonce :
  joiner_psk psks (Some mine) = JInject id nonce ->
  id = mine /\
  exists first rest u gid epoch,
    psks = first :: rest /\ nonce = w_nonce first /\ w_id first = JResumption u gid epoch /\ u <> UApplication.
Proof.
  unfold joiner_psk. destruct psks as [|first rest]; [discriminate|].
  destruct (w_id first) as [x|u gid epoch] eqn:E; [discriminate|].
  destruct u; [discriminate| |]; intro H; injection H as <- <-; (split; [reflexivity|]);
    exists first, rest; eexists; exists gid, epoch; (repeat split; [exact E|discriminate]).
Qed.

(* no PSK listed, an external PSK first, or an application-usage resumption PSK first: refused *)
Theorem joiner_psk_refuses psks mine :
  psks = [] \/
  (exists first rest x, psks = first :: rest /\ w_id first = JExternal x) \/
  (exists first rest gid epoch, psks = first :: rest /\ w_id first = JResumption UApplication gid epoch) ->
  joiner_psk psks (Some mine) = JUnexpected.
Proof.
  unfold joiner_psk. intros [E|[(first & rest & x & E & F)|(first & rest & gid & epoch & E & F)]]; subst psks; [reflexivity| |]; rewrite F; reflexivity.
Qed.

(* ---- C18: the resolver ---- *)
Theorem gen_resolve_one_is_model h p : gen_resolve_one h (model_repo h) p = resolve h p.
Proof.
  destruct p as [id|gid epoch]; [reflexivity|].
  unfold gen_resolve_one, gen_resolve_resumption, resolve, model_repo.
  rewrite (N.eqb_sym (h_epoch h) epoch), (N.eqb_sym (h_gid h) gid), andb_comm.
  destruct ((gid =? h_gid h) && (epoch =? h_epoch h)); [reflexivity|].
  destruct (if gid =? h_gid h then lookup2 epoch (h_unwritten h) else None); [reflexivity|].
  destruct (find _ (h_stored h)); reflexivity.
Qed.

Lemma gen_resolve_loop h repo l : forall acc,
  fold_left (fun acc id => match acc with
                           | None => None
                           | Some secret_inputs => match gen_resolve_one h repo id with
                                                   | Some psk => Some (secret_inputs ++ [psk])
                                                   | None => None
                                                   end
                           end) l (Some acc) =
  match fold_left (fun acc id => match acc with
                           | None => None
                           | Some secret_inputs => match gen_resolve_one h repo id with
                                                   | Some psk => Some (secret_inputs ++ [psk])
                                                   | None => None
                                                   end
                           end) l (Some []) with Some r => Some (acc ++ r) | None => None end.
Proof.
  induction l as [|p l IH]; intro acc; cbn [fold_left].
  - rewrite app_nil_r. reflexivity.
  - destruct (gen_resolve_one h repo p) as [v|].
    + rewrite (IH (acc ++ [v])), (IH ([] ++ [v])). cbn [app].
      destruct (fold_left _ l (Some [])) as [r|]; [rewrite <- app_assoc; reflexivity|reflexivity].
    + clear IH. induction l as [|q l IH]; [reflexivity|exact IH].
Qed.

Theorem gen_resolve_all_is_model h l : gen_resolve_all h (model_repo h) l = resolve_all h l.
Proof.
  unfold gen_resolve_all. induction l as [|p l IH]; [reflexivity|].
  cbn [fold_left resolve_all]. rewrite <- gen_resolve_one_is_model.
  destruct (gen_resolve_one h (model_repo h) p) as [v|].
  - rewrite (gen_resolve_loop h (model_repo h) l ([] ++ [v])), IH. cbn [app]. destruct (resolve_all h l); reflexivity.
  - assert (E : forall l, fold_left (fun acc id => match acc with
                           | None => None
                           | Some secret_inputs => match gen_resolve_one h (model_repo h) id with
                                                   | Some psk => Some (secret_inputs ++ [psk])
                                                   | None => None
                                                   end
                           end) l None = None) by (intro l0; induction l0 as [|q l0 I0]; [reflexivity|exact I0]).
    apply E.
Qed.

Lemma translated_resolver h p l :
  gen_resolve_one h (model_repo h) p = resolve h p /\ gen_resolve_all h (model_repo h) l = resolve_all h l.
Proof. split; [apply gen_resolve_one_is_model|apply gen_resolve_all_is_model]. Qed.

(* the values come out in the order of the ids, one per id *)
Lemma resolve_all_in_order h l : forall vs, resolve_all h l = Some vs -> Forall2 (fun p v => resolve h p = Some v) l vs.
Proof.
  induction l as [|p l IH]; intros vs E; cbn [resolve_all] in E.
  - injection E as <-. constructor.
  - destruct (resolve h p) as [v|] eqn:R; [|discriminate]. destruct (resolve_all h l) as [r|]; [|discriminate].
    injection E as <-. constructor; [exact R|apply IH; reflexivity].
Qed.
Lemma translated_resolver_in_order h l vs :
  gen_resolve_all h (model_repo h) l = Some vs -> Forall2 (fun p v => gen_resolve_one h (model_repo h) p = Some v) l vs.
Proof.
  rewrite gen_resolve_all_is_model. intro E. apply resolve_all_in_order in E.
  induction E as [|p v l vs R E IH]; constructor; [rewrite gen_resolve_one_is_model; exact R|exact IH].
Qed.

(* ---- the repository lookup ---- *)
Lemma position_find (f : N * N -> bool) (l : list (N * N)) (K : option N) :
  match position f l with Some i => option_map snd (nth_error l i) | None => K end =
  match find f l with Some x => Some (snd x) | None => K end.
Proof.
  induction l as [|x l IH]; [reflexivity|]. cbn [position find]. destruct (f x); [reflexivity|].
  rewrite <- IH. destruct (position f l); reflexivity.
Qed.

Lemma find_app_none {A} (f : A -> bool) (a b : list A) : find f a = None -> find f (a ++ b) = find f b.
Proof. induction a as [|x a IH]; [reflexivity|]. cbn [find app]. destruct (f x); [discriminate|exact IH]. Qed.

Lemma consecutive_before from l epoch : consecutive from l = true -> epoch < from -> find (fun x : N * N => fst x =? epoch) l = None.
Proof.
  revert from. induction l as [|x l IH]; intros from C L; [reflexivity|].
  cbn [consecutive] in C. apply andb_true_iff in C as [E C]. apply N.eqb_eq in E. cbn [find].
  destruct (fst x =? epoch) eqn:Q; [apply N.eqb_eq in Q; lia|]. apply (IH (from + 1)); [exact C|lia].
Qed.

Lemma consecutive_at from l epoch : consecutive from l = true -> from <= epoch ->
  find (fun x : N * N => fst x =? epoch) l = nth_error l (N.to_nat (epoch - from)).
Proof.
  revert from. induction l as [|x l IH]; intros from C L.
  - destruct (N.to_nat (epoch - from)); reflexivity.
  - cbn [consecutive] in C. apply andb_true_iff in C as [E C]. apply N.eqb_eq in E. cbn [find].
    destruct (fst x =? epoch) eqn:Q.
    + apply N.eqb_eq in Q. replace (epoch - from) with 0 by lia. reflexivity.
    + apply N.eqb_neq in Q. replace (N.to_nat (epoch - from)) with (S (N.to_nat (epoch - (from + 1)))) by lia.
      cbn [nth_error]. apply IH; [exact C|lia].
Qed.

Lemma find_none_all {A} (f g : A -> bool) l : forallb g l = true -> (forall x, g x = true -> f x = false) -> find f l = None.
Proof.
  intros G H. induction l as [|x l IH]; [reflexivity|]. cbn [forallb] in G. apply andb_true_iff in G as [Gx G].
  cbn [find]. rewrite (H x Gx). exact (IH G).
Qed.

Theorem gen_repo_resumption_is_model r cur_epoch cur ext gid epoch :
  repo_wf r = true ->
  gen_repo_resumption r gid epoch = model_repo (holder_of r cur_epoch cur ext) gid epoch.
Proof.
  intro W. unfold gen_repo_resumption, model_repo, holder_of, stored_lookup, find_pending, lookup2.
  cbn [h_gid h_unwritten h_stored].
  destruct (gid =? r_gid r) eqn:G; [|reflexivity].
  apply N.eqb_eq in G. unfold repo_wf in W.
  destruct (r_inserts r) as [|x ins] eqn:I.
  - cbn [hd_error option_map app]. rewrite position_find.
    destruct (find _ (r_updates r)); reflexivity.
  - cbn [hd_error option_map]. rewrite <- I in *.
    apply andb_true_iff in W as [W Ws]. apply andb_true_iff in W as [Wc Wu].
    destruct (fst x <=? epoch) eqn:L.
    + apply N.leb_le in L.
      pose proof (consecutive_at _ _ epoch Wc L) as F.
      destruct (nth_error (r_inserts r) (N.to_nat (epoch - fst x))) as [e|] eqn:Nt.
      * cbn [option_map]. assert (Fa : find (fun y : N * N => fst y =? epoch) (r_inserts r ++ r_updates r) = Some e).
        { clear - F. induction (r_inserts r) as [|y l IH]; [discriminate|]. cbn [find app] in *. destruct (fst y =? epoch); [exact F|exact (IH F)]. }
        rewrite Fa. reflexivity.
      * cbn [option_map]. rewrite (find_app_none _ _ _ F).
        rewrite (find_none_all _ _ _ Wu) by (intros u Hu; apply N.ltb_lt in Hu; apply N.eqb_neq; lia).
        rewrite (find_none_all _ _ _ Ws); [reflexivity|].
        intros s Hs. apply orb_true_iff in Hs as [Hs|Hs].
        -- apply negb_true_iff in Hs. rewrite G, Hs. reflexivity.
        -- apply N.ltb_lt in Hs. apply andb_false_iff. right. apply N.eqb_neq. lia.
    + apply N.leb_gt in L. rewrite (find_app_none _ _ _ (consecutive_before _ _ epoch Wc L)).
      rewrite position_find. destruct (find _ (r_updates r)); reflexivity.
Qed.

(* the two together: the translated resolver over the translated repository lookup is the
   resolution model, for every repository that keeps its books *)
Theorem gen_resolver_over_gen_repository r cur_epoch cur ext p :
  repo_wf r = true ->
  gen_resolve_one (holder_of r cur_epoch cur ext) (gen_repo_resumption r) p = resolve (holder_of r cur_epoch cur ext) p.
Proof.
  intro W. rewrite <- gen_resolve_one_is_model. destruct p as [id|gid epoch]; [reflexivity|].
  unfold gen_resolve_one, gen_resolve_resumption. rewrite (gen_repo_resumption_is_model r cur_epoch cur ext gid epoch W). reflexivity.
Qed.

Example repo_wf_nontrivial :
  repo_wf {| r_gid := 1; r_inserts := [(5, 50); (6, 60)]; r_updates := [(3, 30)]; r_stored := [(1, 2, 20); (1, 3, 31); (2, 9, 90)] |} = true.
Proof. reflexivity. Qed.
