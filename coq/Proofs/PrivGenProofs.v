(* The loops that write a member's private keys, as translated from tree_kem/private.rs and
   group/mod.rs (Gen/PrivGen.v), compute the private states of Model/Priv.v that the theorems of
   C09 are about: update_secrets = join_priv, the blanking loop + update_leaf = provisional_priv. *)
From Coq Require Import NArith Arith List Bool Lia.
From MlsV Require Import Res TreeMathGen TreeMathProofs Tree TreeProofs Priv PrivGen.
Import ListNotations.
Local Open Scope N_scope.

(* ---- set_nth / enumerate ---- *)
Lemma set_nth_length {A} (l : list A) i v : length (set_nth l i v) = length l.
Proof. revert i; induction l as [|x l IH]; intros [|i]; cbn [set_nth length]; auto. Qed.

Lemma nth_error_set_nth {A} (l : list A) i v k :
  nth_error (set_nth l i v) k = if (k =? i)%nat && (i <? length l)%nat then Some v else nth_error l k.
Proof.
  revert i k; induction l as [|x l IH]; intros i k.
  - cbn [set_nth length]. destruct i; rewrite ?andb_false_r; reflexivity.
  - destruct i as [|i], k as [|k]; cbn [set_nth nth_error length]; try reflexivity.
    rewrite IH. reflexivity.
Qed.

Lemma list_ext {A} (a b : list A) : length a = length b -> (forall k, nth_error a k = nth_error b k) -> a = b.
Proof.
  revert b; induction a as [|x a IH]; intros [|y b] L H; try discriminate; [reflexivity|].
  pose proof (H O) as H0. cbn in H0. injection H0 as ->. f_equal. apply IH; [cbn in L; lia|]. intro k. exact (H (S k)).
Qed.

Lemma nth_error_mapi_from {A B} (f : nat -> A -> B) l : forall i k,
  nth_error (mapi_from f i l) k = option_map (f (i + k)%nat) (nth_error l k).
Proof.
  induction l as [|x l IH]; intros i k; [destruct k; reflexivity|].
  destruct k as [|k]; cbn [mapi_from nth_error option_map]; [rewrite Nat.add_0_r; reflexivity|].
  rewrite IH. replace (S i + k)%nat with (i + S k)%nat by lia. reflexivity.
Qed.
Lemma mapi_from_length {A B} (f : nat -> A -> B) l : forall i, length (mapi_from f i l) = length l.
Proof. induction l as [|x l IH]; intro i; cbn [mapi_from length]; auto. Qed.

Lemma resize_length pr n : length (resize pr n) = n.
Proof. unfold resize. rewrite app_length, firstn_length, repeat_length. lia. Qed.

(* ---- the blanking loop ---- *)
Lemma blank_loop_nth (blank : N -> bool) path : forall i0 (sk : priv) k,
  nth_error (fold_left (fun sk (x : nat * N) => let '(i, n) := x in if blank n then set_nth sk (i + 1) None else sk) (enumerate_from i0 path) sk) k =
  match nth_error sk k with
  | None => None
  | Some old => if (i0 <? k)%nat then match nth_error path (k - 1 - i0) with Some p => if blank p then Some None else Some old | None => Some old end
                else Some old
  end.
Proof.
  induction path as [|p path IH]; intros i0 sk k; cbn [enumerate_from fold_left].
  - destruct (nth_error sk k); [|reflexivity]. destruct (i0 <? k)%nat; [|reflexivity]. destruct (k - 1 - i0)%nat; reflexivity.
  - rewrite IH. destruct (blank p) eqn:B.
    + rewrite nth_error_set_nth. destruct (Nat.eqb_spec k (i0 + 1)) as [->|Ne].
      * destruct (Nat.ltb_spec (i0 + 1) (length sk)) as [Lt|Ge]; cbn [andb].
        -- replace (S i0 <? i0 + 1)%nat with false by (symmetry; apply Nat.ltb_ge; lia).
           destruct (nth_error sk (i0 + 1)) eqn:E; [|apply nth_error_None in E; lia].
           replace (i0 <? i0 + 1)%nat with true by (symmetry; apply Nat.ltb_lt; lia).
           replace (i0 + 1 - 1 - i0)%nat with O by lia. cbn [nth_error]. rewrite B. reflexivity.
        -- assert (E : nth_error sk (i0 + 1) = None) by (apply nth_error_None; lia). rewrite E. reflexivity.
      * cbn [andb]. destruct (nth_error sk k) as [old|]; [|reflexivity].
        destruct (Nat.ltb_spec (S i0) k) as [Lt|Ge].
        -- replace (i0 <? k)%nat with true by (symmetry; apply Nat.ltb_lt; lia).
           replace (k - 1 - i0)%nat with (S (k - 1 - S i0)) by lia. reflexivity.
        -- destruct (Nat.ltb_spec i0 k) as [Lt|Ge']; [lia|reflexivity].
    + destruct (nth_error sk k) as [old|]; [|reflexivity].
      destruct (Nat.ltb_spec (S i0) k) as [Lt|Ge].
      * replace (i0 <? k)%nat with true by (symmetry; apply Nat.ltb_lt; lia).
        replace (k - 1 - i0)%nat with (S (k - 1 - S i0)) by lia. reflexivity.
      * destruct (Nat.ltb_spec i0 k) as [Lt|Ge']; [|reflexivity].
        replace (k - 1 - i0)%nat with O by lia. cbn [nth_error]. rewrite B. reflexivity.
Qed.

Lemma blank_loop_length (blank : N -> bool) path : forall i0 (sk : priv),
  length (fold_left (fun sk (x : nat * N) => let '(i, n) := x in if blank n then set_nth sk (i + 1) None else sk) (enumerate_from i0 path) sk) = length sk.
Proof.
  induction path as [|p path IH]; intros i0 sk; cbn [enumerate_from fold_left]; [reflexivity|].
  rewrite IH. destruct (blank p); [apply set_nth_length|reflexivity].
Qed.

Definition is_blank (t : tree) (n : N) : bool := match get t n with None => true | Some _ => false end.

Theorem gen_provisional_is_model tprov me pr own path :
  path_nodes tprov me = Ok path ->
  provisional_priv tprov me pr own =
  Ok (let p1 := gen_provisional_blank (is_blank tprov) pr path in
      match own with Some key => gen_update_leaf p1 key | None => p1 end).
Proof.
  intro P. unfold provisional_priv. rewrite P. cbn [bind ret]. apply (f_equal (@Ok priv)).
  unfold gen_provisional_blank, gen_update_leaf, mapi, enumerate.
  apply list_ext.
  - rewrite mapi_from_length, resize_length. destruct own; [rewrite set_nth_length, repeat_length|]; rewrite blank_loop_length, resize_length; reflexivity.
  - intro k. rewrite nth_error_mapi_from. cbn [Nat.add]. destruct own as [key|].
    + rewrite nth_error_set_nth, repeat_length, blank_loop_length, resize_length.
      destruct (nth_error (resize pr (length path + 1)) k) as [old|] eqn:E; cbn [option_map].
      * assert (Lk : (k < length path + 1)%nat) by (rewrite <- (resize_length pr (length path + 1)); apply nth_error_Some; congruence).
        destruct k as [|k]; cbn [Nat.eqb andb].
        -- replace (0 <? length path + 1)%nat with true by (symmetry; apply Nat.ltb_lt; lia). reflexivity.
        -- symmetry. apply nth_error_repeat. lia.
      * apply nth_error_None in E. rewrite resize_length in E.
        destruct (Nat.eqb_spec k 0) as [->|Ne]; [lia|]. cbn [andb]. symmetry. apply nth_error_None. rewrite repeat_length. lia.
    + rewrite blank_loop_nth. destruct (nth_error (resize pr (length path + 1)) k) as [old|]; cbn [option_map]; [|reflexivity].
      destruct k as [|k]; [reflexivity|]. cbn [Nat.ltb Nat.leb]. replace (S k - 1 - 0)%nat with k by lia.
      destruct (nth_error path k) as [p|]; [|reflexivity]. unfold is_blank. destruct (get tprov p); reflexivity.
Qed.

(* ---- update_secrets ---- *)
Definition step_us (ks : keys) (acc : option priv) (x : nat * (N * bool)) : option priv :=
  match acc with
  | None => None
  | Some sk => let '(i, (n, f)) := x in
               if f then Some sk else match ks n with None => None | Some key => Some (set_nth sk (i + 1) (Some key)) end
  end.

Lemma step_us_none ks l : fold_left (step_us ks) l None = None.
Proof. induction l as [|x l IH]; [reflexivity|exact IH]. Qed.

(* the nodes of the joiner's direct path, level by level *)
Fixpoint path_from (me : N) (i : nat) (n : nat) : list N :=
  match n with O => [] | S n' => lvl_node (N.of_nat (S i)) me :: path_from me (S i) n' end.

Lemma enumerate_from_combine_skip {A} (l : list A) : forall i0 k,
  skipn k (enumerate_from i0 l) = enumerate_from (i0 + k) (skipn k l).
Proof.
  induction l as [|x l IH]; intros i0 k; [destruct k; reflexivity|].
  destruct k as [|k]; cbn [skipn enumerate_from]; [rewrite Nat.add_0_r; reflexivity|].
  rewrite IH. f_equal. lia.
Qed.

Lemma join_levels_loop ks me : forall jflt i lca (pre : priv),
  length pre = S i -> (lca <= i)%nat ->
  fold_left (step_us ks) (enumerate_from i (combine (path_from me i (length jflt)) jflt)) (Some (pre ++ repeat None (length jflt))) =
  match join_levels ks me jflt i lca with Some l => Some (pre ++ l) | None => None end.
Proof.
  unfold priv. induction jflt as [|f r IH]; intros i lca pre Lp Le; cbn [length path_from combine enumerate_from fold_left join_levels repeat].
  - reflexivity.
  - replace (lca <=? i)%nat with true by (symmetry; apply Nat.leb_le; exact Le). cbn [andb step_us].
    destruct f; cbn [negb].
    + replace (pre ++ None :: repeat None (length r)) with ((pre ++ [None]) ++ repeat None (length r)) by (rewrite <- app_assoc; reflexivity).
      etransitivity; [apply (IH (S i) lca (pre ++ [None])); [rewrite app_length; cbn [length]; lia|lia]|].
      destruct (join_levels ks me r (S i) lca) as [l|]; [rewrite <- app_assoc; reflexivity|reflexivity].
    + destruct (ks (lvl_node (N.of_nat (S i)) me)) as [key|] eqn:K.
      * assert (E : set_nth (pre ++ None :: repeat None (length r)) (i + 1) (Some key) = (pre ++ [Some key]) ++ repeat None (length r)).
        { replace (i + 1)%nat with (length pre + 0)%nat by lia. rewrite <- app_assoc. cbn [app]. clear.
          induction pre as [|x pre IHp]; cbn [app length Nat.add set_nth]; [reflexivity|]. f_equal. exact IHp. }
        rewrite E. etransitivity; [apply (IH (S i) lca (pre ++ [Some key])); [rewrite app_length; cbn [length]; lia|lia]|].
        destruct (join_levels ks me r (S i) lca) as [l|]; [rewrite <- app_assoc; reflexivity|reflexivity].
      * rewrite step_us_none. destruct (join_levels ks me r (S i) lca); reflexivity.
Qed.

(* below the common ancestor nothing is written: join_levels yields None entries there *)
Lemma join_levels_below ks me : forall jflt i lca,
  (i + length jflt <= lca)%nat -> join_levels ks me jflt i lca = Some (repeat None (length jflt)).
Proof.
  induction jflt as [|f r IH]; intros i lca L; cbn [join_levels length repeat]; [reflexivity|].
  cbn [length] in L. rewrite IH by lia. replace (lca <=? i)%nat with false by (symmetry; apply Nat.leb_gt; lia). reflexivity.
Qed.

Lemma join_levels_split ks me : forall jflt i lca,
  (i <= lca)%nat ->
  join_levels ks me jflt i lca =
  match join_levels ks me (skipn (lca - i) jflt) lca lca with
  | Some l => Some (repeat None (Nat.min (lca - i) (length jflt)) ++ l)
  | None => None
  end.
Proof.
  induction jflt as [|f r IH]; intros i lca L.
  - destruct (lca - i)%nat; reflexivity.
  - destruct (Nat.eq_dec i lca) as [->|Ne].
    + rewrite Nat.sub_diag. cbn [skipn Nat.min repeat app]. destruct (join_levels ks me (f :: r) lca lca); reflexivity.
    + replace (lca - i)%nat with (S (lca - S i)) by lia. cbn [skipn join_levels length Nat.min].
      rewrite (IH (S i) lca) by lia.
      replace (lca <=? i)%nat with false by (symmetry; apply Nat.leb_gt; lia). cbn [andb].
      destruct (join_levels ks me (skipn (lca - S i) r) lca lca); reflexivity.
Qed.

Lemma path_from_length me : forall n i, length (path_from me i n) = n.
Proof. induction n as [|n IH]; intro i; cbn [path_from length]; auto. Qed.
Lemma path_from_skipn me : forall n i k, skipn k (path_from me i n) = path_from me (i + k) (n - k).
Proof.
  induction n as [|n IH]; intros i k; [destruct k; reflexivity|].
  destruct k as [|k]; cbn [skipn path_from Nat.sub]; [rewrite Nat.add_0_r; reflexivity|].
  rewrite IH. f_equal. lia.
Qed.
Lemma combine_skipn {A B} (a : list A) : forall (b : list B) k, skipn k (combine a b) = combine (skipn k a) (skipn k b).
Proof.
  induction a as [|x a IH]; intros b k; [destruct k; reflexivity|].
  destruct b as [|y b]; [destruct k; cbn [skipn combine]; [reflexivity|destruct (skipn k a); reflexivity]|].
  destruct k as [|k]; cbn [skipn combine]; [reflexivity|apply IH].
Qed.

Theorem gen_update_secrets_is_join_priv ks me leafkey jflt lca :
  gen_update_secrets ks [Some leafkey] (path_from me 0 (length jflt)) jflt lca = join_priv ks me leafkey jflt lca.
Proof.
  unfold gen_update_secrets, join_priv, enumerate. fold (step_us ks).
  rewrite path_from_length.
  assert (R : resize [Some leafkey] (length jflt + 1) = [Some leafkey] ++ repeat None (length jflt)).
  { unfold resize. replace (length jflt + 1)%nat with (S (length jflt)) by lia. cbn [firstn length]. rewrite firstn_nil.
    replace (S (length jflt) - 1)%nat with (length jflt) by lia. reflexivity. }
  rewrite R. rewrite enumerate_from_combine_skip, combine_skipn, path_from_skipn. cbn [Nat.add].
  rewrite (join_levels_split ks me jflt 0 lca) by lia. rewrite Nat.sub_0_r.
  destruct (Nat.le_gt_cases (length jflt) lca) as [Big|Small].
  - (* the loop is skipped entirely *)
    rewrite (skipn_all2 jflt) by lia. replace (length jflt - lca)%nat with O by lia. cbn [path_from combine enumerate_from fold_left join_levels].
    rewrite Nat.min_r by lia. rewrite app_nil_r. reflexivity.
  - rewrite Nat.min_l by lia.
    assert (Ls : length (skipn lca jflt) = (length jflt - lca)%nat) by apply skipn_length.
    rewrite <- Ls.
    assert (Sp : [Some leafkey] ++ repeat None (length jflt) = ([Some leafkey] ++ repeat None lca) ++ repeat None (length (skipn lca jflt))).
    { rewrite <- app_assoc. f_equal. rewrite <- repeat_app. f_equal. lia. }
    rewrite Sp. etransitivity; [apply (join_levels_loop ks me (skipn lca jflt) lca lca ([Some leafkey] ++ repeat None lca)); [rewrite app_length, repeat_length; cbn [length]; lia|lia]|].
    destruct (join_levels ks me (skipn lca jflt) lca lca) as [l|]; [rewrite <- app_assoc; reflexivity|reflexivity].
Qed.

(* the path the loop walks is the direct path of the tree math: node k of path_from is lvl_node (k+1) *)
Lemma path_from_nth me : forall n i k, (k < n)%nat -> nth_error (path_from me i n) k = Some (lvl_node (N.of_nat (S (i + k))) me).
Proof.
  induction n as [|n IH]; intros i k L; [lia|]. destruct k as [|k]; cbn [path_from nth_error]; [rewrite Nat.add_0_r; reflexivity|].
  rewrite IH by lia. do 3 f_equal. lia.
Qed.

Lemma path_spec_is_path_from me : forall n i,
  map CopathNode_path (path_spec n (N.of_nat i) (me / 2 ^ N.of_nat i)) = path_from me i n.
Proof.
  induction n as [|n IH]; intro i; cbn [path_spec path_from map CopathNode_path]; [reflexivity|].
  assert (E : me / 2 ^ N.of_nat i / 2 = me / 2 ^ N.of_nat (S i)).
  { rewrite N.div_div by (try apply N.pow_nonzero; lia). f_equal. rewrite Nat2N.inj_succ, N.pow_succ_r by lia. lia. }
  rewrite E. replace (N.of_nat i + 1) with (N.of_nat (S i)) by lia. rewrite IH. reflexivity.
Qed.

(* on the member's direct path as the translated tree math computes it *)
Theorem gen_update_secrets_on_the_direct_path t me ks leafkey jflt lca path :
  small t -> 2 * me <= tlen t -> path_nodes t me = Ok path -> length jflt = length path ->
  gen_update_secrets ks [Some leafkey] path jflt lca = join_priv ks me leafkey jflt lca.
Proof.
  intros Sm L P Len. destruct (path_nodes_spec t me Sm L) as (d & _ & _ & _ & P' & _).
  rewrite P in P'. injection P' as ->.
  pose proof (path_spec_is_path_from me (N.to_nat d) 0) as E. cbn [N.of_nat] in E. rewrite N.pow_0_r, N.div_1_r in E.
  rewrite E in *. rewrite path_from_length in Len. rewrite <- Len. apply gen_update_secrets_is_join_priv.
Qed.

(* ---- decap / encap: loops that write at every iteration ---- *)
Lemma fold_left_ext {A B} (f g : A -> B -> A) l : (forall a x, f a x = g a x) -> forall a, fold_left f l a = fold_left g l a.
Proof. intro E. induction l as [|x l IH]; intro a; cbn [fold_left]; [reflexivity|]. rewrite E. apply IH. Qed.

Lemma write_loop_nth {A} (w : nat -> A -> option N) (l : list A) : forall i0 (sk : priv) k,
  nth_error (fold_left (fun (sk : priv) (x : nat * A) => set_nth sk (fst x + 1) (w (fst x) (snd x))) (enumerate_from i0 l) sk) k =
  match nth_error sk k with
  | None => None
  | Some old => if (i0 <? k)%nat then match nth_error l (k - 1 - i0) with Some a => Some (w (k - 1)%nat a) | None => Some old end else Some old
  end.
Proof.
  induction l as [|a l IH]; intros i0 sk k; cbn [enumerate_from fold_left fst snd].
  - destruct (nth_error sk k); [|reflexivity]. destruct (i0 <? k)%nat; [|reflexivity]. destruct (k - 1 - i0)%nat; reflexivity.
  - rewrite IH. rewrite nth_error_set_nth. destruct (Nat.eqb_spec k (i0 + 1)) as [->|Ne].
    + destruct (Nat.ltb_spec (i0 + 1) (length sk)) as [Lt|Ge]; cbn [andb].
      * replace (S i0 <? i0 + 1)%nat with false by (symmetry; apply Nat.ltb_ge; lia).
        destruct (nth_error sk (i0 + 1)) eqn:E; [|apply nth_error_None in E; lia].
        replace (i0 <? i0 + 1)%nat with true by (symmetry; apply Nat.ltb_lt; lia).
        replace (i0 + 1 - 1 - i0)%nat with O by lia. cbn [nth_error]. replace (i0 + 1 - 1)%nat with i0 by lia. reflexivity.
      * assert (E : nth_error sk (i0 + 1) = None) by (apply nth_error_None; lia). rewrite E. reflexivity.
    + cbn [andb]. destruct (nth_error sk k) as [old|]; [|reflexivity].
      destruct (Nat.ltb_spec (S i0) k) as [Lt|Ge].
      * replace (i0 <? k)%nat with true by (symmetry; apply Nat.ltb_lt; lia).
        replace (k - 1 - i0)%nat with (S (k - 1 - S i0)) by lia. reflexivity.
      * destruct (Nat.ltb_spec i0 k) as [Lt|Ge']; [lia|reflexivity].
Qed.

Lemma write_loop_length {A} (w : nat -> A -> option N) (l : list A) : forall i0 (sk : priv),
  length (fold_left (fun (sk : priv) (x : nat * A) => set_nth sk (fst x + 1) (w (fst x) (snd x))) (enumerate_from i0 l) sk) = length sk.
Proof. induction l as [|a l IH]; intros i0 sk; cbn [enumerate_from fold_left]; [reflexivity|]. rewrite IH. apply set_nth_length. Qed.

Lemma enumerate_from_skipn {A} (l : list A) : forall i0 k, skipn k (enumerate_from i0 l) = enumerate_from (i0 + k) (skipn k l).
Proof.
  induction l as [|x l IH]; intros i0 k; [destruct k; reflexivity|].
  destruct k as [|k]; cbn [skipn enumerate_from]; [rewrite Nat.add_0_r; reflexivity|]. rewrite IH. f_equal. lia.
Qed.

Lemma nth_error_skipn {A} (l : list A) : forall k j, nth_error (skipn k l) j = nth_error l (k + j).
Proof. induction l as [|x l IH]; intros [|k] j; cbn [skipn Nat.add]; try reflexivity; [destruct j; reflexivity|apply IH]. Qed.

Theorem gen_decap_writes_is_model pr pathlen nodes lca :
  gen_decap_writes pr pathlen nodes lca = decap_priv pr pathlen lca nodes.
Proof.
  unfold gen_decap_writes, decap_priv, enumerate, mapi.
  rewrite enumerate_from_skipn. cbn [Nat.add].
  rewrite (fold_left_ext _ (fun (sk : priv) (x : nat * option N) => set_nth sk (fst x + 1) ((fun _ u => u) (fst x) (snd x))))
    by (intros a [i [key|]]; reflexivity).
  replace (pathlen + 1 + 1)%nat with (pathlen + 2)%nat by lia.
  apply list_ext.
  - rewrite (write_loop_length (fun (_ : nat) (u : option N) => u)), mapi_from_length. reflexivity.
  - intro k. rewrite (write_loop_nth (fun (_ : nat) (u : option N) => u)), nth_error_mapi_from. cbn [Nat.add].
    destruct (nth_error (resize pr (pathlen + 2)) k) as [old|]; cbn [option_map]; [|reflexivity].
    destruct k as [|k]; [reflexivity|].
    destruct (Nat.ltb_spec lca (S k)) as [Lt|Ge].
    + replace (lca <=? k)%nat with true by (symmetry; apply Nat.leb_le; lia). cbn [andb].
      rewrite nth_error_skipn. replace (lca + (S k - 1 - lca))%nat with k by lia.
      destruct (Nat.ltb_spec k (length nodes)) as [Lk|Gk].
      * destruct (nth_error nodes k) as [u|] eqn:E; [|apply nth_error_None in E; lia].
        rewrite (nth_error_nth _ _ None E). reflexivity.
      * assert (E : nth_error nodes k = None) by (apply nth_error_None; lia). rewrite E. reflexivity.
    + replace (lca <=? k)%nat with false by (symmetry; apply Nat.leb_gt; lia). reflexivity.
Qed.

Theorem gen_encap_writes_is_model pr path flt fk leafkey :
  length flt = length path ->
  gen_encap_writes pr path flt fk leafkey = encap_priv pr (length path) flt fk leafkey.
Proof.
  intro L. unfold gen_encap_writes, encap_priv, enumerate, mapi.
  rewrite (fold_left_ext _ (fun (sk : priv) (x : nat * (N * bool)) => set_nth sk (fst x + 1) ((fun (i : nat) (nf : N * bool) => if snd nf then @None N else Some (fk (N.of_nat (i + 1)))) (fst x) (snd x))))
    by (intros a [i [node [|]]]; reflexivity).
  apply list_ext.
  - rewrite set_nth_length, (write_loop_length (fun (i : nat) (nf : N * bool) => if snd nf then @None N else Some (fk (N.of_nat (i + 1))))), mapi_from_length. reflexivity.
  - intro k. rewrite nth_error_set_nth, (write_loop_length (fun (i : nat) (nf : N * bool) => if snd nf then @None N else Some (fk (N.of_nat (i + 1))))), (write_loop_nth (fun (i : nat) (nf : N * bool) => if snd nf then @None N else Some (fk (N.of_nat (i + 1))))), nth_error_mapi_from. cbn [Nat.add].
    destruct (nth_error (resize pr (length path + 1)) k) as [old|] eqn:E; cbn [option_map].
    + assert (Lk : (k < length path + 1)%nat) by (rewrite <- (resize_length pr (length path + 1)); apply nth_error_Some; congruence).
      rewrite resize_length. destruct k as [|k]; cbn [Nat.eqb andb].
      * replace (0 <? length path + 1)%nat with true by (symmetry; apply Nat.ltb_lt; lia). reflexivity.
      * cbn [Nat.ltb Nat.leb]. replace (S k - 1 - 0)%nat with k by lia. replace (S k - 1)%nat with k by lia.
        destruct (nth_error flt k) as [f|] eqn:F.
        -- assert (exists nd, nth_error path k = Some nd) as [nd P].
           { destruct (nth_error path k) eqn:P; [eexists; reflexivity|]. apply nth_error_None in P. assert (k < length flt)%nat by (apply nth_error_Some; congruence). lia. }
           assert (C : nth_error (combine path flt) k = Some (nd, f)).
           { clear - P F. revert path flt P F. induction k as [|k IH]; intros [|p path] [|b flt] P F; try discriminate; cbn [combine nth_error] in *; [congruence|apply IH; assumption]. }
           rewrite C. cbn [snd]. destruct f; [reflexivity|]. do 3 f_equal. lia.
        -- assert (C : nth_error (combine path flt) k = None).
           { apply nth_error_None. rewrite combine_length. apply nth_error_None in F. lia. }
           rewrite C. reflexivity.
    + apply nth_error_None in E. rewrite resize_length in E. rewrite resize_length.
      destruct (Nat.eqb_spec k 0) as [->|Ne]; [lia|reflexivity].
Qed.
