(* The checker applied to the event lists extracted from the current source. *)
From Coq Require Import NArith List Bool String.
From MlsV Require Import Effects EffectsProofs ProcessEffects.
Import ListNotations.

Lemma chk_sound_b evs : is_good (chk evs false) = true -> transactional evs.
Proof. destruct (chk evs false) as [l|d] eqn:E; [discriminate|]. intros _. exact (chk_sound evs d E). Qed.

Lemma incoming_transactional : transactional ev_incoming.
Proof. apply chk_sound_b. vm_compute. reflexivity. Qed.

Lemma commit_build_transactional : transactional ev_commit_build.
Proof. apply chk_sound_b. vm_compute. reflexivity. Qed.

Lemma apply_pending_transactional : transactional ev_apply_pending.
Proof. apply chk_sound_b. vm_compute. reflexivity. Qed.

(* second analysis: wherever the key schedule of a new epoch is installed, the pending commit is
   cleared - on every successful run of message processing and of apply_pending_commit *)
From MlsV Require Import MustHit MustHitProofs.
Local Open Scope string_scope.
Definition installs_epoch (w : string) : bool := String.eqb w "self.key_schedule = ..".
Definition clears_pending (w : string) : bool := String.eqb w "self.pending_commit = ..".

Lemma incoming_clears_pending : must_hit installs_epoch clears_pending ev_incoming.
Proof. apply must_hit_chk_sound. vm_compute. reflexivity. Qed.

Lemma apply_pending_clears_pending : must_hit installs_epoch clears_pending ev_apply_pending.
Proof. apply must_hit_chk_sound. vm_compute. reflexivity. Qed.
