(* The checker applied to the event lists extracted from the current source. *)
From Coq Require Import NArith List Bool String.
From MlsV Require Import Effects EffectsProofs ProcessEffects.
Import ListNotations.

Lemma chk_sound_b evs : is_good (chk evs false) = true -> transactional evs.
Proof. destruct (chk evs false) as [l|d] eqn:E; [discriminate|]. intros _. exact (chk_sound evs d E). Qed.

Lemma incoming_transactional : transactional ev_incoming.
Proof. apply chk_sound_b. vm_compute. reflexivity. Qed.

Lemma commit_build_transactional : transactional ev_commit_build.
Proof. apply chk_sound_b. vm_compute. reflexivity. Qed.

Lemma apply_pending_transactional : transactional ev_apply_pending.
Proof. apply chk_sound_b. vm_compute. reflexivity. Qed.
