(* The checker applied to the event lists extracted from the current source. *)
From Coq Require Import NArith List Bool String.
From MlsV Require Import Effects EffectsProofs ProcessEffects.
Import ListNotations.

Lemma chk_sound_b evs : is_good (chk evs false) = true -> transactional evs.
Proof. destruct (chk evs false) as [l|d] eqn:E; [discriminate|]. intros _. exact (chk_sound evs d E). Qed.

Lemma incoming_transactional : transactional ev_incoming.
Proof. apply chk_sound_b. vm_compute. reflexivity. Qed.

Lemma commit_build_transactional : transactional ev_commit_build.
Proof. apply chk_sound_b. vm_compute. reflexivity. Qed.

Lemma apply_pending_transactional : transactional ev_apply_pending.
Proof. apply chk_sound_b. vm_compute. reflexivity. Qed.

(* second analysis: wherever the key schedule of a new epoch is installed, the pending commit is
   cleared - on every successful run of message processing and of apply_pending_commit *)
From MlsV Require Import MustHit MustHitProofs.
Local Open Scope string_scope.
Definition installs_epoch (w : string) : bool := String.eqb w "self.key_schedule = ..".
Definition clears_pending (w : string) : bool := String.eqb w "self.pending_commit = ..".

Lemma incoming_clears_pending : must_hit installs_epoch clears_pending ev_incoming.
Proof. apply must_hit_chk_sound. vm_compute. reflexivity. Qed.

Lemma apply_pending_clears_pending : must_hit installs_epoch clears_pending ev_apply_pending.
Proof. apply must_hit_chk_sound. vm_compute. reflexivity. Qed.

(* ---- the group state repository (state_repo.rs): the shapes that Model/Storage.v transcribes ---- *)
(* write_to_storage: encode the pending epochs (may fail), write to the store (may fail), ONLY THEN
   forget the pending epochs, and only then delete the used key package (may fail) *)
Lemma repo_write_shape : shape ev_repo_write =
  [EAlt [[EFail 0]; []]; EFail 0; EAlt [[EFail 0]; []]; EFail 0; EFail 0; EFail 0;
   EMut "self.pending_commit.inserts.clear()" 0;
   EMut "self.pending_commit.updates.clear()" 0;
   EAlt [[EMut "self.key_package_repo.delete()" 0; EFail 0]; []]].
Proof. vm_compute. reflexivity. Qed.

(* get_epoch_mut: the un-written inserts first - but only for epochs at or after the oldest of
   them -, then the cached updates, then the store (may fail), whose record is cached *)
Lemma repo_get_shape : shape ev_repo_get =
  [EAlt [[EAlt [[];
                [EAlt [[EMut "self.pending_commit.updates.get_mut().map()" 0];
                       [EFail 0; EAlt [[EAlt [[EMut "self.pending_commit.updates.push()" 0]; []]]; []]]]]]];
         [EAlt [[EMut "self.pending_commit.updates.get_mut().map()" 0];
                [EFail 0; EAlt [[EAlt [[EMut "self.pending_commit.updates.push()" 0]; []]]; []]]]]]].
Proof. vm_compute. reflexivity. Qed.

(* insert: group id and epoch continuity are checked before the epoch is queued; nothing is written *)
Lemma repo_insert_shape : shape ev_repo_insert =
  [EAlt [[EFail 0; EFail 0];
         [EAlt [[EAlt [[EFail 0; EFail 0]; [EMut "self.pending_commit.inserts.push_back()" 0]]];
                [EMut "self.pending_commit.inserts.push_back()" 0]]]]].
Proof. vm_compute. reflexivity. Qed.
