From Coq Require Import NArith List Bool String Lia.
From MlsV Require Import Effects.
Import ListNotations.
Local Open Scope N_scope.

(* ---- the checker in terms of [chk] ---- *)
Definition alts_spec (d : bool) :=
  fix alts (bs : list (list ev)) (acc : bool) {struct bs} : verdict :=
    match bs with
    | [] => Good acc
    | b :: r => match chk b d with Bad ln => Bad ln | Good db => alts r (acc || db) end
    end.

Lemma chkl_eq : forall l d,
  (fix chkl (l : list ev) (d : bool) {struct l} : verdict :=
     match l with
     | [] => Good d
     | x :: r => match chk1 x d with Bad ln => Bad ln | Good d' => chkl r d' end
     end) l d = chk l d.
Proof. induction l as [|x r IH]; intro d; [reflexivity|]. cbn [chk]. destruct (chk1 x d); [reflexivity|apply IH]. Qed.

Lemma chk1_alt bs d : chk1 (EAlt bs) d = alts_spec d bs d.
Proof.
  cbn [chk1]. generalize d at 2 4 as acc. induction bs as [|b r IH]; intro acc; [reflexivity|].
  cbn [alts_spec]. rewrite chkl_eq. destruct (chk b d); [reflexivity|apply IH].
Qed.

Lemma chk1_loop body d : chk1 (ELoop body) d =
  match chk body d with
  | Bad ln => Bad ln
  | Good db => if db && negb d then (match chk body true with Bad ln => Bad ln | Good _ => Good true end) else Good (d || db)
  end.
Proof. cbn [chk1]. rewrite !chkl_eq. reflexivity. Qed.

(* ---- sizes ---- *)
Fixpoint esize (e : ev) : nat :=
  let lsz := fix lsz (l : list ev) : nat := match l with [] => O | x :: t => S (esize x + lsz t) end in
  match e with
  | EAlt bs => S ((fix go (bs : list (list ev)) : nat := match bs with [] => O | b :: r => S (lsz b + go r) end) bs)
  | ELoop b => S (lsz b)
  | _ => 1%nat
  end.
Fixpoint lsize (l : list ev) : nat := match l with [] => O | x :: t => S (esize x + lsize t) end.
Fixpoint asize (bs : list (list ev)) : nat := match bs with [] => O | b :: r => S (lsize b + asize r) end.

Lemma lsz_eq l : (fix lsz (l : list ev) : nat := match l with [] => O | x :: t => S (esize x + lsz t) end) l = lsize l.
Proof. reflexivity. Qed.
Lemma esize_alt bs : esize (EAlt bs) = S (asize bs).
Proof. reflexivity. Qed.
Lemma esize_loop b : esize (ELoop b) = S (lsize b).
Proof. reflexivity. Qed.
Lemma asize_in b bs : In b bs -> (lsize b < asize bs)%nat.
Proof. induction bs as [|x r IH]; [intros []|]. cbn [asize]. intros [<-|I]; [lia|]. apply IH in I. lia. Qed.

(* ---- soundness ---- *)
Definition le_b (a b : bool) : Prop := a = true -> b = true.
Definition ok (v : verdict) (o : outcome) : Prop :=
  match v with
  | Bad _ => True
  | Good de => match o with Failed df => df = false | Done dd => le_b dd de end
  end.
Definition S1 (e : ev) : Prop := forall dc d o, le_b d dc -> run1 e d o -> ok (chk1 e dc) o.
Definition SL (l : list ev) : Prop := forall dc d o, le_b d dc -> runs l d o -> ok (chk l dc) o.

Lemma le_b_false d : le_b d false -> d = false.
Proof. intro L. destruct d; [specialize (L eq_refl); discriminate|reflexivity]. Qed.

Lemma alts_bad d bs : forall acc, (exists b, In b bs /\ exists ln, chk b d = Bad ln) -> exists ln, alts_spec d bs acc = Bad ln.
Proof.
  induction bs as [|x r IH]; intros acc (b & I & ln & E); [destruct I|]. cbn [alts_spec].
  destruct I as [<-|I]; [rewrite E; exists ln; reflexivity|].
  destruct (chk x d) as [l2|db]; [exists l2; reflexivity|]. apply IH. exists b. split; [exact I|exists ln; exact E].
Qed.

Lemma alts_good d bs : forall acc dd, alts_spec d bs acc = Good dd ->
  le_b acc dd /\ forall b, In b bs -> exists db, chk b d = Good db /\ le_b db dd.
Proof.
  induction bs as [|x r IH]; intros acc dd; cbn [alts_spec].
  - intro E. assert (acc = dd) by congruence. subst. split; [intro H; exact H|intros b []].
  - destruct (chk x d) as [l|db] eqn:Ex; [discriminate|]. intro E. destruct (IH _ _ E) as [La Lr]. split.
    + intro H. apply La. rewrite H. reflexivity.
    + intros b [<-|I]; [|exact (Lr b I)]. exists db. split; [exact Ex|]. intro H. apply La. rewrite H. apply orb_true_r.
Qed.

(* a loop whose body keeps a dirty bound stable *)
Lemma loop_sound body bound :
  SL body -> (exists x, chk body bound = Good x /\ le_b x bound) ->
  forall d o, le_b d bound -> loops body d o -> match o with Failed df => df = false | Done dd => le_b dd bound end.
Proof.
  intros Sb (x & Ex & Lx) d o L R. induction R as [body d|body d d' R|body d d' o R1 R2 IH].
  - exact L.
  - pose proof (Sb bound d (Failed d') L R) as K. rewrite Ex in K. exact K.
  - pose proof (Sb bound d (Done d') L R1) as K. rewrite Ex in K. apply IH; [exact Sb|exact Ex|].
    intro H. apply Lx. apply K. exact H.
Qed.

Theorem sound_n : forall n, (forall e, (esize e <= n)%nat -> S1 e) /\ (forall l, (lsize l <= n)%nat -> SL l).
Proof.
  induction n as [|n [IHe IHl]].
  - split.
    + intros e Hs. destruct e; cbn [esize] in Hs; lia.
    + intros l Hs. destruct l; [|cbn [lsize] in Hs; lia]. intros dc d o L R. inversion R; subst. exact L.
  - split.
    + intros e Hs dc d o L R. destruct e as [l|w l|w l|bs|body].
      * cbn [chk1]. destruct dc; [exact I|]. apply le_b_false in L. subst. inversion R; subst; [reflexivity|intro H; exact H].
      * cbn [chk1]. inversion R; subst. intro H; exact H.
      * cbn [chk1]. destruct dc; [exact I|]. apply le_b_false in L. subst. inversion R; subst; [reflexivity|intro H; exact H].
      * rewrite esize_alt in Hs. rewrite chk1_alt. destruct (alts_spec dc bs dc) as [ln|dd] eqn:Ea; [exact I|].
        destruct (alts_good _ _ _ _ Ea) as [Ldc Lbs].
        inversion R as [ | | | | |bs0 b d0 o0 Hin Hr|d0| ]; subst.
        -- destruct (Lbs b Hin) as (db & Eb & Ldb).
           assert (Sb : SL b) by (apply IHl; pose proof (asize_in b bs Hin); lia).
           pose proof (Sb dc d o L Hr) as K. rewrite Eb in K. destruct o as [df|dd']; [exact K|].
           intro H. apply Ldb. apply K. exact H.
        -- intro H. apply Ldc. apply L. exact H.
      * rewrite esize_loop in Hs. assert (Sb : SL body) by (apply IHl; lia).
        rewrite chk1_loop. destruct (chk body dc) as [ln|db] eqn:Eb; [exact I|].
        inversion R as [ | | | | | | |body0 d0 o0 RL]; subst.
        destruct (db && negb dc) eqn:Cond.
        -- apply andb_true_iff in Cond. destruct Cond as [Hdb Hdc]. apply negb_true_iff in Hdc. subst.
           destruct (chk body true) as [ln|x] eqn:Eb2; [exact I|].
           (* first iteration judged from the clean bound, the others from the dirty one *)
           inversion RL as [body0 d0|body0 d0 d' Rf|body0 d0 d' o0 Rd Rl]; subst.
           ++ intro; reflexivity.
           ++ pose proof (Sb false d (Failed d') L Rf) as K. rewrite Eb in K. exact K.
           ++ pose proof (loop_sound body true Sb (ex_intro _ x (conj Eb2 (fun _ => eq_refl))) d' o (fun _ => eq_refl) Rl) as K.
              destruct o; [exact K|intro; reflexivity].
        -- assert (Stable : exists x, chk body (dc || db) = Good x /\ le_b x (dc || db)).
           { destruct dc; cbn [orb].
             - exists db. split; [exact Eb|intro; reflexivity].
             - cbn [negb] in Cond. rewrite andb_true_r in Cond. subst db. exists false. split; [exact Eb|intro H; exact H]. }
           assert (Ld : le_b d (dc || db)) by (intro H; rewrite (L H); reflexivity).
           exact (loop_sound body (dc || db) Sb Stable d o Ld RL).
    + intros l Hs dc d o L R. destruct l as [|e rest]; [inversion R; subst; exact L|].
      cbn [lsize] in Hs. assert (Se : S1 e) by (apply IHe; lia). assert (Sr : SL rest) by (apply IHl; lia).
      cbn [chk]. inversion R as [ |e0 rest0 d0 d' Rf|e0 rest0 d0 d' o0 Rd Rr]; subst.
      * pose proof (Se dc d (Failed d') L Rf) as K. destruct (chk1 e dc) as [ln|de]; [exact I|].
        cbn [ok] in K. subst. destruct (chk rest de); [exact I|reflexivity].
      * pose proof (Se dc d (Done d') L Rd) as K. destruct (chk1 e dc) as [ln|de]; [exact I|].
        cbn [ok] in K. exact (Sr de d' o K Rr).
Qed.

Theorem chk_sound evs dd : chk evs false = Good dd -> transactional evs.
Proof.
  intros E d R. destruct (sound_n (lsize evs)) as [_ Hl].
  pose proof (Hl evs (le_n _) false false (Failed d) (fun H => H) R) as K. rewrite E in K. exact K.
Qed.

(* and the checker is not vacuous: a mutation followed by a failure point is refused *)
Example chk_refuses : chk [EMut "signer" 1; EFail 2] false = Bad 2.
Proof. reflexivity. Qed.
Example not_transactional : ~ transactional [EMut "signer" 1; EFail 2].
Proof.
  intro T. specialize (T true). assert (true = false); [|discriminate]. apply T.
  eapply r_cons_ok; [apply r_mut|]. apply r_cons_fail. apply r_fail.
Qed.
