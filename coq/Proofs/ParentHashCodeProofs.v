(* The code-shaped computation of the parent hashes of an update path (Model/ParentHashCode.v, from
   parent_hash.rs) computes the decoration [decorate] for which parent-hash validity is proved
   (Proofs/ParentHash.v): same keys, same parent hashes at every node, with the parent-hash function of the
   validity theorems instantiated by ParentHash::new over the cached tree hash of the sibling. *)
From Coq Require Import NArith Arith List Bool Lia.
From MlsV Require Import Res TreeMathGen BitsN TreeMathProofs Tree TreeProofs TreeWF Kem Priv PrivProofs Decap DecapProofs TreeWF5 PrivComplete ParentHash HashCache HashCacheProofs ParentHashCode.
Import ListNotations.
Local Open Scope N_scope.

(* the hash term of a content term: the tree hash depends on a subtree exactly through its content *)
Fixpoint c2h (enc : N * N -> N) (c : cterm) : hterm :=
  match c with
  | CLeaf j None => HLeaf j None
  | CLeaf j (Some (id, k, p)) => HLeaf j (Some (id, enc (k, p)))
  | CPar nd l r => HPar (match nd with Some (k, p, um) => Some (enc (k, p), um) | None => None end) (c2h enc l) (c2h enc r)
  end.

Lemma thash_is_content enc t d strip : forall k j,
  thash (fun n => enc (d n)) t strip k j = c2h enc (content t d strip k j).
Proof.
  induction k as [|k IH]; intro j; cbn [thash content c2h].
  - cbn [N.of_nat]. rewrite node_0. unfold hash_for_leaf, leaf_of.
    destruct (get t (2 * j)) as [[id|um]|]; destruct (mem j strip); cbn [negb c2h]; try reflexivity.
    rewrite <- surjective_pairing. reflexivity.
  - unfold hash_for_parent, parent_of. rewrite !IH.
    destruct (get t (node (N.of_nat (S k)) j)) as [[id|um]|]; cbn [c2h]; try reflexivity.
    rewrite <- surjective_pairing. reflexivity.
Qed.

Lemma ph_loop_app PH t c : forall a b d h,
  ph_loop PH t c (a ++ b) d h = bind (ph_loop PH t c a d h) (fun dh => ph_loop PH t c b (fst dh) (snd dh)).
Proof.
  induction a as [|x a IH]; intros b d h; cbn [app ph_loop]; [reflexivity|].
  destruct (resolution_empty t (CopathNode_copath x)) as [e| |]; cbn [bind]; try reflexivity.
  destruct e; [apply IH|].
  destruct (get t (CopathNode_path x)) as [[id|um]|]; try reflexivity.
  destruct (hidx c (CopathNode_copath x)) as [sh| |]; cbn [bind]; try reflexivity. apply IH.
Qed.

Section Tie.
  Variable PH : N -> N -> hterm -> N.
  Variable enc : N * N -> N.
  Variables (t2 : tree) (c : hcache) (d dm0 : deco) (sndr : N) (flt : list bool) (fk : N -> N) (leafkey : N).
  Let D := length flt.
  Let PHF : N -> N -> cterm -> N := fun k p ct => PH k p (c2h enc ct).
  Let P (i : nat) : N := lvl_node (N.of_nat (S i)) sndr.
  Let C (i : nat) : N := node (N.of_nat i) (sib (sndr / 2 ^ N.of_nat i)).

  (* the state of the walk when the positions i .. D-1 have been visited *)
  Definition walked (i : nat) : deco := fun n =>
    match on_path sndr flt n with
    | Some m => match nth_error flt m with
                | Some false => if (i <=? m)%nat then (fst (dm0 n), ph_below PHF t2 d sndr flt fk (D - S m) (S m)) else dm0 n
                | _ => dm0 n
                end
    | None => dm0 n
    end.

  (* what the walk needs: the filter flags are the emptiness of the copath resolutions, the unfiltered path nodes
     are parents carrying the new keys, and the cache is right at the copath nodes *)
  Hypothesis Hres : forall i b, nth_error flt i = Some b -> resolution_empty t2 (C i) = Ok b.
  Hypothesis Hpar : forall i, nth_error flt i = Some false -> exists um, get t2 (P i) = Some (Par um).
  Hypothesis Hkey : forall i, nth_error flt i = Some false -> fst (dm0 (P i)) = fk (N.of_nat i).
  Hypothesis Hcache : forall i, nth_error flt i = Some false -> hidx c (C i) = Ok (thash (fun n => enc (d n)) t2 [] i (sib (sndr / 2 ^ N.of_nat i))).

  Lemma walked_top n : walked D n = dm0 n.
  Proof.
    unfold walked. destruct (on_path sndr flt n) as [m|] eqn:O; [|reflexivity].
    apply on_path_some in O. destruct O as [_ Lm]. destruct (nth_error flt m) as [[|]|]; try reflexivity.
    destruct (Nat.leb_spec D m); [unfold D in *; lia|reflexivity].
  Qed.

  Lemma path_spec_snoc : forall n k j, path_spec (S n) k j =
    path_spec n k j ++ [mkCopathNode (node (k + N.of_nat n + 1) (j / 2 ^ (N.of_nat n + 1))) (node (k + N.of_nat n) (sib (j / 2 ^ N.of_nat n)))].
  Proof.
    induction n as [|n IH]; intros k j.
    - cbn [path_spec app N.of_nat]. rewrite N.add_0_r, N.pow_0_r, N.div_1_r, N.add_0_l, N.pow_1_r. reflexivity.
    - change (path_spec (S (S n)) k j) with (mkCopathNode (node (k + 1) (j / 2)) (node k (sib j)) :: path_spec (S n) (k + 1) (j / 2)).
      rewrite IH. cbn [path_spec app]. do 4 f_equal.
      + f_equal; [lia|]. rewrite N.div_div by (try apply N.pow_nonzero; lia). f_equal.
        replace (N.of_nat (S n) + 1) with (N.succ (N.of_nat n + 1)) by lia. rewrite N.pow_succ_r by lia. reflexivity.
      + f_equal; [lia|]. f_equal. rewrite N.div_div by (try apply N.pow_nonzero; lia). f_equal.
        rewrite Nat2N.inj_succ, N.pow_succ_r by lia. reflexivity.
  Qed.

  Lemma lvl_is_P n : mkCopathNode (node (0 + N.of_nat n + 1) (sndr / 2 ^ (N.of_nat n + 1))) (node (0 + N.of_nat n) (sib (sndr / 2 ^ N.of_nat n))) = mkCopathNode (P n) (C n).
  Proof. unfold P, C, lvl_node. replace (N.of_nat (S n)) with (N.of_nat n + 1) by lia. rewrite N.add_0_l. reflexivity. Qed.

  Lemma walked_step n x : x <> P n -> walked (S n) x = walked n x.
  Proof.
    intro Ne. unfold walked. destruct (on_path sndr flt x) as [m|] eqn:O; [|reflexivity].
    apply on_path_some in O. destruct O as [Ex _]. destruct (nth_error flt m) as [[|]|]; try reflexivity.
    assert (m <> n) by (intro; subst m; apply Ne; exact Ex).
    destruct (Nat.leb_spec (S n) m), (Nat.leb_spec n m); try reflexivity; lia.
  Qed.

  Lemma walked_at n : nth_error flt n = Some false -> walked (S n) (P n) = dm0 (P n) /\
    walked n (P n) = (fst (dm0 (P n)), ph_below PHF t2 d sndr flt fk (D - S n) (S n)).
  Proof.
    intro Hf. assert (L : (n < length flt)%nat) by (apply nth_error_Some; congruence).
    unfold walked, P. rewrite (on_path_lvl sndr flt n L), Hf.
    destruct (Nat.leb_spec (S n) n); [lia|]. rewrite Nat.leb_refl. split; reflexivity.
  Qed.

  (* the walk from position m-1 down to 0, started in the state reached after the positions m .. D-1 *)
  Lemma walk_down : forall m, (m <= D)%nat -> forall d0, (forall x, d0 x = walked m x) ->
    exists d', ph_loop PH t2 c (rev (path_spec m 0 sndr)) d0 (ph_below PHF t2 d sndr flt fk (D - m) m) =
               Ok (d', ph_below PHF t2 d sndr flt fk D 0) /\ forall x, d' x = walked 0 x.
  Proof.
    induction m as [|n IH]; intros Lm d0 E0.
    - cbn [path_spec rev ph_loop]. rewrite Nat.sub_0_r. exists d0. split; [reflexivity|exact E0].
    - rewrite path_spec_snoc, rev_app_distr, lvl_is_P. cbn [rev app ph_loop CopathNode_copath CopathNode_path].
      destruct (nth_error flt n) as [b|] eqn:Hf; [|apply nth_error_None in Hf; unfold D in Lm; lia].
      rewrite (Hres n b Hf). cbn [bind].
      replace (D - n)%nat with (S (D - S n)) in IH by lia. cbn [ph_below] in IH. rewrite Hf in IH.
      destruct b.
      + apply (IH ltac:(lia) d0). intro x. rewrite E0.
        destruct (N.eq_dec x (P n)) as [->|Ne]; [|apply walked_step; exact Ne].
        unfold walked, P. assert (L : (n < length flt)%nat) by (apply nth_error_Some; congruence).
        rewrite (on_path_lvl sndr flt n L), Hf. reflexivity.
      + destruct (Hpar n Hf) as [um G]. rewrite G. rewrite (Hcache n Hf). cbn [bind].
        destruct (walked_at n Hf) as [Wa Wb].
        assert (Ek : fst (d0 (P n)) = fk (N.of_nat n)) by (rewrite E0, Wa; apply Hkey; exact Hf).
        rewrite Ek, thash_is_content. fold (PHF (fk (N.of_nat n)) (ph_below PHF t2 d sndr flt fk (D - S n) (S n)) (content t2 d [] n (sib (sndr / 2 ^ N.of_nat n)))).
        apply (IH ltac:(lia)). intro x. unfold set_ph. destruct (N.eqb_spec x (P n)) as [->|Ne].
        * rewrite Wb, E0, Wa. reflexivity.
        * rewrite E0. apply walked_step. exact Ne.
  Qed.

  (* parent_hash_for_leaf followed by the assignment of the leaf's own parent hash computes [decorate] *)
  Hypothesis HD : (D <= 30)%nat.
  Hypothesis Hs : sndr < 2 ^ N.of_nat D.
  Hypothesis Hn : total_leaf_count t2 = 2 ^ N.of_nat D.
  Hypothesis Hoff : forall x, x <> 2 * sndr -> (forall i, nth_error flt i = Some false -> x <> P i) -> dm0 x = d x.
  Hypothesis Hleaf : fst (dm0 (2 * sndr)) = leafkey.

  Theorem parent_hash_for_leaf_is_decorate :
    exists d' h, parent_hash_for_leaf PH t2 c dm0 sndr = Ok (d', h) /\
      forall x, set_ph d' (2 * sndr) h x = decorate PHF t2 d sndr flt fk leafkey x.
  Proof.
    unfold parent_hash_for_leaf. rewrite Hn.
    pose proof (direct_copath_ok (N.of_nat D) 0 sndr ltac:(lia) ltac:(lia) ltac:(rewrite N.sub_0_r; exact Hs)) as DC.
    rewrite node_0 in DC. rewrite DC. cbn [bind]. rewrite N.sub_0_r, Nat2N.id.
    destruct (walk_down D (le_n D) dm0 (fun x => eq_sym (walked_top x))) as (d' & E & W).
    rewrite Nat.sub_diag in E. cbn [ph_below] in E. fold D. rewrite E.
    exists d', (ph_below PHF t2 d sndr flt fk D 0). split; [reflexivity|].
    intro x. unfold set_ph, decorate. fold D.
    destruct (N.eqb_spec x (2 * sndr)) as [->|Ne].
    - rewrite W. unfold walked.
      assert (O : on_path sndr flt (2 * sndr) = None).
      { destruct (on_path sndr flt (2 * sndr)) as [m|] eqn:O; [|reflexivity]. apply on_path_some in O. destruct O as [Ex _].
        pose proof (lvl_node_odd (N.of_nat (S m)) sndr ltac:(lia)) as Od. rewrite <- Ex, N.even_mul in Od. discriminate. }
      rewrite O, Hleaf. reflexivity.
    - rewrite W. unfold walked. destruct (on_path sndr flt x) as [m|] eqn:O.
      + pose proof (on_path_some sndr flt x m O) as [Ex Lm].
        destruct (nth_error flt m) as [[|]|] eqn:Hf.
        * apply Hoff; [exact Ne|]. intros i Hi Ei. rewrite Ex in Ei. apply lvl_node_inj_level in Ei. assert (m = i) by lia. subst i. congruence.
        * cbn [Nat.leb]. rewrite Ex. fold (P m). rewrite (Hkey m Hf). reflexivity.
        * apply Hoff; [exact Ne|]. intros i Hi Ei. rewrite Ex in Ei. apply lvl_node_inj_level in Ei. assert (m = i) by lia. subst i. congruence.
      + apply Hoff; [exact Ne|]. intros i Hi Ei. assert (L : (i < length flt)%nat) by (apply nth_error_Some; congruence).
        rewrite Ei in O. unfold P in O. rewrite (on_path_lvl sndr flt i L) in O. discriminate.
  Qed.
End Tie.
