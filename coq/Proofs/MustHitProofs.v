From Coq Require Import NArith List Bool String Lia.
From MlsV Require Import Effects MustHit.
Import ListNotations.

Section P.
  Variable trig tg : string -> bool.
  Notation post1 := (post1 trig tg).
  Notation post := (post trig tg).
  Notation upd := (upd trig tg).

  Lemma postl_eq : forall l X,
    (fix postl (l : list ev) (X : sset) {struct l} : sset :=
       match l with [] => X | x :: r => postl r (post1 x X) end) l X = post l X.
  Proof. induction l as [|x r IH]; intro X; [reflexivity|]. cbn [MustHit.post]. apply IH. Qed.

  Fixpoint alts_spec (bs : list (list ev)) (X : sset) : sset :=
    match bs with [] => sempty | b :: r => sunion (post b X) (alts_spec r X) end.

  Lemma post1_alt b bs X : post1 (EAlt (b :: bs)) X = alts_spec (b :: bs) X.
  Proof.
    cbn [MustHit.post1 alts_spec]. rewrite postl_eq. f_equal.
    induction bs as [|c r IH]; [reflexivity|]. cbn [alts_spec]. rewrite postl_eq, IH. reflexivity.
  Qed.

  Lemma post1_loop body X : post1 (ELoop body) X =
    let X1 := sunion X (post body X) in
    let X2 := sunion X1 (post body X1) in
    let X3 := sunion X2 (post body X2) in
    if ssub (post body X3) X3 then X3 else stop.
  Proof. cbn [MustHit.post1]. rewrite !postl_eq. reflexivity. Qed.

  (* ---- sets ---- *)
  Lemma smem_union_l s X Y : smem s X = true -> smem s (sunion X Y) = true.
  Proof. destruct s as [[|] [|]]; cbn; intro H; rewrite H; reflexivity. Qed.
  Lemma smem_union_r s X Y : smem s Y = true -> smem s (sunion X Y) = true.
  Proof. destruct s as [[|] [|]]; cbn; intro H; rewrite H; apply orb_true_r. Qed.
  Lemma smem_single s : smem s (ssingle s) = true.
  Proof. destruct s as [[|] [|]]; reflexivity. Qed.
  Lemma smem_image f s X : smem s X = true -> smem (f s) (simage f X) = true.
  Proof.
    unfold simage. destruct s as [[|] [|]]; cbn [smem]; intro H; rewrite H.
    - apply smem_union_r, smem_union_r, smem_single.
    - apply smem_union_r, smem_union_l, smem_single.
    - apply smem_union_l, smem_union_r, smem_single.
    - apply smem_union_l, smem_union_l, smem_single.
  Qed.
  Lemma smem_sub s X Y : ssub X Y = true -> smem s X = true -> smem s Y = true.
  Proof.
    unfold ssub. rewrite !andb_true_iff. intros [[[A B] C] D]. destruct s as [[|] [|]]; cbn [smem]; intro H; rewrite H in *; cbn in *; assumption.
  Qed.
  Lemma smem_stop s : smem s stop = true.
  Proof. destruct s as [[|] [|]]; reflexivity. Qed.

  Scheme mrun1_mut := Minimality for mrun1 Sort Prop
    with mruns_mut := Minimality for mruns Sort Prop
    with mloops_mut := Minimality for mloops Sort Prop.
  Combined Scheme mrun_mutind from mrun1_mut, mruns_mut, mloops_mut.

  Lemma alts_spec_in b bs X s : In b bs -> smem s (post b X) = true -> smem s (alts_spec bs X) = true.
  Proof.
    induction bs as [|c r IH]; [intros []|]. intros [->|I] H; cbn [alts_spec]; [apply smem_union_l; exact H|apply smem_union_r, IH; assumption].
  Qed.

  Theorem post_sound :
    (forall e s o, mrun1 trig tg e s o -> forall s' X, o = Done2 s' -> smem s X = true -> smem s' (post1 e X) = true) /\
    (forall l s o, mruns trig tg l s o -> forall s' X, o = Done2 s' -> smem s X = true -> smem s' (post l X) = true) /\
    (forall body s o, mloops trig tg body s o -> forall s' X, o = Done2 s' -> ssub (post body X) X = true -> smem s X = true -> smem s' X = true).
  Proof.
    apply mrun_mutind.
    - intros; discriminate.
    - intros l s s' X E H. injection E as <-. exact H.
    - intros w l s s' X E H. injection E as <-. cbn [MustHit.post1]. apply smem_image. exact H.
    - intros; discriminate.
    - intros w l s s' X E H. injection E as <-. cbn [MustHit.post1]. apply smem_image. exact H.
    - intros bs b s o I _ IH s' X E H. destruct bs as [|b0 bs']; [destruct I|]. rewrite post1_alt.
      eapply alts_spec_in; [exact I|]. eapply IH; eassumption.
    - intros s s' X E H. injection E as <-. exact H.
    - intros body s o _ IH s' X E H. rewrite post1_loop. cbn zeta.
      set (X1 := sunion X (post body X)). set (X2 := sunion X1 (post body X1)). set (X3 := sunion X2 (post body X2)).
      destruct (ssub (post body X3) X3) eqn:C; [|apply smem_stop].
      eapply IH; [exact E|exact C|]. unfold X3, X2, X1. apply smem_union_l, smem_union_l, smem_union_l. exact H.
    - intros s s' X E H. injection E as <-. exact H.
    - intros; discriminate.
    - intros e rest s s1 o _ IH1 _ IH2 s' X E H. cbn [MustHit.post]. eapply IH2; [exact E|]. eapply IH1; [reflexivity|exact H].
    - intros body s s' X E C H. injection E as <-. exact H.
    - intros; discriminate.
    - intros body s s1 o _ IH1 _ IH2 s' X E C H. eapply IH2; [exact E|exact C|].
      eapply smem_sub; [exact C|]. eapply IH1; [reflexivity|exact H].
  Qed.

  Theorem must_hit_chk_sound evs : must_hit_chk trig tg evs = true -> must_hit trig tg evs.
  Proof.
    unfold must_hit_chk, must_hit. intros C s R Ht. destruct post_sound as (_ & PS & _).
    pose proof (PS evs (false, false) (Done2 s) R s (ssingle (false, false)) eq_refl (smem_single _)) as M.
    destruct s as [t h]. cbn [fst snd] in *. subst t. destruct h; [reflexivity|]. cbn [smem] in M. rewrite M in C. discriminate.
  Qed.
End P.
