(* "A re-init travels alone": ProposalBundle::length and filter_out_reinit_if_other_proposals as
   translated from the source (Gen/ReinitGen.v) are the stage of the filter model
   (Model/Filter.v stage_reinit) that C10's theorems are about. *)
From Coq Require Import NArith Arith List Bool Lia.
From MlsV Require Import Filter ReinitGen.
Import ListNotations.

(* every proposal is of exactly one kind: the translated sum of the counts is the number of proposals *)
Theorem gen_bundle_length_counts_every_proposal l : gen_bundle_length (counts_of l) = length l.
Proof.
  unfold gen_bundle_length, counts_of, count_kind. cbn [n_psk n_extinit n_custom n_update n_add n_remove n_reinit n_gce].
  induction l as [|p l IH]; [reflexivity|]. cbn [filter]. destruct (p_body p); cbn [length]; lia.
Qed.

Lemma n_reinit_is_filter l : n_reinit (counts_of l) = length (filter is_reinit l).
Proof.
  reflexivity.
Qed.

Lemma filter_length_le {A} (f : A -> bool) l : length (filter f l) <= length l.
Proof. induction l as [|x l IH]; cbn [filter length]; [lia|]. destruct (f x); cbn [length]; lia. Qed.

Theorem gen_reinit_rule_is_model st l :
  stage_reinit st l =
  apply_reinit_verdict
    (gen_reinit_rule (match st with IgnoreByRef => true | IgnoreNone => false end)
                     (existsb (fun p => negb (p_by_ref p)) (filter is_reinit l))
                     (gen_bundle_length (counts_of l)) (n_reinit (counts_of l))) l.
Proof.
  rewrite gen_bundle_length_counts_every_proposal, n_reinit_is_filter.
  unfold stage_reinit, gen_reinit_rule.
  pose proof (filter_length_le is_reinit l) as Le.
  destruct (filter is_reinit l) as [|r re] eqn:E.
  - reflexivity.
  - cbn [length Nat.eqb negb andb]. destruct (Nat.eqb (length l) 1) eqn:L1; cbn [negb apply_reinit_verdict]; [reflexivity|].
    destruct (existsb (fun p => negb (p_by_ref p)) (r :: re)); cbn [orb]; [reflexivity|].
    destruct st; cbn [negb]; [|reflexivity].
    cbn [length]. destruct (Nat.ltb (S (length re)) (length l)); reflexivity.
Qed.
