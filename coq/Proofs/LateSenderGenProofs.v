(* The late-sender rule as translated from group/mod.rs and group/util.rs (Gen/LateSenderGen.v) is
   the decision function the theorem of C19 is about (late_sender_ok), applied to the keys that
   insert_past_epoch archives: one entry per leaf slot, so the index of a sender means the same
   leaf in the archived list and in the tree. *)
From Coq Require Import NArith Arith List Bool Lia.
From MlsV Require Import StorageProofs LateSenderGen.
Import ListNotations.
Local Open Scope N_scope.

Lemma nth_error_default {A} (l : list (option A)) i :
  match nth_error l i with Some x => x | None => None end = nth i l None.
Proof. revert i; induction l as [|x l IH]; intros [|i]; cbn [nth_error nth]; auto. Qed.

Theorem gen_late_sender_ok_is_model old cur i :
  gen_late_sender_ok old cur i = late_sender_ok old cur i.
Proof.
  unfold gen_late_sender_ok, late_sender_ok. rewrite !nth_error_default.
  destruct (nth i old None), (nth i cur None); cbn [okey_eqb negb]; try reflexivity.
  destruct (n =? n0); reflexivity.
Qed.

(* the archive keeps the positions: entry i is the key of leaf slot i, None for a blank slot *)
Theorem gen_archived_keys_keep_positions leaves i :
  nth i (gen_archived_keys leaves) None = nth i leaves None /\ length (gen_archived_keys leaves) = length leaves.
Proof.
  unfold gen_archived_keys. split; [|apply map_length].
  revert i; induction leaves as [|l r IH]; intros [|i]; cbn [map nth]; try reflexivity.
  - destruct l; reflexivity.
  - apply IH.
Qed.

(* together: a late message of the member at leaf i is admitted exactly when leaf i holds the same
   signature key now as in the tree of the epoch it was sent in *)
Theorem translated_late_sender_rule old_leaves cur_leaves i k :
  nth i old_leaves None = Some k ->
  (gen_late_sender_ok (gen_archived_keys old_leaves) cur_leaves i = true <-> nth i cur_leaves None = Some k).
Proof.
  intro E. rewrite gen_late_sender_ok_is_model. apply late_sender_rule.
  rewrite (proj1 (gen_archived_keys_keep_positions old_leaves i)). exact E.
Qed.
