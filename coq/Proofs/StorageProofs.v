(* The two storage providers expose the same stored history for every sequence of writes the
   repository can issue; the retention window is exactly the last R epochs; a crash returns
   the last written state; a failing storage call does not corrupt the repository. *)
From Coq Require Import NArith Arith List Bool Lia.
From MlsV Require Import Storage.
Import ListNotations.
Local Open Scope N_scope.

Fixpoint contig_from (a : N) (l : list rec) : Prop :=
  match l with
  | [] => True
  | (i, _) :: t => i = a /\ contig_from (a + 1) t
  end.
Definition contig (l : list rec) : Prop :=
  match l with [] => True | (a, _) :: _ => contig_from a l end.

Lemma contig_from_app a l1 l2 :
  contig_from a (l1 ++ l2) <-> contig_from a l1 /\ contig_from (a + N.of_nat (length l1)) l2.
Proof.
  revert a. induction l1 as [|[i d] t IH]; intro a; cbn [app contig_from length].
  - rewrite N.add_0_r. tauto.
  - rewrite IH. replace (a + 1 + N.of_nat (length t)) with (a + N.of_nat (S (length t))) by lia. tauto.
Qed.

Lemma contig_from_ids a l : contig_from a l -> forall r, In r l -> a <= fst r < a + N.of_nat (length l).
Proof.
  revert a. induction l as [|[i d] t IH]; intros a C r I; [destruct I|].
  destruct C as [-> C]. cbn [length]. destruct I as [<-|I]; cbn [fst]; [lia|].
  specialize (IH _ C r I). lia.
Qed.

Lemma contig_from_last a l : contig_from a l -> l <> [] -> last_id l = Some (a + N.of_nat (length l) - 1).
Proof.
  intros C Ne. destruct (exists_last Ne) as (l' & [i d] & ->).
  apply contig_from_app in C. destruct C as [_ C]. destruct C as [-> _].
  unfold last_id. rewrite rev_app_distr. cbn. rewrite app_length. cbn. f_equal. lia.
Qed.

(* ---- lookups agree on contiguous lists ---- *)
Lemma nth_contig a l : contig_from a l -> forall k i d, nth_error l k = Some (i, d) -> i = a + N.of_nat k.
Proof.
  revert a. induction l as [|[i0 d0] t IH]; intros a C k i d; [destruct k; discriminate|].
  destruct C as [-> C]. destruct k as [|k]; cbn [nth_error].
  - intro E. inversion E; subst. lia.
  - intro E. apply (IH _ C) in E. lia.
Qed.

Lemma find_contig a l : contig_from a l -> forall id,
  find (fun r => fst r =? id) l = if (a <=? id) then nth_error l (N.to_nat (id - a)) else None.
Proof.
  revert a. induction l as [|[i0 d0] t IH]; intros a C id; cbn [find].
  - destruct (a <=? id); [destruct (N.to_nat (id - a))|]; reflexivity.
  - destruct C as [-> C]. cbn [fst]. destruct (N.eqb_spec a id) as [->|Ne].
    + rewrite N.leb_refl, N.sub_diag. reflexivity.
    + rewrite (IH _ C). destruct (N.leb_spec a id), (N.leb_spec (a + 1) id); try lia; [|reflexivity].
      replace (N.to_nat (id - a)) with (S (N.to_nat (id - (a + 1)))) by lia. reflexivity.
Qed.

Lemma epoch_agree s : contig (g_recs s) -> forall id, mem_epoch s id = sql_epoch s id.
Proof.
  intros C id. unfold mem_epoch, sql_epoch, mem_index. destruct (g_recs s) as [|[a d] t] eqn:E; [reflexivity|].
  cbn [contig] in C. rewrite (find_contig a _ C). destruct (N.ltb_spec id a), (N.leb_spec a id); try lia; reflexivity.
Qed.

Lemma max_fold l : forall acc, fold_left (fun acc (r : rec) => match acc with None => Some (fst r) | Some m => Some (N.max m (fst r)) end) l acc
  = match acc, l with
    | None, [] => None
    | Some m, _ => Some (fold_left (fun m (r : rec) => N.max m (fst r)) l m)
    | None, r :: t => Some (fold_left (fun m (r : rec) => N.max m (fst r)) t (fst r))
    end.
Proof.
  induction l as [|r t IH]; intro acc; cbn [fold_left]; [destruct acc; reflexivity|].
  destruct acc as [m|]; rewrite IH; reflexivity.
Qed.

Lemma max_contig a l : contig_from a l -> forall m, m <= a ->
  fold_left (fun m (r : rec) => N.max m (fst r)) l m = match l with [] => m | _ => a + N.of_nat (length l) - 1 end.
Proof.
  revert a. induction l as [|[i d] t IH]; intros a C m Hm; [reflexivity|].
  destruct C as [-> C]. cbn [fold_left fst]. rewrite (IH _ C) by lia.
  destruct t; cbn [length]; lia.
Qed.

Lemma max_agree s : contig (g_recs s) -> mem_max s = sql_max s.
Proof.
  intro C. unfold mem_max, sql_max. rewrite max_fold. destruct (g_recs s) as [|[a d] t] eqn:E; [reflexivity|].
  cbn [contig] in C. rewrite (contig_from_last a _ C) by discriminate. destruct C as [_ C].
  cbn [fst]. rewrite (max_contig (a + 1) t C) by lia. f_equal. destruct t; cbn [length]; lia.
Qed.

(* ---- one write: both providers produce the same record list ---- *)
Lemma sql_inserts_contig ins : forall l a,
  contig_from a (l ++ ins) -> (forall r, In r ins -> fst r <= i64_max) -> sql_inserts l ins = SOk (l ++ ins).
Proof.
  induction ins as [|r t IH]; intros l a C B; cbn [sql_inserts]; [rewrite app_nil_r; reflexivity|].
  destruct (N.ltb_spec i64_max (fst r)) as [O|_]; [specialize (B r (or_introl eq_refl)); lia|].
  assert (Hn : has_id l (fst r) = false).
  { apply contig_from_app in C. destruct C as [C1 C2]. destruct r as [i d]. destruct C2 as [-> _]. cbn [fst].
    unfold has_id. apply not_true_is_false. intro Hx. apply existsb_exists in Hx. destruct Hx as (x & I & E).
    apply N.eqb_eq in E. pose proof (contig_from_ids _ _ C1 x I). lia. }
  rewrite Hn. replace (l ++ r :: t) with ((l ++ [r]) ++ t) in * by (rewrite <- app_assoc; reflexivity).
  apply (IH _ a); [exact C|]. intros x I. apply B. right. exact I.
Qed.

Lemma set_nth_map l : forall a i r, contig_from a l -> fst r = a + N.of_nat i -> (i < length l)%nat ->
  set_nth l i r = map (fun x => if fst x =? fst r then r else x) l.
Proof.
  induction l as [|[i0 d0] t IH]; intros a i r C E L; [cbn in L; lia|].
  destruct C as [-> C]. destruct i as [|i]; cbn [set_nth map fst].
  - replace (fst r) with a by lia. rewrite N.eqb_refl. f_equal.
    rewrite <- (map_id t) at 1. apply map_ext_in. intros x I. pose proof (contig_from_ids _ _ C x I).
    destruct (N.eqb_spec (fst x) a); [lia|reflexivity].
  - destruct (N.eqb_spec a (fst r)); [lia|]. f_equal. apply (IH (a + 1)); [exact C|lia|cbn in L; lia].
Qed.

Lemma update_agree l r : contig l -> mem_update l r = sql_update l r.
Proof.
  intro C. unfold mem_update, sql_update, mem_index. destruct l as [|[a d] t] eqn:El; [reflexivity|].
  rewrite <- El in *. assert (Ca : contig_from a l) by (subst l; exact C).
  destruct (N.ltb_spec (fst r) a) as [Lt|Ge].
  - rewrite <- (map_id l) at 1. apply map_ext_in. intros x I. pose proof (contig_from_ids _ _ Ca x I).
    destruct (N.eqb_spec (fst x) (fst r)); [lia|reflexivity].
  - destruct (Nat.ltb_spec (N.to_nat (fst r - a)) (length l)) as [Li|Li].
    + apply (set_nth_map l a); [exact Ca|lia|exact Li].
    + rewrite <- (map_id l) at 1. apply map_ext_in. intros x I. pose proof (contig_from_ids _ _ Ca x I).
      destruct (N.eqb_spec (fst x) (fst r)); [lia|reflexivity].
Qed.

Lemma sql_update_ids l r : map fst (sql_update l r) = map fst l.
Proof.
  unfold sql_update. rewrite map_map. apply map_ext_in. intros x _. destruct (N.eqb_spec (fst x) (fst r)) as [E|]; [symmetry; exact E|reflexivity].
Qed.

Lemma contig_from_ext a l1 l2 : map fst l1 = map fst l2 -> contig_from a l1 -> contig_from a l2.
Proof.
  revert a l2. induction l1 as [|[i d] t IH]; intros a l2 E C; destruct l2 as [|[i2 d2] t2]; try discriminate; [exact I|].
  cbn [map fst] in E. inversion E; subst. destruct C as [-> C]. split; [reflexivity|]. eapply IH; eassumption.
Qed.

Lemma updates_agree upd : forall l a, contig_from a l ->
  fold_left mem_update upd l = fold_left sql_update upd l /\ contig_from a (fold_left sql_update upd l)
  /\ length (fold_left sql_update upd l) = length l.
Proof.
  induction upd as [|r t IH]; intros l a C; cbn [fold_left]; [repeat split; assumption|].
  assert (Cl : contig l) by (destruct l as [|[i d] t']; [exact I|destruct C as [-> C']; split; [reflexivity|exact C']]).
  rewrite (update_agree l r Cl).
  assert (C2 : contig_from a (sql_update l r)) by (eapply contig_from_ext; [symmetry; apply sql_update_ids|exact C]).
  destruct (IH _ a C2) as (E1 & E2 & E3). split; [exact E1|]. split; [exact E2|].
  rewrite E3. unfold sql_update. apply map_length.
Qed.

Lemma skipn_contig k : forall a l, contig_from a l -> contig_from (a + N.of_nat (Nat.min k (length l))) (skipn k l).
Proof.
  induction k as [|k IH]; intros a l C; cbn [skipn Nat.min].
  - rewrite N.add_0_r. exact C.
  - destruct l as [|[i d] t]; cbn [length Nat.min]; [rewrite N.add_0_r; exact I|].
    destruct C as [-> C]. specialize (IH _ _ C).
    replace (a + N.of_nat (S (Nat.min k (length t)))) with (a + 1 + N.of_nat (Nat.min k (length t))) by lia. exact IH.
Qed.

Lemma filter_skipn l : forall a k, contig_from a l -> (k <= length l)%nat ->
  filter (fun r => negb (fst r <? a + N.of_nat k)) l = skipn k l.
Proof.
  induction l as [|[i d] t IH]; intros a k C L; [destruct k; reflexivity|].
  destruct C as [-> C]. cbn [filter fst]. destruct k as [|k]; cbn [skipn].
  - rewrite N.add_0_r, N.ltb_irrefl. cbn [negb]. f_equal.
    rewrite <- (IH (a + 1) 0%nat C ltac:(lia)) at 2. apply filter_ext_in. intros x I.
    pose proof (contig_from_ids _ _ C x I). destruct (N.ltb_spec (fst x) a), (N.ltb_spec (fst x) (a + 1 + N.of_nat 0)); try lia; reflexivity.
  - destruct (N.ltb_spec a (a + N.of_nat (S k))); [|lia]. cbn [negb].
    rewrite <- (IH (a + 1) k C ltac:(cbn in L; lia)). apply filter_ext. intro x.
    replace (a + 1 + N.of_nat k) with (a + N.of_nat (S k)) by lia. reflexivity.
Qed.

(* the invariant of a stored group: contiguous ids, at most R records *)
Definition store_ok (R : nat) (s : gstore) : Prop :=
  contig (g_recs s) /\ (length (g_recs s) <= R)%nat.

Theorem write_agree R s snap ins upd :
  (0 < R)%nat -> store_ok R s -> contig (g_recs s ++ ins) ->
  (forall r, In r ins -> fst r <= i64_max) -> (forall r, In r upd -> fst r <= i64_max) ->
  exists s', mem_write R s snap ins upd = SOk s' /\ sql_write (N.of_nat R) s snap ins upd = SOk s' /\ store_ok R s'.
Proof.
  intros HR [Cs Ls] Ca Bi Bu. unfold mem_write, sql_write.
  set (l0 := g_recs s ++ ins) in *.
  destruct l0 as [|[a d0] t0] eqn:E0.
  - (* nothing stored, nothing inserted *)
    apply app_eq_nil in E0. destruct E0 as [Es Ei]. rewrite Es, Ei in *. cbn [sql_inserts app].
    replace (existsb (fun r => i64_max <? fst r) upd) with false
      by (symmetry; apply not_true_is_false; intro X; apply existsb_exists in X; destruct X as (x & I & O); apply N.ltb_lt in O; specialize (Bu x I); lia).
    assert (Eu : forall u, fold_left mem_update u [] = [] /\ fold_left sql_update u [] = []) by (induction u; cbn; tauto).
    destruct (Eu upd) as [E1 E2]. rewrite E1, E2. cbn. eexists. repeat split; cbn; try reflexivity; lia.
  - rewrite <- E0 in *. assert (Cf : contig_from a l0) by (rewrite E0 in *; exact Ca).
    rewrite (sql_inserts_contig ins (g_recs s) a Cf Bi).
    replace (existsb (fun r => i64_max <? fst r) upd) with false
      by (symmetry; apply not_true_is_false; intro X; apply existsb_exists in X; destruct X as (x & I & O); apply N.ltb_lt in O; specialize (Bu x I); lia).
    fold l0. destruct (updates_agree upd l0 a Cf) as (Eu & Cu & Lu). rewrite Eu.
    set (l2 := fold_left sql_update upd l0) in *.
    assert (Hlen : length l0 = (length (g_recs s) + length ins)%nat) by (unfold l0; apply app_length).
    (* the trimmed list *)
    assert (T : trim R l2 = match last_id ins with
                            | Some m => if N.of_nat R <=? m then filter (fun r => negb (fst r <=? m - N.of_nat R)) l2 else l2
                            | None => l2 end).
    { unfold trim. destruct (match ins with [] => true | _ => false end) eqn:Em.
      - assert (Ei : ins = []) by (destruct ins; [reflexivity|discriminate]). rewrite Ei.
        cbn [last_id rev]. unfold l0 in Lu. rewrite Ei, app_nil_r in Lu. replace (length l2 - R)%nat with 0%nat by lia. reflexivity.
      - assert (Ne : ins <> []) by (destruct ins; [discriminate|discriminate]).
        assert (Li : last_id ins = Some (a + N.of_nat (length l0) - 1)).
        { pose proof Cf as Cf2. apply contig_from_app in Cf2. destruct Cf2 as [_ Ci]. rewrite (contig_from_last _ _ Ci Ne).
          f_equal. lia. }
        rewrite Li. set (m := a + N.of_nat (length l0) - 1).
        assert (Hl0 : (0 < length l0)%nat) by (rewrite E0; cbn; lia).
        destruct (N.leb_spec (N.of_nat R) m) as [Le|Gt].
        + destruct (Nat.le_gt_cases (length l2) R) as [Small|Big].
          * replace (length l2 - R)%nat with 0%nat by lia.
            rewrite <- (filter_skipn l2 a 0 Cu ltac:(lia)). apply filter_ext_in. intros x I.
            pose proof (contig_from_ids _ _ Cu x I). rewrite N.add_0_r.
            destruct (N.ltb_spec (fst x) a), (N.leb_spec (fst x) (m - N.of_nat R)); try lia; reflexivity.
          * rewrite <- (filter_skipn l2 a (length l2 - R) Cu ltac:(lia)). apply filter_ext. intro x.
            destruct (N.ltb_spec (fst x) (a + N.of_nat (length l2 - R))), (N.leb_spec (fst x) (m - N.of_nat R)); try lia; reflexivity.
        + replace (length l2 - R)%nat with 0%nat by lia. reflexivity. }
    eexists. split; [reflexivity|]. split; [rewrite T; reflexivity|].
    unfold store_ok; cbn [g_recs]. split.
    + unfold trim. pose proof (skipn_contig (length l2 - R) a l2 Cu) as Sk.
      destruct (skipn (length l2 - R) l2) as [|[i d] t] eqn:Es; [exact I|]. destruct Sk as [-> Sk]. split; [reflexivity|exact Sk].
    + unfold trim. rewrite skipn_length. lia.
Qed.

(* the retention window: after a write the store holds exactly the last R ids *)
Theorem window_exact R s snap ins upd s' a :
  (0 < R)%nat -> contig_from a (g_recs s ++ ins) -> g_recs s ++ ins <> [] ->
  mem_write R s snap ins upd = SOk s' ->
  let m := a + N.of_nat (length (g_recs s ++ ins)) - 1 in
  forall id, mem_epoch s' id <> None <-> (a <= id /\ m < id + N.of_nat R /\ id <= m).
Proof.
  intros HR C Ne W m id. unfold mem_write in W. inversion W; subst s'; clear W.
  destruct (updates_agree upd (g_recs s ++ ins) a C) as (Eu & Cu & Lu). rewrite Eu.
  set (l2 := fold_left sql_update upd (g_recs s ++ ins)) in *.
  unfold trim. pose proof (skipn_contig (length l2 - R) a l2 Cu) as Sk.
  set (k := (length l2 - R)%nat) in *. set (l3 := skipn k l2) in *.
  assert (L3 : length l3 = (length l2 - k)%nat) by (unfold l3; apply skipn_length).
  assert (Hl : (0 < length l2)%nat) by (rewrite Lu; destruct (g_recs s ++ ins); [congruence|cbn; lia]).
  replace (Nat.min k (length l2)) with k in Sk by lia.
  unfold mem_epoch, mem_index; cbn [g_recs]. fold l3.
  destruct l3 as [|[f d] t] eqn:E3; [cbn in L3; lia|]. rewrite <- E3 in *.
  assert (Ef : f = a + N.of_nat k) by (rewrite E3 in Sk; destruct Sk; assumption). subst f.
  unfold m. rewrite <- Lu.
  destruct (N.ltb_spec id (a + N.of_nat k)) as [Lt|Ge].
  - split; [congruence|]. intros (A1 & A2 & A3). exfalso. unfold k in *. lia.
  - destruct (nth_error l3 (N.to_nat (id - (a + N.of_nat k)))) as [[i d']|] eqn:En.
    + split; [intros _|congruence]. assert (Lk : (N.to_nat (id - (a + N.of_nat k)) < length l3)%nat) by (apply nth_error_Some; congruence).
      unfold k in *. lia.
    + split; [congruence|]. intros (A1 & A2 & A3). apply nth_error_None in En. unfold k in *. lia.
Qed.

(* ---- crash: whatever happens after a write, loading returns the last written state ---- *)
Inductive op := OInsert (e : rec) | OGet (id : N) | OWrite (snap : N).

Definition apply_op (b : backend) (r : repo) (o : op) : repo * option N :=
  match o with
  | OInsert e => (match fst (repo_insert b r e []) with SOk r' => r' | SErr _ => r end, None)
  | OGet id => (match fst (repo_get b r id []) with SOk (_, r') => r' | SErr _ => r end, None)
  | OWrite snap => match fst (repo_write b r snap false []) with
                   | SOk r' => (r', Some snap)
                   | SErr _ => (r, None)
                   end
  end.

Fixpoint run_ops (b : backend) (r : repo) (last : option N) (ops : list op) : repo * option N :=
  match ops with
  | [] => (r, last)
  | o :: t => let '(r', w) := apply_op b r o in
              run_ops b r' (match w with Some s => Some s | None => last end) t
  end.

Lemma write_sets_snap b s snap ins upd s' : st_write b s snap ins upd = SOk s' -> g_snap s' = Some snap.
Proof.
  destruct b as [R|R]; cbn [st_write]; unfold mem_write, sql_write.
  - intro E. inversion E. reflexivity.
  - destruct (sql_inserts _ _); [|discriminate]. destruct (existsb _ _); [discriminate|]. intro E. inversion E. reflexivity.
Qed.

Lemma repo_get_store b r id f x r' f' : repo_get b r id f = (SOk (x, r'), f') -> store r' = store r.
Proof.
  unfold repo_get.
  destruct (pend_ins r) as [|[m d] t].
  - match goal with |- context [find ?F ?L] => destruct (find F L) as [[i d]|] end.
    + intro E. inversion E; subst. reflexivity.
    + destruct (next_fault f) as [fail f1]. destruct fail; [discriminate|].
      destruct (st_epoch b (store r) id); intro E; inversion E; subst; reflexivity.
  - destruct (m <=? id).
    + intro E. inversion E; subst. reflexivity.
    + match goal with |- context [find ?F ?L] => destruct (find F L) as [[i d']|] end.
      * intro E. inversion E; subst. reflexivity.
      * destruct (next_fault f) as [fail f1]. destruct fail; [discriminate|].
        destruct (st_epoch b (store r) id); intro E; inversion E; subst; reflexivity.
Qed.

Theorem crash_returns_last_write b ops : forall r last,
  repo_load r = last -> repo_load (fst (run_ops b r last ops)) = snd (run_ops b r last ops).
Proof.
  induction ops as [|o t IH]; intros r last E; cbn [run_ops fst snd]; [exact E|].
  destruct (apply_op b r o) as [r' w] eqn:A. apply IH. subst last.
  destruct o as [e|id|snap]; cbn [apply_op] in A.
  - inversion A; subst; clear A. unfold repo_insert. destruct (last_id (pend_ins r)); cbn.
    + destruct (fst e =? n + 1); cbn; reflexivity.
    + destruct (st_max b (store r)); [destruct (fst e =? n + 1)|]; cbn; reflexivity.
  - inversion A; subst; clear A. unfold repo_load.
    destruct (repo_get b r id []) as [[[x r1]|e] f1] eqn:G; cbn [fst]; [|reflexivity].
    rewrite (repo_get_store _ _ _ _ _ _ _ G). reflexivity.
  - unfold repo_write in A. cbn [next_fault] in A.
    destruct (st_write b (store r) snap (pend_ins r) (pend_upd r)) as [s'|e] eqn:W; cbn in A; inversion A; subst; [|reflexivity].
    unfold repo_load; cbn [store]. eapply write_sets_snap. exact W.
Qed.

(* ---- faults ---- *)
(* a failing store write leaves the repository exactly as it was *)
Theorem write_fault_clean b r snap kp f :
  fst (repo_write b r snap kp (true :: f)) = SErr EStorageFault /\ repo_after_write b r snap kp (true :: f) = r.
Proof. unfold repo_write, repo_after_write. cbn [next_fault]. split; reflexivity. Qed.

(* a failing key package delete comes after the state has been stored and the pending epochs
   forgotten: the retry writes nothing twice and ends in the state of the fault-free run *)
Theorem kp_fault_then_retry b r snap s1 :
  st_write b (store r) snap (pend_ins r) (pend_upd r) = SOk s1 ->
  let r1 := repo_after_write b r snap true [false; true] in
  fst (repo_write b r snap true [false; true]) = SErr EKeyPackageFault
  /\ pend_ins r1 = [] /\ pend_upd r1 = [] /\ store r1 = s1
  /\ fst (repo_write b r snap true []) = SOk r1.
Proof.
  intro W. unfold repo_write, repo_after_write. cbn [next_fault]. rewrite W. cbn. repeat split; reflexivity.
Qed.

Lemma mem_epoch_above s a id :
  contig_from a (g_recs s) -> a + N.of_nat (length (g_recs s)) <= id -> mem_epoch s id = None.
Proof.
  intros C L. unfold mem_epoch, mem_index. revert C L. destruct (g_recs s) as [|[f d] t]; [reflexivity|]. intros C L.
  destruct C as [-> C]. destruct (N.ltb_spec id a); [reflexivity|]. cbn [length] in L.
  assert (X : (S (length t) <= N.to_nat (id - a))%nat) by lia.
  apply (proj2 (nth_error_None ((a, d) :: t) (N.to_nat (id - a)))) in X. rewrite X. reflexivity.
Qed.

(* ================= the repository: contiguity and the exact availability window ========= *)
Section Repo.
  Variable R : nat.
  Hypothesis HR : (0 < R)%nat.
  Let b := Mem R.

  Definition ids_ok (l : list rec) : Prop := forall x, In x l -> fst x <= i64_max.

  Definition repo_inv (r : repo) : Prop :=
    contig (g_recs (store r) ++ pend_ins r) /\ store_ok R (store r)
    /\ (forall x, In x (pend_upd r) -> mem_epoch (store r) (fst x) <> None).

  Lemma contig_app_l l1 l2 : contig (l1 ++ l2) -> contig l1.
  Proof.
    destruct l1 as [|[a d] t]; [intros; exact I|]. cbn [app contig]. intro C.
    change ((a, d) :: t ++ l2) with (((a, d) :: t) ++ l2) in C. apply contig_from_app in C. tauto.
  Qed.

  Lemma contig_snoc l e : contig l -> (match last_id l with Some m => fst e = m + 1 | None => True end) -> contig (l ++ [e]).
  Proof.
    destruct l as [|[a d] t]; [intros; destruct e; cbn; tauto|]. cbn [contig]. intros C L.
    change (((a, d) :: t) ++ [e]) with (((a, d) :: t) ++ [e]). cbn [app contig].
    change ((a, d) :: t ++ [e]) with (((a, d) :: t) ++ [e]). apply contig_from_app. split; [exact C|].
    rewrite (contig_from_last a _ C) in L by discriminate. destruct e as [i d']. cbn [fst] in L. cbn [contig_from].
    split; [|exact I]. cbn [length] in *. lia.
  Qed.

  Lemma last_id_app l1 l2 : l2 <> [] -> last_id (l1 ++ l2) = last_id l2.
  Proof.
    intro Ne. destruct (exists_last Ne) as (l' & x & ->). unfold last_id.
    rewrite app_assoc, !rev_app_distr. reflexivity.
  Qed.

  Lemma mem_max_last s : mem_max s = last_id (g_recs s).
  Proof. reflexivity. Qed.

  (* insert keeps the ids contiguous: what the in-memory index arithmetic and the SQLite
     id-range deletion both rely on *)
  Theorem repo_insert_inv r e r' f f' :
    repo_inv r -> repo_insert b r e f = (SOk r', f') -> repo_inv r'.
  Proof.
    intros (C & S & U). unfold repo_insert.
    destruct (last_id (pend_ins r)) as [m|] eqn:L.
    - destruct (N.eqb_spec (fst e) (m + 1)); [|discriminate]. intro E. inversion E; subst; clear E.
      unfold repo_inv; cbn [pend_ins pend_upd store]. split; [|split; assumption].
      rewrite app_assoc. apply contig_snoc; [exact C|].
      assert (Ne : pend_ins r <> []) by (intro X; rewrite X in L; discriminate).
      rewrite (last_id_app _ _ Ne), L. assumption.
    - assert (Ep : pend_ins r = []).
      { destruct (pend_ins r) as [|x t] eqn:Ex; [reflexivity|]. exfalso.
        assert (Ne : x :: t <> []) by discriminate. destruct (exists_last Ne) as (l' & y & Ey). rewrite Ey in L.
        unfold last_id in L. rewrite rev_app_distr in L. destruct y. discriminate. }
      destruct (next_fault f) as [fail f1]. destruct fail; [discriminate|].
      cbn [st_max b]. rewrite mem_max_last. rewrite Ep in *. rewrite app_nil_r in C.
      destruct (last_id (g_recs (store r))) as [m|] eqn:Lm.
      + destruct (N.eqb_spec (fst e) (m + 1)); [|discriminate]. intro E. inversion E; subst; clear E.
        unfold repo_inv; cbn [pend_ins pend_upd store app]. split; [|split; assumption].
        apply contig_snoc; [exact C|]. rewrite Lm. assumption.
      + intro E. inversion E; subst; clear E.
        unfold repo_inv; cbn [pend_ins pend_upd store app]. split; [|split; assumption].
        apply contig_snoc; [exact C|]. rewrite Lm. exact I.
  Qed.

  (* exactly which epochs a member can still read: those entered since the last write and
     those the provider retained at the last write *)
  Theorem repo_get_available r id :
    repo_inv r ->
    (exists d r', fst (repo_get b r id []) = SOk (Some d, r'))
    <-> (exists d, In (id, d) (pend_ins r)) \/ mem_epoch (store r) id <> None.
  Proof.
    intros (C & [Cs Ls] & U). unfold repo_get. cbn [next_fault].
    assert (FromStore : forall (P : Prop), (P -> False) ->
      ((exists d r', fst (match find (fun x : rec => fst x =? id) (pend_upd r) with
                          | Some (_, d0) => (SOk (Some d0, r), @nil bool)
                          | None => match st_epoch b (store r) id with
                                    | Some d0 => (SOk (Some d0, {| pend_ins := pend_ins r; pend_upd := pend_upd r ++ [(id, d0)]; store := store r |}), @nil bool)
                                    | None => (SOk (None, r), @nil bool)
                                    end
                          end) = SOk (Some d, r'))
       <-> P \/ mem_epoch (store r) id <> None)).
    { intros P NP. destruct (find (fun x : rec => fst x =? id) (pend_upd r)) as [[i d]|] eqn:F.
      - apply find_some in F. destruct F as [I E]. apply N.eqb_eq in E. cbn [fst] in E. subst i. cbn [fst].
        split; [intros _; right; apply (U _ I)|intros _; eexists; eexists; reflexivity].
      - cbn [st_epoch b]. destruct (mem_epoch (store r) id) as [d|] eqn:M; cbn [fst].
        + split; [intros _; right; congruence|intros _; eexists; eexists; reflexivity].
        + split; [intros (d & r' & E); discriminate|intros [X|X]; [contradiction|congruence]]. }
    destruct (pend_ins r) as [|[m d0] t] eqn:Ep.
    - apply FromStore. intros (d & []).
    - rewrite <- Ep in *.
      assert (Cp : contig_from m (pend_ins r)).
      { destruct (g_recs (store r)) as [|[a da] ta] eqn:Eg; cbn [app] in C.
        - rewrite Ep in *. exact C.
        - change ((a, da) :: ta ++ pend_ins r) with (((a, da) :: ta) ++ pend_ins r) in C. cbn [contig] in C.
          change ((a, da) :: ta ++ pend_ins r) with (((a, da) :: ta) ++ pend_ins r) in C.
          apply contig_from_app in C. destruct C as [_ C]. rewrite Ep in C. destruct C as [Em Ct]. rewrite Ep. split; [reflexivity|]. rewrite Em. exact Ct. }
      destruct (N.leb_spec m id) as [Le|Gt].
      + destruct (nth_error (pend_ins r) (N.to_nat (id - m))) as [[i d]|] eqn:Nt; cbn [fst].
        * pose proof (nth_contig _ _ Cp _ _ _ Nt). split; [intros _; left; exists d; replace id with i by lia; eapply nth_error_In; exact Nt|intros _; eexists; eexists; reflexivity].
        * split; [intros (d & r' & E); discriminate|].
          intros [[d I]|X].
          -- exfalso. pose proof (contig_from_ids _ _ Cp _ I) as Hb. cbn [fst] in Hb. apply nth_error_None in Nt. lia.
          -- exfalso. apply X. destruct (g_recs (store r)) as [|[a da] ta] eqn:Eg.
             ++ unfold mem_epoch, mem_index. rewrite Eg. reflexivity.
             ++ cbn [app contig] in C.
                change ((a, da) :: ta ++ pend_ins r) with (((a, da) :: ta) ++ pend_ins r) in C.
                apply contig_from_app in C. destruct C as [C1 C2]. rewrite Ep in C2. destruct C2 as [Em _].
                apply (mem_epoch_above (store r) a); rewrite Eg; [exact C1|lia].
      + apply FromStore. intros (d & I). pose proof (contig_from_ids _ _ Cp _ I) as Hb. cbn [fst] in Hb. lia.
  Qed.
End Repo.

(* ---- late messages: the sender is the member now sitting at that leaf, or the message is
   refused (util.rs validate_sender_signature_key_from_prior_epoch) ---- *)
Definition late_sender_ok (old_keys cur_keys : list (option N)) (i : nat) : bool :=
  match nth i old_keys None, nth i cur_keys None with
  | Some a, Some c => a =? c
  | None, None => true
  | _, _ => false
  end.

Theorem late_sender_rule old cur i k :
  nth i old None = Some k -> (late_sender_ok old cur i = true <-> nth i cur None = Some k).
Proof.
  intro E. unfold late_sender_ok. rewrite E. destruct (nth i cur None) as [c|].
  - rewrite N.eqb_eq. split; [intros ->; reflexivity|intro X; inversion X; reflexivity].
  - split; discriminate.
Qed.

(* ---- faults at the other storage calls of the repository ---- *)
Theorem insert_fault_clean b r e f :
  pend_ins r = [] -> repo_insert b r e (true :: f) = (SErr EStorageFault, f).
Proof. intro E. unfold repo_insert. rewrite E. reflexivity. Qed.

Theorem insert_no_storage_call_when_pending b r e f x t :
  pend_ins r = x :: t -> snd (repo_insert b r e f) = f.
Proof.
  intro E. unfold repo_insert. rewrite E.
  destruct (last_id (x :: t)) as [m|] eqn:L.
  - destruct (fst e =? m + 1); reflexivity.
  - exfalso. assert (Ne : x :: t <> []) by discriminate. destruct (exists_last Ne) as (l' & y & Ey). rewrite Ey in L.
    unfold last_id in L. rewrite rev_app_distr in L. destruct y. discriminate.
Qed.

Theorem get_fault_clean b r id f :
  pend_ins r = [] -> find (fun x : N * N => fst x =? id) (pend_upd r) = None ->
  repo_get b r id (true :: f) = (SErr EStorageFault, f).
Proof. intros E F. unfold repo_get. rewrite E, F. reflexivity. Qed.

(* an error of the store write (fault or provider error) leaves the repository unchanged *)
Theorem write_error_clean b r snap kp f e :
  fst (repo_write b r snap kp f) = SErr e -> e <> EKeyPackageFault -> repo_after_write b r snap kp f = r.
Proof.
  unfold repo_write, repo_after_write. destruct (next_fault f) as [fail f1]. destruct fail; [reflexivity|].
  destruct (st_write b (store r) snap (pend_ins r) (pend_upd r)) as [s'|e']; [|reflexivity].
  destruct kp.
  - destruct (next_fault f1) as [fail2 f2]. destruct fail2; cbn [fst]; [intros E Ne; inversion E; congruence|discriminate].
  - cbn [fst]. discriminate.
Qed.
