(* The node-vector operations as translated from tree_kem/node.rs (Gen/NodeVecGen.v) are the
   operations of the tree model (Model/Tree.v) that the theorems of C08 / C01 are about, for every
   tree; the phases of batch_edit come in the order the model applies them. *)
From Coq Require Import NArith Arith List Bool Lia.
From MlsV Require Import Res TreeMathGen Tree NodeVecGen.
Import ListNotations.
Local Open Scope N_scope.

Theorem gen_next_empty_leaf_is_model t start : gen_next_empty_leaf t start = next_empty_leaf t start.
Proof.
  unfold gen_next_empty_leaf, next_empty_leaf. generalize (S (length t)) as fuel. generalize (2 * start) as n.
  intros n fuel. revert n. induction fuel as [|fuel IH]; intro n; cbn [gen_next_empty_loop next_empty_from]; [reflexivity|].
  destruct (n <? tlen t); [|reflexivity]. destruct (get t n); cbn [is_none]; [apply IH|reflexivity].
Qed.

Theorem gen_insert_leaf_is_model t index leaf : gen_insert_leaf t index leaf = insert_leaf t index leaf.
Proof.
  unfold gen_insert_leaf, insert_leaf. cbv zeta. destruct (tlen t <? 2 * index).
  - rewrite <- app_assoc. reflexivity.
  - destruct (tlen t =? 0) eqn:E; [|reflexivity].
    apply N.eqb_eq in E. unfold tlen in E. destruct t; [reflexivity|cbn [length] in E; lia].
Qed.

Theorem gen_total_leaf_count_is_model t : gen_total_leaf_count t = total_leaf_count t.
Proof. reflexivity. Qed.

(* trim *)
Lemma trim_rev_app_blank l : trim_rev (None :: l) = trim_rev l.
Proof. reflexivity. Qed.

Lemma gen_trim_loop_spec : forall fuel t, (length t <= fuel)%nat -> gen_trim_loop fuel t = trim t.
Proof.
  induction fuel as [|fuel IH]; intros t L.
  - destruct t; [reflexivity|cbn [length] in L; lia].
  - cbn [gen_trim_loop]. unfold last_is_blank, trim.
    destruct (rev t) as [|x r] eqn:E.
    + cbn [trim_rev rev]. apply (f_equal (@rev _)) in E. rewrite rev_involutive in E. exact E.
    + assert (T : t = rev r ++ [x]) by (apply (f_equal (@rev _)) in E; rewrite rev_involutive in E; exact E).
      destruct x as [n|].
      * cbn [trim_rev rev]. exact T.
      * cbn [trim_rev]. subst t. rewrite removelast_last. rewrite IH.
        -- unfold trim. rewrite rev_involutive. reflexivity.
        -- rewrite app_length in L. cbn [length] in L. lia.
Qed.

Theorem gen_trim_is_model t : gen_trim t = trim t.
Proof. apply gen_trim_loop_spec. lia. Qed.

Theorem gen_batch_phases_is_model : gen_batch_phases = batch_phases.
Proof. reflexivity. Qed.

Lemma translated_node_vector t start index leaf :
  gen_next_empty_leaf t start = next_empty_leaf t start /\
  gen_insert_leaf t index leaf = insert_leaf t index leaf /\
  gen_trim t = trim t /\
  gen_total_leaf_count t = total_leaf_count t /\
  gen_batch_phases = batch_phases.
Proof.
  split; [apply gen_next_empty_leaf_is_model|]. split; [apply gen_insert_leaf_is_model|]. split; [apply gen_trim_is_model|].
  split; [apply gen_total_leaf_count_is_model|apply gen_batch_phases_is_model].
Qed.
