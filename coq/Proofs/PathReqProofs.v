(* path_update_required, as translated from the source (Gen/PathReqGen.v), is the rule of the
   filter model: a commit needs an update path iff its proposal list is empty or holds an
   Update, Remove, ExternalInit or GroupContextExtensions proposal - or a custom proposal for
   which the application's rules ask for one. *)
From Coq Require Import NArith List Bool.
From MlsV Require Import Filter PathReqGen.
Import ListNotations.

Definition is_k (f : body -> bool) (l : list prop) : bool := existsb (fun p => f (p_body p)) l.

(* the bundle the library looks at, for a list of (non-local) proposals; cust = some custom
   proposal of the list requires a path according to the application's rules *)
Definition bundle_of (cust : bool) (l : list prop) : pbundle :=
  {| b_custom := cust;
     b_update := is_k (fun b => match b with BUpdate _ => true | _ => false end) l;
     b_selfremove := false;
     b_extinit := is_k (fun b => match b with BExtInit => true | _ => false end) l;
     b_gce := is_k (fun b => match b with BGce _ => true | _ => false end) l;
     b_remove := is_k (fun b => match b with BRemove _ => true | _ => false end) l;
     b_empty := match l with [] => true | _ => false end |}.

Lemma existsb_or4 (l : list prop) :
  existsb (fun p => match p_body p with BUpdate _ | BRemove _ | BGce _ | BExtInit => true | _ => false end) l =
  is_k (fun b => match b with BUpdate _ => true | _ => false end) l
  || is_k (fun b => match b with BExtInit => true | _ => false end) l
  || is_k (fun b => match b with BGce _ => true | _ => false end) l
  || is_k (fun b => match b with BRemove _ => true | _ => false end) l.
Proof.
  unfold is_k. induction l as [|p r IH]; [reflexivity|]. cbn [existsb]. rewrite IH.
  destruct (p_body p); cbn; repeat rewrite ?orb_true_r, ?orb_false_r, ?orb_true_l, ?orb_false_l; try reflexivity;
    destruct (existsb _ r), (existsb _ r), (existsb _ r), (existsb _ r); reflexivity.
Qed.

Theorem gen_path_required_is_model cust l :
  gen_path_required (bundle_of cust l) = cust || needs_path l.
Proof.
  unfold gen_path_required, bundle_of, needs_path. cbn [b_custom b_update b_selfremove b_extinit b_gce b_remove b_empty].
  destruct l as [|p r]; [destruct cust; reflexivity|]. rewrite existsb_or4.
  set (a := is_k _ (p :: r)). set (b := is_k _ (p :: r)). set (c := is_k _ (p :: r)). set (d := is_k _ (p :: r)).
  destruct cust, a, b, c, d; reflexivity.
Qed.
