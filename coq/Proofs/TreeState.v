(* One model of a member's public tree state - the node vector, the keys and parent hashes stored in its nodes,
   and the hash cache - and of what a commit does to all three, in the order of the code: batch_edit and its
   update_hashes, then (when the commit has a path) apply_update_path, the parent hashes of the path computed
   top-down, and update_hashes for the committer.  In EVERY state reachable from a new group by commits of both
   kinds the tree is well formed (WF3, WF5, shape), every non-blank parent is parent-hash valid, and the cache is
   the from-scratch hash at every node; no update_hashes call on the way panics or runs out of fuel. *)
From Coq Require Import NArith Arith List Bool Lia.
From MlsV Require Import Res TreeMathGen BitsN TreeMathProofs Tree TreeProofs TreeWF Kem Priv PrivProofs Decap DecapProofs TreeWF5 PrivComplete CommitStep ParentHash HashCache HashCacheProofs HashCacheTree.
Import ListNotations.
Local Open Scope N_scope.

Section TS.
  Variable PHF : N -> N -> cterm -> N.      (* the parent-hash function *)
  Variable enc : N * N -> N.                (* how the hashed encoding of a node depends on its key and parent hash *)

  Record tstate := { ts_tree : tree; ts_deco : deco; ts_cache : hcache }.
  Definition pay_of (d : deco) : N -> N := fun n => enc (d n).

  Definition TInv (s : tstate) : Prop :=
    TreeOK (ts_tree s) /\ small (ts_tree s) /\ PHValid PHF (ts_tree s) (ts_deco s) /\
    CacheOK (pay_of (ts_deco s)) (ts_tree s) (ts_cache s).

  (* a commit without a path: the proposals; updated and added leaves bring their own keys *)
  Definition step_nopath (s s' : tstate) (removes : list N) (updates : list (N * N)) (adds : list N) : Prop :=
    exists added,
      batch_edit (ts_tree s) removes updates adds = TOk (ts_tree s', added) /\
      (forall n, ~ touched (removes ++ map fst updates ++ added) n -> get (ts_tree s) n <> None -> ts_deco s' n = ts_deco s n) /\
      (forall n, (forall l, In l (map fst updates) -> n <> 2 * l) -> get (ts_tree s) n <> None -> ts_deco s' n = ts_deco s n) /\
      update_hashes (pay_of (ts_deco s')) (ts_cache s) (ts_tree s') (removes ++ map fst updates ++ added) = Ok (ts_cache s').

  (* a commit with a path *)
  Definition step_path (s s' : tstate) (removes : list N) (updates : list (N * N)) (adds : list N)
             (sndr id : N) (fk : N -> N) (leafkey : N) : Prop :=
    exists t1 added dm c1 flt,
      batch_edit (ts_tree s) removes updates adds = TOk (t1, added) /\
      (forall n, ~ touched (removes ++ map fst updates ++ added) n -> get (ts_tree s) n <> None -> dm n = ts_deco s n) /\
      (forall n, (forall l, In l (map fst updates) -> n <> 2 * l) -> get (ts_tree s) n <> None -> dm n = ts_deco s n) /\
      update_hashes (pay_of dm) (ts_cache s) t1 (removes ++ map fst updates ++ added) = Ok c1 /\
      apply_update_path t1 sndr id = TOk (ts_tree s') /\
      filtered (set t1 (2 * sndr) (Some (Leaf id))) sndr = Ok flt /\
      ts_deco s' = decorate PHF (ts_tree s') dm sndr flt fk leafkey /\
      update_hashes (pay_of (ts_deco s')) c1 (ts_tree s') [sndr] = Ok (ts_cache s').

  Lemma ok_unique {A} (x y : A) : Ok x = Ok y -> x = y.
  Proof. intro E. injection E. auto. Qed.

  Theorem tinv_step_nopath s s' removes updates adds :
    TInv s -> tlen (ts_tree s) + 2 * N.of_nat (length adds) < 2 ^ 25 ->
    step_nopath s s' removes updates adds -> TInv s'.
  Proof.
    intros ((W3 & W5 & Sh) & Sm & V & C) Sz (added & B & Dt & Du & U).
    destruct (wf3_batch_edit _ _ _ _ _ _ W3 Sz B) as [W31 L1].
    pose proof (wf5_batch_edit _ _ _ _ _ _ W5 Sh Sz B) as W51.
    destruct (shape_batch_edit _ _ _ _ _ _ Sh B) as [Sh1 _].
    assert (Sm1 : small (ts_tree s')) by (unfold small; lia).
    split; [split; [exact W31|split; [exact W51|exact Sh1]]|]. split; [exact Sm1|]. split.
    - apply (ph_batch_edit PHF (ts_tree s) removes updates adds (ts_tree s') added (ts_deco s) (ts_deco s') W3 Sz B Du V).
    - destruct (cache_right_after_the_proposals (pay_of (ts_deco s)) (pay_of (ts_deco s')) (ts_tree s) removes updates adds (ts_tree s') added (ts_cache s) W3 Sz B) as (c' & E & C'); [|exact C|].
      + intros n Nt G. unfold pay_of. rewrite (Dt n Nt G). reflexivity.
      + rewrite U in E. apply ok_unique in E. subst c'. exact C'.
  Qed.

  Theorem tinv_step_path s s' removes updates adds sndr id fk leafkey :
    TInv s -> tlen (ts_tree s) + 2 * N.of_nat (length adds) < 2 ^ 25 -> small (ts_tree s') ->
    step_path s s' removes updates adds sndr id fk leafkey -> TInv s'.
  Proof.
    intros ((W3 & W5 & Sh) & Sm & V & C) Sz Sm2 (t1 & added & dm & c1 & flt & B & Dt & Du & U1 & A & F & Ed & U2).
    destruct (tree_ok_commit (ts_tree s) removes updates adds sndr id t1 added (ts_tree s') (conj W3 (conj W5 Sh)) Sz B A) as (T1 & Sm1 & T2).
    split; [exact T2|]. split; [exact Sm2|]. split.
    - rewrite Ed. apply (ph_commit_computed PHF (ts_tree s) removes updates adds t1 added sndr id (ts_tree s') flt (ts_deco s) dm fk leafkey W3 W5 Sh Sz B A F Du V).
    - destruct (cache_right_after_the_proposals (pay_of (ts_deco s)) (pay_of dm) (ts_tree s) removes updates adds t1 added (ts_cache s) W3 Sz B) as (c' & E & C1); [|exact C|].
      + intros n Nt G. unfold pay_of. rewrite (Dt n Nt G). reflexivity.
      + rewrite U1 in E. apply ok_unique in E. subst c'.
        destruct (cache_right_after_the_update_path (pay_of dm) (pay_of (ts_deco s')) t1 sndr id (ts_tree s') c1 Sm1 Sm2 A) as (c2 & E2 & C2); [|exact C1|].
        * intros n Nt _. unfold pay_of. rewrite Ed. f_equal. apply decorate_off.
          -- intro E. apply Nt. exists sndr. split; [left; reflexivity|left; exact E].
          -- intro An. apply Nt. exists sndr. split; [left; reflexivity|right; exact An].
        * rewrite U2 in E2. apply ok_unique in E2. subst c2. exact C2.
  Qed.

  (* the steps are always possible as far as the cache is concerned: update_hashes succeeds *)
  Theorem update_hashes_never_fails_in_a_commit s removes updates adds t1 added dm :
    TInv s -> tlen (ts_tree s) + 2 * N.of_nat (length adds) < 2 ^ 25 ->
    batch_edit (ts_tree s) removes updates adds = TOk (t1, added) ->
    (forall n, ~ touched (removes ++ map fst updates ++ added) n -> get (ts_tree s) n <> None -> dm n = ts_deco s n) ->
    exists c1, update_hashes (pay_of dm) (ts_cache s) t1 (removes ++ map fst updates ++ added) = Ok c1.
  Proof.
    intros ((W3 & W5 & Sh) & Sm & V & C) Sz B Dt.
    destruct (cache_right_after_the_proposals (pay_of (ts_deco s)) (pay_of dm) (ts_tree s) removes updates adds t1 added (ts_cache s) W3 Sz B) as (c' & E & _); [|exact C|exists c'; exact E].
    intros n Nt G. unfold pay_of. rewrite (Dt n Nt G). reflexivity.
  Qed.

  (* reachability *)
  Inductive treachable : tstate -> Prop :=
  | tr_init id d c : initialize_hashes (pay_of d) [] [Some (Leaf id)] = Ok c ->
      treachable {| ts_tree := [Some (Leaf id)]; ts_deco := d; ts_cache := c |}
  | tr_nopath s s' removes updates adds : treachable s ->
      tlen (ts_tree s) + 2 * N.of_nat (length adds) < 2 ^ 25 ->
      step_nopath s s' removes updates adds -> treachable s'
  | tr_path s s' removes updates adds sndr id fk leafkey : treachable s ->
      tlen (ts_tree s) + 2 * N.of_nat (length adds) < 2 ^ 25 -> small (ts_tree s') ->
      step_path s s' removes updates adds sndr id fk leafkey -> treachable s'.

  Lemma tree_ok_single id : TreeOK [Some (Leaf id)].
  Proof.
    split; [|split].
    - intros p um G. destruct p as [|p]; [discriminate|]. unfold get in G. destruct (N.to_nat (N.pos p)) as [|n] eqn:E; [lia|]. cbn [nth_error] in G. destruct n; discriminate.
    - apply wf5_single.
    - intro i. unfold get. destruct (N.to_nat i) as [|n] eqn:E; cbn [nth_error kind_ok]; [assert (i = 0) by lia; subst; reflexivity|destruct n; exact I].
  Qed.

  Theorem tinv_reachable s : treachable s -> TInv s.
  Proof.
    induction 1 as [id d c I|s s' removes updates adds _ IH Sz St|s s' removes updates adds sndr id fk leafkey _ IH Sz Sm2 St].
    - assert (Sm : small [Some (Leaf id)]) by (unfold small, tlen; cbn; lia).
      split; [apply tree_ok_single|]. split; [exact Sm|]. split; [apply ph_initial|]. cbn [ts_tree ts_deco ts_cache].
      destruct (initialize_hashes_correct (pay_of d) [Some (Leaf id)] Sm) as (c' & E & C). rewrite I in E. apply ok_unique in E. subst c'. exact C.
    - eapply tinv_step_nopath; eassumption.
    - eapply tinv_step_path; eassumption.
  Qed.
End TS.

(* non-vacuity: the state after the creator of a group adds a member with a commit that has a path is reachable *)
Definition ex_PHF (k p : N) (c : cterm) : N := k + 2 * p + 1.
Definition ex_enc (x : N * N) : N := fst x + 3 * snd x.
Definition ex_d0 : deco := fun n => (n + 50, 0).
Definition ex_dm : deco := fun n => if n =? 2 then (77, 0) else ex_d0 n.
Definition ex_t2 : tree := [Some (Leaf 9); Some (Par []); Some (Leaf 7)].
Definition ex_d2 : deco := decorate ex_PHF ex_t2 ex_dm 0 [false] (fun i => 200 + i) 300.

Ltac compute_lhs := match goal with |- ?l = _ => let v := eval vm_compute in l in change l with v end; reflexivity.

Lemma treachable_example : exists c, treachable ex_PHF ex_enc {| ts_tree := ex_t2; ts_deco := ex_d2; ts_cache := c |}.
Proof.
  eexists.
  eapply (tr_path ex_PHF ex_enc {| ts_tree := [Some (Leaf 1)]; ts_deco := ex_d0; ts_cache := [HLeaf 0 (Some (1, 50))] |} _ [] [] [7] 0 9 (fun i => 200 + i) 300).
  - apply tr_init. vm_compute. reflexivity.
  - vm_compute. reflexivity.
  - vm_compute. reflexivity.
  - exists [Some (Leaf 1); None; Some (Leaf 7)], [1], ex_dm. eexists. exists [false]. cbn [ts_tree ts_deco ts_cache].
    assert (D0 : forall n, get [Some (Leaf 1)] n <> None -> ex_dm n = ex_d0 n).
    { intros n G. destruct (N.eq_dec n 0) as [->|Ne]; [reflexivity|]. exfalso. apply G. unfold get.
      destruct (N.to_nat n) as [|m] eqn:E; [lia|]. destruct m; reflexivity. }
    split; [vm_compute; reflexivity|]. split; [intros n _ G; exact (D0 n G)|]. split; [intros n _ G; exact (D0 n G)|].
    split; [compute_lhs|]. split; [vm_compute; reflexivity|]. split; [vm_compute; reflexivity|]. split; [reflexivity|].
    compute_lhs.
Qed.
