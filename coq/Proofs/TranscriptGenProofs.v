(* The inputs of the transcript hashes as translated from group/transcript_hash.rs
   (Gen/TranscriptGen.v) are those of RFC 9420 8.2 as written in Model/KeyScheduleRFC.v and
   used by the byte-for-byte comparison of C13 (Model/KsCases.v cth_input). *)
From Coq Require Import NArith List String.
From MlsV Require Import Res Codec Hkdf KeyScheduleRFC CodecTypes KsCases TranscriptGen.
Import ListNotations.

Theorem translated_confirmed_hash H interim_prev wf fc sig :
  confirmed_transcript_hash H interim_prev (wf ++ fc ++ sig) =
  h_fun H (gen_confirmed_hash_input interim_prev (gen_confirmed_input wf fc sig)).
Proof. reflexivity. Qed.

Theorem translated_interim_hash H confirmed tag :
  interim_transcript_hash H confirmed tag =
  h_fun H (gen_interim_hash_input confirmed (gen_interim_input (vbytes tag))).
Proof. reflexivity. Qed.

(* what the comparison feeds into the hash is the translated input over the three parts of the
   AuthenticatedContent, the wire format it was SENT with included *)
Theorem cth_input_is_translated ac inp tag :
  cth_input ac = Some (inp, tag) ->
  exists wf fc auth sig rest a b c,
    decode T_AuthenticatedContent None ac = DOk (VCons wf (VCons fc auth), rest) /\
    encode T_WireFormat wf = Some a /\ encode T_FramedContent fc = Some b /\ encode T_MessageSignature sig = Some c /\
    inp = gen_confirmed_input a b c.
Proof.
  unfold cth_input. destruct (decode T_AuthenticatedContent None ac) as [[v rest]|e] eqn:D; try discriminate.
  destruct v as [| | | |x v'| | |]; try discriminate. destruct v' as [| | | |fc auth| | |]; try discriminate.
  destruct auth as [| | | |sig r| | |]; try discriminate.
  destruct (encode T_WireFormat x) as [a|] eqn:Ea; try discriminate.
  destruct (encode T_FramedContent fc) as [b|] eqn:Eb; try discriminate.
  destruct (encode T_MessageSignature sig) as [c|] eqn:Ec; try discriminate.
  intro E. injection E as <- _. exists x, fc, (VCons sig r), sig, rest, a, b, c. repeat split; assumption.
Qed.
