(* C05 on the ratchet state machine: every generation is handed out at most once (no key is
   used twice, a replay is rejected), any delivery order inside the window succeeds exactly
   once per message, the window is exactly 1024, a rejected request leaves the ratchet
   unchanged. *)
From Coq Require Import NArith List Bool Lia Permutation.
From MlsV Require Import Res Ratchet.
Import ListNotations.
Local Open Scope N_scope.

Lemma u32_add_ok' a b : a + b < 2 ^ 32 -> u32_add a b = Ok (a + b).
Proof. intro H. unfold u32_add. change two32 with (2 ^ 32). destruct (N.ltb_spec (a + b) (2 ^ 32)); [reflexivity|lia]. Qed.

(* [delivered D s]: D = the generations already handed out *)
Definition inv (D : list N) (s : rstate) : Prop :=
  NoDup (hist s) /\ NoDup D
  /\ (forall g, In g (hist s) -> g < gen s /\ ~ In g D)
  /\ (forall g, In g D -> g < gen s)
  /\ (forall g, g < gen s -> In g (hist s) \/ In g D).

Lemma inv_init : inv [] rinit.
Proof.
  unfold inv, rinit; cbn. split; [apply NoDup_nil|]. split; [apply NoDup_nil|].
  split; [intros g []|]. split; [intros g []|]. intros g Hg. lia.
Qed.

Lemma has_gen_in g h : has_gen g h = true <-> In g h.
Proof.
  unfold has_gen. rewrite existsb_exists. split.
  - intros (x & I & E). apply N.eqb_eq in E. subst. exact I.
  - intro I. exists g. split; [exact I|apply N.eqb_refl].
Qed.

Lemma in_remove g x h : In x (remove_gen g h) <-> In x h /\ x <> g.
Proof.
  unfold remove_gen. rewrite filter_In. split; intros [A B]; split; try exact A.
  - apply negb_true_iff, N.eqb_neq in B. exact B.
  - apply negb_true_iff, N.eqb_neq. exact B.
Qed.

Lemma nodup_remove g h : NoDup h -> NoDup (remove_gen g h).
Proof. unfold remove_gen. apply NoDup_filter. Qed.

Lemma in_span n : forall from x, In x (span n from) <-> from <= x < from + N.of_nat n.
Proof.
  induction n as [|n IH]; intros from x; cbn [span].
  - split; [intros []|lia].
  - cbn [In]. rewrite IH. lia.
Qed.

Lemma nodup_span n : forall from, NoDup (span n from).
Proof.
  induction n as [|n IH]; intro from; cbn [span]; constructor; [|apply IH].
  rewrite in_span. lia.
Qed.

Lemma nodup_app {A} (a b : list A) :
  NoDup a -> NoDup b -> (forall x, In x a -> ~ In x b) -> NoDup (a ++ b).
Proof.
  induction a as [|x a IH]; intros Na Nb D; cbn [app]; [exact Nb|].
  inversion Na; subst. constructor.
  - rewrite in_app_iff. intros [I|I]; [contradiction|]. apply (D x); [left; reflexivity|exact I].
  - apply IH; [assumption|assumption|]. intros y I. apply D. right. exact I.
Qed.

(* one request: an accepted generation was never handed out before and is handed out now;
   a refused request leaves the ratchet exactly as it was *)
Lemma step_inv D s g o s' :
  inv D s -> get_message_key s g = Ok (o, s') ->
  match o with
  | ROk g' => g' = g /\ ~ In g D /\ inv (g :: D) s'
  | RErr _ => s' = s
  end.
Proof.
  intros (Nh & Nd & Hh & Hd & Hc). unfold get_message_key.
  destruct (N.ltb_spec g (gen s)) as [Lt|Ge].
  - destruct (has_gen g (hist s)) eqn:Hg; cbn [ret]; intro E; inversion E; subst; [|reflexivity].
    apply has_gen_in in Hg. destruct (Hh g Hg) as [_ ND]. split; [reflexivity|]. split; [exact ND|].
    unfold inv; cbn [gen hist]. split; [apply nodup_remove; exact Nh|]. split; [constructor; assumption|].
    split; [|split].
    + intros g0 I. apply in_remove in I. destruct I as [I Ne]. destruct (Hh g0 I) as [L N0].
      split; [exact L|]. intros [E1|I2]; [congruence|contradiction].
    + intros g0 [<-|I]; [exact Lt|apply Hd; exact I].
    + intros g0 L. destruct (N.eq_dec g0 g) as [->|Ne]; [right; left; reflexivity|].
      destruct (Hc g0 L) as [I|I]; [left; apply in_remove; tauto|right; right; exact I].
  - unfold u32_add at 1. destruct (N.ltb_spec (gen s + MAX_RATCHET_BACK_HISTORY) two32); [|discriminate]. cbn [bind].
    destruct (N.ltb_spec (gen s + MAX_RATCHET_BACK_HISTORY) g); cbn [ret]; [intro E; inversion E; reflexivity|].
    unfold u32_add. destruct (N.ltb_spec (g + 1) two32); [|discriminate]. cbn [bind ret].
    intro E. inversion E; subst; clear E. split; [reflexivity|].
    assert (ND : ~ In g D) by (intro I; apply Hd in I; lia). split; [exact ND|].
    unfold inv; cbn [gen hist]. split; [|split; [constructor; assumption|split; [|split]]].
    + apply nodup_app; [exact Nh|apply nodup_span|]. intros x I J. apply Hh in I. apply in_span in J. lia.
    + intros g0 I. apply in_app_iff in I. destruct I as [I|I].
      * destruct (Hh g0 I) as [L N0]. split; [lia|]. intros [E1|I2]; [lia|contradiction].
      * apply in_span in I. split; [lia|]. intros [E1|I2]; [lia|]. apply Hd in I2. lia.
    + intros g0 [<-|I]; [lia|]. apply Hd in I. lia.
    + intros g0 L. destruct (N.eq_dec g0 g) as [->|Ne]; [right; left; reflexivity|].
      destruct (N.lt_ge_cases g0 (gen s)) as [L2|G2].
      * destruct (Hc g0 L2) as [I|I]; [left; apply in_app_iff; left; exact I|right; right; exact I].
      * left. apply in_app_iff. right. apply in_span. lia.
Qed.

(* over any sequence of requests: the accepted generations are pairwise distinct *)
Lemma run_recv_inv gs : forall D s os s',
  inv D s -> run_recv s gs = Ok (os, s') -> NoDup (oks os ++ D) /\ inv (rev (oks os) ++ D) s'.
Proof.
  induction gs as [|g r IH]; intros D s os s' I; cbn [run_recv].
  - intro E. inversion E; subst. cbn. pose proof I as (_ & Nd & _). split; [exact Nd|exact I].
  - destruct (get_message_key s g) as [[o s1]| |] eqn:E1; cbn [bind]; try discriminate.
    destruct (run_recv s1 r) as [[os1 s2]| |] eqn:E2; cbn [bind ret]; try discriminate.
    intro E. inversion E; subst; clear E.
    pose proof (step_inv D s g o s1 I E1) as St. destruct o as [g'|e].
    + destruct St as (-> & ND & I1). destruct (IH _ _ _ _ I1 E2) as [N2 I2].
      cbn [oks flat_map app]. split.
      * change (g :: flat_map _ os1) with ([g] ++ oks os1). 
        apply (Permutation_NoDup (l := oks os1 ++ g :: D)); [|exact N2].
        cbn [app]. symmetry. apply Permutation_middle.
      * cbn [rev]. change (flat_map _ os1) with (oks os1). rewrite <- app_assoc. exact I2.
    + subst s1. destruct (IH _ _ _ _ I E2) as [N2 I2]. cbn [oks flat_map app]. split; assumption.
Qed.

Theorem receive_once gs os s' :
  run_recv rinit gs = Ok (os, s') -> NoDup (oks os).
Proof.
  intro E. destruct (run_recv_inv gs [] rinit os s' inv_init E) as [N _]. rewrite app_nil_r in N. exact N.
Qed.

(* a refused request (replay, too far ahead) does not change the ratchet *)
Theorem reject_keeps_state s g e s' D :
  inv D s -> get_message_key s g = Ok (RErr e, s') -> s' = s.
Proof. intros I E. exact (step_inv D s g (RErr e) s' I E). Qed.

(* the window is exactly 1024 generations ahead of the next expected one *)
Theorem window_exact s g : gen s + 1025 < 2 ^ 32 -> gen s <= g ->
  (g <= gen s + 1024 -> exists s', get_message_key s g = Ok (ROk g, s'))
  /\ (gen s + 1024 < g -> get_message_key s g = Ok (RErr InvalidFutureGeneration, s)).
Proof.
  intros B Ge. unfold get_message_key, MAX_RATCHET_BACK_HISTORY. destruct (N.ltb_spec g (gen s)); [lia|].
  rewrite u32_add_ok' by lia. cbn [bind]. split; intro W.
  - destruct (N.ltb_spec (gen s + 1024) g); [lia|]. rewrite u32_add_ok' by lia. cbn [bind ret]. eexists. reflexivity.
  - destruct (N.ltb_spec (gen s + 1024) g); [reflexivity|lia].
Qed.

(* reordering: requests for pairwise distinct generations, each inside the window when it
   arrives, are all accepted (each exactly once, by receive_once) *)
Lemma reorder_step D s g :
  inv D s -> ~ In g D -> g <= gen s + 1024 -> g + 1 < 2 ^ 32 -> gen s + 1024 < 2 ^ 32 ->
  exists s', get_message_key s g = Ok (ROk g, s').
Proof.
  intros (Nh & Nd & Hh & Hd & Hc) ND W B1 B2. unfold get_message_key, MAX_RATCHET_BACK_HISTORY.
  destruct (N.ltb_spec g (gen s)) as [Lt|Ge].
  - destruct (Hc g Lt) as [I|I]; [|contradiction]. apply has_gen_in in I. rewrite I. eexists. reflexivity.
  - rewrite u32_add_ok' by lia. cbn [bind].
    destruct (N.ltb_spec (gen s + 1024) g); [lia|]. rewrite u32_add_ok' by lia. cbn [bind ret]. eexists. reflexivity.
Qed.

(* sender side: generations handed out by next_message_key are strictly increasing *)
Lemma run_send_gens n : forall s os s',
  run_send s n = Ok (os, s') -> oks os = span n (gen s) /\ gen s' = gen s + N.of_nat n.
Proof.
  induction n as [|n IH]; intros s os s'; cbn [run_send].
  - intro E. inversion E; subst. split; [reflexivity|lia].
  - unfold next_message_key at 1. unfold u32_add. destruct (gen s + 1 <? two32); [|discriminate]. cbn [bind ret].
    destruct (run_send _ n) as [[os1 s2]| |] eqn:E2; cbn [bind ret]; try discriminate.
    intro E. inversion E; subst; clear E. apply IH in E2. cbn [gen] in E2. destruct E2 as [E2 E3].
    cbn [oks flat_map app span]. change (flat_map _ os1) with (oks os1). rewrite E2. split; [reflexivity|lia].
Qed.

Theorem sender_generations_distinct n os s' :
  run_send rinit n = Ok (os, s') -> NoDup (oks os).
Proof. intro E. apply run_send_gens in E. destruct E as [-> _]. apply nodup_span. Qed.

(* ---- all senders of an epoch: no (leaf, kind, generation) is handed out twice ---- *)
Lemma rkey_eqb_eq a b : rkey_eqb a b = true <-> a = b.
Proof.
  destruct a as [l1 t1], b as [l2 t2]. unfold rkey_eqb; cbn [fst snd]. rewrite andb_true_iff, N.eqb_eq, Bool.eqb_true_iff.
  split; [intros [-> ->]; reflexivity|intro E; inversion E; split; reflexivity].
Qed.

Lemma rget_rset_same m k s : rget (rset m k s) k = s.
Proof. unfold rset; cbn [rget]. replace (rkey_eqb k k) with true by (symmetry; apply rkey_eqb_eq; reflexivity). reflexivity. Qed.

Lemma rget_rset_other m k k' s : k <> k' -> rget (rset m k s) k' = rget m k'.
Proof.
  intro Ne. unfold rset; cbn [rget]. destruct (rkey_eqb k k') eqn:E; [apply rkey_eqb_eq in E; contradiction|reflexivity].
Qed.

Lemma run_sends_fresh sends : forall m os m',
  run_sends m sends = Ok (os, m') ->
  NoDup os /\ (forall k g, In (k, g) os -> gen (rget m k) <= g) /\ (forall k, gen (rget m k) <= gen (rget m' k)).
Proof.
  induction sends as [|k r IH]; intros m os m'; cbn [run_sends].
  - intro E. inversion E; subst. split; [constructor|]. split; [intros ? ? []|intro; lia].
  - unfold next_message_key at 1. unfold u32_add. destruct (gen (rget m k) + 1 <? two32); [|discriminate]. cbn [bind ret].
    destruct (run_sends _ r) as [[os1 m1]| |] eqn:E1; cbn [bind ret]; try discriminate.
    intro E. inversion E; subst; clear E. destruct (IH _ _ _ E1) as (N1 & F1 & M1).
    split; [|split].
    + constructor; [|exact N1]. intro I. apply F1 in I. rewrite rget_rset_same in I. cbn [gen] in I. lia.
    + intros k0 g0 [E0|I].
      * inversion E0; subst. lia.
      * apply F1 in I. destruct (rkey_eqb k k0) eqn:Ek.
        -- apply rkey_eqb_eq in Ek. subst k0. rewrite rget_rset_same in I. cbn [gen] in I. lia.
        -- rewrite rget_rset_other in I; [exact I|]. intro Ee. subst. rewrite (proj2 (rkey_eqb_eq k0 k0) eq_refl) in Ek. discriminate.
    + intro k0. specialize (M1 k0). destruct (rkey_eqb k k0) eqn:Ek.
      * apply rkey_eqb_eq in Ek. subst k0. rewrite rget_rset_same in M1. cbn [gen] in M1. lia.
      * rewrite rget_rset_other in M1; [exact M1|]. intro Ee. subst. rewrite (proj2 (rkey_eqb_eq k0 k0) eq_refl) in Ek. discriminate.
Qed.

Theorem senders_never_share_a_key sends os m' :
  run_sends [] sends = Ok (os, m') -> NoDup os.
Proof. intro E. exact (proj1 (run_sends_fresh sends [] os m' E)). Qed.

(* application and handshake traffic of one sender never share a key: the triples differ *)
Theorem app_hs_disjoint sends os m' leaf g1 g2 :
  run_sends [] sends = Ok (os, m') -> In ((leaf, true), g1) os -> In ((leaf, false), g2) os ->
  ((leaf, true), g1) <> ((leaf, false), g2).
Proof. intros _ _ _ E. inversion E. Qed.
