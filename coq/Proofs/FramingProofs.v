(* Coverage: the bytes that are signed / MACed determine every field of the message. *)
From Coq Require Import NArith List Bool String Lia.
From MlsV Require Import Codec CodecPrim CodecProofs CodecTypes CodecCases CodecTypesProofs Sha2 Hkdf Framing.
Import ListNotations.
Local Open Scope N_scope.

Lemma tbs_wf : wf T_AuthenticatedContentTBS.
Proof. unfold wf. wf_rec. Qed.
Lemma tbm_wf : wf T_AuthenticatedContentTBM.
Proof. unfold wf. wf_rec. Qed.
Lemma sign_content_wf : wf T_SignContent.
Proof. unfold wf. wf_rec. Qed.

(* equal signed bytes => equal version, wire format, content and (for members) group context *)
Theorem tbs_injective v1 v2 w1 w2 fc1 fc2 c1 c2 b :
  vwf T_AuthenticatedContentTBS (tbs_val v1 w1 fc1 c1) = true ->
  vwf T_AuthenticatedContentTBS (tbs_val v2 w2 fc2 c2) = true ->
  encode T_AuthenticatedContentTBS (tbs_val v1 w1 fc1 c1) = Some b ->
  encode T_AuthenticatedContentTBS (tbs_val v2 w2 fc2 c2) = Some b ->
  v1 = v2 /\ w1 = w2 /\ fc1 = fc2 /\ (member_like fc1 = true -> c1 = c2).
Proof.
  intros W1 W2 E1 E2.
  destruct (unique_decoding _ _ _ _ _ [] [] tbs_wf W1 W2 E1 E2 eq_refl) as [Ev _].
  unfold tbs_val in Ev. injection Ev as Hv Hw Hf Hc. subst. repeat split; try reflexivity.
  intro M. rewrite M in Hc. congruence.
Qed.

(* equal MACed bytes => additionally equal signature / confirmation tag *)
Theorem tbm_injective v1 v2 w1 w2 fc1 fc2 c1 c2 a1 a2 b :
  vwf T_AuthenticatedContentTBM (tbm_val v1 w1 fc1 c1 a1) = true ->
  vwf T_AuthenticatedContentTBM (tbm_val v2 w2 fc2 c2 a2) = true ->
  encode T_AuthenticatedContentTBM (tbm_val v1 w1 fc1 c1 a1) = Some b ->
  encode T_AuthenticatedContentTBM (tbm_val v2 w2 fc2 c2 a2) = Some b ->
  v1 = v2 /\ w1 = w2 /\ fc1 = fc2 /\ a1 = a2 /\ (member_like fc1 = true -> c1 = c2).
Proof.
  intros W1 W2 E1 E2.
  destruct (unique_decoding _ _ _ _ _ [] [] tbm_wf W1 W2 E1 E2 eq_refl) as [Ev _].
  unfold tbm_val in Ev. injection Ev as Hv Hw Hf Hc Ha. subst. repeat split; try reflexivity.
  intro M. rewrite M in Hc. congruence.
Qed.

Theorem sign_input_injective l c1 c2 b : sign_input l c1 = Some b -> sign_input l c2 = Some b -> c1 = c2.
Proof.
  unfold sign_input. intros E1 E2.
  assert (W : forall c, vwf T_SignContent (VCons (VBytes (label_bytes ("MLS 1.0 " ++ l))) (VCons (VBytes c) VNil)) = true) by reflexivity.
  destruct (unique_decoding _ _ _ _ _ [] [] sign_content_wf (W c1) (W c2) E1 E2 eq_refl) as [Ev _].
  congruence.
Qed.

(* ---- acceptance under idealised signature and MAC ----
   [signed pk m]: the holder of the signature key behind pk signed exactly the byte string m.
   [maced k m]: somebody who knows k computed the MAC of exactly m.
   The two hypotheses are the usual unforgeability idealisations; they are hypotheses of the
   theorems below (section variables), not axioms. *)
Section Acceptance.
  Variable key : Type.
  Variable verify : key -> list N -> list N -> bool.
  Variable signed : key -> list N -> Prop.
  Hypothesis unforgeable : forall pk m s, verify pk m s = true -> signed pk m.
  Variable H : hash_alg.
  Variable maced : list N -> list N -> Prop.
  Hypothesis mac_unforgeable : forall k m t, t = hmac H k m -> maced k m.

  (* what verify_plaintext_authentication checks for a member's public message *)
  Definition accept_public (pk : key) (mkey : list N) (ver ctx pm : val) : bool :=
    match public_sign_input ver ctx pm, public_membership_tag H mkey ver ctx pm, pm_tag pm with
    | Some si, Some tag, Some t => verify pk si (auth_signature (pm_auth pm)) && list_N_eqb t tag
    | _, _, _ => false
    end.

  (* an accepted message: the sender's key signed exactly this content for exactly this group
     context, and the tag was made with the membership key over content + signature *)
  Theorem accepted_public_is_authentic pk mkey ver ctx pm :
    accept_public pk mkey ver ctx pm = true ->
    exists tbs tbm,
      encode T_AuthenticatedContentTBS (tbs_val ver 1 (pm_content pm) ctx) = Some tbs
      /\ (exists si, sign_input "FramedContentTBS" tbs = Some si /\ signed pk si)
      /\ encode T_AuthenticatedContentTBM (tbm_val ver 1 (pm_content pm) ctx (pm_auth pm)) = Some tbm
      /\ maced mkey tbm.
  Proof.
    unfold accept_public, public_sign_input, public_membership_tag.
    destruct (encode T_AuthenticatedContentTBS _) as [tbs|] eqn:Et; [|discriminate].
    destruct (sign_input _ tbs) as [si|] eqn:Es; [|discriminate].
    destruct (encode T_AuthenticatedContentTBM _) as [tbm|] eqn:Em; [|discriminate].
    destruct (pm_tag pm) as [t|]; [|discriminate].
    intro A. apply andb_true_iff in A. destruct A as [V T]. apply list_N_eqb_eq in T.
    exists tbs, tbm. split; [reflexivity|]. split; [exists si; split; [exact Es|eapply unforgeable; exact V]|].
    split; [reflexivity|]. eapply mac_unforgeable. exact T.
  Qed.

  (* hence: if what the honest sender signed was (ver', wire', fc', ctx'), the accepted message
     has that very content and was made for the receiver's own group context *)
  Corollary accepted_content_is_senders pk mkey ver ctx pm ver' w' fc' ctx' tbs' si' :
    accept_public pk mkey ver ctx pm = true ->
    (forall si, signed pk si -> si = si') ->                       (* the only thing the key ever signed *)
    encode T_AuthenticatedContentTBS (tbs_val ver' w' fc' ctx') = Some tbs' ->
    sign_input "FramedContentTBS" tbs' = Some si' ->
    vwf T_AuthenticatedContentTBS (tbs_val ver 1 (pm_content pm) ctx) = true ->
    vwf T_AuthenticatedContentTBS (tbs_val ver' w' fc' ctx') = true ->
    ver = ver' /\ w' = 1 /\ pm_content pm = fc' /\ (member_like fc' = true -> ctx = ctx').
  Proof.
    intros A Only Et' Es' W W'.
    destruct (accepted_public_is_authentic _ _ _ _ _ A) as (tbs & tbm & Et & (si & Es & Sg) & _).
    pose proof (Only si Sg) as ->. pose proof (sign_input_injective _ _ _ _ Es Es') as ->.
    destruct (tbs_injective _ _ _ _ _ _ _ _ _ W W' Et Et') as (A1 & A2 & A3 & A4).
    repeat split; try congruence. intro M. apply A4. rewrite A3. exact M.
  Qed.
End Acceptance.

Lemma enc_pair a b m bs : encode (TPair a b) m = Some bs ->
  exists x y ea eb, m = VCons x y /\ encode a x = Some ea /\ encode b y = Some eb /\ bs = ea ++ eb.
Proof.
  cbn [encode]. destruct m as [| | | |x y| | |]; try discriminate.
  destruct (encode a x) as [ea|] eqn:Ea; cbn [obind]; [|discriminate]. destruct (encode b y) as [eb|] eqn:Eb; cbn [obind]; [|discriminate].
  intro E. exists x, y, ea, eb. split; [reflexivity|]. split; [exact Ea|]. split; [exact Eb|]. congruence.
Qed.
Lemma enc_unit m bs : encode TUnit m = Some bs -> m = VNil.
Proof. cbn [encode]. destruct m; try discriminate. reflexivity. Qed.

(* ---- PrivateMessage: every field is AEAD-authenticated data or an AEAD ciphertext ---- *)
Lemma aad_wf : wf T_PrivateContentAAD.
Proof. unfold wf. wf_rec. Qed.

Theorem private_message_covered m1 m2 b1 b2 aad :
  encode T_PrivateMessage m1 = Some b1 -> encode T_PrivateMessage m2 = Some b2 ->
  encode T_PrivateContentAAD (prm_aad m1) = Some aad -> encode T_PrivateContentAAD (prm_aad m2) = Some aad ->
  prm_esd m1 = prm_esd m2 -> prm_ct m1 = prm_ct m2 -> m1 = m2.
Proof.
  intros E1 E2 A1 A2 Hs Hc.
  (* the shape of a value that encodes as a PrivateMessage *)
  assert (Sh : forall m b, encode T_PrivateMessage m = Some b ->
            exists g e ct ad s c, m = VCons g (VCons e (VCons ct (VCons ad (VCons s (VCons c VNil)))))).
  { intros m b E.
    change T_PrivateMessage with (TPair TBytes (TPair (TU 8) (TPair T_ContentType (TPair TBytes (TPair TBytes (TPair TBytes TUnit)))))) in E.
    apply enc_pair in E. destruct E as (g & r1 & ? & ? & -> & _ & E & _).
    apply enc_pair in E. destruct E as (e & r2 & ? & ? & -> & _ & E & _).
    apply enc_pair in E. destruct E as (ct & r3 & ? & ? & -> & _ & E & _).
    apply enc_pair in E. destruct E as (ad & r4 & ? & ? & -> & _ & E & _).
    apply enc_pair in E. destruct E as (sd & r5 & ? & ? & -> & _ & E & _).
    apply enc_pair in E. destruct E as (c & r6 & ? & ? & -> & _ & E & _).
    apply enc_unit in E. subst. repeat eexists. }
  destruct (Sh _ _ E1) as (g1 & e1 & ct1 & ad1 & s1 & c1 & ->).
  destruct (Sh _ _ E2) as (g2 & e2 & ct2 & ad2 & s2 & c2 & ->).
  cbn [prm_aad prm_esd prm_ct] in *. subst.
  assert (W : forall g e ct ad, vwf T_PrivateContentAAD (VCons g (VCons e (VCons ct (VCons ad VNil)))) = true).
  { intros g e ct ad. unfold T_PrivateContentAAD, tstruct. cbn [fold_right vwf].
    assert (vwf T_ContentType ct = true) as ->; [|reflexivity].
    unfold T_ContentType, tenum. cbn [tcases vwf]. destruct ct as [| | | | | | |d q]; try reflexivity.
    destruct (d =? 1); [reflexivity|]. destruct (d =? 2); [reflexivity|]. destruct (d =? 3); reflexivity. }
  destruct (unique_decoding _ _ _ _ _ [] [] aad_wf (W _ _ _ _) (W _ _ _ _) A1 A2 eq_refl) as [Ev _].
  congruence.
Qed.
