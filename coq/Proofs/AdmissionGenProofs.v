(* check_metadata as translated from message_processor.rs (Gen/AdmissionGen.v) is the admission
   rule the theorems of C02 / C16 / C19 are about (Model/Admission.v), for every view and message. *)
From Coq Require Import NArith Bool.
From MlsV Require Import Admission AdmissionGen.
Local Open Scope N_scope.

Theorem gen_check_metadata_is_model v gid epoch ct cipher :
  gen_check_metadata v gid epoch ct cipher = check_metadata v gid epoch ct cipher.
Proof.
  unfold gen_check_metadata, check_metadata.
  destruct (av_version_ok v); cbn [negb]; [|reflexivity].
  destruct (gid =? av_gid v); cbn [negb]; [|reflexivity].
  rewrite (N.eqb_sym epoch (av_epoch v)).
  destruct ct; cbn [ct_is orb andb].
  - destruct (av_min v) as [m|]; [destruct (epoch <? m); [reflexivity|]|]; destruct cipher; reflexivity.
  - destruct (av_epoch v =? epoch); cbn [negb andb]; [destruct cipher; reflexivity|reflexivity].
  - destruct (av_epoch v =? epoch); cbn [negb andb]; [destruct cipher; reflexivity|reflexivity].
Qed.
