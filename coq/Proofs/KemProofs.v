(* Every HPKE recipient of a path secret is a NON-BLANK node of the new tree lying in the
   resolution of the copath node, and is not a leaf added by the same commit.  A removed
   leaf is blank in the new tree, hence never a recipient. *)
From Coq Require Import NArith Arith List Bool Lia.
From MlsV Require Import Res TreeMathGen Tree TreeProofs TreeWF Kem.
Import ListNotations.
Local Open Scope N_scope.

Lemma Ok_inj {A} (a b : A) : Ok a = Ok b -> a = b.
Proof. congruence. Qed.

Lemma recipients_of_sound t excl : forall path copath rs,
  wf3 t -> recipients_of t path copath excl = Ok rs ->
  forall p xs x, In (p, xs) rs -> In x xs ->
    get t x <> None /\ (forall l, In l excl -> x <> 2 * l)
    /\ exists c r, In c copath /\ resolution_of t c = Ok r /\ In x r.
Proof.
  induction path as [|p0 pr IH]; intros copath rs W; destruct copath as [|c cr]; cbn [recipients_of];
    try (intro E; inversion E; subst; intros ? ? ? []).
  destruct (resolution_of t c) as [r| |] eqn:R; cbn [bind]; try discriminate.
  destruct (recipients_of t pr cr excl) as [rest| |] eqn:Rs; cbn [bind]; try discriminate.
  assert (Tail : forall p xs x, In (p, xs) rest -> In x xs ->
            get t x <> None /\ (forall l, In l excl -> x <> 2 * l) /\ exists c0 r0, In c0 (c :: cr) /\ resolution_of t c0 = Ok r0 /\ In x r0).
  { intros p xs x I1 I2. destruct (IH cr rest W Rs p xs x I1 I2) as (A & B & c0 & r0 & Ic & Er & Ix).
    split; [exact A|]. split; [exact B|]. exists c0, r0. split; [right; exact Ic|]. split; assumption. }
  destruct r as [|r0 rr].
  - intro E. apply Ok_inj in E. subst rs. exact Tail.
  - intro E. apply Ok_inj in E. subst rs. intros p xs x [I1|I1] I2; [|eapply Tail; eassumption].
    assert (p = p0 /\ xs = filter (not_excluded excl) (r0 :: rr)) as [-> ->] by (split; congruence). apply filter_In in I2. destruct I2 as [Ix Nx].
    split; [eapply resolution_nonblank; eassumption|]. split.
    + intros l Il Ex. unfold not_excluded, mem in Nx. apply negb_true_iff in Nx.
      assert (existsb (N.eqb x) (map (fun l0 => 2 * l0) excl) = true); [|congruence].
      apply existsb_exists. exists (2 * l). split; [apply in_map; exact Il|apply N.eqb_eq; exact Ex].
    + exists c, (r0 :: rr). split; [left; reflexivity|]. split; [exact R|exact Ix].
Qed.

Theorem seal_recipients_ok t sender excl rs :
  wf3 t -> encap_recipients t sender excl = Ok rs ->
  forall p xs x, In (p, xs) rs -> In x xs ->
    get t x <> None /\ (forall l, In l excl -> x <> 2 * l)
    /\ exists copath c r, copath_nodes t sender = Ok copath /\ In c copath /\ resolution_of t c = Ok r /\ In x r.
Proof.
  intros W. unfold encap_recipients. destruct (path_nodes t sender) as [path| |]; cbn [bind]; try discriminate.
  destruct (copath_nodes t sender) as [copath| |] eqn:C; cbn [bind]; try discriminate.
  intros E p xs x I1 I2. destruct (recipients_of_sound t excl path copath rs W E p xs x I1 I2) as (A & B & c & r & Ic & Er & Ix).
  split; [exact A|]. split; [exact B|]. exists copath, c, r. repeat split; assumption.
Qed.

(* a leaf removed by the commit is blank in the new tree: it receives nothing *)
Corollary removed_leaf_gets_nothing t sender excl rs l :
  wf3 t -> get t (2 * l) = None -> encap_recipients t sender excl = Ok rs ->
  forall p xs, In (p, xs) rs -> ~ In (2 * l) xs.
Proof.
  intros W B E p xs I1 I2. destruct (seal_recipients_ok t sender excl rs W E p xs (2 * l) I1 I2) as (A & _). congruence.
Qed.
