(* WF5: every non-blank parent has a member (non-blank leaf) in each of its two subtrees.
   Preserved by every commit; consequence: a FILTERED node of a committer's path (empty copath
   resolution) is blank. *)
From Coq Require Import NArith Arith List Bool Lia.
From MlsV Require Import Res TreeMathGen BitsN TreeMathProofs Tree TreeProofs TreeWF Kem Priv Decap DecapProofs.
Import ListNotations.
Local Open Scope N_scope.

Definition has_member (t : tree) (k j : N) : Prop := exists l, l / 2 ^ k = j /\ get t (2 * l) <> None.
Definition wf5 (t : tree) : Prop :=
  forall k j um, get t (node (k + 1) j) = Some (Par um) -> has_member t k (2 * j) /\ has_member t k (2 * j + 1).

(* t' has no more non-blank parents and no fewer non-blank leaves than t *)
Definition R (t t' : tree) : Prop :=
  (forall p, N.even p = false -> get t' p <> None -> get t p <> None) /\
  (forall l, get t (2 * l) <> None -> get t' (2 * l) <> None).

Lemma R_refl t : R t t.
Proof. split; intros; assumption. Qed.
Lemma R_trans a b c : R a b -> R b c -> R a c.
Proof. intros [A1 A2] [B1 B2]. split; intros; auto. Qed.

Lemma wf5_mono t t' : wf5 t -> shape_ok t -> R t t' -> wf5 t'.
Proof.
  intros W S [R1 R2] k j um G.
  assert (O : N.even (node (k + 1) j) = false) by apply node_odd_S.
  assert (Nb : get t (node (k + 1) j) <> None) by (apply R1; [exact O|congruence]).
  destruct (get t (node (k + 1) j)) as [[id|um0]|] eqn:G0; [|clear Nb|congruence].
  - specialize (S (node (k + 1) j)). rewrite G0 in S. cbn [kind_ok] in S. congruence.
  - destruct (W k j um0 G0) as [[l1 [E1 N1]] [l2 [E2 N2]]]. split; [exists l1|exists l2]; split; auto.
Qed.

(* ---- the operations that only add leaves / remove parents ---- *)
Lemma R_set_leaf t i id : R t (set t (2 * i) (Some (Leaf id))).
Proof.
  split.
  - intros p O Nb. rewrite get_set_other in Nb; [exact Nb|]. intro E. subst p. rewrite N.even_mul in O. discriminate.
  - intros l Nb. destruct (N.eq_dec (2 * l) (2 * i)) as [E|Ne].
    + rewrite E. rewrite get_set_same; [discriminate|]. rewrite <- E.
      destruct (get t (2 * l)) as [n|] eqn:G; [eapply get_some_lt; exact G|congruence].
    + rewrite get_set_other by congruence. exact Nb.
Qed.

Lemma R_get_eq t t' : (forall i, get t' i = get t i) -> R t t'.
Proof. intro E. split; intros; rewrite E in *; assumption. Qed.

Lemma R_insert_leaf t l id : R t (insert_leaf t l (Leaf id)).
Proof.
  unfold insert_leaf. eapply R_trans; [|apply R_set_leaf].
  destruct (tlen t <? 2 * l); [apply R_get_eq; intro i; apply (get_app_blank t 2)|].
  destruct (N.eqb_spec (tlen t) 0) as [E|]; [|apply R_refl].
  apply R_get_eq. intro i. unfold tlen in E. destruct t; [|cbn [length] in E; lia].
  unfold get. destruct (N.to_nat i) as [|[|n]]; reflexivity.
Qed.

Lemma R_set_par t p um um' : get t p = Some (Par um) -> R t (set t p (Some (Par um'))).
Proof.
  intro G. split.
  - intros q O Nb. destruct (N.eq_dec q p) as [->|Ne]; [congruence|]. rewrite get_set_other in Nb by congruence. exact Nb.
  - intros l Nb. destruct (N.eq_dec (2 * l) p) as [E|Ne].
    + rewrite E, get_set_same by (eapply get_some_lt; exact G). discriminate.
    + rewrite get_set_other by congruence. exact Nb.
Qed.

Lemma R_update_unmerged path : forall t leaf t', update_unmerged t leaf path = TOk t' -> R t t'.
Proof.
  induction path as [|p r IH]; intros t leaf t'; cbn [update_unmerged]; [intro E; inversion E; subst; apply R_refl|].
  destruct (get t p) as [[id|um]|] eqn:G; try apply IH.
  destruct (insert_sorted leaf um) as [um'|]; [|discriminate]. intro E.
  eapply R_trans; [eapply R_set_par; exact G|eapply IH; exact E].
Qed.

Lemma R_blank_parents ns : forall t, Forall (fun p => N.even p = false) ns -> R t (blank_nodes t ns).
Proof.
  intros t F. rewrite Forall_forall in F. split.
  - intros p O Nb. rewrite get_blank_nodes in Nb. destruct (existsb (N.eqb p) ns); [congruence|exact Nb].
  - intros l Nb. rewrite get_blank_nodes. destruct (existsb (N.eqb (2 * l)) ns) eqn:Ex; [|exact Nb].
    exfalso. apply existsb_exists in Ex. destruct Ex as (y & Iy & Ey). apply N.eqb_eq in Ey. subst y.
    specialize (F _ Iy). rewrite N.even_mul in F. discriminate.
Qed.

Lemma R_trim t : R t (trim t).
Proof.
  apply R_get_eq. intro i. destruct (trim_prefix t) as [k E]. rewrite E at 2. symmetry. apply get_app_blank.
Qed.

Lemma R_add_leaf t id start t' idx : small t -> tlen t + 2 < 2 ^ 25 -> add_leaf t id start = TOk (t', idx) -> R t t'.
Proof.
  intros _ _. unfold add_leaf. destruct (negb _); [discriminate|].
  destruct (lift (path_nodes _ _)) as [path| |]; cbn [tbind]; try discriminate.
  destruct (update_unmerged _ _ path) as [t2| |] eqn:U; cbn [tbind]; try discriminate.
  intro E. inversion E; subst. eapply R_trans; [apply R_insert_leaf|eapply R_update_unmerged; exact U].
Qed.

Lemma R_apply_updates us : forall t t', apply_updates t us = TOk t' -> R t t'.
Proof.
  induction us as [|[i id] rest IH]; intros t t'; cbn [apply_updates]; [intro E; inversion E; subst; apply R_refl|].
  destruct (get t (2 * i)) as [[x|um]|]; try discriminate. intro E.
  eapply R_trans; [apply R_set_leaf|eapply IH; exact E].
Qed.

Lemma R_blank_paths ls : forall t t', small t -> Forall (fun l => 2 * l <= tlen t) ls -> blank_paths t ls = TOk t' -> R t t'.
Proof.
  induction ls as [|l rest IH]; intros t t' S F; cbn [blank_paths]; [intro E; inversion E; subst; apply R_refl|].
  inversion F as [|? ? Hl Fr]; subst.
  destruct (blank_direct_path t l) as [t1| |] eqn:D; cbn [tbind]; try discriminate. intro E.
  pose proof (blank_direct_path_length _ _ _ D) as L1.
  unfold blank_direct_path in D. destruct (path_nodes t l) as [p| |] eqn:P; cbn [lift tbind] in D; try discriminate.
  assert (t1 = blank_nodes t p) by congruence. subst t1.
  eapply R_trans; [apply R_blank_parents; eapply path_nodes_odd; eassumption|].
  eapply IH; [unfold small in *; lia|rewrite L1; exact Fr|exact E].
Qed.

Lemma R_apply_adds ids : forall t start acc t' added,
  tlen t + 2 * N.of_nat (length ids) < 2 ^ 25 -> apply_adds t ids start acc = TOk (t', added) -> R t t'.
Proof.
  induction ids as [|id rest IH]; intros t start acc t' added S; cbn [apply_adds]; [intro E; inversion E; subst; apply R_refl|].
  destruct (add_leaf t id start) as [[t1 idx]| |] eqn:A; cbn [tbind]; try discriminate. intro E.
  cbn [length] in S. pose proof (add_leaf_length _ _ _ _ _ A) as L1.
  eapply R_trans; [eapply R_add_leaf; [unfold small; lia|lia|exact A]|eapply IH; [|exact E]]. lia.
Qed.

(* ---- removal: the leaf and all its ancestors become blank ---- *)
Lemma member_below_is_descendant k j l : l / 2 ^ k = 2 * j \/ l / 2 ^ k = 2 * j + 1 -> ancestor (node (k + 1) j) l.
Proof.
  intro H. exists k, j. split; [reflexivity|].
  rewrite N.pow_add_r, N.pow_1_r, <- N.div_div by (try apply N.pow_nonzero; lia).
  destruct H as [-> | ->].
  - rewrite N.mul_comm, N.div_mul; lia.
  - symmetry. apply (N.div_unique _ _ j 1); lia.
Qed.

Lemma wf5_blank_leaf_and_path t l path :
  wf5 t -> small t -> 2 * l < tlen t -> path_nodes t l = Ok path ->
  wf5 (blank_nodes (set t (2 * l) None) path).
Proof.
  intros W S L P k j um G.
  pose proof (path_nodes_odd t l path S ltac:(lia) P) as Fo. rewrite Forall_forall in Fo.
  rewrite get_blank_nodes in G. destruct (existsb (N.eqb (node (k + 1) j)) path) eqn:Ex; [discriminate|].
  rewrite get_set_none in G. destruct (N.eqb_spec (node (k + 1) j) (2 * l)) as [|Nq]; [discriminate|].
  assert (keepleaf : forall m, ancestor (node (k + 1) j) m -> get t (2 * m) <> None ->
                               get (blank_nodes (set t (2 * l) None) path) (2 * m) <> None).
  { intros m A Nb. assert (Nm : m <> l).
    { intro E. subst m. assert (In (node (k + 1) j) path) by (eapply path_nodes_complete; try eassumption; eapply get_some_lt; exact G).
      assert (existsb (N.eqb (node (k + 1) j)) path = true) by (apply existsb_exists; eexists; split; [eassumption|apply N.eqb_refl]). congruence. }
    rewrite get_blank_nodes. destruct (existsb (N.eqb (2 * m)) path) eqn:Ex2.
    - exfalso. apply existsb_exists in Ex2. destruct Ex2 as (y & Iy & Ey). apply N.eqb_eq in Ey. subst y.
      specialize (Fo _ Iy). rewrite N.even_mul in Fo. discriminate.
    - rewrite get_set_none. destruct (N.eqb_spec (2 * m) (2 * l)); [lia|exact Nb]. }
  destruct (W k j um G) as [[l1 [E1 N1]] [l2 [E2 N2]]].
  split; [exists l1|exists l2]; (split; [assumption|]); apply keepleaf; try assumption; apply member_below_is_descendant; auto.
Qed.

Theorem wf5_remove t l t1 t2 :
  wf5 t -> small t -> blank_leaf t l = TOk t1 -> blank_direct_path t1 l = TOk t2 -> wf5 t2.
Proof.
  intros W S. unfold blank_leaf. destruct (get t (2 * l)) as [[x|um]|] eqn:G; try discriminate.
  intro E. assert (E' : t1 = set t (2 * l) None) by congruence. subst t1. clear E. unfold blank_direct_path.
  assert (L : 2 * l < tlen t) by (eapply get_some_lt; exact G).
  assert (Pe : path_nodes (set t (2 * l) None) l = path_nodes t l).
  { unfold path_nodes, total_leaf_count. rewrite set_length. reflexivity. }
  rewrite Pe. destruct (path_nodes t l) as [path| |] eqn:P; cbn [lift tbind]; try discriminate.
  intro E. inversion E; subst. eapply wf5_blank_leaf_and_path; eassumption.
Qed.

Lemma wf5_apply_removes rs : forall t t', wf5 t -> small t -> apply_removes t rs = TOk t' -> wf5 t' /\ tlen t' = tlen t.
Proof.
  induction rs as [|r rest IH]; intros t t' W S; cbn [apply_removes].
  - intro E. assert (t' = t) by congruence. subst. split; [exact W|reflexivity].
  - destruct (blank_leaf t r) as [t1| |] eqn:B; cbn [tbind]; try discriminate.
    destruct (blank_direct_path t1 r) as [t2| |] eqn:D; cbn [tbind]; try discriminate.
    intro E. pose proof (blank_leaf_length _ _ _ B) as L1. pose proof (blank_direct_path_length _ _ _ D) as L2.
    destruct (IH t2 t' (wf5_remove t r t1 t2 W S B D) ltac:(unfold small in *; lia) E) as [W' L']. split; [exact W'|lia].
Qed.

(* ---- all proposals of a commit ---- *)
Theorem wf5_batch_edit t removes updates adds t' added :
  wf5 t -> shape_ok t -> tlen t + 2 * N.of_nat (length adds) < 2 ^ 25 ->
  batch_edit t removes updates adds = TOk (t', added) -> wf5 t'.
Proof.
  intros W Sh S. unfold batch_edit.
  destruct (apply_removes t (rev removes)) as [t1| |] eqn:Rm; cbn [tbind]; try discriminate.
  destruct (apply_updates t1 updates) as [t2| |] eqn:U; cbn [tbind]; try discriminate.
  destruct (blank_paths t2 (map fst updates)) as [t3| |] eqn:B; cbn [tbind]; try discriminate.
  destruct (apply_adds t3 adds 0 []) as [[t4 ad]| |] eqn:A; cbn [tbind]; try discriminate.
  intro E. assert (t' = trim t4) by congruence. subst t'.
  destruct (wf5_apply_removes _ _ _ W ltac:(unfold small; lia) Rm) as [W1 L1].
  pose proof (shape_apply_removes _ _ _ Sh Rm) as Sh1.
  eapply (wf5_mono t1); [exact W1|exact Sh1|].
  eapply R_trans; [eapply R_apply_updates; exact U|].
  assert (L2' : tlen t2 = tlen t1).
  { clear - U. revert t1 t2 U. induction updates as [|[i id] rest IH]; intros t1 t2; cbn [apply_updates]; [intro E; inversion E; reflexivity|].
    destruct (get t1 (2 * i)) as [[x|um]|]; try discriminate. intro E. rewrite (IH _ _ E). apply set_length. }
  pose proof (apply_updates_in_range _ _ _ U) as Fr.
  eapply R_trans; [eapply R_blank_paths; [|rewrite L2'; exact Fr|exact B]; unfold small; lia|].
  assert (L3 : tlen t3 = tlen t2).
  { clear - B. revert t2 t3 B. induction (map fst updates) as [|l rest IH]; intros t2 t3; cbn [blank_paths]; [intro E; inversion E; reflexivity|].
    destruct (blank_direct_path t2 l) as [tt| |] eqn:D; cbn [tbind]; try discriminate. intro E. rewrite (IH _ _ E). eapply blank_direct_path_length; exact D. }
  eapply R_trans; [eapply R_apply_adds; [|exact A]; lia|apply R_trim].
Qed.

(* ---- the update path ---- *)
Lemma resolution_of_spec_fuel t k j : (k <= 29)%nat -> (sz k + 1 <= 2 * length t + 4)%nat ->
  resolution_of t (node (N.of_nat k) j) = Ok (reso_spec t k j).
Proof.
  intros L F. unfold resolution_of.
  replace (2 * length t + 4)%nat with ((sz k + 1) + (2 * length t + 4 - (sz k + 1)))%nat by lia.
  apply resolution_fuel_mono. rewrite <- (app_nil_r (reso_spec t k j)). apply resolution_spec; [exact L|reflexivity].
Qed.

Lemma member_up t k j : has_member t k j -> has_member t (k + 1) (j / 2).
Proof.
  intros [l [E Nb]]. exists l. split; [|exact Nb].
  rewrite N.pow_add_r, N.pow_1_r, <- N.div_div by (try apply N.pow_nonzero; lia). rewrite E. reflexivity.
Qed.

Lemma reso_nonempty_member t : shape_ok t -> wf5 t -> forall k j x, In x (reso_spec t k j) -> has_member t (N.of_nat k) j.
Proof.
  intros Sh W. induction k as [|k IH]; intros j x; cbn [reso_spec].
  - destruct (get t (node (N.of_nat 0) j)) as [[id|um]|] eqn:G; cbn [N.of_nat] in *.
    + intros _. exists j. split; [rewrite N.pow_0_r, N.div_1_r; reflexivity|]. rewrite node_0 in G. congruence.
    + specialize (Sh (node 0 j)). rewrite G in Sh. cbn [kind_ok] in Sh. rewrite node_even_0 in Sh. discriminate.
    + intros [].
  - destruct (get t (node (N.of_nat (S k)) j)) as [[id|um]|] eqn:G.
    + specialize (Sh (node (N.of_nat (S k)) j)). rewrite G in Sh. cbn [kind_ok] in Sh.
      replace (N.of_nat (S k)) with (N.of_nat k + 1) in Sh by lia. rewrite node_odd_S in Sh. discriminate.
    + intros _. replace (N.of_nat (S k)) with (N.of_nat k + 1) in * by lia.
      destruct (W _ _ _ G) as [M _]. apply member_up in M.
      replace (2 * j / 2) with j in M by (rewrite N.mul_comm, N.div_mul; lia). exact M.
    + intro I. apply in_app_or in I. replace (N.of_nat (S k)) with (N.of_nat k + 1) by lia.
      destruct I as [I|I]; apply IH in I; apply member_up in I.
      * replace (2 * j / 2) with j in I by (rewrite N.mul_comm, N.div_mul; lia). exact I.
      * replace ((2 * j + 1) / 2) with j in I by (apply (N.div_unique _ _ j 1); lia). exact I.
Qed.

Lemma sib_cases j : (j = 2 * (j / 2) /\ sib j = 2 * (j / 2) + 1) \/ (j = 2 * (j / 2) + 1 /\ sib j = 2 * (j / 2)).
Proof.
  unfold sib. destruct (even_odd_cases j) as [[Ev E]|[Ev E]]; rewrite Ev; [left|right]; split; lia.
Qed.

Lemma wf5_apply_path_spec orig n : forall k j t t',
  shape_ok orig -> wf5 orig ->
  (forall l, get orig (2 * l) <> None -> get t (2 * l) <> None) ->
  wf5 t -> has_member orig (N.of_nat k) j ->
  (k + n <= 29)%nat -> (sz (k + n) <= 2 * length orig + 3)%nat ->
  apply_path_nodes t (map CopathNode_path (path_spec n (N.of_nat k) j)) (map CopathNode_copath (path_spec n (N.of_nat k) j)) orig = Ok t' ->
  wf5 t'.
Proof.
  induction n as [|n IH]; intros k j t t' Sh Wo Lv Wt M Lk Fz; cbn [path_spec map apply_path_nodes CopathNode_path CopathNode_copath].
  - intro E. unfold ret in E. assert (t' = t) by congruence. subst. exact Wt.
  - assert (Fk : (sz k + 1 <= 2 * length orig + 4)%nat).
    { assert (sz k <= sz (k + S n))%nat; [|lia]. clear. induction n as [|n IHn].
      - replace (k + 1)%nat with (S k) by lia. cbn [sz]. lia.
      - replace (k + S (S n))%nat with (S (k + S n)) by lia. cbn [sz]. lia. }
    unfold resolution_empty. rewrite resolution_of_spec_fuel by (try lia; exact Fk). cbn [bind ret].
    replace (N.of_nat k + 1) with (N.of_nat (S k)) by lia.
    destruct (reso_spec orig k (sib j)) as [|x0 r0] eqn:Rs.
    + apply IH; try assumption; try lia.
      * replace (N.of_nat (S k)) with (N.of_nat k + 1) by lia. apply member_up. exact M.
      * replace (S k + n)%nat with (k + S n)%nat by lia. exact Fz.
    + set (p := node (N.of_nat (S k)) (j / 2)).
      set (tt := t ++ repeat None (N.to_nat p + 1 - length t)).
      assert (Lp : p < tlen tt).
      { unfold tt, tlen. rewrite app_length, repeat_length. lia. }
      assert (Op : N.even p = false) by (unfold p; replace (N.of_nat (S k)) with (N.of_nat k + 1) by lia; apply node_odd_S).
      assert (Msib : has_member orig (N.of_nat k) (sib j)).
      { eapply (reso_nonempty_member orig Sh Wo k (sib j) x0). rewrite Rs. left. reflexivity. }
      assert (Lv' : forall l, get orig (2 * l) <> None -> get (set tt p (Some (Par []))) (2 * l) <> None).
      { intros l Nb. rewrite get_set_other by (intro E; rewrite E, N.even_mul in Op; discriminate).
        unfold tt. rewrite get_app_blank. apply Lv. exact Nb. }
      apply IH; try assumption; try lia.
      * intros k0 j0 um G. destruct (N.eq_dec (node (k0 + 1) j0) p) as [E|Ne].
        -- unfold p in E. replace (N.of_nat (S k)) with (N.of_nat k + 1) in E by lia.
           pose proof (node_inj_level _ _ _ _ E) as Ek. assert (k0 = N.of_nat k) by (apply N.add_cancel_r in Ek; exact Ek). subst k0.
           assert (j0 = j / 2).
           { unfold node in E. pose proof (pow2_pos (N.of_nat k + 1)) as P.
             assert ((2 * j0 + 1) * 2 ^ (N.of_nat k + 1) = (2 * (j / 2) + 1) * 2 ^ (N.of_nat k + 1)) as E2.
             { set (P2 := 2 ^ (N.of_nat k + 1)) in *. assert (0 < (2 * j0 + 1) * P2) by (apply N.mul_pos_pos; lia). assert (0 < (2 * (j / 2) + 1) * P2) by (apply N.mul_pos_pos; [apply N.add_pos_r; lia|exact P]). set (h := j / 2) in *. clearbody h. lia. }
             apply N.mul_cancel_r in E2; lia. }
           subst j0.
           assert (lift_m : forall jj, has_member orig (N.of_nat k) jj -> has_member (set tt p (Some (Par []))) (N.of_nat k) jj).
           { intros jj [l [El Nl]]. exists l. split; [exact El|apply Lv'; exact Nl]. }
           destruct (sib_cases j) as [[Ej Es]|[Ej Es]]; split; apply lift_m.
           ++ rewrite <- Ej. exact M.
           ++ rewrite <- Es. exact Msib.
           ++ rewrite <- Es. exact Msib.
           ++ rewrite <- Ej. exact M.
        -- rewrite get_set_other in G by congruence. unfold tt in G. rewrite get_app_blank in G.
           destruct (Wt _ _ _ G) as [[l1 [E1 N1]] [l2 [E2 N2]]].
           assert (keep : forall l, get t (2 * l) <> None -> get (set tt p (Some (Par []))) (2 * l) <> None).
           { intros l Nb. rewrite get_set_other by (intro E; rewrite E, N.even_mul in Op; discriminate).
             unfold tt. rewrite get_app_blank. exact Nb. }
           split; [exists l1|exists l2]; split; auto.
      * replace (N.of_nat (S k)) with (N.of_nat k + 1) by lia. apply member_up. exact M.
      * replace (S k + n)%nat with (k + S n)%nat by lia. exact Fz.
Qed.

Theorem wf5_apply_update_path t sender id t' :
  wf5 t -> shape_ok t -> small t -> apply_update_path t sender id = TOk t' -> wf5 t'.
Proof.
  intros W Sh S. unfold apply_update_path. destruct (get t (2 * sender)) as [[x|um]|] eqn:G; try discriminate.
  set (t1 := set t (2 * sender) (Some (Leaf id))).
  assert (Lt : 2 * sender < tlen t) by (eapply get_some_lt; exact G).
  assert (W1 : wf5 t1) by (eapply wf5_mono; [exact W|exact Sh|apply R_set_leaf]).
  assert (Sh1 : shape_ok t1) by (apply shape_set; [exact Sh|cbn [kind_ok]; rewrite N.even_mul; reflexivity]).
  assert (L1 : tlen t1 = tlen t) by apply set_length.
  assert (S1 : small t1) by (unfold small; rewrite L1; exact S).
  destruct (path_nodes_spec t1 sender S1 ltac:(lia)) as (d & Et & Hd & Hl & P & C).
  rewrite P, C. cbn [lift tbind].
  destruct (apply_path_nodes t1 _ _ t1) as [t2| |] eqn:A; cbn [lift]; try discriminate.
  intro E. assert (t' = t2) by congruence. subst.
  change 0 with (N.of_nat 0) in A.
  eapply (wf5_apply_path_spec t1 (N.to_nat d) 0 sender t1 t2 Sh1 W1); try exact A; try assumption.
  - intros l Nb. exact Nb.
  - exists sender. split; [cbn [N.of_nat]; rewrite N.pow_0_r, N.div_1_r; reflexivity|].
    unfold t1. rewrite get_set_same by exact Lt. discriminate.
  - lia.
  - destruct (total_leaf_count_spec t1 S1) as (d' & Et' & _ & Hn & Hlow). rewrite Et in Et'.
    assert (d' = d) by (apply N.pow_inj_r in Et'; lia). subst d'.
    pose proof (sz_pow (N.to_nat d)) as Z. rewrite Nnat.N2Nat.id in Z. cbn [plus].
    assert (2 ^ d <= tlen t1 + 2).
    { destruct Hlow as [->|Hlow]; [cbn; lia|].
      replace d with ((d - 1) + 1) by (assert (d <> 0) by (intro; subst; cbn in Hlow; lia); lia).
      rewrite N.pow_add_r, N.pow_1_r.
      pose proof (N.div_mod (tlen t1) 2 ltac:(lia)) as DM. pose proof (N.mod_upper_bound (tlen t1) 2 ltac:(lia)) as MU.
      set (h := tlen t1 / 2) in *. set (r := tlen t1 mod 2) in *. set (PP := 2 ^ (d - 1)) in *. clearbody h r PP. lia. }
    unfold tlen in *. lia.
Qed.

Theorem wf5_apply_commit t removes updates adds path t' added :
  wf3 t -> wf5 t -> shape_ok t -> tlen t + 2 * N.of_nat (length adds) < 2 ^ 25 ->
  apply_commit t removes updates adds path = TOk (t', added) -> wf5 t'.
Proof.
  intros W3 W Sh S. unfold apply_commit.
  destruct (batch_edit t removes updates adds) as [[t1 ad]| |] eqn:B; cbn [tbind]; try discriminate.
  pose proof (wf5_batch_edit _ _ _ _ _ _ W Sh S B) as W1.
  destruct (shape_batch_edit _ _ _ _ _ _ Sh B) as [Sh1 _].
  destruct (wf3_batch_edit _ _ _ _ _ _ W3 S B) as [_ L1].
  destruct path as [[sender id]|].
  - destruct (apply_update_path t1 sender id) as [t2| |] eqn:A; cbn [tbind]; try discriminate.
    intro E. assert (t' = t2) by congruence. subst. eapply wf5_apply_update_path; [exact W1|exact Sh1| |exact A]. unfold small. lia.
  - intro E. assert (t' = t1) by congruence. subst. exact W1.
Qed.

(* ---- consequence: a filtered node of the committer's path is blank ---- *)
Lemma member_in_reso t : shape_ok t -> forall k j l, l / 2 ^ N.of_nat k = j -> get t (2 * l) <> None ->
  exists x, In x (reso_spec t k j).
Proof.
  intros Sh. induction k as [|k IH]; intros j l E Nb; cbn [reso_spec].
  - cbn [N.of_nat] in *. rewrite N.pow_0_r, N.div_1_r in E. subst j. rewrite node_0.
    destruct (get t (2 * l)) as [[id|um]|]; [eexists; left; reflexivity|eexists; left; reflexivity|congruence].
  - destruct (get t (node (N.of_nat (S k)) j)) as [[id|um]|]; [eexists; left; reflexivity|eexists; left; reflexivity|].
    assert (Hc : l / 2 ^ N.of_nat k = 2 * j \/ l / 2 ^ N.of_nat k = 2 * j + 1).
    { replace (N.of_nat (S k)) with (N.of_nat k + 1) in E by lia.
      rewrite N.pow_add_r, N.pow_1_r, <- N.div_div in E by (try apply N.pow_nonzero; lia).
      destruct (even_odd_cases (l / 2 ^ N.of_nat k)) as [[_ H]|[_ H]]; rewrite E in H; [left|right]; exact H. }
    destruct Hc as [Hc|Hc]; destruct (IH _ l Hc Nb) as [x I]; exists x; apply in_or_app; [left|right]; exact I.
Qed.

Theorem filtered_node_is_blank t s k :
  shape_ok t -> wf5 t -> (k <= 29)%nat -> (sz k + 1 <= 2 * length t + 4)%nat ->
  get t (2 * s) <> None ->
  resolution_empty t (node (N.of_nat k) (sib (s / 2 ^ N.of_nat k))) = Ok true ->
  get t (node (N.of_nat k + 1) (s / 2 ^ (N.of_nat k + 1))) = None.
Proof.
  intros Sh W L F Nb E. unfold resolution_empty in E. rewrite resolution_of_spec_fuel in E by assumption. cbn [bind ret] in E.
  destruct (get t (node (N.of_nat k + 1) (s / 2 ^ (N.of_nat k + 1)))) as [[id|um]|] eqn:G; [| |reflexivity]; exfalso.
  - specialize (Sh (node (N.of_nat k + 1) (s / 2 ^ (N.of_nat k + 1)))). rewrite G in Sh. cbn [kind_ok] in Sh. rewrite node_odd_S in Sh. discriminate.
  - destruct (W _ _ _ G) as [M1 M2].
    assert (J : s / 2 ^ (N.of_nat k + 1) = s / 2 ^ N.of_nat k / 2) by (rewrite N.pow_add_r, N.pow_1_r, N.div_div by (try apply N.pow_nonzero; lia); reflexivity).
    rewrite J in M1, M2.
    assert (M : has_member t (N.of_nat k) (sib (s / 2 ^ N.of_nat k))).
    { destruct (sib_cases (s / 2 ^ N.of_nat k)) as [[_ Es]|[_ Es]]; rewrite Es; assumption. }
    destruct M as [l [El Nl]]. destruct (member_in_reso t Sh k _ l El Nl) as [x I].
    destruct (reso_spec t k (sib (s / 2 ^ N.of_nat k))); [destruct I|]. unfold ret in E. congruence.
Qed.

(* every tree reachable from the one-member tree satisfies WF5 *)
Lemma wf5_single id : wf5 [Some (Leaf id)].
Proof.
  intros k j um G. exfalso. unfold get in G. destruct (N.to_nat (node (k + 1) j)) as [|[|n]] eqn:E; cbn in G; discriminate.
Qed.

(* non-vacuity *)
Example wf5_ex : let t := [Some (Leaf 10); Some (Par []); None; Some (Par [2]); Some (Leaf 12); None; None] in
  apply_commit t [] [] [13] (Some (0, 11)) =
    TOk ([Some (Leaf 11); Some (Par []); Some (Leaf 13); Some (Par []); Some (Leaf 12)], [1]).
Proof. vm_compute. reflexivity. Qed.
