(* The hypotheses of the tie between the parent-hash walk of the code and [decorate] discharged for the tree an
   update path has just been applied to: the filter flags computed BEFORE the path nodes were written are the
   emptiness of the copath resolutions AFTER it (the copath subtrees are not touched), and the unfiltered path
   nodes are parents.  Also: parent-hash validity only depends on the decoration pointwise. *)
From Coq Require Import NArith Arith List Bool Lia.
From MlsV Require Import Res TreeMathGen BitsN TreeMathProofs Tree TreeProofs TreeWF Kem Priv PrivProofs Decap DecapProofs TreeWF5 PrivComplete ParentHash.
Import ListNotations.
Local Open Scope N_scope.

Lemma agree_refl_deco t d : forall k j, agree t t d d k j.
Proof. induction k as [|k IH]; intro j; cbn [agree]; (split; [reflexivity|split; [reflexivity|try exact I; split; apply IH]]). Qed.

Lemma agree_pointwise t d d' : (forall x, d' x = d x) -> forall k j, agree t t d d' k j.
Proof. intros E. induction k as [|k IH]; intro j; cbn [agree]; (split; [reflexivity|split; [intros _; apply E|try exact I; split; apply IH]]). Qed.

Theorem PHValid_pointwise PHF t d d' : (forall x, d' x = d x) -> PHValid PHF t d -> PHValid PHF t d'.
Proof.
  intros E V k j. apply (valid_frame PHF t t d d' k j eq_refl (fun _ => E _)); [apply agree_pointwise; exact E|apply agree_pointwise; exact E|apply V].
Qed.

Lemma reso_spec_agree t t' d d' : forall k j, agree t t' d d' k j -> reso_spec t' k j = reso_spec t k j.
Proof.
  induction k as [|k IH]; intros j A; cbn [agree reso_spec] in *.
  - destruct A as (G & _). rewrite G. reflexivity.
  - destruct A as (G & _ & A1 & A2). rewrite G, (IH _ A1), (IH _ A2). reflexivity.
Qed.

Lemma filtered_of_nth t : forall l fl, filtered_of t l = Ok fl ->
  forall i c b, nth_error l i = Some c -> nth_error fl i = Some b -> resolution_empty t c = Ok b.
Proof.
  induction l as [|x l IH]; intros fl F i c b Hc Hb; [destruct i; discriminate|].
  cbn [filtered_of] in F. destruct (resolution_empty t x) as [e| |] eqn:R; cbn [bind] in F; try discriminate.
  destruct (filtered_of t l) as [rest| |] eqn:Fr; cbn [bind ret] in F; try discriminate.
  unfold ret in F. assert (fl = e :: rest) by (injection F; auto). subst fl.
  destruct i as [|i]; cbn [nth_error] in Hc, Hb; [congruence|]. apply (IH rest eq_refl i c b Hc Hb).
Qed.

Lemma path_spec_copath : forall n k j i, (i < n)%nat ->
  nth_error (map CopathNode_copath (path_spec n k j)) i = Some (node (k + N.of_nat i) (sib (j / 2 ^ N.of_nat i))).
Proof.
  induction n as [|n IH]; intros k j i L; [lia|]. cbn [path_spec map].
  destruct i as [|i]; cbn [nth_error CopathNode_copath].
  - cbn [N.of_nat]. rewrite N.add_0_r, N.pow_0_r, N.div_1_r. reflexivity.
  - rewrite IH by lia. f_equal. f_equal; [lia|]. f_equal.
    rewrite N.div_div by (try apply N.pow_nonzero; lia). f_equal. rewrite Nat2N.inj_succ, N.pow_succ_r by lia. reflexivity.
Qed.

Lemma apply_path_nodes_length orig : forall path copath t t',
  apply_path_nodes t path copath orig = Ok t' -> (length t <= length t')%nat.
Proof.
  induction path as [|p pr IH]; intros copath t t' A; cbn [apply_path_nodes] in A; [injection A as <-; lia|].
  destruct copath as [|c cr]; [injection A as <-; lia|].
  destruct (resolution_empty orig c) as [e| |]; cbn [bind] in A; try discriminate.
  apply IH in A. destruct e; [exact A|].
  assert (L : tlen (set (t ++ repeat None (N.to_nat p + 1 - length t)) p (Some (Par []))) = tlen (t ++ repeat None (N.to_nat p + 1 - length t))) by apply set_length.
  unfold tlen in L. rewrite app_length in L. lia.
Qed.

(* the filter flags computed before the path nodes are written are the emptiness of the copath resolutions after *)
Theorem flags_after_update_path t1 sndr id t2 flt :
  small t1 -> apply_update_path t1 sndr id = TOk t2 ->
  filtered (set t1 (2 * sndr) (Some (Leaf id))) sndr = Ok flt ->
  forall i b, nth_error flt i = Some b ->
  resolution_empty t2 (node (N.of_nat i) (sib (sndr / 2 ^ N.of_nat i))) = Ok b.
Proof.
  intros Sm Ap Fl i b Hb.
  destruct (update_path_effect t1 sndr id t2 Sm Ap) as (dd & flt0 & Et & F0 & Lf & Ls & Off & On & Ofl).
  set (t1' := set t1 (2 * sndr) (Some (Leaf id))) in *.
  assert (flt0 = flt) by congruence. subst flt0.
  assert (Sm' : small t1') by (unfold small, t1'; rewrite set_length; exact Sm).
  destruct (total_leaf_count_spec t1' Sm') as (d' & Et' & Hd & Hn & _). rewrite Et in Et'.
  assert (d' = dd) by (apply N.pow_inj_r in Et'; lia). subst d'.
  assert (Li : (i < N.to_nat dd)%nat) by (rewrite <- Lf; apply nth_error_Some; congruence).
  assert (Hs : sndr < 2 ^ dd) by (unfold t1' in Hn; rewrite set_length in Hn; unfold tlen in Hn, Ls; pose proof (N.div_le_lower_bound (N.of_nat (length t1)) 2 sndr ltac:(lia) ltac:(lia)); lia).
  (* the flag is the emptiness of the resolution in t1' *)
  assert (R1 : resolution_empty t1' (node (N.of_nat i) (sib (sndr / 2 ^ N.of_nat i))) = Ok b).
  { unfold filtered, copath_nodes in Fl. rewrite Et in Fl.
    pose proof (direct_copath_ok dd 0 sndr ltac:(lia) ltac:(lia) ltac:(rewrite N.sub_0_r; exact Hs)) as DC.
    rewrite node_0 in DC. rewrite DC in Fl. cbn [bind ret] in Fl. rewrite N.sub_0_r in Fl.
    apply (filtered_of_nth t1' _ flt Fl i _ b); [|exact Hb].
    rewrite path_spec_copath by exact Li. rewrite N.add_0_l. reflexivity. }
  (* the copath subtree is the same in t2 *)
  assert (Fu : forall t : tree, (length t1' <= length t)%nat -> (sz i + 1 <= 2 * length t + 4)%nat).
  { intros t Lt. pose proof (depth_fuel t1' dd Sm' Et) as Df. pose proof (sz_mono (S i) (N.to_nat dd) ltac:(lia)) as Mo. cbn [sz] in Mo. lia. }
  assert (L2 : (length t1' <= length t2)%nat).
  { unfold apply_update_path in Ap. destruct (get t1 (2 * sndr)) as [[x|um]|]; try discriminate. fold t1' in Ap.
    destruct (path_nodes t1' sndr) as [path| |]; cbn [lift tbind] in Ap; try discriminate.
    destruct (copath_nodes t1' sndr) as [cop| |]; cbn [lift tbind] in Ap; try discriminate.
    destruct (apply_path_nodes t1' path cop t1') as [tt| |] eqn:An; cbn [lift] in Ap; try discriminate.
    assert (tt = t2) by congruence. subst tt. eapply apply_path_nodes_length; exact An. }
  unfold resolution_empty in *.
  rewrite (resolution_of_spec_fuel t2 i _ ltac:(lia) (Fu t2 L2)).
  rewrite (resolution_of_spec_fuel t1' i _ ltac:(lia) (Fu t1' (le_n _))) in R1.
  rewrite (reso_spec_agree t1' t2 (fun _ => (0, 0)) (fun _ => (0, 0)) i _); [exact R1|].
  apply (agree_outside t1' t2 _ _ sndr).
  - intros n Nn Na. split; [|reflexivity]. apply Off. intros k _ Ek. apply Na. rewrite Ek. apply ancestor_lvl. lia.
  - unfold sib. destruct (N.even (sndr / 2 ^ N.of_nat i)) eqn:Ev; [lia|].
    destruct (N.eq_dec (sndr / 2 ^ N.of_nat i) 0) as [Z|NZ]; [rewrite Z in Ev; discriminate|lia].
Qed.

(* ---- the update path keeps the number of leaf slots ---- *)
Lemma apply_path_nodes_length_ub orig B : forall path copath t t',
  Forall (fun p => p < B) path -> N.of_nat (length t) <= B ->
  apply_path_nodes t path copath orig = Ok t' -> N.of_nat (length t') <= B.
Proof.
  induction path as [|p pr IH]; intros copath t t' Fp Lt A; cbn [apply_path_nodes] in A; [injection A as <-; exact Lt|].
  destruct copath as [|c cr]; [injection A as <-; exact Lt|].
  destruct (resolution_empty orig c) as [e| |]; cbn [bind] in A; try discriminate.
  inversion Fp as [|? ? Hp Fr]; subst.
  apply (IH cr _ t' Fr) in A; [exact A|]. destruct e; [exact Lt|].
  assert (L : tlen (set (t ++ repeat None (N.to_nat p + 1 - length t)) p (Some (Par []))) = tlen (t ++ repeat None (N.to_nat p + 1 - length t))) by apply set_length.
  unfold tlen in L. rewrite L, app_length, repeat_length. lia.
Qed.

Lemma path_spec_bound n : forall k j d, k <= d -> j < 2 ^ (d - k) -> N.of_nat n = d - k ->
  Forall (fun p => p < 2 ^ (d + 1) - 1) (map CopathNode_path (path_spec n k j)).
Proof.
  induction n as [|n IH]; intros k j d Hk Hj Hn; cbn [path_spec map]; constructor.
  - cbn [CopathNode_path]. pose proof (node_bound d (k + 1) (j / 2) ltac:(lia) ltac:(apply half_lt; lia)) as B.
    pose proof (pow2_pos (k + 1)). lia.
  - apply IH; [lia|apply half_lt; lia|lia].
Qed.

Theorem update_path_keeps_the_leaf_count t1 sndr id t2 :
  small t1 -> apply_update_path t1 sndr id = TOk t2 ->
  small t2 /\ total_leaf_count t2 = total_leaf_count (set t1 (2 * sndr) (Some (Leaf id))).
Proof.
  intros Sm Ap. set (t1' := set t1 (2 * sndr) (Some (Leaf id))).
  assert (Sm' : small t1') by (unfold small, t1'; rewrite set_length; exact Sm).
  assert (Ls : 2 * sndr < tlen t1).
  { unfold apply_update_path in Ap. destruct (get t1 (2 * sndr)) as [[x|um]|] eqn:G; try discriminate. eapply get_some_lt; exact G. }
  destruct (path_nodes_spec t1' sndr Sm' ltac:(unfold t1'; rewrite set_length; lia)) as (dd & Et & Hd & Hl & Pn & Cn).
  destruct (total_leaf_count_spec t1' Sm') as (d' & Et' & _ & Hn & Hlow). rewrite Et in Et'.
  assert (d' = dd) by (apply N.pow_inj_r in Et'; lia). subst d'.
  unfold apply_update_path in Ap. destruct (get t1 (2 * sndr)) as [[x|um]|]; try discriminate. fold t1' in Ap.
  rewrite Pn, Cn in Ap. cbn [lift tbind] in Ap.
  destruct (apply_path_nodes t1' _ _ t1') as [tt| |] eqn:An; cbn [lift] in Ap; try discriminate.
  assert (tt = t2) by congruence. subst tt.
  pose proof (apply_path_nodes_length _ _ _ _ _ An) as Lo.
  pose proof (N.mul_succ_div_gt (tlen t1') 2 ltac:(lia)) as Dv.
  pose proof (N.mul_div_le (tlen t1') 2 ltac:(lia)) as Dl.
  assert (B1 : tlen t1' <= 2 ^ (dd + 1) - 1) by (rewrite N.pow_add_r, N.pow_1_r; lia).
  assert (Up : tlen t2 <= 2 ^ (dd + 1) - 1).
  { refine (apply_path_nodes_length_ub t1' (2 ^ (dd + 1) - 1) _ _ t1' t2 _ B1 An).
    apply (path_spec_bound (N.to_nat dd) 0 sndr dd); [lia|rewrite N.sub_0_r; exact Hl|lia]. }
  (* the tree of t1 has fewer than 2^25 nodes, so dd <= 24 *)
  assert (D24 : dd <= 24).
  { destruct Hlow as [->|Hlow]; [lia|]. unfold small in Sm'. change (2 ^ 25) with 33554432 in Sm'.
    assert (X : 2 ^ (dd - 1) < 2 ^ 24) by (change (2 ^ 24) with 16777216; lia).
    apply N.pow_lt_mono_r_iff in X; lia. }
  assert (Sm2 : small t2).
  { unfold small. pose proof (pow2_le_mono (dd + 1) 25 ltac:(lia)). lia. }
  split; [exact Sm2|].
  destruct (total_leaf_count_spec t2 Sm2) as (d2 & E2 & _ & Hn2 & Hlow2). rewrite E2, Et. f_equal.
  pose proof (N.mul_succ_div_gt (tlen t2) 2 ltac:(lia)) as Dv2.
  pose proof (N.mul_div_le (tlen t2) 2 ltac:(lia)) as Dl2.
  assert (Lo' : tlen t1' <= tlen t2) by (unfold tlen; lia).
  assert (Dm : tlen t1' / 2 <= tlen t2 / 2) by (apply N.div_le_mono; lia).
  rewrite N.pow_add_r, N.pow_1_r in Up.
  (* 2^(d2-1) < len2/2+1 <= 2^dd  and  2^(dd-1) < len1/2+1 <= len2/2+1 <= 2^d2 *)
  assert (A1 : d2 <= dd).
  { destruct Hlow2 as [->|H2]; [lia|]. assert (X : 2 ^ (d2 - 1) < 2 ^ dd) by lia. apply N.pow_lt_mono_r_iff in X; lia. }
  assert (A2 : dd <= d2).
  { destruct Hlow as [->|H1]; [lia|]. assert (X : 2 ^ (dd - 1) < 2 ^ d2) by lia. apply N.pow_lt_mono_r_iff in X; lia. }
  lia.
Qed.
