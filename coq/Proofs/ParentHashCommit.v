(* The hypotheses of the tie between the parent-hash walk of the code and [decorate] discharged for the tree an
   update path has just been applied to: the filter flags computed BEFORE the path nodes were written are the
   emptiness of the copath resolutions AFTER it (the copath subtrees are not touched), and the unfiltered path
   nodes are parents.  Also: parent-hash validity only depends on the decoration pointwise. *)
From Coq Require Import NArith Arith List Bool Lia.
From MlsV Require Import Res TreeMathGen BitsN TreeMathProofs Tree TreeProofs TreeWF Kem Priv PrivProofs Decap DecapProofs TreeWF5 PrivComplete ParentHash.
Import ListNotations.
Local Open Scope N_scope.

Lemma agree_refl_deco t d : forall k j, agree t t d d k j.
Proof. induction k as [|k IH]; intro j; cbn [agree]; (split; [reflexivity|split; [reflexivity|try exact I; split; apply IH]]). Qed.

Lemma agree_pointwise t d d' : (forall x, d' x = d x) -> forall k j, agree t t d d' k j.
Proof. intros E. induction k as [|k IH]; intro j; cbn [agree]; (split; [reflexivity|split; [intros _; apply E|try exact I; split; apply IH]]). Qed.

Theorem PHValid_pointwise PHF t d d' : (forall x, d' x = d x) -> PHValid PHF t d -> PHValid PHF t d'.
Proof.
  intros E V k j. apply (valid_frame PHF t t d d' k j eq_refl (fun _ => E _)); [apply agree_pointwise; exact E|apply agree_pointwise; exact E|apply V].
Qed.

Lemma reso_spec_agree t t' d d' : forall k j, agree t t' d d' k j -> reso_spec t' k j = reso_spec t k j.
Proof.
  induction k as [|k IH]; intros j A; cbn [agree reso_spec] in *.
  - destruct A as (G & _). rewrite G. reflexivity.
  - destruct A as (G & _ & A1 & A2). rewrite G, (IH _ A1), (IH _ A2). reflexivity.
Qed.

Lemma filtered_of_nth t : forall l fl, filtered_of t l = Ok fl ->
  forall i c b, nth_error l i = Some c -> nth_error fl i = Some b -> resolution_empty t c = Ok b.
Proof.
  induction l as [|x l IH]; intros fl F i c b Hc Hb; [destruct i; discriminate|].
  cbn [filtered_of] in F. destruct (resolution_empty t x) as [e| |] eqn:R; cbn [bind] in F; try discriminate.
  destruct (filtered_of t l) as [rest| |] eqn:Fr; cbn [bind ret] in F; try discriminate.
  unfold ret in F. assert (fl = e :: rest) by (injection F; auto). subst fl.
  destruct i as [|i]; cbn [nth_error] in Hc, Hb; [congruence|]. apply (IH rest eq_refl i c b Hc Hb).
Qed.

Lemma path_spec_copath : forall n k j i, (i < n)%nat ->
  nth_error (map CopathNode_copath (path_spec n k j)) i = Some (node (k + N.of_nat i) (sib (j / 2 ^ N.of_nat i))).
Proof.
  induction n as [|n IH]; intros k j i L; [lia|]. cbn [path_spec map].
  destruct i as [|i]; cbn [nth_error CopathNode_copath].
  - cbn [N.of_nat]. rewrite N.add_0_r, N.pow_0_r, N.div_1_r. reflexivity.
  - rewrite IH by lia. f_equal. f_equal; [lia|]. f_equal.
    rewrite N.div_div by (try apply N.pow_nonzero; lia). f_equal. rewrite Nat2N.inj_succ, N.pow_succ_r by lia. reflexivity.
Qed.

Lemma apply_path_nodes_length orig : forall path copath t t',
  apply_path_nodes t path copath orig = Ok t' -> (length t <= length t')%nat.
Proof.
  induction path as [|p pr IH]; intros copath t t' A; cbn [apply_path_nodes] in A; [injection A as <-; lia|].
  destruct copath as [|c cr]; [injection A as <-; lia|].
  destruct (resolution_empty orig c) as [e| |]; cbn [bind] in A; try discriminate.
  apply IH in A. destruct e; [exact A|].
  assert (L : tlen (set (t ++ repeat None (N.to_nat p + 1 - length t)) p (Some (Par []))) = tlen (t ++ repeat None (N.to_nat p + 1 - length t))) by apply set_length.
  unfold tlen in L. rewrite app_length in L. lia.
Qed.

(* the filter flags computed before the path nodes are written are the emptiness of the copath resolutions after *)
Theorem flags_after_update_path t1 sndr id t2 flt :
  small t1 -> apply_update_path t1 sndr id = TOk t2 ->
  filtered (set t1 (2 * sndr) (Some (Leaf id))) sndr = Ok flt ->
  forall i b, nth_error flt i = Some b ->
  resolution_empty t2 (node (N.of_nat i) (sib (sndr / 2 ^ N.of_nat i))) = Ok b.
Proof.
  intros Sm Ap Fl i b Hb.
  destruct (update_path_effect t1 sndr id t2 Sm Ap) as (dd & flt0 & Et & F0 & Lf & Ls & Off & On & Ofl).
  set (t1' := set t1 (2 * sndr) (Some (Leaf id))) in *.
  assert (flt0 = flt) by congruence. subst flt0.
  assert (Sm' : small t1') by (unfold small, t1'; rewrite set_length; exact Sm).
  destruct (total_leaf_count_spec t1' Sm') as (d' & Et' & Hd & Hn & _). rewrite Et in Et'.
  assert (d' = dd) by (apply N.pow_inj_r in Et'; lia). subst d'.
  assert (Li : (i < N.to_nat dd)%nat) by (rewrite <- Lf; apply nth_error_Some; congruence).
  assert (Hs : sndr < 2 ^ dd) by (unfold t1' in Hn; rewrite set_length in Hn; unfold tlen in Hn, Ls; pose proof (N.div_le_lower_bound (N.of_nat (length t1)) 2 sndr ltac:(lia) ltac:(lia)); lia).
  (* the flag is the emptiness of the resolution in t1' *)
  assert (R1 : resolution_empty t1' (node (N.of_nat i) (sib (sndr / 2 ^ N.of_nat i))) = Ok b).
  { unfold filtered, copath_nodes in Fl. rewrite Et in Fl.
    pose proof (direct_copath_ok dd 0 sndr ltac:(lia) ltac:(lia) ltac:(rewrite N.sub_0_r; exact Hs)) as DC.
    rewrite node_0 in DC. rewrite DC in Fl. cbn [bind ret] in Fl. rewrite N.sub_0_r in Fl.
    apply (filtered_of_nth t1' _ flt Fl i _ b); [|exact Hb].
    rewrite path_spec_copath by exact Li. rewrite N.add_0_l. reflexivity. }
  (* the copath subtree is the same in t2 *)
  assert (Fu : forall t : tree, (length t1' <= length t)%nat -> (sz i + 1 <= 2 * length t + 4)%nat).
  { intros t Lt. pose proof (depth_fuel t1' dd Sm' Et) as Df. pose proof (sz_mono (S i) (N.to_nat dd) ltac:(lia)) as Mo. cbn [sz] in Mo. lia. }
  assert (L2 : (length t1' <= length t2)%nat).
  { unfold apply_update_path in Ap. destruct (get t1 (2 * sndr)) as [[x|um]|]; try discriminate. fold t1' in Ap.
    destruct (path_nodes t1' sndr) as [path| |]; cbn [lift tbind] in Ap; try discriminate.
    destruct (copath_nodes t1' sndr) as [cop| |]; cbn [lift tbind] in Ap; try discriminate.
    destruct (apply_path_nodes t1' path cop t1') as [tt| |] eqn:An; cbn [lift] in Ap; try discriminate.
    assert (tt = t2) by congruence. subst tt. eapply apply_path_nodes_length; exact An. }
  unfold resolution_empty in *.
  rewrite (resolution_of_spec_fuel t2 i _ ltac:(lia) (Fu t2 L2)).
  rewrite (resolution_of_spec_fuel t1' i _ ltac:(lia) (Fu t1' (le_n _))) in R1.
  rewrite (reso_spec_agree t1' t2 (fun _ => (0, 0)) (fun _ => (0, 0)) i _); [exact R1|].
  apply (agree_outside t1' t2 _ _ sndr).
  - intros n Nn Na. split; [|reflexivity]. apply Off. intros k _ Ek. apply Na. rewrite Ek. apply ancestor_lvl. lia.
  - unfold sib. destruct (N.even (sndr / 2 ^ N.of_nat i)) eqn:Ev; [lia|].
    destruct (N.eq_dec (sndr / 2 ^ N.of_nat i) 0) as [Z|NZ]; [rewrite Z in Ev; discriminate|lia].
Qed.
